/-
  C02 / C20 — the four-solver "answered ⇔ the regularisation subset resolves the defect" statement at `LocalNetwork`
  level (round 8; SVD.md round 7 "still open": "a four-solver iff at `Adj` / `LocalNetwork` level").

  `C02_four_answered_iff_resolves` (`Props/C02SvdGap.lean`) is about the solver classes on a unit-weight problem.
  Here the same hypotheses are asked of the network's ORIGINAL `(A, P = m0²·Σ⁻¹, S = min_x_)`:
      first stage   `GapAllP A P τ` (every exact Schur pivot of `AᵀPA`, any order, 0 or `> τ`: envelope, cholesky, gso),
                    `SingGap A P τ` (svd), `GapThresholds τ`, `W_tol ≤ τ`;
      second stage  `SDich A S τ` (every non-zero datum transformation vanishes on `S` or has an `S`-part above `τ`);
  and the conclusion is about `netSolve alg np` — `LocalNetwork` configured with each of the four algorithms:

    C02_net_answers_resolves             per algorithm, FIRST-stage hypothesis of that algorithm only: whatever
                                         `netSolve alg np` answers, `min_x_` resolves the defect.
    C02_net_answered_iff_resolves        per algorithm, + `SDich`: `netSolve alg np` answers ⇔ `Resolves A S`.
    C02_net_four_answered_iff_resolves   all hypotheses together: for EVERY `alg` the iff, hence all four configurations
                                         answer or none does.

  Two "the computation returns" hypotheses remain, as at solver-class level: `hd` (the QR iteration of `Svd.decompose`
  on the homogenised matrix returns) and `henv` (`Homogenization::run` inside the envelope solver accepts the cofactor
  blocks `prepareProjectEquations()` accepted — two pivot tests that no theorem relates, C10-TINY); both are only used
  for the ⇐ direction of their algorithm.  Class `Adj`: not restated (same proof over `adjSolve`, `adj_dot_whitened`).
-/
import Gama.Props.C02SvdGap
import Gama.Lemmas.Ls.NetFourRefusal
import Gama.Lemmas.Ls.InputGap
import Gama.Lemmas.Ls.NetFacadeRealSvd
import Gama.Props.C01.InputGap
namespace Gama.Props.C02
open Gama Gama.Ls Gama.Ls.Net Gama.LS Matrix

set_option linter.unusedSectionVars false
set_option linter.unusedVariables false

section sqrtField
variable {K : Type} [Field K] [LinearOrder K] [IsStrictOrderedRing K] [Gso.SqrtField K]
attribute [local instance] Gama.Ls.sqrtFnOfSqrtField
attribute [local instance 2000] scalarOfField

/-- **whatever `LocalNetwork` answers with `alg`, the list `min_x_` resolves the defect** — under the FIRST-stage
    hypothesis of `alg` on the original `(A, P)` only (`GapAllP` for envelope/cholesky/gso, `SingGap` for svd) -/
theorem C02_net_answers_resolves (np : NetProblem K)
    (hdim : (dimsN np).sum = np.m) (hrows : RowsOK (toProblem np)) (hm0 : np.m0 ≠ 0)
    (Pc : Matrix (Fin (toProblem np).m) (Fin (toProblem np).m) K) (hPc : Sigma np * Pc = 1)
    (hreg : Env.RegListOK (toProblem np)) {τ : K} (alg : Alg)
    (hG : alg ≠ .svd → GapThresholds τ ∧ GapAllP (toProblem np).A ((np.m0 * np.m0) • Pc) τ)
    (hsv : alg = .svd → (Svd.wTol : K) ≤ τ ∧ SingGap (toProblem np).A ((np.m0 * np.m0) • Pc) τ)
    (a : NetAnswer K) (h : netSolve alg np = .ok a) :
    Resolves (toProblem np).A (toProblem np).S := by
  have _ := lawfulSqrt_of_sqrtField (K := K)
  have hsq := Gama.Props.C01.C01_gap2_isSqrt (K := K)
  obtain ⟨hh, hp, -, -⟩ := netSolve_hom alg np a h
  obtain ⟨W, hW, hWinj, hA, -⟩ := Gama.Props.C01.C01_net_prepare hsq np hdim hrows hm0 Pc hPc hh hp
  have eA : (Net.dotProblem np hh).A = W * (toProblem np).A := by
    unfold Net.dotProblem; rw [dotProblem_A, hA]
  have back : Resolves (Net.dotProblem np hh).A (Net.dotProblem np hh).S → Resolves (toProblem np).A (toProblem np).S := by
    intro hr
    have : Resolves (W * (toProblem np).A) (toProblem np).S := by rw [← eA]; exact hr
    exact (resolves_whiten hWinj).1 this
  by_cases halg : alg = .env
  · subst halg
    obtain ⟨hτ, hG⟩ := hG (by decide)
    obtain ⟨s, hs, hx⟩ := (netSparse_answers_iff np hh hp).1 ⟨a, h⟩
    have hP := weight_of_sigma np hdim hm0 Pc hPc
    exact envSolve_answers_resolves hsq (toProblem np) (inputOK np hdim hrows) hreg
      (Env.solveUnambiguous_of_gap hsq _ (inputOK np hdim hrows) _ hP (hG.mono hτ.env)) _ hP s hs hx
  · obtain ⟨s, hs⟩ := (netFull_answers_iff alg halg np hh hp).1 ⟨a, h⟩
    apply back
    cases alg with
    | env => exact absurd rfl halg
    | gso =>
      obtain ⟨hτ, hG⟩ := hG (by decide)
      have hGq : GapAll (Net.dotProblem np hh).A τ := by rw [eA]; exact GapAllP.whiten hW hG
      have hτ2 : τ * τ ≤ τ := by
        calc τ * τ ≤ τ * 1 := mul_le_mul_of_nonneg_left hτ.le_one hτ.nonneg
          _ = τ := mul_one τ
      exact gso_answers_resolves _ (Gso.gapCols_of_gapAll _
        (hGq.mono (le_trans (mul_le_mul hτ.gso hτ.gso Gso.tolerance_nonneg hτ.nonneg) hτ2))) s hs
    | chol =>
      obtain ⟨hτ, hG⟩ := hG (by decide)
      have hGq : GapAll (Net.dotProblem np hh).A τ := by rw [eA]; exact GapAllP.whiten hW hG
      exact chol_answers_resolves _ (unambiguousF_of_gap _ (hGq.mono hτ.chol1)) (Chol.GsSqrtExact.of_lawful _) s hs
    | svd =>
      obtain ⟨hw, hsv⟩ := hsv rfl
      have hsvq : SingGap (Net.dotProblem np hh).A 1 τ := by rw [eA]; exact (SingGap.whiten hW).1 hsv
      have hs' : svdSolve (Net.dotProblem np hh) = .ok s := hs
      have hs2 := hs'
      unfold svdSolve svdSolveWith at hs2
      cases hd : Svd.decompose (Net.dotProblem np hh).m (Net.dotProblem np hh).n (Net.dotProblem np hh).dense with
      | error e => rw [hd] at hs2; cases hs2
      | ok d =>
        have hun := Gama.Props.C01.C01_svd_unambiguous_of_gap (Net.dotProblem np hh) hw hsvq d hd
        have e : svdSolve (Net.dotProblem np hh) = svdSolveCert true Svd.wTol d (Net.dotProblem np hh) := by
          show svdSolveWith true _ = _
          unfold svdSolveWith
          rw [hd]
        rw [e] at hs'
        obtain ⟨-, -, h3, -, -⟩ := Gama.Props.C20.C20_svd_subset_refusal (sq := (Gso.SqrtField.sqrt : K → K))
          sqrtLaw_of_sqrtField true Svd.wTol_nonneg (Net.dotProblem np hh) d np.minx rfl
          (Svd.decompose_svdCert _ sqrtLaw_of_sqrtField.mul_self sqrtLaw_of_sqrtField.nonneg Svd.wTol _ _ _ d hd hun)
          (hreg np.minx rfl).1 (hreg np.minx rfl).2
        exact h3 s hs'

/-- **`LocalNetwork` configured with `alg` answers ⇔ `min_x_` resolves the defect**, under the first-stage hypothesis
    of `alg` and the second-stage dichotomy `SDich` on the original `(A, P, S, τ)`.  "The computation returns" is asked
    only of the algorithm concerned: `hd` (svd: the QR iteration on the homogenised matrix returns), `henv` (envelope:
    `Homogenization::run` accepts the blocks `prepareProjectEquations()` accepted) -/
theorem C02_net_answered_iff_resolves (np : NetProblem K)
    (hdim : (dimsN np).sum = np.m) (hrows : RowsOK (toProblem np)) (hm0 : np.m0 ≠ 0)
    (Pc : Matrix (Fin (toProblem np).m) (Fin (toProblem np).m) K) (hPc : Sigma np * Pc = 1)
    (hreg : Env.RegListOK (toProblem np)) {τ : K} (alg : Alg)
    (hG : alg ≠ .svd → GapThresholds τ ∧ GapAllP (toProblem np).A ((np.m0 * np.m0) • Pc) τ)
    (hsv : alg = .svd → (Svd.wTol : K) ≤ τ ∧ SingGap (toProblem np).A ((np.m0 * np.m0) • Pc) τ)
    (hD : SDich (toProblem np).A (toProblem np).S τ)
    (hh : Hom K) (hp : prepare np = .ok hh)
    (hd : alg = .svd → ∃ d, Svd.decompose np.m np.n (Net.dotProblem np hh).dense = .ok d)
    (henv : alg = .env → ∃ s, envSolve (toProblem np) = .ok s) :
    (∃ a, netSolve alg np = .ok a) ↔ Resolves (toProblem np).A (toProblem np).S := by
  refine ⟨fun ⟨a, h⟩ => C02_net_answers_resolves np hdim hrows hm0 Pc hPc hreg alg hG hsv a h, fun hres => ?_⟩
  have _ := lawfulSqrt_of_sqrtField (K := K)
  have hsq := Gama.Props.C01.C01_gap2_isSqrt (K := K)
  obtain ⟨W, hW, hWinj, hA, -⟩ := Gama.Props.C01.C01_net_prepare hsq np hdim hrows hm0 Pc hPc hh hp
  have eA : (Net.dotProblem np hh).A = W * (toProblem np).A := by
    unfold Net.dotProblem; rw [dotProblem_A, hA]
  have hDq : SDich (Net.dotProblem np hh).A (Net.dotProblem np hh).S τ := by
    have : SDich (W * (toProblem np).A) (toProblem np).S τ := (SDich.whiten hWinj).2 hD
    rw [← eA] at this; exact this
  have hresq : Resolves (Net.dotProblem np hh).A (Net.dotProblem np hh).S := by
    have : Resolves (W * (toProblem np).A) (toProblem np).S := (resolves_whiten hWinj).2 hres
    rw [← eA] at this; exact this
  have hrr : Gso.regInRange (Net.dotProblem np hh).n (Net.dotProblem np hh).reg = true := by
    show Gso.regInRange np.n (.subset np.minx) = true
    simp only [Gso.regInRange, List.all_eq_true, Bool.and_eq_true, decide_eq_true_eq]
    exact (hreg np.minx rfl).2
  by_cases halg : alg = .env
  · subst halg
    obtain ⟨hτ, hG⟩ := hG (by decide)
    obtain ⟨s, hs⟩ := henv rfl
    have hP := weight_of_sigma np hdim hm0 Pc hPc
    have hgap : RankGap (toProblem np).A ((np.m0 * np.m0) • Pc) (toProblem np).S τ := ⟨hG, sMargin_of_dich hD hres⟩
    exact (netSparse_answers_iff np hh hp).2 ⟨s, hs,
      Gama.Props.C01.C02_envsolve_answers_of_gap (toProblem np) (inputOK np hdim hrows) hreg _ hP hτ hgap s hs⟩
  · refine (netFull_answers_iff alg halg np hh hp).2 ?_
    cases alg with
    | env => exact absurd rfl halg
    | svd =>
      obtain ⟨hw, hsv⟩ := hsv rfl
      obtain ⟨d, hd⟩ := hd rfl
      have hsvq : SingGap (Net.dotProblem np hh).A 1 τ := by rw [eA]; exact (SingGap.whiten hW).1 hsv
      have hun := Gama.Props.C01.C01_svd_unambiguous_of_gap (Net.dotProblem np hh) hw hsvq d hd
      exact (C02_refusal_svdsolve (Net.dotProblem np hh) np.minx rfl (hreg np.minx rfl).1 (hreg np.minx rfl).2 d hd hun
        (hDq.mono Svd.wTol_nonneg hw)).2.2 hresq
    | gso =>
      obtain ⟨hτ, hG⟩ := hG (by decide)
      have hGq : GapAll (Net.dotProblem np hh).A τ := by rw [eA]; exact GapAllP.whiten hW hG
      have hO := Env.rcmOrd_ok np.n #[] (by intro cols hc; simp at hc)
      obtain ⟨-, hg, -⟩ := Gama.Props.C01.C02_all_answer_of_gap (Net.dotProblem np hh) hτ hGq
        (sMargin_of_dich hDq hresq) hrr (Env.rcmOrd np.n #[]) hO
        (Env.regOK_subset hO np.minx (hreg np.minx rfl).1 (hreg np.minx rfl).2)
      refine (gso_answer_or_refuse _ hrr).1 ?_
      by_contra hne
      exact hg ((gso_answer_or_refuse _ hrr).2 hne)
    | chol =>
      obtain ⟨hτ, hG⟩ := hG (by decide)
      have hGq : GapAll (Net.dotProblem np hh).A τ := by rw [eA]; exact GapAllP.whiten hW hG
      have hO := Env.rcmOrd_ok np.n #[] (by intro cols hc; simp at hc)
      obtain ⟨hc, -, -⟩ := Gama.Props.C01.C02_all_answer_of_gap (Net.dotProblem np hh) hτ hGq
        (sMargin_of_dich hDq hresq) hrr (Env.rcmOrd np.n #[]) hO
        (Env.regOK_subset hO np.minx (hreg np.minx rfl).1 (hreg np.minx rfl).2)
      cases hs : solverOf Alg.chol (Net.dotProblem np hh) with
      | ok a => exact ⟨a, rfl⟩
      | error e =>
        exfalso
        obtain ⟨-, hn⟩ := hc e hs
        have hn' : Chol.regList np.n (.subset np.minx) = none := hn
        simp only [Chol.regList] at hn'
        split at hn'
        · cases hn'
        · rename_i hall
          apply hall
          simp only [List.all_eq_true, decide_eq_true_eq]
          exact (hreg np.minx rfl).2

/-- **… hence, when the hypotheses of all four hold, all four configurations of `LocalNetwork` answer or none does**
    (`C02_four_answered_iff_resolves` lifted from the solver classes to `LocalNetwork`) -/
theorem C02_net_four_answered_iff_resolves (np : NetProblem K)
    (hdim : (dimsN np).sum = np.m) (hrows : RowsOK (toProblem np)) (hm0 : np.m0 ≠ 0)
    (Pc : Matrix (Fin (toProblem np).m) (Fin (toProblem np).m) K) (hPc : Sigma np * Pc = 1)
    (hreg : Env.RegListOK (toProblem np)) {τ : K} (hτ : GapThresholds τ) (hw : (Svd.wTol : K) ≤ τ)
    (hG : GapAllP (toProblem np).A ((np.m0 * np.m0) • Pc) τ)
    (hsv : SingGap (toProblem np).A ((np.m0 * np.m0) • Pc) τ)
    (hD : SDich (toProblem np).A (toProblem np).S τ)
    (hh : Hom K) (hp : prepare np = .ok hh)
    (d : Svd.Dec K) (hd : Svd.decompose np.m np.n (Net.dotProblem np hh).dense = .ok d)
    (henv : ∃ s, envSolve (toProblem np) = .ok s) :
    (∀ alg, (∃ a, netSolve alg np = .ok a) ↔ Resolves (toProblem np).A (toProblem np).S) ∧
    ∀ alg alg', (∃ a, netSolve alg np = .ok a) ↔ ∃ a', netSolve alg' np = .ok a' := by
  have key : ∀ alg, (∃ a, netSolve alg np = .ok a) ↔ Resolves (toProblem np).A (toProblem np).S := fun alg =>
    C02_net_answered_iff_resolves np hdim hrows hm0 Pc hPc hreg alg (fun _ => ⟨hτ, hG⟩) (fun _ => ⟨hw, hsv⟩) hD hh hp
      (fun _ => ⟨d, hd⟩) (fun _ => henv)
  exact ⟨key, fun alg alg' => (key alg).trans (key alg').symm⟩

end sqrtField

/-! ### non-vacuity: every hypothesis met on an evaluated `NetProblem ℝ`, per algorithm -/

section examples
open Gama.Ls.Ex
attribute [local instance] Gama.Ls.sqrtFnOfSqrtField
attribute [local instance 2000] scalarOfField

/-- envelope, cholesky, gso on `Ex.npR` (correlated cluster with an excluded observation, defect 1, `min_x_ = [1]`,
    `τ = ½`): `GapAllP` and the dichotomy (with margin) are the two halves of the proved `RankGap`; `prepare` evaluated;
    `envSolve` returns (evaluated).  The theorem applies, and BOTH sides of the iff hold: the model answers, `min_x_` resolves -/
example (alg : Alg) (halg : alg ≠ .svd) :
    ((∃ a, netSolve alg npR = .ok a) ↔ Resolves (toProblem npR).A (toProblem npR).S) ∧ (∃ a, netSolve alg npR = .ok a) := by
  have henv : ∃ s, envSolve (toProblem npR) = .ok s := by
    obtain ⟨a, ha, -⟩ := npW2_env [1] (Or.inl rfl)
    obtain ⟨s, hs, -⟩ := (netSparse_answers_iff npR _ (npR_prepare [1])).1 ⟨a, ha⟩
    exact ⟨s, hs⟩
  refine ⟨C02_net_answered_iff_resolves npR (npW_dims 2 [1]) (npW_rows 2 [1]) (by show (2 : ℝ) ≠ 0; norm_num) PcN
    npR_sigma_inv (npW_regListOK 2 [1] (Or.inl rfl)) alg (fun _ => ⟨gapThresholds_half, npR_rankGap.1⟩)
    (fun h => absurd h halg) npR_rankGap.2.dich _ (npR_prepare [1]) (fun h => absurd h halg) (fun _ => henv), ?_⟩
  obtain ⟨a, ha, -⟩ := Props.C01.C01_net_answers_witness alg halg
  exact ⟨a, ha⟩

/-- svd on `Ex.npV` at the model's own tolerance: `SingGap` proved on the ORIGINAL `(A, m0²Σ⁻¹)`
    (`C01_net_singgap_witness`), the dichotomy carried back from the homogenised `Ex.pCVdot` (`C02_sdich_witness`),
    `prepare` evaluated, the iteration returns (`pCVdot_decompose`); both sides of the iff hold -/
example : ((∃ a, netSolve .svd npV = .ok a) ↔ Resolves (toProblem npV).A (toProblem npV).S)
    ∧ (∃ a, netSolve .svd npV = .ok a) := by
  have hD : SDich (toProblem npV).A (toProblem npV).S (Svd.wTol : ℝ) := by
    obtain ⟨W, hW, hWinj, hA, -⟩ := Gama.Props.C01.C01_net_prepare Gama.Props.C01.C01_gap2_isSqrt npV npV_dims npV_rows
      (by show (2 : ℝ) ≠ 0; norm_num) PcV npV_sigma_inv _ npV_prepare
    have eA : (Net.dotProblem npV ⟨[⟨2, 1, #[2, 1, 3]⟩, ⟨1, 0, #[2]⟩], #[#[6, 8], #[3, 4], #[6, 8]],
        #[1 / 2, 1 / 2, 3 / 2]⟩).A = W * (toProblem npV).A := by
      unfold Net.dotProblem; rw [dotProblem_A, hA]
    refine (SDich.whiten hWinj).1 ?_
    rw [← eA]
    exact C02_sdich_witness.1.mono Svd.wTol_nonneg (le_trans Svd.wTol_le (by norm_num))
  refine ⟨C02_net_answered_iff_resolves npV npV_dims npV_rows (by show (2 : ℝ) ≠ 0; norm_num) PcV npV_sigma_inv
    Props.C01.npV_regListOK .svd (fun h => absurd rfl h) (fun _ => ⟨le_rfl, Props.C01.C01_net_singgap_witness⟩) hD _
    npV_prepare (fun _ => ⟨dCV, pCVdot_decompose⟩) (fun h => by cases h), ?_⟩
  obtain ⟨a, ha, -, -⟩ := npV_svd
  exact ⟨a, ha⟩

end examples

end Gama.Props.C02
