/-
  C15 — the SVD clause ("a singular value decomposition that reconstructs A with orthonormal factors")
  and `pinv` WITHOUT the factorisation certificate.

  `Props/C15.lean : pinv_moore_penrose` proves the four Moore–Penrose conditions for the model of
  `pinv.h` (`pinvFrom`: `V · diag(W_inv) · Uᵀ`, `W_inv` by `SVD::set_inv_W`) from a CERTIFICATE for the
  factors (`A = U diag(W) Vᵀ`, `VᵀV = 1`, `UᵀU = 1` on the kept columns, dropped singular values exactly 0),
  and says "`SVD::svd` itself is not modelled".  Since then `SVD::svd()` has a statement-by-statement model
  (`Svd.decompose`, Model/Ls/Svd/Decomp.lean — Householder bidiagonalisation, both accumulations,
  implicit-shift QR sweeps, 30-sweep limit; executed by `drv_ls` next to the C++ in C01's check) and a
  proof that whatever it returns is a factorisation (`Svd.decompose_cert`, Lemmas/Ls/SvdDecomp*.lean).

    C15_svd_reconstructs          for every m, n, A (NO relation between m and n): `decompose m n A = .ok d`
                                  ⇒ `A = U diag(W) Vᵀ`, `VᵀV = 1`, the columns of `U` that belong to non-zero
                                  singular values are orthonormal, `W ≥ 0` — the SVD clause of C15 about the
                                  model of `SVD::svd`
    C15_pinv_moore_penrose_svd    `pinv` computed from the factors `decompose` returned satisfies
                                  `AXA = A`, `XAX = X`, `(AX)ᵀ = AX`, `(XA)ᵀ = XA`; the only hypothesis left of
                                  the certificate is `h0`: every singular value `set_inv_W` DROPS
                                  (`|W_k| ≤ W_tol·max W`) is an exact zero — the returned singular values are
                                  unambiguous w.r.t. the tolerance

  Setting: `K` a linearly ordered field, `sq` a square root on the non-negative elements; there every
  `==` of the code is equality (an element "tested as negligible" is exactly 0).  NOT proved: that
  `decompose` returns (convergence of the QR iteration: `NoConvergence` after 30 sweeps) and IEEE
  rounding — for `double`, `tools/props/c15.py` still evaluates the certificate on the `U, W, V` the C++
  returned (all shapes incl. wide) on every run.
-/
import Gama.Lemmas.PinvSvdDecomp
import Gama.Lemmas.PinvOfDecompose
import Gama.Lemmas.Ls.SvdDecompWitness
namespace Gama.Props.C15
open Gama Gama.MatVec Gama.LS Gama.Ls Matrix

set_option linter.unusedSectionVars false

section
variable {K : Type} [Field K] [LinearOrder K] [IsStrictOrderedRing K]

/-- **the SVD clause of C15, about the model of `SVD::svd`**: whenever the transliterated Golub–Reinsch
    run returns `d = (U, W, V)` on an `m × n` matrix `A` (tall, square or wide), the factors reconstruct
    `A` and are orthonormal: `A = U diag(W) Vᵀ`, `VᵀV = 1`, `(UᵀU)_ij = δ_ij` for every column `i` with
    `W_i ≠ 0`, and the singular values are non-negative -/
theorem C15_svd_reconstructs (sq : K → K) (hsq : ∀ x : K, 0 ≤ x → sq x * sq x = x)
    (hsq0 : ∀ x : K, 0 ≤ x → 0 ≤ sq x) (m n : Nat) (A : DMat K) (d : Svd.Dec K)
    (h : @Svd.decompose K (Gama.LS.fieldScalar sq) m n A = .ok d) :
    toMatrix m n A = toMatrix m n d.U * diagonal (toVec n d.W) * (toMatrix n n d.V)ᵀ
      ∧ (toMatrix n n d.V)ᵀ * toMatrix n n d.V = 1
      ∧ (∀ i j : Fin n, toVec n d.W i ≠ 0 →
          ((toMatrix m n d.U)ᵀ * toMatrix m n d.U) i j = if i = j then 1 else 0)
      ∧ ∀ i : Fin n, 0 ≤ toVec n d.W i :=
  have hp := Svd.decompose_cert sq hsq hsq0 m n A d h
  ⟨hp.fact, hp.vtv, hp.utu, hp.nonneg⟩

/-- **`pinv` from the factors the model of `SVD::svd` returned**: the four Moore–Penrose conditions, with
    the factorisation certificate of `pinv_moore_penrose` replaced by "`decompose` returned and every
    dropped singular value is an exact zero"; `flatM`/`flatV` read the returned arrays as the row-major
    buffers `pinv.h` works on (`rowMajor_flatM`) -/
theorem C15_pinv_moore_penrose_svd (sq : K → K) (hsq : ∀ x : K, 0 ≤ x → sq x * sq x = x)
    (hsq0 : ∀ x : K, 0 ≤ x → 0 ≤ sq x) (M N : Nat) (tol : K) (A : DMat K) (d : Svd.Dec K)
    (hd : @Svd.decompose K (Gama.LS.fieldScalar sq) M N A = .ok d)
    (h0 : ∀ k : Fin N, @pinvWinv K (Gama.MatVec.fieldScalar K sq) N tol (flatV d.W) k.val = 0 → flatV d.W k.val = 0) :
    let 𝔸 : Matrix (Fin M) (Fin N) K := toMatrix M N A
    let 𝕏 : Matrix (Fin N) (Fin M) K :=
      rowMajor N M (@pinvFrom K (Gama.MatVec.fieldScalar K sq) M N tol (flatM N d.U) (flatV d.W) (flatM N d.V))
    𝔸 * 𝕏 * 𝔸 = 𝔸 ∧ 𝕏 * 𝔸 * 𝕏 = 𝕏 ∧ (𝔸 * 𝕏)ᵀ = 𝔸 * 𝕏 ∧ (𝕏 * 𝔸)ᵀ = 𝕏 * 𝔸 :=
  pinv_moore_penrose_decompose sq hsq hsq0 M N tol A d hd h0

/-- **`pinv(A)` end to end** (round 9, `pinv_of_decompose`): the model of the WHOLE function `pinv` of pinv.h —
    `SVD svd(A); svd.decompose();` (`Svd.decompose`, statement by statement) followed by `W_inv` and the triple
    loop (`pinvFrom`) — takes only `A`; whenever it returns `X` (the only way not to: the throws of `SVD::svd`,
    `pinvOf_ok_iff`), `X` satisfies the four Moore–Penrose conditions, given that the singular values the run
    itself computed are unambiguous w.r.t. the tolerance (`pinvOfW` = `SVD_W()` of that run).  No factor is an
    input, no certificate is evaluated per run. -/
theorem C15_pinv_of_decompose (sq : K → K) (hsq : ∀ x : K, 0 ≤ x → sq x * sq x = x)
    (hsq0 : ∀ x : K, 0 ≤ x → 0 ≤ sq x) (M N : Nat) (tol : K) (A : DMat K) (X : Nat → K)
    (hX : pinvOf sq M N tol A = .ok X)
    (h0 : ∀ k : Fin N, @pinvWinv K (Gama.MatVec.fieldScalar K sq) N tol (pinvOfW sq M N A) k.val = 0 →
        pinvOfW sq M N A k.val = 0) :
    let 𝔸 : Matrix (Fin M) (Fin N) K := toMatrix M N A
    let 𝕏 : Matrix (Fin N) (Fin M) K := rowMajor N M X
    (𝔸 * 𝕏 * 𝔸 = 𝔸 ∧ 𝕏 * 𝔸 * 𝕏 = 𝕏 ∧ (𝔸 * 𝕏)ᵀ = 𝔸 * 𝕏 ∧ (𝕏 * 𝔸)ᵀ = 𝕏 * 𝔸)
      ∧ ((∃ X', pinvOf sq M N tol A = .ok X') ↔ ∃ d, @Svd.decompose K (Gama.LS.fieldScalar sq) M N A = .ok d) :=
  ⟨pinvOf_moore_penrose sq hsq hsq0 M N tol A X hX h0, pinvOf_ok_iff sq M N tol A⟩

end

/-! ### non-vacuity (over ℝ, `Real.sqrt`) -/

section examples
open Gama.Ls.Svd.Ex

/-- regular case: on `A32 = [[12,12],[5,12],[0,0]]` the run of `decompose` over ℝ RETURNS `d32`
    (`W = (4, 21)`; evaluated statement by statement in Lemmas/Ls/SvdDecompExample.lean), both singular
    values are kept at `tol = 1/1000`, so `h0` holds; the theorems then give the reconstruction and the
    Moore–Penrose conditions for `pinv A32` -/
example : (∀ x : ℝ, 0 ≤ x → Real.sqrt x * Real.sqrt x = x) ∧ (∀ x : ℝ, 0 ≤ x → 0 ≤ Real.sqrt x)
    ∧ @Svd.decompose ℝ (Gama.LS.fieldScalar Real.sqrt) 3 2 A32 = .ok d32
    ∧ (∀ k : Fin 2, @pinvWinv ℝ (Gama.MatVec.fieldScalar ℝ Real.sqrt) 2 (1 / 1000) (flatV d32.W) k.val = 0 →
        flatV d32.W k.val = 0) := by
  refine ⟨sqrtLaw_real'.1, sqrtLaw_real'.2, decompose_A32, ?_⟩
  intro k hk
  exfalso
  rw [pinvWinv_eq_abs] at hk
  have hv : pinvVmax 2 (flatV d32.W) = 21 := by
    simp [pinvVmax, forUp, flatV, d32]
    norm_num
  rw [hv] at hk
  fin_cases k
  · have h4 : flatV d32.W 0 = (4 : ℝ) := by simp [flatV, d32]
    simp only [h4] at hk
    norm_num at hk
  · have h21 : flatV d32.W 1 = (21 : ℝ) := by simp [flatV, d32]
    simp only [h21] at hk
    norm_num at hk

/-- singular case: `A = [[6,8],[3,4],[6,8]]` (rank 1) — `decompose` returns `Ex.dCV` with `W = (0, 15)`
    (one QR sweep + the cancellation loop); the dropped singular value is exactly 0 and 15 is kept, so `h0`
    holds with a genuinely rank-deficient `A`: `pinv` is a true pseudo-inverse there -/
example : @Svd.decompose ℝ (Gama.LS.fieldScalar Real.sqrt) 3 2 (#[#[6, 8], #[3, 4], #[6, 8]] : DMat ℝ) = .ok Gama.Ls.Ex.dCV
    ∧ (∀ k : Fin 2, @pinvWinv ℝ (Gama.MatVec.fieldScalar ℝ Real.sqrt) 2 (1 / 1000) (flatV Gama.Ls.Ex.dCV.W) k.val = 0 →
        flatV Gama.Ls.Ex.dCV.W k.val = 0) := by
  refine ⟨Gama.Ls.Ex.pCV_decompose, ?_⟩
  intro k hk
  rw [pinvWinv_eq_abs] at hk
  have hv : pinvVmax 2 (flatV Gama.Ls.Ex.dCV.W) = 15 := by
    simp [pinvVmax, forUp, flatV, Gama.Ls.Ex.dCV]
  rw [hv] at hk
  fin_cases k
  · simp [flatV, Gama.Ls.Ex.dCV]
  · exfalso
    have h15 : flatV Gama.Ls.Ex.dCV.W 1 = (15 : ℝ) := by simp [flatV, Gama.Ls.Ex.dCV]
    simp only [h15] at hk
    norm_num at hk

/-- `C15_pinv_of_decompose` is not vacuous: on the rank-1 matrix `[[6,8],[3,4],[6,8]]` the whole `pinv` RETURNS
    (the run of `decompose` above), its `W = (0, 15)`: the dropped value is an exact zero, 15 is kept -/
example : (∃ X, pinvOf Real.sqrt 3 2 (1 / 1000) (#[#[6, 8], #[3, 4], #[6, 8]] : DMat ℝ) = .ok X)
    ∧ (∀ k : Fin 2, @pinvWinv ℝ (Gama.MatVec.fieldScalar ℝ Real.sqrt) 2 (1 / 1000)
          (pinvOfW Real.sqrt 3 2 (#[#[6, 8], #[3, 4], #[6, 8]] : DMat ℝ)) k.val = 0 →
        pinvOfW Real.sqrt 3 2 (#[#[6, 8], #[3, 4], #[6, 8]] : DMat ℝ) k.val = 0) := by
  have hd := Gama.Ls.Ex.pCV_decompose
  refine ⟨(pinvOf_ok_iff Real.sqrt 3 2 (1 / 1000) _).2 ⟨_, hd⟩, ?_⟩
  have hW : pinvOfW Real.sqrt 3 2 (#[#[6, 8], #[3, 4], #[6, 8]] : DMat ℝ) = flatV Gama.Ls.Ex.dCV.W := by
    unfold pinvOfW; rw [hd]
  rw [hW]
  intro k hk
  rw [pinvWinv_eq_abs] at hk
  have hv : pinvVmax 2 (flatV Gama.Ls.Ex.dCV.W) = 15 := by
    simp [pinvVmax, forUp, flatV, Gama.Ls.Ex.dCV]
  rw [hv] at hk
  fin_cases k
  · simp [flatV, Gama.Ls.Ex.dCV]
  · exfalso
    have h15 : flatV Gama.Ls.Ex.dCV.W 1 = (15 : ℝ) := by simp [flatV, Gama.Ls.Ex.dCV]
    simp only [h15] at hk
    norm_num at hk

end examples

end Gama.Props.C15
