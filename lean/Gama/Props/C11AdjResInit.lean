/-
  C11 — the adjustment-results reader `LocalNetworkAdjustmentResults::Parser`
  (lib/gnu_gama/xml/localnetwork_adjustment_results.cpp): the iterators `tmp_i`, `tmp_e` into the storage of
  `adj->cov` are ASSIGNED (and not dangling after `adj->cov.reset(dim, band)`) whenever they are read.
  Property theorems only; the abstract interpretation of the handler bodies, its soundness w.r.t. the run model
  (Model/AdjResRun.lean) and the `decide`d facts about the GENERATED tables (Gen/AdjResAutomaton.lean, regenerated from
  the C++ on every run) live in Gama/Lemmas/AdjResInit.lean.
  All statements are for ALL event sequences.
-/
import Gama.Lemmas.AdjResInit
import Gama.Lemmas.AdjResExamples
set_option maxRecDepth 20000
namespace Gama.Props.C11
open Gama Gama.AdjRes Gama.AdjRes.Ex

/-- for every document, `*tmp_i++ = get_float()` of `flt(false)` is never executed (nor its guard `tmp_i != tmp_e`
    evaluated) with iterators that were never assigned or that dangle after `adj->cov.reset(..)`.
    In the C++ this holds because `flt` is pushed only from `s_flt_end`, which is entered only by `band(false)` right
    after `tmp_i = begin(); tmp_e = end();` or by `flt(false)` itself, and because no start tag is accepted while
    `<flt>` is open.  Proved from an invariant of the run and `decide`d facts about the generated tables
    (`tables_ok`: every handler body passes the abstract interpretation `scan`; `quiet_error`, `isInitState_error`,
    `needsInit_unknown`); no state, tag or handler other than `s_error` / `unknown` is named in the proof. -/
theorem C11_adjres_store_iterators_assigned (evs : List Event) : (run St.init evs).uninitStore = false :=
  run_no_uninit_store evs

/-- the invariant behind it, after EVERY event sequence: a handler whose end branch stores (`needsInit`, today `flt`)
    is open only as the innermost element; while it is open both iterators are assigned and the state accepts no
    start tag (`quiet`); in every state from which such a handler can be pushed (`isInitState`, today `s_flt_end`)
    both iterators are assigned -/
theorem C11_adjres_storing_handler_innermost (evs : List Event) :
    (∀ h ∈ (run St.init evs).stack.tail, needsInit h = false) ∧
    (∀ h r, (run St.init evs).stack = h :: r → needsInit h = true →
      ((run St.init evs).iterI.isSome = true ∧ (run St.init evs).iterE.isSome = true) ∧
      ∀ t, tagfun (run St.init evs).state t = .unknown_) ∧
    (isInitState (run St.init evs).state = true →
      (run St.init evs).iterI.isSome = true ∧ (run St.init evs).iterE.isSome = true) :=
  have h := run_store_invariant evs
  ⟨h.1, fun x r hs hx => ⟨(h.2.1 ⟨x, r, hs, hx⟩).1, quiet_tagfun (h.2.1 ⟨x, r, hs, hx⟩).2⟩, h.2.2⟩

/-- the table condition of the next theorem holds on the generated tables: every test `tmp_i != tmp_e` other than the guard
    of a store stands behind `state != s ||` with `s` a state in which both iterators are known to be assigned
    (kernel `decide`; false before fix 8840ff08 and whenever that guard is removed) -/
theorem C11_adjres_iterErrGuarded : iterErrGuarded = true := iterErrGuarded_true

/-- the test `if (state != s_flt_end || tmp_i != tmp_e) error(..)` of `cov_mat(false)` never reads unassigned / dangling
    iterators, for EVERY event sequence (FULL; it was `_partial` under the hypothesis `iterErrGuarded = true` while
    `<cov-mat></cov-mat>` compared two iterators that were never assigned) -/
theorem C11_adjres_covend_iterators_assigned (evs : List Event) :
    (run St.init evs).uninitCovEnd = false :=
  run_no_uninit_covend_all evs

/-- non-vacuity: the end tag of an empty `<cov-mat>` reaches the test with NO iterator assigned and does not read them
    (the state guard decides); the document is refused with a located error -/
example :
    (run St.init (toCovMat ++ [.stop])).uninitCovEnd = false ∧ (run St.init (toCovMat ++ [.stop])).iterI = none ∧
    (run St.init (toCovMat ++ [.stop])).err.isSome = true := by decide

/-! ### non-vacuity -/

/-- a document whose `<cov-mat>` performs two stores (offsets 0, 1 of a storage of 2) with assigned iterators, and
    whose `</cov-mat>` test finds `tmp_i == tmp_e` -/
example :
    let evs := toCovMat ++ leaf "dim" "2" ++ leaf "band" "0" ++ leaf "flt" "1" ++ leaf "flt" "2" ++ [.stop]
    (run St.init evs).writes = [(1, 2), (0, 2)] ∧ (run St.init evs).uninitStore = false ∧
    (run St.init evs).uninitCovEnd = false ∧ (run St.init evs).err = none ∧ (run St.init evs).state = .cov_mat_end := by
  decide

/-- the invariant is not vacuous: inside `<flt>` a storing handler IS the top of the stack, both iterators are assigned
    (`tmp_i` = offset 1 after one store, `tmp_e` = 2) and the state is `s_flt`; between two `<flt>` the state is one
    of `initStates` -/
example :
    let evs := toCovMat ++ leaf "dim" "2" ++ leaf "band" "0" ++ leaf "flt" "1" ++ [.start "flt" []]
    (run St.init evs).stack.head? = some .flt_ ∧ needsInit .flt_ = true ∧ (run St.init evs).state = .flt_ ∧
    (run St.init evs).iterI = some 1 ∧ (run St.init evs).iterE = some 2 ∧
    isInitState (run St.init (toCovMat ++ leaf "dim" "2" ++ leaf "band" "0" ++ leaf "flt" "1")).state = true := by
  decide

/-- a second `<band>` cannot be opened after the first (so `cov.reset` cannot make the iterators dangle between two
    stores), and a refused `<band>` still leaves assigned iterators behind (the handler goes on after `error()`) -/
example :
    let evs := toCovMat ++ leaf "dim" "2" ++ leaf "band" "5" ++ leaf "flt" "1"
    (run St.init evs).err = some (36, .e_bad_dimension_or_bandwidth_of_covariance) ∧
    (run St.init evs).uninitStore = false ∧ (run St.init evs).iterI = some 0 ∧ (run St.init evs).iterE = some 0 := by
  decide

/-- the sets computed from the generated tables, today -/
example : isInitState .flt_end = true ∧ isInitState .flt_ = false ∧ pushStates = [.flt_] ∧ pushStates.all quiet = true ∧
    Handler.all.filter needsInit = [.flt_] ∧ quiet .flt_end = false := by decide
-- `initStates = [.flt_end]` holds too (`by decide`, about 40 s: 173 × 105 table look-ups), not kept in the build

/-- the abstract interpretation does reject: a store in a context where the iterators are not known to be assigned;
    a `cov.reset` not followed by both assignments before a state of `initStates` is set; a push above a storing
    handler; a storing handler pushed without a `set_state` to a state that accepts no start tag -/
example :
    scan false [.store true, .setState .flt_end] (endA .dim_) = false ∧
    scan false [.covReset, .iterBegin, .setState .flt_end] (endA .band_) = false ∧
    scan false [.covReset, .iterBegin, .iterEnd, .setState .flt_end] (endA .band_) = true ∧
    scan false [.push .ind_, .setState .ind_] topA = false ∧
    scan false [.push .flt_] (startA .flt_) = false ∧
    scan false [.push .flt_, .setState .flt_end] (startA .flt_) = false ∧
    scan false [.push .flt_, .setState .flt_] (startA .flt_) = true := by decide

/-- the strict scan does reject: the end branch of `cov_mat` as the tree generates it passes, the same test without the
    state guard (the code before fix 8840ff08) or behind a state in which the iterators are unknown does not -/
example :
    scan true [.iterErr (some .flt_end) false .e_bad_number_of_elements_in_covariance_mat, .setState .cov_mat_end]
      (endA .cov_mat) = true ∧
    scan true [.iterErr none false .e_bad_number_of_elements_in_covariance_mat, .setState .cov_mat_end]
      (endA .cov_mat) = false ∧
    scan true [.iterErr (some .cov_mat) false .e_bad_number_of_elements_in_covariance_mat, .setState .cov_mat_end]
      (endA .cov_mat) = false := by decide

end Gama.Props.C11
