/-
  C07 — "swapping the ends of a distance": the part of the clause that is decided BEFORE the
  linearisation, by the revision of the observations (`LocalNetwork::revision_observations` /
  `LocalRevision`, C14's model over the requirement table REGENERATED from local_revision.cpp by
  tools/gen/c14_revision.py — run by this check's `translate()` as well).  `C07_swap_distance` /
  `C07_swap_assembled` (Props/C07.lean) say that the swapped observation gives the same row once it is
  in the adjustment; the theorem here says that it is in the adjustment exactly when the original is.
-/
import Gama.Lemmas.ReviseSwap
namespace Gama.Props.C07
open Gama Gama.Rev

variable {K : Type}

/-- Writing any selection of distances / slope distances (value kept) and height / coordinate
    differences (value re-expressed by `v`, e.g. negated) from the other end does not change what the
    revision keeps.  (1) per observation: the same verdict of `LocalRevision` (the regenerated
    requirement table asks the same of both ends, `C14_requirements_symmetric`); (2) the whole revision
    commutes with the re-expression: same point statuses and removal records, the re-expressed
    observations kept / rejected at the same positions, same counts; (3) the active view — what
    `project_equations()` reads — of the re-expressed input is the re-expressed active view: the same
    points and, cluster by cluster, the same observations. -/
theorem C07_swap_preserves_active_view (v : Obs K → K) (hv : ValueOk v) (sel : Nat → Nat → Bool) (n : Net K) :
    (∀ (pts : List (Pt K)) (o : Obs K), swappable o.ty = true →
      (localRev pts (swapEnds v o)).active = (localRev pts o).active) ∧
    revise (mapNet (sw v sel) n) = mapNet (sw v sel) (revise n) ∧
    activeView (revise (mapNet (sw v sel) n)) =
      ((activeView (revise n)).1, (activeView (revise n)).2.map fun c => (c.1, c.2.map (sw v sel))) := by
  refine ⟨fun pts o h => ?_, revise_sw v hv sel n, activeView_sw v hv sel n⟩
  simp only [localRev, reqOk_swapEnds v pts o (twoEnded_of_swappable h)]
  rfl

/-! ### non-vacuity: a point listed with coordinates only -/

/-- A(1), B(2) fixed, P(3) adjusted, Q(4) listed with x, y only (no `fix`, no `adj`: status unused);
    station P: distances to A, B and to Q; one cluster per observation -/
def swNet : Net Rat :=
  let d (f t : Nat) (x : Rat) : Cluster Rat :=
    { stand := true, actObs := 0, cov := fun _ _ => 1,
      obs := [{ ty := .distance, frm := f, «to» := t, fs := 0, active := true, value := x }] }
  { pts := [{ id := 1, sxy := .fixed, sz := .unused, hxy := true, hz := false, x := 0, y := 0, z := 0 },
            { id := 2, sxy := .fixed, sz := .unused, hxy := true, hz := false, x := 3, y := 4, z := 0 },
            { id := 3, sxy := .free, sz := .unused, hxy := true, hz := false, x := 3, y := 0, z := 0 },
            { id := 4, sxy := .unused, sz := .unused, hxy := true, hz := false, x := 9, y := 0, z := 0 }],
    cls := [d 3 1 3, d 3 2 4, d 3 4 6],
    removed := [], undefined := [], revised := [], rejected := [], pocbod := 0, pocmer := 0 }

example : ValueOk (K := Rat) (·.value) := fun _ _ => rfl
/-- the distance to Q is left out whichever way it is written; the other two stay -/
example : (revise swNet).cls.map (fun c => c.obs.map (·.active)) = [[true], [true], [false]] := by decide
example : (revise (mapNet (sw (·.value) (fun _ _ => true)) swNet)).cls.map (fun c => c.obs.map (fun o => (o.frm, o.to, o.active))) =
    [[(1, 3, true)], [(2, 3, true)], [(4, 3, false)]] := by decide
example : (activeView (revise (mapNet (sw (·.value) (fun _ _ => true)) swNet))).2.length = 2 := by decide

end Gama.Props.C07
