/-
  C06 — the fixed point reaches the program (CLAUSES.md gap #4, rows 1b/1c "Missing 2"):

  * `C06_exact_network_solution_zero` — the EXECUTED model of `LocalNetwork::project_equations()`
    (`PE.projectEquations`: revision, prologue, the pass of the regenerated linearisation, `unknowns_`,
    `prepareProjectEquations()`, `singular_coords`, `min_x_`) followed by the EXECUTED model of the solver façade
    (`Net.netSolve`: homogenisation with the clusters' own covariance matrices, envelope / cholesky / gso, the
    back-transformation of the residuals) answers `x = 0`, `r = 0`, `[pvv] = 0` on exact observations — not "any
    `IsLSSolution` for any positive definite `P`": the weights are `m0²·Σ⁻¹` of the clusters, their positive
    definiteness is DERIVED from the acceptance of `prepareProjectEquations()`, the regularisation subset is `min_x_`.
  * `C06_acord_result_is_true_configuration`, `C06_exact_at_acord_result` — what the modelled `Acord2::execute` leaves
    on exact data with nothing missing IS the true configuration, so the statement above is about the program's own
    approximate coordinates.
  * a GEOMETRIC regular instance (two distances to fixed points, assembled 2×2 matrix of determinant 24/25, `S = ∅`)
    of `C06_true_coordinates_fixed_point_assembled_regular` — replaces the 1×1 instance as witness.
  Lemmas: `Lemmas/C06NetZero.lean`, `Lemmas/C06AcordBridge.lean`, `Lemmas/C06GeoExample.lean`.
-/
import Gama.Lemmas.C06NetZero
import Gama.Lemmas.C06NetWitness
import Gama.Lemmas.C06Pipeline
import Gama.Lemmas.C06AcordBridge
import Gama.Lemmas.C06GeoExample
import Gama.Props.C06Assembled
namespace Gama.Props.C06Network
open Gama Gama.Lin Gama.PE Gama.Ls Gama.Ls.Net Gama.LS Gama.C06FP Gama.C06NZ Gama.C06AB Gama.Acord Gama.C06A Gama.C06M
  Gama.Props.C06Assembled Matrix

section facade
attribute [local instance] sqrtFnOfSqrtField
attribute [local instance 2000] scalarOfField
attribute [local instance 3000] fieldTrig

/-- **exact network ⇒ zero solution, through the executed models**: `project_equations()` returns `(np, u)`; every
    observation it kept (`revised_obs_` of the network `u.net` it leaves) is exact at the approximate coordinates —
    which are then the true ones; no kept observation names one point in two roles; `m_0_apr_ ≠ 0`; `Pc` is the inverse
    of the covariance matrix of the active observations; the assembled `(A, m0²·Σ⁻¹, min_x_)` satisfies the ONE
    rank-gap hypothesis of C01 for a `τ` above the solvers' thresholds (the property's "rank numerically
    unambiguous"); the network configured with envelope, cholesky or gso answers `a`.
    Then `solve() = 0`, `residuals() = 0`, `trans_VWV() = 0`.
    (rhs = 0: `C06FP.pass_rhs_zero` on the pass `pe_final`/`assemble_fresh` exhibit; least squares:
    `C01_net_of_gap`; `P` positive definite: `Net.weight_gram` from the accepted `prepareProjectEquations()`;
    min-norm on `S` of a zero right-hand side: `ls_solution_of_zero_rhs_resolves`.)
    Carrier: ℝ as the ordered field of the façade theorems with the real trigonometric functions, which IS the
    carrier of the linearisation lemmas (`C06_facade_carrier_is_linearisation_carrier`) -/
theorem C06_exact_network_solution_zero (net : PE.Net ℝ) (np : NetProblem ℝ) (u : Unknowns ℝ)
    (hpe : projectEquations net = .ok (np, u))
    (hex : ∀ ob ∈ revisedObs u.net, ExactObs (sigmaOf u.net) ob)
    (hm0 : np.m0 ≠ 0)
    (Pc : Matrix (Fin (toProblem np).m) (Fin (toProblem np).m) ℝ) (hPc : Sigma np * Pc = 1)
    (hreg : Env.RegListOK (toProblem np)) {τ : ℝ} (hτ : GapThresholds τ)
    (hgap : RankGap (toProblem np).A ((np.m0 * np.m0) • Pc) (toProblem np).S τ)
    (alg : Alg) (halg : alg ≠ .svd) (a : NetAnswer ℝ) (hs : netSolve alg np = .ok a) :
    toVec (toProblem np).n a.x = 0 ∧ toVec (toProblem np).m a.r = 0 ∧ a.pvv = 0 :=
  exact_network_solution_zero net np u hpe hex hm0 Pc hPc hreg hτ hgap alg halg a hs

/-- the carrier of the theorem above (`scalarOfField` with `Real.sqrt`, sin, cos, `atan2 y x = arg (x + iy)`, arccos,
    π) is the `TrigScalar ℝ` instance at which C05's right-hand-side / Jacobian lemmas and the other C06 fixed-point
    theorems are stated -/
theorem C06_facade_carrier_is_linearisation_carrier : PE.trigOfField realTrig = instTrigScalarReal := trig_eq

/-- **joint, NON-degenerate instance over ℝ** (`Lemmas/C06NetWitness.lean`): the levelling network `netWexact` — `A` fixed,
    `B` constrained, `C` free; a CORRELATED cluster (full 3×3 covariance matrix) with a switched-off, wrong observation in
    it, an all-passive cluster, an uncorrelated cluster; `m_0_apr_ = 2`.  Over ℝ: `project_equations()` returns `npX` (rows
    `[(1,1)]`, `[(1,−1),(2,1)]`, `[(2,1)]`, `rhs_ = (0,0,0)`, `min_x_ = [1]`), the kept observations are exact and `NoAlias`,
    `Σ·Pc = 1`, `RegListOK`, `RankGap` with the default `τ = 2⁻¹³` (every Schur pivot of `AᵀPA = [[1/2,−1/6],[−1/6,13/36]]`
    is ≥ 1/8; full column rank), and `LocalNetwork` configured with envelope, cholesky or gso
    ANSWERS (`prepareProjectEquations()` and `Homogenization::run` evaluated with b-W7b's lemmas; the answer by
    `C02_net_answered_iff_resolves`) — every hypothesis of `C06_exact_network_solution_zero` on ONE object, for all
    three algorithms of the theorem -/
example : projectEquations Ex.netWexact = .ok (Ex.npX, Ex.uX) ∧
    (∀ ob ∈ revisedObs Ex.uX.net, ExactObs (sigmaOf Ex.uX.net) ob) ∧ (∀ ob ∈ revisedObs Ex.uX.net, NoAlias ob) ∧
    (revisedObs Ex.uX.net).length = 3 ∧ Ex.npX.rhs = #[0, 0, 0] ∧ Ex.npX.minx = [1] ∧ Ex.npX.m0 ≠ 0 ∧
    Sigma Ex.npX * Ex.PcX = 1 ∧ Env.RegListOK (toProblem Ex.npX) ∧ GapThresholds (1 / 8192 : ℝ) ∧
    RankGap (toProblem Ex.npX).A ((Ex.npX.m0 * Ex.npX.m0) • Ex.PcX) (toProblem Ex.npX).S (1 / 8192) ∧
    ∀ alg : Alg, alg ≠ .svd → ∃ a, netSolve alg Ex.npX = .ok a :=
  ⟨Ex.pe_eq, by rw [Ex.uX_robs, Ex.uX_sigma]; exact Ex.robs_exact, by rw [Ex.uX_robs]; exact Ex.robs_noalias, rfl, rfl, rfl,
    by show (2 : ℝ) ≠ 0; norm_num, Ex.npX_sigma_inv, Ex.npX_reg, Props.C01.C01_gap_thresholds_default, Ex.npX_rankGap,
    Ex.npX_answers3⟩

/-- … and the theorem APPLIED to it: what envelope / cholesky / gso answer on the levelling network is `x = 0`, `r = 0`,
    `[pvv] = 0` -/
example (alg : Alg) (halg : alg ≠ .svd) :
    ∃ a, netSolve alg Ex.npX = .ok a ∧ toVec (toProblem Ex.npX).n a.x = 0 ∧ toVec (toProblem Ex.npX).m a.r = 0 ∧ a.pvv = 0 := by
  obtain ⟨a, ha⟩ := Ex.npX_answers3 alg halg
  exact ⟨a, ha, C06_exact_network_solution_zero Ex.netWexact Ex.npX Ex.uX Ex.pe_eq
    (by rw [Ex.uX_robs, Ex.uX_sigma]; exact Ex.robs_exact)
    (by show (2 : ℝ) ≠ 0; norm_num) Ex.PcX Ex.npX_sigma_inv Ex.npX_reg Props.C01.C01_gap_thresholds_default Ex.npX_rankGap alg
    halg a ha⟩

/-- **the loop of `refine_adjustment()` at the true coordinates, on the EXECUTED pipeline**: `RA.Env.adjust` is
    `C06PL2.peAdjust alg mk` = `project_equations()` on the network `mk σ obs` followed by `netSolve alg` (index fields,
    `solve()`, `residuals()`, `revised_obs_` read off the answer).  Hypotheses: those of `C06_exact_network_solution_zero` for
    the network of the state with the stored reductions; all `OD` observations `DhExact`; the loop's view is the network's
    (`hview`: same coordinates on the kept observations; `hsub`: the kept observations are observations of `OD` — both
    trivial without from_dh/to_dh, `PE.Ob` carries `value()` only).  Then, from some fuel on, for every
    `refine_approx_coordinates` and bound ≥ 1: left by `break` in the first turn, 0 iterations, nothing changed -/
theorem C06_refine_adjustment_fixed_point_pipeline (alg : Alg) (halg : alg ≠ .svd)
    (mk : Lin.Net ℝ → List (RA.DObs ℝ) → PE.Net ℝ) (σ : Lin.Net ℝ) (xyz : Nat → Bool) (obs : List (RA.DObs ℝ))
    (np : NetProblem ℝ) (u : Unknowns ℝ) (a : NetAnswer ℝ)
    (hpe : projectEquations (mk σ (obs.map (C06RA.stored σ xyz))) = .ok (np, u))
    (hs : netSolve alg np = .ok a)
    (hex : ∀ o ∈ obs, C06RA.DhExact σ xyz o)
    (hview : ∀ ob ∈ revisedObs u.net, (sigmaOf u.net).view ob = σ.view ob)
    (hsub : ∀ ob ∈ revisedObs u.net, ∃ o ∈ obs, ob = (C06RA.stored σ xyz o).nobs)
    (hm0 : np.m0 ≠ 0)
    (Pc : Matrix (Fin (toProblem np).m) (Fin (toProblem np).m) ℝ) (hPc : Sigma np * Pc = 1)
    (hreg : Env.RegListOK (toProblem np)) {τ : ℝ} (hτ : GapThresholds τ)
    (hgap : RankGap (toProblem np).A ((np.m0 * np.m0) • Pc) (toProblem np).S τ) :
    ∃ f0 : Nat, ∀ ra fuel, f0 ≤ fuel → ∀ maxIter i0 : Nat,
      @RA.refineAdjustment ℝ instTrigScalarReal (C06PL2.peEnv alg mk ra fuel) (maxIter + 1)
          ⟨σ, xyz, obs.map (C06RA.stored σ xyz), i0⟩
        = some (⟨σ, xyz, obs.map (C06RA.stored σ xyz), 0⟩, true, false) :=
  C06PL2.refineAdjustment_fixed_point_pipeline alg halg mk σ xyz obs np u a hpe hs hex hview hsub hm0 Pc hPc hreg hτ hgap

/-- non-vacuity on the levelling network (no from_dh/to_dh): every hypothesis holds for envelope, cholesky and
    gso, so `refine_adjustment()` over the executed `project_equations()` ∘ `netSolve` returns with 0 iterations -/
example (alg : Alg) (halg : alg ≠ .svd) : ∃ f0 : Nat, ∀ fuel, f0 ≤ fuel →
    @RA.refineAdjustment ℝ instTrigScalarReal (C06PL2.peEnv alg (fun _ _ => Ex.netWexact) (fun n z _ _ => (n, z)) fuel) 5
        ⟨C06PL2.Ex.σW, C06PL2.Ex.xyzW, C06PL2.Ex.odW.map (C06RA.stored C06PL2.Ex.σW C06PL2.Ex.xyzW), 0⟩
      = some (⟨C06PL2.Ex.σW, C06PL2.Ex.xyzW, C06PL2.Ex.odW.map (C06RA.stored C06PL2.Ex.σW C06PL2.Ex.xyzW), 0⟩, true, false) := by
  obtain ⟨a, ha⟩ := Ex.npX_answers3 alg halg
  obtain ⟨f0, h⟩ := C06_refine_adjustment_fixed_point_pipeline alg halg
    (fun _ _ => Ex.netWexact) C06PL2.Ex.σW C06PL2.Ex.xyzW C06PL2.Ex.odW Ex.npX Ex.uX a Ex.pe_eq ha C06PL2.Ex.odW_exact
    (fun _ _ => rfl) C06PL2.Ex.odW_sub (by show (2 : ℝ) ≠ 0; norm_num) Ex.PcX
    Ex.npX_sigma_inv Ex.npX_reg Props.C01.C01_gap_thresholds_default Ex.npX_rankGap
  exact ⟨f0, fun fuel hf => h _ fuel hf 4 0⟩

end facade

/-- **Acord feeds the fixed point**: `g` satisfies the soundness invariant of the modelled `Acord2::execute`
    (`Sound5`, kept by `Acord.execute` on exact observations: `C06_acord2_modelled_sound`); a point of the network
    without xy / z is in the corresponding missing list (constructor invariant, kept by every strategy); both lists
    are empty.  Then the network the linearisation reads with Acord's coordinates IS the network with the true
    coordinates (same statuses, orientations, `xNorthAngle`) -/
theorem C06_acord_result_is_true_configuration (T : Truth Nat) (xN : ℝ) (IR : AiPriv ℝ → Prop) (g : G5 Nat)
    (keys : List Nat) (stat : Nat → Status × Status) (ori : Nat → ℝ) (xN' : ℝ)
    (hs : Sound5 T xN IR g)
    (uxy : ∀ i ∈ keys, (g.st.pd i).bxy = false → i ∈ g.st.missXY)
    (uz : ∀ i ∈ keys, (g.st.pd i).bz = false → i ∈ g.st.missZ)
    (hxy : g.st.missXY = []) (hz : g.st.missZ = []) :
    netOf keys g.st.pd stat ori xN' = netOf keys (truePD T) stat ori xN' :=
  acord_result_is_truth T xN IR g keys stat ori xN' hs uxy uz hxy hz

/-- … so observations exact at the true configuration are exact at the program's own approximate coordinates: the
    hypothesis `hex` of `C06_exact_network_solution_zero`, of `C06_true_coordinates_fixed_point_assembled` and of
    `C06_refine_adjustment_fixed_point` is met by what Acord returns -/
theorem C06_exact_at_acord_result (T : Truth Nat) (xN : ℝ) (IR : AiPriv ℝ → Prop) (g : G5 Nat)
    (keys : List Nat) (stat : Nat → Status × Status) (ori : Nat → ℝ) (xN' : ℝ)
    (hs : Sound5 T xN IR g)
    (uxy : ∀ i ∈ keys, (g.st.pd i).bxy = false → i ∈ g.st.missXY)
    (uz : ∀ i ∈ keys, (g.st.pd i).bz = false → i ∈ g.st.missZ)
    (hxy : g.st.missXY = []) (hz : g.st.missZ = []) (obs : List (NObs ℝ))
    (h : ∀ ob ∈ obs, ExactObs (netOf keys (truePD T) stat ori xN') ob) :
    ∀ ob ∈ obs, ExactObs (netOf keys g.st.pd stat ori xN') ob :=
  fun ob hob => exact_at_acord_result T xN IR g keys stat ori xN' hs uxy uz hxy hz ob (h ob hob)

/-! ### non-vacuity -/

/-- the GEOMETRIC regular instance: P = (3,4) free, two exact distances of 5 m to the fixed A = (0,0), B = (6,0).
    The pass succeeds and assembles `[[3/5, 4/5], [−3/5, 4/5]]` (`geoRes`), whose kernel is trivial; unit weights, the
    EMPTY regularisation subset and a least-squares solution exist: every hypothesis of
    `C06_true_coordinates_fixed_point_assembled_regular` holds together on a 2×2 matrix with geometric rows -/
example : (∀ ob ∈ geoObs, ExactObs geoNet ob) ∧ passFrom geoNet 0 geoObs IdxState.init = .ok geoRes ∧
    geoRes.idx.maxn = 2 ∧ geoRes.rows = [[(2, 4 / 5), (1, 3 / 5)], [(2, 4 / 5), (1, -3 / 5)]] ∧
    (∀ g, passMatrix geoRes geoObs.length *ᵥ g = 0 → g = 0) ∧
    ∃ (P : Matrix (Fin geoObs.length) (Fin geoObs.length) ℝ) (x : Fin geoRes.idx.maxn → ℝ)
      (v : Fin geoObs.length → ℝ) (rtr : ℝ),
      (∀ d, d ≠ 0 → 0 < d ⬝ᵥ P *ᵥ d) ∧
      IsLSSolution (passMatrix geoRes geoObs.length) (fun i : Fin geoObs.length => geoRes.rhs.getD i.val 0) P ∅ x v rtr := by
  refine ⟨geoObs_exact, geoObs_pass, rfl, rfl, geo_ker, 1, 0, 0, 0, one_posDef, ?_⟩
  rw [pass_rhs_vec_zero geoNet 0 geoObs _ geoRes geoObs_exact geoObs_pass]
  exact zero_isLSSolution _ _ _

/-- … and the conclusion of the theorem on it: the stopping test on these two distances answers "stop" -/
example : ∃ f0 : Nat, ∀ fuel', f0 ≤ fuel' →
    TL.testLinearization geoNet fuel' geoRes.idx (List.ofFn (0 : Fin geoRes.idx.maxn → ℝ))
      (List.ofFn (0 : Fin geoObs.length → ℝ)) geoObs = some false := by
  have h := C06_true_coordinates_fixed_point_assembled_regular geoNet 0 geoObs IdxState.init geoRes geoObs_exact
    geoObs_pass 1 ∅ one_posDef geo_ker 0 0 0
    (by rw [pass_rhs_vec_zero geoNet 0 geoObs _ geoRes geoObs_exact geoObs_pass]; exact zero_isLSSolution _ _ _) [] ⟨fun _ => ⟨0, 0, 0⟩, fun _ => 0⟩
  exact h.2.2.2.2.2.1

/-- the hypotheses of `C06_acord_result_is_true_configuration` hold together on a finished run (`bG`: every point
    published with the true coordinates of `exT` — heights `3 i` —, nothing missing) -/
example : Sound5 C06S.exT 0 (fun _ => True) bG ∧ bG.st.missXY = [] ∧ bG.st.missZ = [] ∧
    (∀ i ∈ [0, 1, 2], (bG.st.pd i).bxy = false → i ∈ bG.st.missXY) ∧
    (∀ i ∈ [0, 1, 2], (bG.st.pd i).bz = false → i ∈ bG.st.missZ) :=
  ⟨bSound, rfl, rfl, fun i _ h => Bool.noConfusion ((show (bG.st.pd i).bxy = true from rfl).symm.trans h),
    fun i _ h => Bool.noConfusion ((show (bG.st.pd i).bz = true from rfl).symm.trans h)⟩

end Gama.Props.C06Network
