/-
  C06 — the fixed point reaches the program (CLAUSES.md gap #4, rows 1b/1c "Missing 2"):

  * `C06_exact_network_solution_zero` — the EXECUTED model of `LocalNetwork::project_equations()`
    (`PE.projectEquations`: revision, prologue, the pass of the regenerated linearisation, `unknowns_`,
    `prepareProjectEquations()`, `singular_coords`, `min_x_`) followed by the EXECUTED model of the solver façade
    (`Net.netSolve`: homogenisation with the clusters' own covariance matrices, envelope / cholesky / gso, the
    back-transformation of the residuals) answers `x = 0`, `r = 0`, `[pvv] = 0` on exact observations — not "any
    `IsLSSolution` for any positive definite `P`": the weights are `m0²·Σ⁻¹` of the clusters, their positive
    definiteness is DERIVED from the acceptance of `prepareProjectEquations()`, the regularisation subset is `min_x_`.
  * `C06_acord_result_is_true_configuration`, `C06_exact_at_acord_result` — what the modelled `Acord2::execute` leaves
    on exact data with nothing missing IS the true configuration, so the statement above is about the program's own
    approximate coordinates.
  * a GEOMETRIC regular instance (two distances to fixed points, assembled 2×2 matrix of determinant 24/25, `S = ∅`)
    of `C06_true_coordinates_fixed_point_assembled_regular` — replaces the 1×1 instance as witness.
  Lemmas: `Lemmas/C06NetZero.lean`, `Lemmas/C06AcordBridge.lean`, `Lemmas/C06GeoExample.lean`.
-/
import Gama.Lemmas.C06NetZero
import Gama.Lemmas.C06AcordBridge
import Gama.Lemmas.C06GeoExample
import Gama.Props.C06Assembled
namespace Gama.Props.C06Network
open Gama Gama.Lin Gama.PE Gama.Ls Gama.Ls.Net Gama.LS Gama.C06FP Gama.C06NZ Gama.C06AB Gama.Acord Gama.C06A Gama.C06M
  Gama.Props.C06Assembled Matrix

section facade
attribute [local instance] sqrtFnOfSqrtField
attribute [local instance 2000] scalarOfField
attribute [local instance 3000] fieldTrig

/-- **exact network ⇒ zero solution, through the executed models**: `project_equations()` returns `(np, u)`; every
    observation it kept (`revised_obs_` of the network `u.net` it leaves) is exact at the approximate coordinates —
    which are then the true ones; no kept observation names one point in two roles; `m_0_apr_ ≠ 0`; `Pc` is the inverse
    of the covariance matrix of the active observations; the assembled `(A, m0²·Σ⁻¹, min_x_)` satisfies the ONE
    rank-gap hypothesis of C01 for a `τ` above the solvers' thresholds (the property's "rank numerically
    unambiguous"); the network configured with envelope, cholesky or gso answers `a`.
    Then `solve() = 0`, `residuals() = 0`, `trans_VWV() = 0`.
    (rhs = 0: `C06FP.pass_rhs_zero` on the pass `pe_final`/`assemble_fresh` exhibit; least squares:
    `C01_net_of_gap`; `P` positive definite: `Net.weight_gram` from the accepted `prepareProjectEquations()`;
    min-norm on `S` of a zero right-hand side: `ls_solution_of_zero_rhs_resolves`.)
    Carrier: ℝ as the ordered field of the façade theorems with the real trigonometric functions, which IS the
    carrier of the linearisation lemmas (`C06_facade_carrier_is_linearisation_carrier`) -/
theorem C06_exact_network_solution_zero (net : PE.Net ℝ) (np : NetProblem ℝ) (u : Unknowns ℝ)
    (hpe : projectEquations net = .ok (np, u))
    (hex : ∀ ob ∈ revisedObs u.net, ExactObs (sigmaOf u.net) ob)
    (hna : ∀ ob ∈ revisedObs u.net, NoAlias ob) (hm0 : np.m0 ≠ 0)
    (Pc : Matrix (Fin (toProblem np).m) (Fin (toProblem np).m) ℝ) (hPc : Sigma np * Pc = 1)
    (hreg : Env.RegListOK (toProblem np)) {τ : ℝ} (hτ : GapThresholds τ)
    (hgap : RankGap (toProblem np).A ((np.m0 * np.m0) • Pc) (toProblem np).S τ)
    (alg : Alg) (halg : alg ≠ .svd) (a : NetAnswer ℝ) (hs : netSolve alg np = .ok a) :
    toVec (toProblem np).n a.x = 0 ∧ toVec (toProblem np).m a.r = 0 ∧ a.pvv = 0 :=
  exact_network_solution_zero net np u hpe hex hna hm0 Pc hPc hreg hτ hgap alg halg a hs

/-- the carrier of the theorem above (`scalarOfField` with `Real.sqrt`, sin, cos, `atan2 y x = arg (x + iy)`, arccos,
    π) is the `TrigScalar ℝ` instance at which C05's right-hand-side / Jacobian lemmas and the other C06 fixed-point
    theorems are stated -/
theorem C06_facade_carrier_is_linearisation_carrier : PE.trigOfField realTrig = instTrigScalarReal := trig_eq

/-- joint satisfiability of the hypotheses of `C06_exact_network_solution_zero` — DEGENERATE instance (the network
    without points and observations; both models evaluate by `rfl` over ℝ because no real comparison is reached):
    `project_equations()` returns the 0×0 problem and all three algorithms answer.  A NON-degenerate joint instance
    over ℝ needs evaluation lemmas of `PE.projectEquations` / `Net.netSolve` over ℝ that do not exist yet (the evaluated
    PE ∘ netSolve witness `PE.Ex.netW` is over ℚ, where `ExactObs` is not stated); the geometric content of the
    hypotheses is witnessed separately below (`geoNet`: exact observations, zero right-hand side, trivial kernel) -/
example : ∃ (net : PE.Net ℝ) (np : NetProblem ℝ) (u : Unknowns ℝ) (Pc : Matrix (Fin (toProblem np).m) (Fin (toProblem np).m) ℝ),
    projectEquations net = .ok (np, u) ∧ (∀ ob ∈ revisedObs u.net, ExactObs (sigmaOf u.net) ob) ∧
    (∀ ob ∈ revisedObs u.net, NoAlias ob) ∧ np.m0 ≠ 0 ∧ Sigma np * Pc = 1 ∧ Env.RegListOK (toProblem np) ∧
    GapThresholds (1 / 8192 : ℝ) ∧ RankGap (toProblem np).A ((np.m0 * np.m0) • Pc) (toProblem np).S (1 / 8192) ∧
    ∀ alg : Alg, alg ≠ .svd → ∃ a, netSolve alg np = .ok a := by
  let net0 : PE.Net ℝ := { points := [], clusters := [], m0 := 1, xNorth := 0, fuel := 0, idx := IdxState.init }
  let np0 : NetProblem ℝ := { m := 0, n := 0, rows := #[], rhs := #[], clusters := [], m0 := 1, minx := [] }
  refine ⟨net0, np0, ⟨0, [], net0, []⟩, 0, rfl, fun ob hob => (List.not_mem_nil hob).elim, fun ob hob => (List.not_mem_nil hob).elim, one_ne_zero, ?_, ?_,
    Props.C01.C01_gap_thresholds_default, ⟨?_, ?_⟩, ?_⟩
  · ext i j; exact (Nat.not_lt_zero _ i.isLt).elim
  · intro l hl
    have : l = [] := by
      have h : Reg.subset [] = Reg.subset l := hl
      injection h with h'; exact h'.symm
    subst this
    exact ⟨List.nodup_nil, fun i hi => (List.not_mem_nil hi).elim⟩
  · intro k; exact (Nat.not_lt_zero _ k.isLt).elim
  · intro g _ hne; exact (hne (funext fun i => (Nat.not_lt_zero _ i.isLt).elim)).elim
  · intro alg halg
    cases alg with
    | svd => exact absurd rfl halg
    | env => exact ⟨_, rfl⟩
    | chol => exact ⟨_, rfl⟩
    | gso => exact ⟨_, rfl⟩

end facade

/-- **Acord feeds the fixed point**: `g` satisfies the soundness invariant of the modelled `Acord2::execute`
    (`Sound5`, kept by `Acord.execute` on exact observations: `C06_acord2_modelled_sound`); a point of the network
    without xy / z is in the corresponding missing list (constructor invariant, kept by every strategy); both lists
    are empty.  Then the network the linearisation reads with Acord's coordinates IS the network with the true
    coordinates (same statuses, orientations, `xNorthAngle`) -/
theorem C06_acord_result_is_true_configuration (T : Truth Nat) (xN : ℝ) (IR : AiPriv ℝ → Prop) (g : G5 Nat)
    (keys : List Nat) (stat : Nat → Status × Status) (ori : Nat → ℝ) (xN' : ℝ)
    (hs : Sound5 T xN IR g)
    (uxy : ∀ i ∈ keys, (g.st.pd i).bxy = false → i ∈ g.st.missXY)
    (uz : ∀ i ∈ keys, (g.st.pd i).bz = false → i ∈ g.st.missZ)
    (hxy : g.st.missXY = []) (hz : g.st.missZ = []) :
    netOf keys g.st.pd stat ori xN' = netOf keys (truePD T) stat ori xN' :=
  acord_result_is_truth T xN IR g keys stat ori xN' hs uxy uz hxy hz

/-- … so observations exact at the true configuration are exact at the program's own approximate coordinates: the
    hypothesis `hex` of `C06_exact_network_solution_zero`, of `C06_true_coordinates_fixed_point_assembled` and of
    `C06_refine_adjustment_fixed_point` is met by what Acord returns -/
theorem C06_exact_at_acord_result (T : Truth Nat) (xN : ℝ) (IR : AiPriv ℝ → Prop) (g : G5 Nat)
    (keys : List Nat) (stat : Nat → Status × Status) (ori : Nat → ℝ) (xN' : ℝ)
    (hs : Sound5 T xN IR g)
    (uxy : ∀ i ∈ keys, (g.st.pd i).bxy = false → i ∈ g.st.missXY)
    (uz : ∀ i ∈ keys, (g.st.pd i).bz = false → i ∈ g.st.missZ)
    (hxy : g.st.missXY = []) (hz : g.st.missZ = []) (obs : List (NObs ℝ))
    (h : ∀ ob ∈ obs, ExactObs (netOf keys (truePD T) stat ori xN') ob) :
    ∀ ob ∈ obs, ExactObs (netOf keys g.st.pd stat ori xN') ob :=
  fun ob hob => exact_at_acord_result T xN IR g keys stat ori xN' hs uxy uz hxy hz ob (h ob hob)

/-! ### non-vacuity -/

/-- the GEOMETRIC regular instance: P = (3,4) free, two exact distances of 5 m to the fixed A = (0,0), B = (6,0).
    The pass succeeds and assembles `[[3/5, 4/5], [−3/5, 4/5]]` (`geoRes`), whose kernel is trivial; unit weights, the
    EMPTY regularisation subset and a least-squares solution exist: every hypothesis of
    `C06_true_coordinates_fixed_point_assembled_regular` holds together on a 2×2 matrix with geometric rows -/
example : (∀ ob ∈ geoObs, ExactObs geoNet ob) ∧ passFrom geoNet 0 geoObs IdxState.init = .ok geoRes ∧
    geoRes.idx.maxn = 2 ∧ geoRes.rows = [[(2, 4 / 5), (1, 3 / 5)], [(2, 4 / 5), (1, -3 / 5)]] ∧
    (∀ g, passMatrix geoRes geoObs.length *ᵥ g = 0 → g = 0) ∧
    ∃ (P : Matrix (Fin geoObs.length) (Fin geoObs.length) ℝ) (x : Fin geoRes.idx.maxn → ℝ)
      (v : Fin geoObs.length → ℝ) (rtr : ℝ),
      (∀ d, d ≠ 0 → 0 < d ⬝ᵥ P *ᵥ d) ∧
      IsLSSolution (passMatrix geoRes geoObs.length) (fun i : Fin geoObs.length => geoRes.rhs.getD i.val 0) P ∅ x v rtr := by
  refine ⟨geoObs_exact, geoObs_pass, rfl, rfl, geo_ker, 1, 0, 0, 0, one_posDef, ?_⟩
  rw [pass_rhs_vec_zero geoNet 0 geoObs _ geoRes geoObs_exact geoObs_pass]
  exact zero_isLSSolution _ _ _

/-- … and the conclusion of the theorem on it: the stopping test on these two distances answers "stop" -/
example : ∃ f0 : Nat, ∀ fuel', f0 ≤ fuel' →
    TL.testLinearization geoNet fuel' geoRes.idx (List.ofFn (0 : Fin geoRes.idx.maxn → ℝ))
      (List.ofFn (0 : Fin geoObs.length → ℝ)) geoObs = some false := by
  have h := C06_true_coordinates_fixed_point_assembled_regular geoNet 0 geoObs IdxState.init geoRes geoObs_exact
    geoObs_pass 1 ∅ one_posDef geo_ker 0 0 0
    (by rw [pass_rhs_vec_zero geoNet 0 geoObs _ geoRes geoObs_exact geoObs_pass]; exact zero_isLSSolution _ _ _) [] ⟨fun _ => ⟨0, 0, 0⟩, fun _ => 0⟩
  exact h.2.2.2.2.2.1

/-- the hypotheses of `C06_acord_result_is_true_configuration` hold together on a finished run (`bG`: every point
    published with the true coordinates of `exT` — heights `3 i` —, nothing missing) -/
example : Sound5 C06S.exT 0 (fun _ => True) bG ∧ bG.st.missXY = [] ∧ bG.st.missZ = [] ∧
    (∀ i ∈ [0, 1, 2], (bG.st.pd i).bxy = false → i ∈ bG.st.missXY) ∧
    (∀ i ∈ [0, 1, 2], (bG.st.pd i).bz = false → i ∈ bG.st.missZ) :=
  ⟨bSound, rfl, rfl, fun i _ h => Bool.noConfusion ((show (bG.st.pd i).bxy = true from rfl).symm.trans h),
    fun i _ h => Bool.noConfusion ((show (bG.st.pd i).bz = true from rfl).symm.trans h)⟩

end Gama.Props.C06Network
