/-
  C11 — the language of the GKF parser: accepted event sequences = documents of the liberal grammar
  (Model/GkfLiberal.lean: the documented grammar + the explicitly listed liberal spots L1–L9).
  Property theorems only; the proofs are in Gama/Lemmas/GkfLanguage.lean and go through table facts
  (`cluster_facts`, `po_facts`, `net_facts`, `root_facts`, `stop_facts`, `doc_attr_*`) that are `decide`d on the
  automaton REGENERATED from gkfparser.cpp on every run: they fail exactly when the accepted language changes.
-/
import Gama.Lemmas.GkfLanguage
namespace Gama.Props.C11
open Gama Gama.Gkf

/-- the converse of `C11_accepts_grammar`: every complete, well-nested event sequence that the parser accepts
    (run ends in `state_stop`) is the event sequence of a document of the liberal grammar — for ALL event lists
    (recursive descent over the five nesting levels, strong induction on the length at each level). -/
theorem C11_accepted_is_grammar (evs : List Event) (hw : depthAfter evs 0 = some 0)
    (h : (run St.init evs).state = .stop_) : ∃ d : LDoc, d.ok = true ∧ d.events = evs :=
  accepted_is_liberal evs hw h

/-- every document of the liberal grammar is accepted: `state_stop`, no error recorded, well nested -/
theorem C11_liberal_is_accepted (d : LDoc) (hd : d.ok = true) :
    (run St.init d.events).state = .stop_ ∧ (run St.init d.events).err = none ∧
      depthAfter d.events 0 = some 0 := liberal_is_accepted d hd

/-- well-nestedness is not an extra assumption: a sequence ending in `state_stop` is well nested -/
theorem C11_accepted_wellnested (evs : List Event) (h : (run St.init evs).state = .stop_) :
    depthAfter evs 0 = some 0 := accepted_wellnested evs h

/-- automaton language = liberal grammar language (complete well-nested sequences) -/
theorem C11_language_eq (evs : List Event) :
    (depthAfter evs 0 = some 0 ∧ (run St.init evs).state = .stop_) ↔
      ∃ d : LDoc, d.ok = true ∧ d.events = evs := by
  constructor
  · intro ⟨hw, h⟩; exact accepted_is_liberal evs hw h
  · intro ⟨d, hd, he⟩
    have := liberal_is_accepted d hd
    rw [he] at this
    exact ⟨this.2.2, this.1⟩

/-- the documented grammar (gama-local.xsd, Model/GkfGrammar.lean) is contained in the liberal one:
    what separates the accepted language from the documented one is exactly the list L1–L9 -/
theorem C11_documented_subset_liberal (d : Doc) (hv : d.valid = true) :
    ∃ l : LDoc, l.ok = true ∧ l.events = d.events := doc_is_liberal d hv

/-- L7: "`<cov-mat>` is required in `<coordinates>` and `<vectors>`, optional in `<obs>` and
    `<height-differences>`" (XSD) is not a fact of the automaton but a check of the `finish_*` run by the cluster's
    end tag (generated `finishSpec`), i.e. it is inside that event's `dataOk` bit -/
theorem C11_cov_required_by_finish :
    (finishSpec .coords_).requiresCov = true ∧ (finishSpec .vectors_).requiresCov = true ∧
    (finishSpec .obs_).requiresCov = false ∧ (finishSpec .hdiffs_).requiresCov = false := by decide

/-! ### non-vacuity -/

/-- an accepted sequence that is NOT a document of the documented grammar, with its `LDoc`.  Liberal spots
    used: blank text between elements (L1), `version` on the root and `to`/`rs` on `<angle>` (L6), attributes on
    `<description>` (L5), an empty `<coordinates>` without `<cov-mat>` whose second attribute is never looked at
    (L6, L7), blank text inside `<angle>` and after `</cov-mat>` (L1, L7), a second `<network>` (L3). -/
example :
    let a (n : String) : Attr := ⟨n, true⟩
    let evs : List Event :=
      [.start .gama_xml [a "version"] true, .text ['\n'],
       .start .network [] true, .text [' '],
       .start .description [a "lang"] false, .text "x".toList, .stop false,
       .start .points_observations [] true,
       .start .coordinates [a "extern", a "bogus"] true, .stop true,
       .start .obs [] true,
       .start .angle [a "to", a "rs"] true, .text [' '], .stop false,
       .start .cov_mat [] true, .stop true, .text ['\n'], .stop true,
       .stop true, .stop true,
       .start .network [] true, .stop true,
       .stop true, .text ['\n']]
    let d : LDoc := ⟨[], [a "version"],
      [.ws ['\n'],
       .network [] [.ws [' '], .description [a "lang"] false ["x".toList] false,
         .pointsObs [] [
           .cluster ⟨.coords, [a "extern", a "bogus"], [], none⟩,
           .cluster ⟨.obs, [], [.leaf ⟨.angle, [a "to", a "rs"], [[' ']], false⟩],
                     some ⟨[], [], true, [['\n']]⟩⟩] true] true,
       .network [] [] true], true, [['\n']]⟩
    d.ok = true ∧ d.events = evs ∧
    depthAfter evs 0 = some 0 ∧ (run St.init evs).state = .stop_ ∧
    ∀ doc : Doc, doc.events ≠ evs := by
  intro a evs d
  refine ⟨by decide, rfl, by decide, by decide, ?_⟩
  intro doc h
  simp [Doc.events, evs] at h

/-- the smallest accepted document, `<gama-local/>` (no `<network>` at all, L3): accepted, not a `Doc` -/
example :
    let evs : List Event := [.start .gama_xml [] true, .stop true]
    let d : LDoc := ⟨[], [], [], true, []⟩
    d.ok = true ∧ d.events = evs ∧ depthAfter evs 0 = some 0 ∧ (run St.init evs).state = .stop_ ∧
    ∀ doc : Doc, doc.events ≠ evs := by
  intro evs d
  refine ⟨by decide, rfl, by decide, by decide, ?_⟩
  intro doc h
  simp [Doc.events, evs] at h

/-- an accepted sequence that IS a document of the documented grammar: a valid `Doc`, its image in `LDoc`
    (hypothesis of `C11_documented_subset_liberal` satisfiable; the embedding keeps the events) -/
example :
    let a (n : String) : Attr := ⟨n, true⟩
    let cov : CovEl := ⟨[a "dim", a "band"], [" 1 ".toList, "0 1".toList]⟩
    let d : Doc := ⟨[a "xmlns"], [a "axes-xy"], [
      .description ["a net".toList], .parameters [a "sigma-apr", a "language"],
      .pointsObs [a "distance-stdev"] [
        .point ⟨.point_, [a "id", a "x", a "y", a "fix"]⟩,
        .cluster ⟨.obs, [a "from"], [⟨.direction, [a "to", a "val"]⟩, ⟨.angle, [a "bs", a "fs", a "val"]⟩], some cov⟩,
        .cluster ⟨.hdiffs, [], [⟨.dh, [a "from", a "to", a "val", a "dist"]⟩], none⟩,
        .cluster ⟨.coords, [a "extern"], [⟨.point_, [a "id", a "z"]⟩], some cov⟩,
        .cluster ⟨.vectors, [], [⟨.vec, [a "from", a "to", a "dx", a "dy", a "dz"]⟩], some cov⟩]]⟩
    d.valid = true ∧ d.toL.ok = true ∧ d.toL.events = d.events ∧
    depthAfter d.events 0 = some 0 ∧ (run St.init d.events).state = .stop_ ∧ 30 ≤ d.events.length := by
  intro a cov d
  exact ⟨by decide, by decide, Doc.toL_events d, by decide, by decide, by decide⟩

/-- the grammar is exact on the refusing side too: a sequence outside it (a `<point>` without x, y, z inside
    `<coordinates>`, L9) is refused, and so is text in a place where only blanks are tolerated (L1) -/
example :
    let a (n : String) : Attr := ⟨n, true⟩
    let pre : List Event := [.start .gama_xml [] true, .start .network [] true, .start .points_observations [] true]
    let post : List Event := [.stop true, .stop true, .stop true]
    (run St.init (pre ++ [.start .coordinates [] true, .start .point_ [a "id"] true, .stop true, .stop true]
        ++ post)).state = .error_ ∧
    (run St.init (pre ++ [.start .point_ [a "id"] true, .stop true] ++ post)).state = .stop_ ∧
    (run St.init (pre ++ [.text "x".toList] ++ post)).state = .error_ := by decide

end Gama.Props.C11
