/-
  C10 — the two acceptance (positive-definiteness) tests of a cluster's cofactor block, COMPARED
  (CLAUSES.md C10 row 7 / "Missing 3": "the two acceptance tests never compared"; known finding C10-TINY).

    dense  `CovMat::cholDec`  (parser `finish_*`; `Adj::choldec` in `LocalNetwork::prepareProjectEquations` on
            `activeCov()/m0²`)         rejects a pivot `≤ N·ε·max diag`   — relative;
    sparse `BlockDiagonal::cholDec(1e-14)` (`Homogenization::run`, envelope)  rejects a pivot `< 1e-14` — absolute.

  Property theorems only + non-vacuity examples; proofs in Lemmas/CovAcceptGap.lean (on top of CovCholPD, CovBdIff,
  CovAgree).  Models: Model/BandChol (`cholDec`, `adjCholdec`, `bdCholBlock`, `bdCholDec`), Model/NetFacade
  (`Net.scaleBuf`, `Net.factors`), Model/Ls/Env/Homog (`Env.factorsU`).
-/
import Gama.Lemmas.CovAcceptGap
import Mathlib.Analysis.SpecialFunctions.Sqrt
import Mathlib.Tactic.NormNum
namespace Gama.Props.C10
open Gama Gama.Cov Gama.Cov.Packed

section accept
variable {K : Type} [Field K] [LinearOrder K] [IsStrictOrderedRing K] [SqrtFn K]

/-- **both accept ⇒ the same pivots.**  If the dense test and the sparse test both accept a well-formed block, the
    numbers they tested are the same: the squared sparse pivots `G(i,i)²` are the dense `L D Lᵀ` pivots `F(i,i)`,
    the sparse rows are the dense multipliers scaled by the pivot's root, and every common pivot passed BOTH
    thresholds (`> N·ε·max diag` and `≥ tol`).  (Uniqueness of the factorisation.) -/
theorem C10_acceptance_common_pivots {C F G : CovMat K} (hC : C.WF) (_hN : 1 ≤ C.dim)
    (hsq : ∀ x : K, 0 < x → SqrtFn.sq x * SqrtFn.sq x = x ∧ 0 < SqrtFn.sq x) (tol : K) (htol : 0 < tol)
    (hd : (letI := fieldScalar K SqrtFn.sq; cholDec C) = .ok F)
    (hs : (letI := fieldScalar K SqrtFn.sq; bdCholBlock tol C) = .ok G) :
    letI := fieldScalar K SqrtFn.sq
    (∀ i, 1 ≤ i → i ≤ C.dim → G.get i i * G.get i i = F.get i i) ∧
    (∀ i j, 1 ≤ i → i < j → j ≤ C.dim → G.get i j = F.get i j * G.get i i) ∧
    (∀ i, 1 ≤ i → i ≤ C.dim → tolOf C.dim (maxDiag C) < F.get i i ∧ tol ≤ F.get i i) :=
  accept_common_pivots hsq hC tol htol hd hs

/-- **the two verdicts on a positive definite block.**  Let the well-formed block `C` have an exact `L D Lᵀ`
    factorisation with positive pivots `D r` (the form of `C10_pd_accepted`).  Then
      dense  accepts ⇔ every `D r > N·ε·max diag(C)`,
      sparse accepts ⇔ every `D r ≥ tol`,
    so the two tests agree on `C` exactly when these two conditions on the SAME numbers `D r` agree. -/
theorem C10_acceptance_tests_agree_iff {C : CovMat K} (hC : C.WF) (hN : 1 ≤ C.dim)
    (hsq : ∀ x : K, 0 < x → SqrtFn.sq x * SqrtFn.sq x = x ∧ 0 < SqrtFn.sq x) (tol : K) (htol : 0 < tol)
    (D : Nat → K) (L : Nat → Nat → K) (hD : ∀ r, 1 ≤ r → r ≤ C.dim → 0 < D r) :
    letI := fieldScalar K SqrtFn.sq
    (∀ i j, 1 ≤ i → i ≤ j → j ≤ C.dim →
      C.get i j = (∑ r ∈ Finset.Ico 1 i, L i r * D r * L j r) + D i * (if i = j then 1 else L j i)) →
    ((∃ F, cholDec C = .ok F) ↔ ∀ r, 1 ≤ r → r ≤ C.dim → tolOf C.dim (maxDiag C) < D r) ∧
    ((∃ G, bdCholBlock tol C = .ok G) ↔ ∀ r, 1 ≤ r → r ≤ C.dim → tol ≤ D r) ∧
    (((∃ F, cholDec C = .ok F) ↔ (∃ G, bdCholBlock tol C = .ok G)) ↔
      ((∀ r, 1 ≤ r → r ≤ C.dim → tolOf C.dim (maxDiag C) < D r) ↔ (∀ r, 1 ≤ r → r ≤ C.dim → tol ≤ D r))) := by
  intro hLDL
  have h1 := cholDec_ok_iff_of_ldl hC hN D L hD hLDL
  have h2 := bdCholBlock_ok_iff_of_ldl hsq hC tol htol D L hD hLDL
  exact ⟨h1, h2, by rw [h1, h2]⟩

/-- **gap 1 = finding C10-TINY.**  Every exact pivot above the relative tolerance but one below the absolute one:
    the dense test (parser; `Adj::choldec` in `prepare`) ACCEPTS and returns these pivots, the sparse test
    REJECTS — `BlockDiagonal::cholDec` returns block 1, i.e. `Homogenization::run` throws `NonPositiveDefinite`
    (`C10_homogenization_run` (1)).  A valid input that `--algorithm envelope` refuses and the others adjust. -/
theorem C10_tiny_gap {C : CovMat K} (hC : C.WF) (hN : 1 ≤ C.dim)
    (hsq : ∀ x : K, 0 < x → SqrtFn.sq x * SqrtFn.sq x = x ∧ 0 < SqrtFn.sq x) (tol : K) (htol : 0 < tol)
    (D : Nat → K) (L : Nat → Nat → K) :
    letI := fieldScalar K SqrtFn.sq
    (∀ i j, 1 ≤ i → i ≤ j → j ≤ C.dim →
      C.get i j = (∑ r ∈ Finset.Ico 1 i, L i r * D r * L j r) + D i * (if i = j then 1 else L j i)) →
    (∀ r, 1 ≤ r → r ≤ C.dim → tolOf C.dim (maxDiag C) < D r) →
    (∃ r, 1 ≤ r ∧ r ≤ C.dim ∧ D r < tol) →
    (∃ F, cholDec C = .ok F ∧ adjCholdec C = .ok (scaleToChol F) ∧ ∀ i, 1 ≤ i → i ≤ C.dim → F.get i i = D i) ∧
    (∃ C', bdCholBlock tol C = .error C') ∧ (bdCholDec tol [C]).1 = 1 := by
  intro hLDL hbig hsmall
  obtain ⟨hd, C', hs⟩ := tiny_gap hsq hC hN tol htol D L hLDL hbig hsmall
  exact ⟨hd, ⟨C', hs⟩, bdCholDec_single_error tol C C' hs⟩

/-- **gap 2 (reverse).**  Every exact pivot `≥ tol` but one `≤ N·ε·max diag` (ill-conditioned block with a large
    diagonal entry): the sparse test accepts (squared pivots `D`), the dense test throws `NonPositiveDefinite`.
    Behind `LocalNetwork` the dense rejection of `prepare` comes first for every algorithm (`Net.netSparse`). -/
theorem C10_reverse_gap {C : CovMat K} (hC : C.WF) (hN : 1 ≤ C.dim)
    (hsq : ∀ x : K, 0 < x → SqrtFn.sq x * SqrtFn.sq x = x ∧ 0 < SqrtFn.sq x) (tol : K) (htol : 0 < tol)
    (D : Nat → K) (L : Nat → Nat → K) :
    letI := fieldScalar K SqrtFn.sq
    (∀ i j, 1 ≤ i → i ≤ j → j ≤ C.dim →
      C.get i j = (∑ r ∈ Finset.Ico 1 i, L i r * D r * L j r) + D i * (if i = j then 1 else L j i)) →
    (∀ r, 1 ≤ r → r ≤ C.dim → tol ≤ D r) →
    (∃ r, 1 ≤ r ∧ r ≤ C.dim ∧ D r ≤ tolOf C.dim (maxDiag C)) →
    (∃ G, bdCholBlock tol C = .ok G ∧ ∀ i, 1 ≤ i → i ≤ C.dim → G.get i i * G.get i i = D i) ∧
    cholDec C = .error .NonPositiveDefinite ∧ adjCholdec C = .error .NonPositiveDefinite ∧
    Ls.Net.factors [C] = .error .NonPositiveDefinite := by
  intro hLDL hbig hsmall
  obtain ⟨hs, hd, ha⟩ := reverse_gap hsq hC hN tol htol D L hLDL hbig hsmall
  exact ⟨hs, hd, ha, factors_single_error C _ hd⟩

/-- **parse-time test = `prepare`'s test, up to the scaling `C/m0²`.**  `CovMat::cholDec` accepts `f·C` iff it
    accepts `C` (`f > 0`; in `prepareProjectEquations` `f = 1/m0²`, and `activeCov() = C` entrywise when every
    observation of the cluster is active): `max diag`, hence the tolerance `N·ε·max diag`, and every pivot are
    multiplied by `f`.  So a cluster the parser accepted is not refused by `prepare` because of `m0`. -/
theorem C10_parse_vs_prepare_scale {C : CovMat K} (hC : C.WF) (hN : 1 ≤ C.dim) (f : K) (hf : 0 < f) :
    letI := fieldScalar K SqrtFn.sq
    ((∃ F, cholDec (Ls.Net.scaleBuf C f) = .ok F) ↔ (∃ F, cholDec C = .ok F)) ∧
    maxDiag (Ls.Net.scaleBuf C f) = maxDiag C * f ∧
    tolOf C.dim (maxDiag (Ls.Net.scaleBuf C f)) = tolOf C.dim (maxDiag C) * f ∧
    (∀ m0 : K, m0 ≠ 0 →
      ((∃ F, cholDec (Ls.Net.scaleBuf C (1 / (m0 * m0))) = .ok F) ↔ (∃ F, cholDec C = .ok F))) := by
  let _ : Scalar K := fieldScalar K SqrtFn.sq
  have hm := maxDiag_scaled (C := C) (C' := Ls.Net.scaleBuf C f) rfl f hf (scaleBuf_get' C f)
  refine ⟨cholDec_scaleBuf_iff hC hN f hf, hm, by rw [hm, tolOf_scaled], fun m0 h0 => ?_⟩
  exact cholDec_scaleBuf_iff hC hN _ (one_div_pos.mpr (mul_self_pos.mpr h0))

/-- **the sparse test is NOT scale invariant** (NEG, concrete): the variance `[1]` passes
    `BlockDiagonal::cholDec(1/100)`, the same variance multiplied by `1/1000` does not — the verdict of
    `Homogenization::run` depends on the unit of `m0` / of the observations, the dense verdict does not. -/
theorem C10_sparse_not_scale_invariant
    (hsq : ∀ x : K, 0 < x → SqrtFn.sq x * SqrtFn.sq x = x ∧ 0 < SqrtFn.sq x) :
    letI := fieldScalar K SqrtFn.sq
    (∃ G, bdCholBlock (1 / 100 : K) (⟨1, 0, #[1]⟩ : CovMat K) = .ok G) ∧
    (∃ C', bdCholBlock (1 / 100 : K) (Ls.Net.scaleBuf (⟨1, 0, #[1]⟩ : CovMat K) (1 / 1000)) = .error C') ∧
    ¬ (∀ (C : CovMat K) (tol f : K), C.WF → 1 ≤ C.dim → 0 < tol → 0 < f →
        ((∃ G, bdCholBlock tol (Ls.Net.scaleBuf C f) = .ok G) ↔ (∃ G, bdCholBlock tol C = .ok G))) := by
  let _ : Scalar K := fieldScalar K SqrtFn.sq
  obtain ⟨h1, C', h2⟩ := sparse_not_scale_invariant (K := K) hsq
  refine ⟨h1, ⟨C', h2⟩, fun hall => ?_⟩
  obtain ⟨G, hG⟩ := (hall (one 1) (1 / 100) (1 / 1000) (one_WF 1) (le_refl _) (by norm_num) (by norm_num)).mpr h1
  rw [h2] at hG
  cases hG

/-- **C10-TINY, concrete witness** (NEG): the single variance `1e-15` (`<cov-mat dim="1" band="0"> 1e-15`, a standard
    deviation of `3.2e-8` input units).  Dense: `CovMat::cholDec` accepts (tolerance `1·ε·1e-15`), pivot `1e-15`;
    `prepare`'s `factors` succeed.  Sparse: `BlockDiagonal::cholDec(1e-14)` rejects block 1, `Env.factorsU = none`:
    `Homogenization::run` throws `NonPositiveDefinite`. -/
theorem C10_tiny_witness (hsq : ∀ x : K, 0 < x → SqrtFn.sq x * SqrtFn.sq x = x ∧ 0 < SqrtFn.sq x) :
    letI := fieldScalar K SqrtFn.sq
    (∃ F, cholDec (⟨1, 0, #[1 / 10 ^ 15]⟩ : CovMat K) = .ok F ∧ F.get 1 1 = 1 / 10 ^ 15 ∧
      adjCholdec (⟨1, 0, #[1 / 10 ^ 15]⟩ : CovMat K) = .ok (scaleToChol F) ∧
      Ls.Net.factors [(⟨1, 0, #[1 / 10 ^ 15]⟩ : CovMat K)] = .ok [scaleToChol F]) ∧
    (∃ C', bdCholBlock (bdTol : K) (⟨1, 0, #[1 / 10 ^ 15]⟩ : CovMat K) = .error C') ∧
    (bdCholDec (bdTol : K) [(⟨1, 0, #[1 / 10 ^ 15]⟩ : CovMat K)]).1 = 1 ∧
    Ls.Env.factorsU [(⟨1, 0, #[1 / 10 ^ 15]⟩ : Ls.CovBlock K)] = none := by
  let _ : Scalar K := fieldScalar K SqrtFn.sq
  have hx : (0 : K) < 1 / 10 ^ 15 := by positivity
  obtain ⟨F, hF, hA, hp⟩ := one_dense_accepts (1 / 10 ^ 15 : K) hx
  have ht : (0 : K) < bdTol := by rw [bdTol_eq]; positivity
  obtain ⟨C', hC'⟩ := bdCholBlock_error_of_not_ok (bdTol : K) (one (1 / 10 ^ 15)) (fun hok => by
    have := (one_sparse_iff hsq _ ht _ hx).mp hok
    rw [bdTol_eq] at this
    norm_num at this)
  exact ⟨⟨F, hF, hp, hA, factors_single_ok _ F hF⟩, ⟨C', hC'⟩, bdCholDec_single_error _ _ C' hC',
    factorsU_single_error 1 0 _ C' hC'⟩

/-- **C10-TINY with the tolerance visibly relative** (NEG): `diag(1, 1e-15)` (`dim 2`, `band 0`).  The dense
    tolerance is `2·ε·1 = 2⁻⁵¹ ≈ 4.4e-16 < 1e-15`: accepted with pivots `1, 1e-15`; the sparse test rejects. -/
theorem C10_tiny_witness_relative (hsq : ∀ x : K, 0 < x → SqrtFn.sq x * SqrtFn.sq x = x ∧ 0 < SqrtFn.sq x) :
    letI := fieldScalar K SqrtFn.sq
    (∃ F, cholDec (⟨2, 0, #[1, 1 / 10 ^ 15]⟩ : CovMat K) = .ok F ∧ F.get 1 1 = 1 ∧ F.get 2 2 = 1 / 10 ^ 15) ∧
    (∃ C', bdCholBlock (bdTol : K) (⟨2, 0, #[1, 1 / 10 ^ 15]⟩ : CovMat K) = .error C') := by
  let _ : Scalar K := fieldScalar K SqrtFn.sq
  have ht : (0 : K) < bdTol := by rw [bdTol_eq]; positivity
  have hy : (1 / 10 ^ 15 : K) ≤ 1 := by
    rw [div_le_one (by positivity)]; exact one_le_pow₀ (by norm_num)
  obtain ⟨⟨F, hF, _, hp⟩, hs⟩ := tiny_gap hsq (two_WF (1 : K) (1 / 10 ^ 15)) (by show 1 ≤ 2; omega) bdTol ht
    (twoD 1 (1 / 10 ^ 15)) (fun _ _ => 0) (two_ldl 1 (1 / 10 ^ 15))
    (by
      intro r h1 h2
      rw [two_tolOf (1 : K) (1 / 10 ^ 15) zero_le_one hy]
      unfold twoD
      split <;> norm_num)
    ⟨2, by omega, le_refl _, by rw [bdTol_eq]; unfold twoD; norm_num⟩
  refine ⟨⟨F, hF, ?_, ?_⟩, hs⟩
  · rw [hp 1 (le_refl _) (by show 1 ≤ 2; omega)]; simp [twoD]
  · rw [hp 2 (by omega) (le_refl _)]; simp [twoD]

/-- **the reverse gap, concrete witness** (NEG): `diag(1e6, 1e-10)`.  Sparse: both pivots `≥ 1e-14`, accepted.
    Dense: tolerance `2·ε·1e6 ≈ 4.4e-10 ≥ 1e-10`: `NonPositiveDefinite` (parser, and `prepare` for every algorithm). -/
theorem C10_reverse_witness (hsq : ∀ x : K, 0 < x → SqrtFn.sq x * SqrtFn.sq x = x ∧ 0 < SqrtFn.sq x) :
    letI := fieldScalar K SqrtFn.sq
    (∃ G, bdCholBlock (bdTol : K) (⟨2, 0, #[10 ^ 6, 1 / 10 ^ 10]⟩ : CovMat K) = .ok G) ∧
    cholDec (⟨2, 0, #[10 ^ 6, 1 / 10 ^ 10]⟩ : CovMat K) = .error .NonPositiveDefinite := by
  let _ : Scalar K := fieldScalar K SqrtFn.sq
  have ht : (0 : K) < bdTol := by rw [bdTol_eq]; positivity
  have hy : (1 / 10 ^ 10 : K) ≤ 10 ^ 6 := by norm_num
  obtain ⟨⟨G, hG, _⟩, hd, _⟩ := reverse_gap hsq (two_WF (10 ^ 6 : K) (1 / 10 ^ 10)) (by show 1 ≤ 2; omega) bdTol ht
    (twoD (10 ^ 6) (1 / 10 ^ 10)) (fun _ _ => 0) (two_ldl (10 ^ 6) (1 / 10 ^ 10))
    (by
      intro r h1 h2
      rw [bdTol_eq]
      unfold twoD
      split <;> norm_num)
    ⟨2, by omega, le_refl _, by
      rw [two_tolOf (10 ^ 6 : K) (1 / 10 ^ 10) (by positivity) hy]
      unfold twoD
      norm_num⟩
  exact ⟨⟨G, hG⟩, hd⟩

end accept

/-! ## non-vacuity (ℝ with `Real.sqrt`) and evaluation of the models (ℚ) -/

/-- the square-root law is satisfiable -/
example : ∀ x : ℝ, 0 < x → Real.sqrt x * Real.sqrt x = x ∧ 0 < Real.sqrt x :=
  fun _ hx => ⟨Real.mul_self_sqrt hx.le, Real.sqrt_pos.mpr hx⟩

/-- hypotheses of `C10_acceptance_common_pivots` / `C10_acceptance_tests_agree_iff` (both sides true): the
    variance `[4]` over ℝ, `tol = 1/100`, `D = 4`, `L = 0` — accepted by both tests -/
example : (letI : SqrtFn ℝ := ⟨Real.sqrt⟩; letI := fieldScalar ℝ Real.sqrt;
    (∃ F, cholDec (⟨1, 0, #[4]⟩ : CovMat ℝ) = .ok F) ∧ (∃ G, bdCholBlock (1 / 100 : ℝ) ⟨1, 0, #[4]⟩ = .ok G) ∧
    (⟨1, 0, #[4]⟩ : CovMat ℝ).WF ∧
    (∀ i j, 1 ≤ i → i ≤ j → j ≤ 1 → (⟨1, 0, #[4]⟩ : CovMat ℝ).get i j
      = (∑ _r ∈ Finset.Ico 1 i, (0 : ℝ) * 4 * 0) + 4 * (if i = j then 1 else 0))) := by
  let _ : SqrtFn ℝ := ⟨Real.sqrt⟩
  have hsq : ∀ x : ℝ, 0 < x → SqrtFn.sq x * SqrtFn.sq x = x ∧ 0 < SqrtFn.sq x :=
    fun x hx => ⟨Real.mul_self_sqrt hx.le, Real.sqrt_pos.mpr hx⟩
  obtain ⟨F, hF, _⟩ := one_dense_accepts (4 : ℝ) (by norm_num)
  exact ⟨⟨F, hF⟩, (one_sparse_iff hsq (1 / 100) (by norm_num) 4 (by norm_num)).mpr (by norm_num), one_WF 4,
    one_ldl (4 : ℝ)⟩

/-- hypotheses of `C10_tiny_gap`: `diag(1, 1e-15)` over ℝ with `tol = 1e-14`, `D = (1, 1e-15)`, `L = 0` -/
example : (letI : SqrtFn ℝ := ⟨Real.sqrt⟩; letI := fieldScalar ℝ Real.sqrt;
    (∀ r, 1 ≤ r → r ≤ 2 → tolOf 2 (maxDiag (two (1 : ℝ) (1 / 10 ^ 15))) < twoD (1 : ℝ) (1 / 10 ^ 15) r) ∧
    (∃ r, 1 ≤ r ∧ r ≤ 2 ∧ twoD (1 : ℝ) (1 / 10 ^ 15) r < 1 / 10 ^ 14)) := by
  let _ : SqrtFn ℝ := ⟨Real.sqrt⟩
  refine ⟨?_, 2, by decide, by decide, by unfold twoD; norm_num⟩
  intro r h1 h2
  have e := two_tolOf (1 : ℝ) (1 / 10 ^ 15) zero_le_one (by norm_num)
  rw [show (two (1 : ℝ) (1 / 10 ^ 15)).dim = 2 from rfl] at e
  rw [e]
  unfold twoD
  split <;> norm_num

/-- hypotheses of `C10_reverse_gap`: `diag(1e6, 1e-10)` over ℝ with `tol = 1e-14` -/
example : (letI : SqrtFn ℝ := ⟨Real.sqrt⟩; letI := fieldScalar ℝ Real.sqrt;
    (∀ r, 1 ≤ r → r ≤ 2 → (1 / 10 ^ 14 : ℝ) ≤ twoD (10 ^ 6 : ℝ) (1 / 10 ^ 10) r) ∧
    (∃ r, 1 ≤ r ∧ r ≤ 2 ∧
      twoD (10 ^ 6 : ℝ) (1 / 10 ^ 10) r ≤ tolOf 2 (maxDiag (two (10 ^ 6 : ℝ) (1 / 10 ^ 10))))) := by
  let _ : SqrtFn ℝ := ⟨Real.sqrt⟩
  have e := two_tolOf (10 ^ 6 : ℝ) (1 / 10 ^ 10) (by positivity) (by norm_num)
  rw [show (two (10 ^ 6 : ℝ) (1 / 10 ^ 10)).dim = 2 from rfl] at e
  refine ⟨?_, 2, by decide, by decide, ?_⟩
  · intro r h1 h2
    unfold twoD
    split <;> norm_num
  · rw [e]
    unfold twoD
    norm_num

/-- `C10_parse_vs_prepare_scale`: a non-trivial accepted instance — `[[4,2],[2,5]]/m0²` with `m0 = 10` over ℚ is
    accepted exactly as `[[4,2],[2,5]]` is (model evaluated; `cholDec` is square-root free) -/
example : ((letI := fieldScalar ℚ id; cholDec (⟨2, 1, #[4, 2, 5]⟩ : CovMat ℚ)).toOption.map (·.buf.toList))
      = some [4, 1 / 2, 4] ∧
    ((letI := fieldScalar ℚ id; cholDec (Ls.Net.scaleBuf (⟨2, 1, #[4, 2, 5]⟩ : CovMat ℚ) (1 / 100))).toOption.map
      (·.buf.toList)) = some [1 / 25, 1 / 2, 1 / 25] := by
  decide +kernel

/-- the witnesses evaluated on the executable models over ℚ (`bdCholBlock` rejects before any square root):
    `[1e-15]` and `diag(1, 1e-15)` pass `cholDec` and fail `bdCholBlock 1e-14`; `diag(1e6, 1e-10)` fails `cholDec`;
    `[1]·(1/1000)` fails `bdCholBlock (1/100)` -/
example :
    ((letI := fieldScalar ℚ id; cholDec (⟨1, 0, #[1 / 10 ^ 15]⟩ : CovMat ℚ)).toOption.map (·.buf.toList))
      = some [1 / 10 ^ 15] ∧
    ((letI := fieldScalar ℚ id; bdCholBlock (bdTol : ℚ) (⟨1, 0, #[1 / 10 ^ 15]⟩ : CovMat ℚ)).toOption.isNone) = true ∧
    ((letI := fieldScalar ℚ id; cholDec (⟨2, 0, #[1, 1 / 10 ^ 15]⟩ : CovMat ℚ)).toOption.map (·.buf.toList))
      = some [1, 1 / 10 ^ 15] ∧
    ((letI := fieldScalar ℚ id; bdCholBlock (bdTol : ℚ) (⟨2, 0, #[1, 1 / 10 ^ 15]⟩ : CovMat ℚ)).toOption.isNone) = true ∧
    ((letI := fieldScalar ℚ id; cholDec (⟨2, 0, #[10 ^ 6, 1 / 10 ^ 10]⟩ : CovMat ℚ)).toOption.isNone) = true ∧
    ((letI := fieldScalar ℚ id;
      bdCholBlock (1 / 100 : ℚ) (Ls.Net.scaleBuf (⟨1, 0, #[1]⟩ : CovMat ℚ) (1 / 1000))).toOption.isNone) = true := by
  decide +kernel

end Gama.Props.C10
