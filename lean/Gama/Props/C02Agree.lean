/-
  C02 clause 8 / C20 clause 5 — "`--algorithm` never changes which points take part": the statement
  WITH CONTENT that replaces the definitional `C02_decision_agnostic` (Props/C02.lean).

  (1) `C02_decision_reads_first_flag`: the decision layer (`vyrovnani_`, `null_space`,
      `GeneralParameters`) depends on a solver's flags ONLY through the removal caused by the FIRST
      flagged unknown (point id + code); everything else it reads is the unknown list, counts, defect,
      refusal / cofactor comparisons.  (`WorldA.Sim`, a simulation proof over the three loops.)
  (2) `C02_decision_agree_of_first`: two solvers that are SOUND on the same project equations
      (`SolverObs.Sound`: refusal ⇔ ¬Resolves, flags = complement of a column basis, defect = n − rank —
      the solver-level C01/C02/C20 theorems) and report equal cofactors (`C02_same_cofactors_*`) lead to
      the same removed points (order, reasons), verdict and exit status PROVIDED their first flagged
      unknowns cause the same removal on every configuration.
  (3) When can the first flagged unknown differ?  `C02_flagged_in_support` / `C02_never_flagged`: a sound
      solver flags only unknowns in the support of the kernel of the design matrix; `C02_greedy_last`:
      a solver following the greedy rule "flag a column that is a combination of the columns processed
      before it" flags ANY prescribed unknown of that support when it processes it last;
      `C02_gso_is_greedy`: the Gram–Schmidt model follows the rule in the natural order (envelope: in
      reverse Cuthill–McKee order, `C20_env_lindep_true`; Cholesky: in the order of its diagonal
      pivoting).  Hence the first flagged unknown — the smallest flagged index — is determined by the
      processing order, and two correct algorithms may remove different points exactly when the support
      of the kernel meets more than one removal class (point × coordinate group).  That is finding F7;
      witness `C02_first_flag_differs_loop` (4-point levelling loop: kernel (1,1,1,1), four classes).
  (4) `C02_decision_agree_single_point`: if on every configuration the support of the kernel lies in ONE
      removal class, all sound solvers agree — whatever their orders; instance for the Gram–Schmidt and
      Cholesky models `C02_decision_agree_gso_chol_single_point`.
-/
import Gama.Props.C02
import Gama.Lemmas.NetWorldExamples
namespace Gama.Props.C02
open Gama Gama.Ls Gama.LS Gama.NetDecision Matrix

set_option linter.unusedSectionVars false
set_option linter.overlappingInstances false

/-- **(1) the decision reads the flags only through the first removal** -/
theorem C02_decision_reads_first_flag (W W' : WorldA) (h : W.Sim W') (net : Net) :
    (decideA W net).1 = (decideA W' net).1 ∧ (decideA W net).2.core = (decideA W' net).2.core
      ∧ (decideA W net).2.exitStatus = (decideA W' net).2.exitStatus := by
  obtain ⟨h1, h2⟩ := decideA_sim h net
  exact ⟨h1, h2, Verdict.core_exit _ _ h2⟩

section Agree
variable {K : Type} [Scalar K] [Field K] {P : Type}
variable (pe : Net → ProjEq P) (solver solver' : P → SolverObs K) (lin : P → LinProb K) (m0 : K)

/-- **(2) same removed points and verdict, given the same first removal** -/
theorem C02_decision_agree_of_first
    (hS : ∀ net, (solver (pe net).prob).Sound (lin (pe net).prob).A (lin (pe net).prob).S)
    (hS' : ∀ net, (solver' (pe net).prob).Sound (lin (pe net).prob).A (lin (pe net).prob).S)
    (hq : ∀ net i, 1 ≤ i → i ≤ (pe net).unknowns.length → (solver (pe net).prob).refused = none →
      (solver (pe net).prob).qxx i = (solver' (pe net).prob).qxx i)
    (hfirst : ∀ net, (firstUnknown ((viewOf (pe net) (solver (pe net).prob)).abs m0)).map removalOf
        = (firstUnknown ((viewOf (pe net) (solver' (pe net).prob)).abs m0)).map removalOf)
    (net : Net) :
    (NetDecision.decide m0 (worldOf pe solver) net).1 = (NetDecision.decide m0 (worldOf pe solver') net).1 ∧
    (NetDecision.decide m0 (worldOf pe solver) net).2.core = (NetDecision.decide m0 (worldOf pe solver') net).2.core :=
  decideA_sim (worldOf_sim_of_first pe solver solver' lin m0 hS hS' hq hfirst) net

/-- **(4) agreement when the kernel is supported in one removal class** (one point, one coordinate group) -/
theorem C02_decision_agree_single_point
    (hdim : ∀ net, (lin (pe net).prob).n = (pe net).unknowns.length)
    (hS : ∀ net, (solver (pe net).prob).Sound (lin (pe net).prob).A (lin (pe net).prob).S)
    (hS' : ∀ net, (solver' (pe net).prob).Sound (lin (pe net).prob).A (lin (pe net).prob).S)
    (hq : ∀ net i, 1 ≤ i → i ≤ (pe net).unknowns.length → (solver (pe net).prob).refused = none →
      (solver (pe net).prob).qxx i = (solver' (pe net).prob).qxx i)
    (hone : ∀ net, ∃ rc : String × Rm, KernelClass (lin (pe net).prob).A (pe net).unknowns rc)
    (net : Net) :
    (NetDecision.decide m0 (worldOf pe solver) net).1 = (NetDecision.decide m0 (worldOf pe solver') net).1 ∧
    (NetDecision.decide m0 (worldOf pe solver) net).2.core = (NetDecision.decide m0 (worldOf pe solver') net).2.core :=
  decideA_sim (worldOf_sim_single_class pe solver solver' lin m0 hdim hS hS' hq hone) net

/-- non-vacuity of `C02_decision_agree_single_point` (hence of `C02_decision_agree_of_first`): one free point
    hanging on one observation with row (1,1) in (X, Y) — kernel (1,−1), supported in the ONE point.  Two sound
    solvers that name DIFFERENT unknowns (Y resp. X) meet every hypothesis, and both remove P (`singular_xy`) -/
example : (∀ net, (oneLin (onePE net).prob).n = (onePE net).unknowns.length)
    ∧ (∀ net, (oneSolver 2 (onePE net).prob).Sound (oneLin (onePE net).prob).A (oneLin (onePE net).prob).S)
    ∧ (∀ net, (oneSolver 1 (onePE net).prob).Sound (oneLin (onePE net).prob).A (oneLin (onePE net).prob).S)
    ∧ (∀ net, ∃ rc : String × Rm, KernelClass (oneLin (onePE net).prob).A (onePE net).unknowns rc)
    ∧ (∃ b i, (oneSolver 2 b).lindep i ≠ (oneSolver 1 b).lindep i)
    ∧ NetDecision.decide (10 : ℚ) (worldOf onePE (oneSolver 2)) oneNet = ([("P", .singular_xy)], .exception .noUnknowns)
    ∧ NetDecision.decide (10 : ℚ) (worldOf onePE (oneSolver 1)) oneNet = ([("P", .singular_xy)], .exception .noUnknowns) :=
  ⟨one_dim, fun net => oneSolver_sound 2 (Or.inr rfl) _, fun net => oneSolver_sound 1 (Or.inl rfl) _, one_class,
    ⟨true, 2, by decide⟩, by decide +kernel, by decide +kernel⟩

end Agree

-- ------------------------------------------------------------------ (3) which unknown can be flagged

section Which
variable {K : Type} [Field K] {m n : Nat} {A : Matrix (Fin m) (Fin n) K} {S : Finset (Fin n)} {o : SolverObs K}

/-- a sound solver names only unknowns that move along some kernel vector -/
theorem C02_flagged_in_support (h : o.Sound A S) (i : Fin n) (hi : o.lindep (i.val + 1) = true) :
    ∃ g, A *ᵥ g = 0 ∧ g i ≠ 0 := flagged_in_support h i hi

/-- an unknown on which every kernel vector vanishes is named by NO sound solver -/
theorem C02_never_flagged (h : o.Sound A S) (i : Fin n) (hi : ∀ g, A *ᵥ g = 0 → g i = 0) :
    o.lindep (i.val + 1) = false := never_flagged h i hi

/-- under the greedy rule an unknown processed last is flagged iff it lies in the support of the kernel:
    every unknown of the support is named under SOME processing order -/
theorem C02_greedy_last (ord : Fin n → Nat) (flag : Fin n → Bool) (hG : Greedy A ord flag) (i : Fin n)
    (hlast : ∀ j, j ≠ i → ord j < ord i) : flag i = true ↔ ∃ g, A *ᵥ g = 0 ∧ g i ≠ 0 :=
  greedy_last_iff A ord flag hG i hlast

/-- non-vacuity of `C02_greedy_last` and the content of F7 in the smallest case: `A = [1 −1]` (one height
    difference), kernel (1,1).  Processing order (1,2) flags unknown 2, order (2,1) flags unknown 1 — both
    flag sets satisfy the greedy rule for their order -/
example : Greedy (!![1, -1] : Matrix (Fin 1) (Fin 2) ℚ) (fun j => j.val) (fun j => decide (j = 1))
    ∧ Greedy (!![1, -1] : Matrix (Fin 1) (Fin 2) ℚ) (fun j => 1 - j.val) (fun j => decide (j = 0)) := by
  constructor
  · intro i
    fin_cases i
    · simp only [Fin.zero_eta, Fin.isValue, zero_ne_one, decide_false, Bool.false_eq_true, false_iff, not_exists, not_and]
      intro γ hγ hc
      have h0 := hγ 0 (by simp)
      have h1 := hγ 1 (by simp)
      have := hc 0
      simp [Fin.sum_univ_two, h0, h1] at this
    · simp only [Fin.mk_one, Fin.isValue, decide_true, true_iff]
      refine ⟨![-1, 0], ?_, ?_⟩
      · intro j hj; fin_cases j <;> simp at hj ⊢
      · intro r; fin_cases r; simp [Fin.sum_univ_two]
  · intro i
    fin_cases i
    · simp only [Fin.zero_eta, Fin.isValue, decide_true, true_iff]
      refine ⟨![0, -1], ?_, ?_⟩
      · intro j hj; fin_cases j <;> simp at hj ⊢
      · intro r; fin_cases r; simp [Fin.sum_univ_two]
    · simp only [Fin.mk_one, Fin.isValue, one_ne_zero, decide_false, Bool.false_eq_true, false_iff, not_exists, not_and]
      intro γ hγ hc
      have h0 := hγ 0 (by simp)
      have h1 := hγ 1 (by simp)
      have := hc 0
      simp [Fin.sum_univ_two, h0, h1] at this

end Which

section GsoGreedy
open Gama.Ls.Gso
variable {K : Type} [Field K] [LinearOrder K] [IsStrictOrderedRing K] [SqrtField K]

/-- the Gram–Schmidt model follows the greedy rule in the NATURAL order of the unknowns -/
theorem C02_gso_is_greedy (p : Problem K) (hU : Unambiguous p) (hreg : regInRange p.n p.reg = true) :
    Greedy p.A (fun j => j.val) (fun i => (obsGso p).lindep (i.val + 1)) := by
  obtain ⟨a, ha⟩ := gsoSolveWith_false_ok p hreg
  have hld : ∀ i, (obsGso p).lindep i = true ↔ a.lindep i = .ok true := by
    intro i; rw [obsGso_eq p a ha]; exact obsOfAnswer_lindep a _ i
  intro i
  rw [hld]
  have hii : (⟨i.val + 1 - 1, by have := i.2; omega⟩ : Fin p.n) = i := Fin.ext (by simp)
  constructor
  · intro hl
    obtain ⟨_, γ, h1, h2⟩ := gso_lindep_true p hU ha (i.val + 1) hl
    refine ⟨γ, fun j hj => h1 j (by simpa using hj), fun r => ?_⟩
    have := h2 r
    rwa [hii] at this
  · rintro ⟨γ, h1, h2⟩
    refine gso_lindep_conv p hU ha (i.val + 1) ⟨by omega, by have := i.2; omega⟩ γ
      (fun j hj => h1 j (by simpa using hj)) (fun r => ?_)
    rw [hii]; exact h2 r

end GsoGreedy

-- ------------------------------------------------------------------ F7: the precise negative statement

/-- **finding F7, negative statement with its witness**: `loopWorld 3` (flags of the envelope model,
    `C02_flags_differ_env`) and `loopWorld 4` (flags of the Cholesky and Gram–Schmidt models,
    `C02_flags_differ_chol`) agree in EVERYTHING the decision layer reads except the removal caused by
    the first flagged unknown — and the removed points differ.  The kernel of the loop's design matrix is
    spanned by (1,1,1,1): its support meets four removal classes, so hypothesis `hone` of
    `C02_decision_agree_single_point` fails, and every one of H1…H4 is the point removed under some
    processing order (`C02_greedy_last`). -/
theorem C02_first_flag_differs_loop :
    (∀ net, ((loopWorld 3 net).net = (loopWorld 4 net).net ∧ (loopWorld 3 net).rm = (loopWorld 4 net).rm
      ∧ (loopWorld 3 net).abs.unknowns = (loopWorld 4 net).abs.unknowns
      ∧ (loopWorld 3 net).abs.defect = (loopWorld 4 net).abs.defect
      ∧ (loopWorld 3 net).abs.resid = (loopWorld 4 net).abs.resid
      ∧ ∀ Q, (loopWorld 3 net).abs.huge Q = (loopWorld 4 net).abs.huge Q))
    ∧ (firstUnknown (loopWorld 3 loopNet).abs).map removalOf = some ("H3", .missing_z)
    ∧ (firstUnknown (loopWorld 4 loopNet).abs).map removalOf = some ("H4", .missing_z)
    ∧ (decideA (loopWorld 3) loopNet).1 ≠ (decideA (loopWorld 4) loopNet).1
    ∧ (decideA (loopWorld 3) loopNet).2 = (decideA (loopWorld 4) loopNet).2 := by
  refine ⟨fun net => ⟨rfl, rfl, rfl, rfl, rfl, fun _ => rfl⟩, by decide +kernel, by decide +kernel, ?_, ?_⟩
  · rw [C02_flags_differ_removed.1, C02_flags_differ_removed.2]; decide
  · rw [C02_flags_differ_removed.1, C02_flags_differ_removed.2]

/-- the support of the loop's kernel is everything: the vector (1,1,1,1) is in the kernel of the
    4-point levelling loop (rows h2−h1, h3−h2, h4−h3, h1−h4) -/
example : (!![-1, 1, 0, 0; 0, -1, 1, 0; 0, 0, -1, 1; 1, 0, 0, -1] : Matrix (Fin 4) (Fin 4) ℚ) *ᵥ ![1, 1, 1, 1] = 0 := by
  ext i; fin_cases i <;> simp [Matrix.mulVec, dotProduct, Fin.sum_univ_four]

-- ------------------------------------------------------------------ instance: Gram–Schmidt vs Cholesky

section GsoChol
open Gama.Ls.Gso Gama.Ls.Chol
variable {K : Type} [Field K] [LinearOrder K] [IsStrictOrderedRing K] [SqrtField K]
local instance sqrtFnOfSqrtField'' : SqrtFn K := ⟨SqrtField.sqrt⟩

/-- **Gram–Schmidt and Cholesky remove the same points** on every network whose configurations have the
    kernel supported in one removal class — under each model's own hypotheses; `hq` is
    `C02_same_cofactors_gso_chol` (Props/C02CofactorsChol.lean) read on the diagonal -/
theorem C02_decision_agree_gso_chol_single_point (pe : Net → ProjEq (Problem K)) (m0 : K)
    (hdim : ∀ net, (pe net).prob.n = (pe net).unknowns.length)
    (hU : ∀ net, Gso.Unambiguous (pe net).prob) (hreg : ∀ net, regInRange (pe net).prob.n (pe net).prob.reg = true)
    (hH : ∀ net, CholHyp (pe net).prob)
    (hq : ∀ net i, 1 ≤ i → i ≤ (pe net).unknowns.length → (obsGso (pe net).prob).refused = none →
      (obsGso (pe net).prob).qxx i = (obsChol (pe net).prob).qxx i)
    (hone : ∀ net, ∃ rc : String × Rm, KernelClass (pe net).prob.A (pe net).unknowns rc)
    (net : Net) :
    (NetDecision.decide m0 (worldOf pe obsGso) net).1 = (NetDecision.decide m0 (worldOf pe obsChol) net).1 ∧
    (NetDecision.decide m0 (worldOf pe obsGso) net).2.core = (NetDecision.decide m0 (worldOf pe obsChol) net).2.core :=
  C02_decision_agree_single_point pe obsGso obsChol (fun p => ⟨p.m, p.n, p.A, p.S⟩) m0 hdim
    (fun n => obsGso_sound (pe n).prob (hU n) (hreg n))
    (fun n => obsChol_sound (pe n).prob (hH n).fact (hH n).sq (hH n).gs (hH n).sqA (hH n).gsA (hH n).reg)
    hq hone net

end GsoChol

end Gama.Props.C02
