/-
  C11 (audit #4 gap 7, item 3): the THREE Lean copies of `IsInteger` / `IsFloat` (lib/gnu_gama/intfloat.h)
  related to each other for ALL strings.

    copy 1  `Lit.isInteger`, `Lit.isFloat`            Model/Literals.lean     (C11; flag `Gkf.intLoneSignRejected`)
    copy 2  `Literals.isIntegerWith/isIntegerCur/isInteger`, `Literals.isFloat`
                                                      Model/GeoLiterals.lean  (C18; flag `Gen.isIntegerNeedsDigit`)
    copy 3  `PointId.isInteger`                       Model/PointIdBase.lean  (C07; bytes; no `TrimWhiteSpaces`)

  Result.  `IsFloat`: copies 1 and 2 are EQUAL.  `IsInteger`: copies 1 and 2 are equal as functions of the guard
  after the sign, the two generated flags have the same value, hence `Literals.isIntegerCur = Lit.isInteger`.
  The copies GENUINELY differ in two places, stated as data below:
    * `Literals.isInteger` (= `isIntegerWith false`, "the original code") accepts in addition exactly the strings
      whose trimmed form is a lone sign.  The C++ at /repo HEAD 6d0f7107 refuses `"+"`, `"-"`, `" + "`
      (replayed on `GNU_gama::IsInteger`): copy 1 and `Literals.isIntegerCur` match it, `Literals.isInteger` does not.
    * `PointId.isInteger` does not trim (its only caller `PointID::init` passes a string without surrounding white
      space): it is copy 1 restricted to the strings trimming leaves alone; on `" 1"` it says false while the C++
      helper (which always trims) says true: copy 1 matches the C++ helper, copy 3 only on its call-site domain.
  Lemmas: Lemmas/LiteralsEq.lean.
-/
import Gama.Lemmas.LiteralsEq
namespace Gama.Props.C11
open Gama Gama.Lit Gama.LitEq

/-- The three recognisers agree, for every string:
    (1) `IsFloat`: copy 2 = copy 1;
    (2) `IsInteger`: copy 2 = copy 1 for either value of the guard after the sign;
    (3) the two generated flags are the same reading of the source, so (4) the current-tree variants are equal;
    (5) the "original code" variant of copy 2 differs from copy 1 exactly by the lone signs;
    (6) copy 3 (bytes read as Latin-1, no trimming) = copy 1 restricted to strings that trimming leaves alone. -/
theorem C11_literal_recognisers_agree :
    (∀ s : List Char, Literals.isFloat s = Lit.isFloat s) ∧
    (∀ (b : Bool) (s : List Char), Literals.isIntegerWith b s = Lit.isIntegerOf b s) ∧
    Gen.isIntegerNeedsDigit = Gkf.intLoneSignRejected ∧
    (∀ s : List Char, Literals.isIntegerCur s = Lit.isInteger s) ∧
    (∀ s : List Char, Literals.isInteger s =
        (Lit.isInteger s || decide (Lit.trim s = ['+'] ∨ Lit.trim s = ['-']))) ∧
    (∀ s : PointId.Bytes, PointId.isInteger s =
        (Lit.isInteger (toChars s) && decide (Lit.trim (toChars s) = toChars s))) := by
  have hflag : Gkf.intLoneSignRejected = true := rfl
  refine ⟨isFloat_eq, isIntegerWith_eq, rfl, ?_, ?_, ?_⟩
  · intro s
    exact isIntegerWith_eq _ s
  · intro s
    show Literals.isIntegerWith false s = _
    rw [isIntegerWith_eq, isIntegerOf_false_eq, Lit.isInteger_eq, hflag]
  · intro s
    rw [pointId_isInteger_bare, isIntegerBare_eq, Lit.isInteger_eq, hflag]

example : Literals.isFloat " -1.5e+3 ".toList = true ∧ Lit.isFloat " -1.5e+3 ".toList = true := by decide
example : Literals.isFloat "1e".toList = false ∧ Lit.isFloat "1e".toList = false := by decide
example : Literals.isIntegerCur " +42\t".toList = true ∧ Lit.isInteger " +42\t".toList = true := by decide
example : PointId.isInteger [45, 52, 50] = true ∧ Lit.isInteger (toChars [45, 52, 50]) = true ∧
    Lit.trim (toChars [45, 52, 50]) = toChars [45, 52, 50] := by decide

/-- Where the copies differ (witnesses of clauses (5) and (6)): a lone sign is accepted by copy 2's "original code"
    variant only; a leading blank is refused by copy 3 only.  `GNU_gama::IsInteger` at /repo HEAD answers
    `"+"` ↦ false, `" 1"` ↦ true, i.e. what copy 1 answers. -/
theorem C11_literal_recognisers_differ :
    Literals.isInteger ['+'] = true ∧ Lit.isInteger ['+'] = false ∧ Literals.isIntegerCur ['+'] = false ∧
    PointId.isInteger [32, 49] = false ∧ Lit.isInteger (toChars [32, 49]) = true := by decide

/-- copy 3 at the strings it is called with (no surrounding white space) IS copy 1 -/
theorem C11_pointid_isInteger_agrees (s : PointId.Bytes) (h : Lit.trim (toChars s) = toChars s) :
    PointId.isInteger s = Lit.isInteger (toChars s) := by
  rw [C11_literal_recognisers_agree.2.2.2.2.2 s, h]
  simp

example : Lit.trim (toChars [49, 32, 50]) = toChars [49, 32, 50] ∧ PointId.isInteger [49, 32, 50] = false := by
  decide
example : Lit.trim (toChars [43, 55]) = toChars [43, 55] ∧ PointId.isInteger [43, 55] = true := by decide

/-- at its only call site (`PointID::init`: `IsInteger` on the normalised identifier) copy 3 IS copy 1: the
    normalised identifier neither starts nor ends with white space, so the `TrimWhiteSpaces` that copy 3 leaves out
    is the identity there -/
theorem C11_pointid_isInteger_call_site (s : PointId.Bytes) :
    Lit.trim (toChars (PointId.normalize s)) = toChars (PointId.normalize s) ∧
    PointId.isInteger (PointId.normalize s) = Lit.isInteger (toChars (PointId.normalize s)) :=
  ⟨trim_normalize s, C11_pointid_isInteger_agrees _ (trim_normalize s)⟩

-- "  12\t " normalises to "12" (accepted by both); " 1  2 " to "1 2" (refused by both)
example : PointId.normalize [32, 32, 49, 50, 9, 32] = [49, 50] ∧
    PointId.isInteger (PointId.normalize [32, 32, 49, 50, 9, 32]) = true := by decide
example : PointId.normalize [32, 49, 32, 32, 50, 32] = [49, 32, 50] ∧
    Lit.isInteger (toChars (PointId.normalize [32, 49, 32, 32, 50, 32])) = false := by decide

/-! ### the C11 language theorems transported to the other copies -/

/-- copy 2's `IsFloat` accepts exactly the documented float format (`C11_isFloat_spec` transported) -/
theorem C11_literals_isFloat_lang (s : List Char) : Literals.isFloat s = true ↔ FloatLang s := by
  rw [isFloat_eq]; exact isFloat_iff s

example : FloatLang " .5E-2 ".toList := (C11_literals_isFloat_lang _).mp (by decide)
example : ¬ FloatLang "+.e1".toList := fun h => absurd ((C11_literals_isFloat_lang _).mpr h) (by decide)

/-- copy 2's current-tree `IsInteger` accepts exactly `ws* [+-]? d+ ws*` (`C11_isInteger_spec` transported) -/
theorem C11_literals_isInteger_lang (s : List Char) : Literals.isIntegerCur s = true ↔ IntLang s := by
  rw [C11_literal_recognisers_agree.2.2.2.1 s]; exact isInteger_iff s

example : IntLang " -07 ".toList := (C11_literals_isInteger_lang _).mp (by decide)
example : ¬ IntLang " - ".toList := fun h => absurd ((C11_literals_isInteger_lang _).mpr h) (by decide)

/-- copy 2 with the guard as a parameter: the language of copy 1 with the same parameter -/
theorem C11_literals_isIntegerWith_lang (b : Bool) (s : List Char) :
    Literals.isIntegerWith b s = true ↔ IntLangOf b s := by
  rw [isIntegerWith_eq]; exact isIntegerOf_iff b s

example : IntLangOf false ['+'] := (C11_literals_isIntegerWith_lang false _).mp (by decide)
example : ¬ IntLangOf true ['+'] := fun h => absurd ((C11_literals_isIntegerWith_lang true _).mpr h) (by decide)

/-- copy 3 accepts exactly `[+-]? d+` (no blanks anywhere), i.e. the integer language of copy 1 intersected with the
    strings `TrimWhiteSpaces` leaves alone; before this theorem `PointId.isInteger` had no language theorem -/
theorem C11_pointid_isInteger_lang (s : PointId.Bytes) :
    (PointId.isInteger s = true ↔ IntLang (toChars s) ∧ Lit.trim (toChars s) = toChars s) ∧
    (PointId.isInteger s = true ↔
      ∃ sg ds, toChars s = sg ++ ds ∧ SignOpt sg ∧ AllDigit ds ∧ ds ≠ []) := by
  have h1 : PointId.isInteger s = true ↔ IntLang (toChars s) ∧ Lit.trim (toChars s) = toChars s := by
    rw [C11_literal_recognisers_agree.2.2.2.2.2 s, Bool.and_eq_true, decide_eq_true_eq, isInteger_iff]
  exact ⟨h1, h1.trans (intLang_trim_self _)⟩

example : ∃ sg ds, toChars [43, 49, 50] = sg ++ ds ∧ SignOpt sg ∧ AllDigit ds ∧ ds ≠ [] :=
  (C11_pointid_isInteger_lang _).2.mp (by decide)
example : ¬ ∃ sg ds, toChars [49, 46, 48] = sg ++ ds ∧ SignOpt sg ∧ AllDigit ds ∧ ds ≠ [] :=
  fun h => absurd ((C11_pointid_isInteger_lang _).2.mpr h) (by decide)
example : ¬ (IntLang (toChars [49, 32]) ∧ Lit.trim (toChars [49, 32]) = toChars [49, 32]) :=
  fun h => absurd ((C11_pointid_isInteger_lang _).1.mpr h) (by decide)

end Gama.Props.C11
