/-
  C10 (round 7, 9b) — source tie of `Homogenization::run`'s throw, phase order, forward substitution and gather store, and of the
  dimension guard of the GKF cluster finishers.

  `Gen/HomogenizationSites.lean` is rewritten from lib/gnu_gama/adj/homogenization.h and
  lib/gnu_gama/xml/gkfparser.cpp on every run (tools/gen/c10_homsites.py).  The theorems below READ that table:
  the model `Hom.run` (object of `C10_homogenization_run`) throws exactly under the regenerated condition with the
  regenerated kind, its phases come in the regenerated order, its forward substitution is the regenerated arithmetic,
  and `CovParse.finishObs` / `finishHdiffs` reject exactly under the regenerated guard.
-/
import Gama.Props.C10
import Gama.Gen.HomogenizationSites
namespace Gama.Props.C10
open Gama Gama.Cov

section
variable {K : Type} [Scalar K]
attribute [local instance] Gama.Cov.inhabitedOfScalarH

/-- **the throw of `Homogenization::run`**: `run` fails iff the regenerated test (`cholDec() != 0` in the current tree)
    holds of the result of `cholDec` on the replicated covariance, the error is the regenerated kind
    (`NonPositiveDefinite`), `cholDec` is called with the default tolerance (no argument), and the no-data throw is
    `BadRank` (the model's precondition `canRun`; not reachable from a built `AdjInputData`). -/
theorem C10_homogenization_throw_site (tol : K) (mat : SMat K) (cov : BlockDiag K) (rhs : Array K) :
    ((∃ e, Hom.run tol mat cov rhs = .error e) ↔
        Gen.HomSites.throwOnRet ((cov.replicate 0).cholDec tol).1 = true) ∧
    (∀ e, Hom.run tol mat cov rhs = .error e → e.name = Gen.HomSites.throwKind) ∧
    Gen.HomSites.cholDecArgs = 0 ∧ Gen.HomSites.noDataKind = Err.BadRank.name := by
  refine ⟨?_, ?_, rfl, rfl⟩
  · unfold Hom.run Gen.HomSites.throwOnRet
    rcases hc : (cov.replicate 0).cholDec tol with ⟨ret, bd⟩
    by_cases h : ret = 0
    · simp [h]
    · simp [h]
  · intro e he
    unfold Hom.run at he
    rcases hc : (cov.replicate 0).cholDec tol with ⟨ret, bd⟩
    rw [hc] at he
    by_cases h : ret = 0
    · simp [h] at he
    · simp [h] at he; subst he; rfl

/-- **order of operations**: the phases of `run()` in the source are the ones `Hom.run` performs, in its order:
    replicate → cholDec test (throw) → upper factor → copy of the rhs → forward substitution of the rhs → counting
    pass → allocation of `sm` → assembling pass → `ready = true`. -/
theorem C10_homogenization_phase_order :
    Gen.HomSites.phases = ["ready-guard", "no-data-throw", "replicate", "cholDec-test", "upper-factor", "rhs-copy",
      "rhs-forward-substitution", "count", "allocate", "assemble", "ready"] := rfl

/-- **forward substitution of the right-hand side** (`x = pr(row) / *b++; pr(row) = x; pr(n++) -= *b++ * x`): the
    model's `sweepTab` is the sweep with the regenerated pivot step and update. -/
theorem C10_homogenization_forward_site (nonz : Array K) (tab : Array Nat) (off cnt : Nat) (v : Array K) :
    sweepTab nonz tab off cnt v =
      (List.range' 1 cnt).foldl (fun (w : Array K) i =>
        let b := tab.getD (off + i) 0
        let e := tab.getD (off + i + 1) 0
        let x := Gen.HomSites.fwdPivot (w.getD (i - 1) 0) (nonz.getD b 0)
        let w1 := w.setIfInBounds (i - 1) x
        (List.range' 1 (e - b - 1)).foldl
          (fun (u : Array K) (t : Nat) =>
            u.setIfInBounds (i - 1 + t) (Gen.HomSites.fwdUpdate (u.getD (i - 1 + t) 0) (nonz.getD (b + t) 0) x)) w1)
      v := rfl

/-- **the gather statement of a correlated block** (`T(i, perm[c]) += *b++;` after `T.set_zero()` since repo 6d0f7107;
    `=` before): what the model's `Hom.gather1` stores at `T(i, perm[c])` is the REGENERATED store
    `Gen.HomSites.gatherStore old a` (`old + a` in the current tree) of the coefficient `a` on the value `old` that is
    there, every other cell of `T` is untouched, and `T` starts from zeros (`gatherZeroed`).  With `=` in the source the
    table regenerates `gatherStore old a = a` and this theorem fails by name. -/
theorem C10_homogenization_gather_site (i : Nat) (g : Hom.Gather K) (e : Nat × K) :
    (∃ pc, (Hom.gather1 i g e).T =
      g.T.modify (pc - 1) (fun col => col.setIfInBounds (i - 1) (Gen.HomSites.gatherStore (col.getD (i - 1) 0) e.2))) ∧
    Gen.HomSites.gatherZeroed = true := by
  refine ⟨?_, rfl⟩
  unfold Hom.gather1 Gen.HomSites.gatherStore
  by_cases h : g.perm.getD e.1 0 = 0
  · simp only [h, if_true]; exact ⟨_, rfl⟩
  · simp only [h, if_false]; exact ⟨_, rfl⟩

end

/-- **dimension guard**: `finish_obs` / `finish_hdiffs` of the model reject with `DimDiffers` exactly when the guard
    regenerated from gkfparser.cpp (`idim && idim != #observations` in the current tree) fires. -/
theorem C10_dim_guard_site {K : Type} [Scalar K] (checkCov : Bool) (s : CovParse.St K) (sigma : List (K × Bool)) :
    (Gen.HomSites.dimGuardObs s.idim sigma.length = true →
      CovParse.finishObs checkCov s sigma = (s.error .DimDiffers, CovMat.mk' 0 0 0)) ∧
    (Gen.HomSites.dimGuardHdiffs s.idim sigma.length = true →
      CovParse.finishHdiffs checkCov s sigma = (s.error .DimDiffers, CovMat.mk' 0 0 0)) ∧
    (Gen.HomSites.dimGuardObs s.idim sigma.length = false →
      CovParse.finishObs checkCov s sigma = CovParse.finishObsWith false true checkCov s sigma) ∧
    (Gen.HomSites.dimGuardHdiffs s.idim sigma.length = false →
      CovParse.finishHdiffs checkCov s sigma = CovParse.finishObsWith false false checkCov s sigma) := by
  unfold Gen.HomSites.dimGuardObs Gen.HomSites.dimGuardHdiffs CovParse.finishObs CovParse.finishHdiffs
    CovParse.finishObsWith
  refine ⟨?_, ?_, ?_, ?_⟩ <;> intro h <;> simp only [Bool.true_and, Bool.false_and, h, ↓reduceIte] <;> simp

-- non-vacuity: the guard fires for dim 3 on 2 observations and not for dim 0 (no covariance) or dim = #observations
example : Gen.HomSites.dimGuardObs 3 2 = true ∧ Gen.HomSites.dimGuardObs 0 2 = false ∧
    Gen.HomSites.dimGuardHdiffs 2 2 = false ∧ Gen.HomSites.throwOnRet 1 = true ∧ Gen.HomSites.throwOnRet 0 = false := by
  decide

end Gama.Props.C10
