/-
  C05 — `C05_pe_design_matrix_is_jacobian` on an evaluated `projectEquations` output over ℝ (audit #4, remaining gap 2):
  `Ex.netWobs` (`Lemmas/PeWitnessReal.lean`; levelling, correlated cluster with a switched-off observation, all-passive
  cluster, inexact height differences), `projectEquations netWobs = .ok (npO, uO)`.  For EVERY row of the output: the
  revised observation of that row exists, is `Regular`, and the theorem gives derivative, zero columns and the misclosure
  (`rhs_ = (1,2,4)` mm — non-zero).
-/
import Gama.Lemmas.PeWitnessReal
import Gama.Props.C05ProjectEquations
namespace Gama.Props.C05ProjectEquations
open Gama Gama.Lin Gama.PE Gama.C06NZ Gama.C06NZ.Ex

/-- **`C05_pe_design_matrix_is_jacobian` applied** to every row `r < 3` of `projectEquations netWobs` -/
theorem C05_pe_design_matrix_is_jacobian_pe_witness (r : Nat) (hr : r < 3) :
    projectEquations netWobs = .ok (npO, uO) ∧
    ∃ ob, (revisedObs uO.net)[r]? = some ob ∧ Regular ob.kind ((sigmaOf uO.net).view ob) ∧
      r < npO.m ∧
      (∀ unk, (sigmaOf uO.net).isFree unk = true →
        RowDeriv ob.kind (sigmaOf uO.net) ob unk (rowSum (npO.rows.getD r #[]).toList (uO.net.idx.get unk))) ∧
      (∀ j, (∀ rc ∈ ob.kind.roles, (sigmaOf uO.net).isFree (ob.name rc.1 rc.2) = true →
          uO.net.idx.get (ob.name rc.1 rc.2) ≠ j) → rowSum (npO.rows.getD r #[]).toList j = 0) ∧
      (∃ v, npO.rhs[r]? = some v ∧ RowMisclosure ob.kind ((sigmaOf uO.net).view ob) v) := by
  have hpe : @projectEquations ℝ instTrigScalarReal netWobs = .ok (npO, uO) := by rw [← trig_eq]; exact peO
  have hi : r < (revisedObs uO.net).length := hr
  have hk : ((revisedObs uO.net)[r]).kind = .h_diff := by
    rcases (by omega : r = 0 ∨ r = 1 ∨ r = 2) with h | h | h <;> (subst h; rfl)
  have hreg : Regular ((revisedObs uO.net)[r]).kind ((sigmaOf uO.net).view ((revisedObs uO.net)[r])) := by
    rw [hk]; trivial
  exact ⟨hpe, _, List.getElem?_eq_getElem hi, hreg,
    C05_pe_design_matrix_is_jacobian netWobs npO uO hpe r _ (List.getElem?_eq_getElem hi) hreg⟩

/-- the misclosures handed to the solver are not zero -/
example : npO.rhs = #[1, 2, 4] := rfl

end Gama.Props.C05ProjectEquations
