/-
  C06 — the fixed point of the iteration, ASSEMBLED: the design matrix is the one the pass itself builds
  (`Lin.codeMatrix res.rows` = `C06FP.passMatrix res`), not an arbitrary `A` (`Props/C06.lean`,
  `C06_true_coordinates_are_a_fixed_point_of_the_iteration`).  The statement lived in
  `Lemmas/C06FixedPoint.lean` (`true_coordinates_fixed_point_codeMatrix`); here it is a property theorem,
  with the regular (full column rank) and the singular instances and a witness for each.

  By `Lemmas/AssemblyAgree.lean` the matrix is also C07's `codeMatrixOf` of the same observations and the
  fold is C14's `Rev.assemble` order; by `Props/C01/ProjectEquations.lean` it is the `rows` field of the
  `NetProblem` that `PE.projectEquations` hands to the solvers.

  `_partial`: the stopping test still takes `hpols` (the misclosures `TestLinearizationVisitor` recomputes
  from the corrected coordinates are all 0).  The full statement derives it from `ExactObs` and `x = 0`:
      pols = obs.map (pol of the class at the coordinates corrected by x = 0, v = 0)  ⇒  ∀ p ∈ pols, p = 0.
  Missing: a model of `TestLinearizationVisitor` that reads the SAME record `Lin.Obs` as the linearisation
  (`GN.polDistance/Direction/Angle/SDistance/ZAngle` take bare coordinates and Cogo's `bearingDistance`;
  `polDirection_fixed`, `polAngle_fixed` (C06GN) cover the principal range `{0, 2π}` only, `ExactObs` allows
  every `k : ℤ`).  Per class the zero is proved: `C06_fixed_point_pol_*` in `Props/C06.lean`.
-/
import Gama.Lemmas.C06FixedPoint
import Gama.Lemmas.AssemblyAgree
import Gama.Lemmas.C06AssembledExample
namespace Gama.Props.C06Assembled
open Gama Gama.Lin Gama.LS Gama.GN Gama.C06L Gama.C06R Gama.C06FP Matrix

/-- **the true coordinates are a fixed point, with the matrix and the right-hand side of ONE pass**:
    all observations exact, the pass of `project_equations` returns `res`; `A` = the design matrix the pass
    assembled, `b` = its right-hand side, `P` positive definite, `(x, v, rtr)` a least-squares solution in the
    sense of C01 for a regularisation subset that resolves the defect of `A`.  Then `x = 0`, `v = 0`,
    `[pvv] = 0`, the stopping test (on all-zero misclosures) ends the iteration and
    `refine_approx_coordinates` changes nothing -/
theorem C06_true_coordinates_fixed_point_assembled_partial
    (σ : Net ℝ) (fuel : Nat) (obs : List (NObs ℝ)) (s : IdxState) (res : PassOut ℝ)
    (hex : ∀ ob ∈ obs, ExactObs σ ob) (hp : passFrom σ fuel obs s = .ok res)
    (P : Matrix (Fin obs.length) (Fin obs.length) ℝ) (S : Finset (Fin res.idx.maxn))
    (hpd : ∀ d, d ≠ 0 → 0 < d ⬝ᵥ P *ᵥ d) (hS : Resolves (passMatrix res obs.length) S)
    (x : Fin res.idx.maxn → ℝ) (v : Fin obs.length → ℝ) (rtr : ℝ)
    (hls : IsLSSolution (passMatrix res obs.length) (fun i : Fin obs.length => res.rhs.getD i.val 0) P S x v rtr)
    (pols : List ℝ) (hpols : ∀ p ∈ pols, p = 0) (unks : List GN.Unk) (st : St ℝ) :
    res.rhs = List.replicate obs.length 0 ∧ x = 0 ∧ v = 0 ∧ rtr = 0 ∧ testLin pols = false ∧
      refine (List.ofFn x) unks st = st :=
  ⟨pass_rhs_zero σ fuel obs s res hex hp,
   true_coordinates_fixed_point_codeMatrix σ fuel obs s res hex hp P S hpd hS x v rtr hls pols hpols unks st⟩

/-- **regular case** (full column rank: fixed or sufficiently constrained network): no regularisation subset
    is needed — any `S`, in particular the empty one -/
theorem C06_true_coordinates_fixed_point_assembled_regular_partial
    (σ : Net ℝ) (fuel : Nat) (obs : List (NObs ℝ)) (s : IdxState) (res : PassOut ℝ)
    (hex : ∀ ob ∈ obs, ExactObs σ ob) (hp : passFrom σ fuel obs s = .ok res)
    (P : Matrix (Fin obs.length) (Fin obs.length) ℝ) (S : Finset (Fin res.idx.maxn))
    (hpd : ∀ d, d ≠ 0 → 0 < d ⬝ᵥ P *ᵥ d) (hker : ∀ g, passMatrix res obs.length *ᵥ g = 0 → g = 0)
    (x : Fin res.idx.maxn → ℝ) (v : Fin obs.length → ℝ) (rtr : ℝ)
    (hls : IsLSSolution (passMatrix res obs.length) (fun i : Fin obs.length => res.rhs.getD i.val 0) P S x v rtr)
    (pols : List ℝ) (hpols : ∀ p ∈ pols, p = 0) (unks : List GN.Unk) (st : St ℝ) :
    res.rhs = List.replicate obs.length 0 ∧ x = 0 ∧ v = 0 ∧ rtr = 0 ∧ testLin pols = false ∧
      refine (List.ofFn x) unks st = st :=
  C06_true_coordinates_fixed_point_assembled_partial σ fuel obs s res hex hp P S hpd
    (resolves_of_ker_trivial hker S) x v rtr hls pols hpols unks st

/-- the assembled matrix of the theorem is C05's `codeMatrix` of the rows of the pass -/
theorem C06_assembled_matrix_is_codeMatrix (res : PassOut ℝ) (m : ℕ) (i : Fin m) (j : Fin res.idx.maxn) :
    passMatrix res m i j = codeMatrix res.rows i.val (j.val + 1) := rfl

/-! ### non-vacuity -/

/-- the REGULAR instance: exact observation, successful pass, the assembled matrix `[[1]]` has trivial kernel,
    unit weights, empty regularisation subset, and a least-squares solution — every hypothesis of
    `C06_true_coordinates_fixed_point_assembled_regular_partial` holds together -/
example : ∃ res, (∀ ob ∈ regObs, ExactObs exNet ob) ∧ passFrom exNet 0 regObs IdxState.init = .ok res ∧
    (∀ g, passMatrix res regObs.length *ᵥ g = 0 → g = 0) ∧
    ∃ (P : Matrix (Fin regObs.length) (Fin regObs.length) ℝ) (x : Fin res.idx.maxn → ℝ)
      (v : Fin regObs.length → ℝ) (rtr : ℝ),
      (∀ d, d ≠ 0 → 0 < d ⬝ᵥ P *ᵥ d) ∧
      IsLSSolution (passMatrix res regObs.length) (fun i : Fin regObs.length => res.rhs.getD i.val 0) P ∅ x v rtr := by
  obtain ⟨res, h, hn, hr⟩ := regObs_pass
  refine ⟨res, regObs_exact, h, ?_, 1, 0, 0, 0, one_posDef, ?_⟩
  · intro g hg
    funext j
    have h0 := congrFun hg ⟨0, by simp [regObs]⟩
    have hj : j = ⟨0, by omega⟩ := Fin.ext (by have := j.isLt; omega)
    subst hj
    have hsum : (passMatrix res regObs.length *ᵥ g) ⟨0, by simp [regObs]⟩ = g ⟨0, by omega⟩ := by
      simp only [mulVec, dotProduct]
      rw [Finset.sum_eq_single (⟨0, by omega⟩ : Fin res.idx.maxn)]
      · simp [passMatrix, codeMatrix, hr, rowSum_cons, rowSum_nil]
      · intro b _ hb; exact absurd (Fin.ext (by have := b.isLt; omega)) hb
      · intro hne; exact absurd (Finset.mem_univ _) hne
    rw [hsum] at h0
    simpa using h0
  · rw [pass_rhs_vec_zero exNet 0 regObs _ res regObs_exact h]
    exact zero_isLSSolution _ _ _

/-- the SINGULAR instance (free network, 2 rows, 6 unknowns, all unknowns regularised) is the example of
    `Lemmas/C06FixedPoint.lean`: -/
example : ∃ res, (∀ ob ∈ exactObs, ExactObs exNet ob) ∧ passFrom exNet 0 exactObs IdxState.init = .ok res ∧
    Resolves (passMatrix res exactObs.length) Finset.univ := by
  obtain ⟨res, h⟩ := exactObs_pass_ok
  exact ⟨res, exactObs_exact, h, resolves_univ⟩

end Gama.Props.C06Assembled
