/-
  C06 — the fixed point of the iteration, ASSEMBLED: the design matrix is the one the pass itself builds
  (`Lin.codeMatrix res.rows` = `C06FP.passMatrix res`), not an arbitrary `A` (`Props/C06.lean`,
  `C06_true_coordinates_are_a_fixed_point_of_the_iteration`).  The statement lived in
  `Lemmas/C06FixedPoint.lean` (`true_coordinates_fixed_point_codeMatrix`); here it is a property theorem,
  with the regular (full column rank) and the singular instances and a witness for each.

  Lemmas-level facts about the same matrix (in no property file of their own): `Lemmas/AssemblyAgree.lean` —
  `codeMatrixOf_eq_codeMatrix`, `codeMatrixOf_obOf_eq_codeMatrix`: it is C07's `codeMatrixOf` of the same
  observations (given `passFrom = .ok` from `IdxState.init`, identity order); `Rev.assemble_visits`: C14's
  `Rev.assemble` visits the observations in the same ORDER (visiting order only, abstract `step`).  That the pass's
  rows are the `rows` field of the `NetProblem` which `PE.projectEquations` hands to the solvers is the field `rows`
  of `PE.Fresh` (`Lemmas/ProjectEquations.lean`, `assemble_fresh`, with `pe_final`); it is used by
  `C06_exact_network_solution_zero` (`Props/C06Network.lean`), not stated in `Props/C01/ProjectEquations.lean`.

  The stopping test is `TL.testLinearization` (Gama/Model/TestLinearization.lean): the loop of `TestLinearization()`
  over the observations of the pass, every `TestLinearizationVisitor::visit` REGENERATED from the source
  (Gama/Gen/TestLinVisitor.lean) on the same record `Lin.Obs` as the linearisation, reading the corrections through
  the index state the pass left (`res.idx`) and the solver's `x`, `v`.  Nothing about the misclosures is assumed:
  `Lemmas/C06PolLin.lean` derives `pol = 0` for all 13 classes from `ExactObs` (any number k : ℤ of full circles)
  and `x = 0`, `v = 0`.  `fuel'` bounds the visitor's two `while` loops: the test never answers "iterate", and from
  some fuel on it answers "stop" (over ℝ the loops always end).
-/
import Gama.Lemmas.C06FixedPoint
import Gama.Lemmas.AssemblyAgree
import Gama.Lemmas.C06AssembledExample
import Gama.Lemmas.C06PolLin
namespace Gama.Props.C06Assembled
open Gama Gama.Lin Gama.LS Gama.GN Gama.C06L Gama.C06R Gama.C06FP Gama.C06PL Gama.TL Matrix

/-- **the true coordinates are a fixed point, with the matrix, the right-hand side and the stopping test of ONE
    pass**: all observations exact, the pass of `project_equations` returns `res`; `A` = the design matrix the pass
    assembled, `b` = its right-hand side, `P` positive definite, `(x, v, rtr)` a least-squares solution in the
    sense of C01 for a regularisation subset that resolves the defect of `A`.  Then `x = 0`, `v = 0`, `[pvv] = 0`,
    `TestLinearization` — run on the same network, the same observations, the index fields the pass left and
    this `x`, `v` — does not ask for another iteration, and `refine_approx_coordinates` changes nothing -/
theorem C06_true_coordinates_fixed_point_assembled
    (σ : Net ℝ) (fuel : Nat) (obs : List (NObs ℝ)) (s : IdxState) (res : PassOut ℝ)
    (hex : ∀ ob ∈ obs, ExactObs σ ob) (hp : passFrom σ fuel obs s = .ok res)
    (P : Matrix (Fin obs.length) (Fin obs.length) ℝ) (S : Finset (Fin res.idx.maxn))
    (hpd : ∀ d, d ≠ 0 → 0 < d ⬝ᵥ P *ᵥ d) (hS : Resolves (passMatrix res obs.length) S)
    (x : Fin res.idx.maxn → ℝ) (v : Fin obs.length → ℝ) (rtr : ℝ)
    (hls : IsLSSolution (passMatrix res obs.length) (fun i : Fin obs.length => res.rhs.getD i.val 0) P S x v rtr)
    (unks : List GN.Unk) (st : St ℝ) :
    res.rhs = List.replicate obs.length 0 ∧ x = 0 ∧ v = 0 ∧ rtr = 0 ∧
      (∀ fuel', testLinearization σ fuel' res.idx (List.ofFn x) (List.ofFn v) obs ≠ some true) ∧
      (∃ f0 : Nat, ∀ fuel', f0 ≤ fuel' →
        testLinearization σ fuel' res.idx (List.ofFn x) (List.ofFn v) obs = some false) ∧
      refine (List.ofFn x) unks st = st := by
  obtain ⟨hx, hv, hr, _, hz⟩ :=
    true_coordinates_fixed_point_codeMatrix σ fuel obs s res hex hp P S hpd hS x v rtr hls [] (by simp) unks st
  obtain ⟨h1, h2⟩ := testLinearization_true_coordinates σ res.idx (List.ofFn x) (List.ofFn v) obs hex
    (xAt_ofFn_zero x hx) (xAt_ofFn_zero v hv)
  exact ⟨pass_rhs_zero σ fuel obs s res hex hp, hx, hv, hr, h1, h2, hz⟩

/-- **regular case** (full column rank: fixed or sufficiently constrained network): no regularisation subset
    is needed — any `S`, in particular the empty one -/
theorem C06_true_coordinates_fixed_point_assembled_regular
    (σ : Net ℝ) (fuel : Nat) (obs : List (NObs ℝ)) (s : IdxState) (res : PassOut ℝ)
    (hex : ∀ ob ∈ obs, ExactObs σ ob) (hp : passFrom σ fuel obs s = .ok res)
    (P : Matrix (Fin obs.length) (Fin obs.length) ℝ) (S : Finset (Fin res.idx.maxn))
    (hpd : ∀ d, d ≠ 0 → 0 < d ⬝ᵥ P *ᵥ d) (hker : ∀ g, passMatrix res obs.length *ᵥ g = 0 → g = 0)
    (x : Fin res.idx.maxn → ℝ) (v : Fin obs.length → ℝ) (rtr : ℝ)
    (hls : IsLSSolution (passMatrix res obs.length) (fun i : Fin obs.length => res.rhs.getD i.val 0) P S x v rtr)
    (unks : List GN.Unk) (st : St ℝ) :
    res.rhs = List.replicate obs.length 0 ∧ x = 0 ∧ v = 0 ∧ rtr = 0 ∧
      (∀ fuel', testLinearization σ fuel' res.idx (List.ofFn x) (List.ofFn v) obs ≠ some true) ∧
      (∃ f0 : Nat, ∀ fuel', f0 ≤ fuel' →
        testLinearization σ fuel' res.idx (List.ofFn x) (List.ofFn v) obs = some false) ∧
      refine (List.ofFn x) unks st = st :=
  C06_true_coordinates_fixed_point_assembled σ fuel obs s res hex hp P S hpd
    (resolves_of_ker_trivial hker S) x v rtr hls unks st

/-- **the stopping test alone, for every class of the visitor**: exact observations (a direction may be read any
    number `k : ℤ` of full circles off its bearing) and a zero solution ⇒ every positional misclosure
    `TestLinearization` computes is 0 — whatever index state, whatever fuel sufficed -/
theorem C06_stopping_test_misclosures_zero
    (σ : Net ℝ) (fuel : Nat) (idx : IdxState) (x v : List ℝ) (obs : List (NObs ℝ)) (pols : List ℝ)
    (hex : ∀ ob ∈ obs, ExactObs σ ob) (hx : ∀ i, GN.xAt x i = 0) (hv : ∀ i, GN.xAt v i = 0)
    (h : polsFrom σ fuel idx x v 1 obs = some pols) : pols = List.replicate obs.length 0 := by
  have h0 := polsFrom_zero σ fuel idx x v hx hv obs 1 pols hex h
  have hl : pols.length = obs.length := polsFrom_length σ fuel idx x v obs 1 pols h
  exact List.eq_replicate_iff.2 ⟨hl, h0⟩

/-- the assembled matrix of the theorem is C05's `codeMatrix` of the rows of the pass -/
theorem C06_assembled_matrix_is_codeMatrix (res : PassOut ℝ) (m : ℕ) (i : Fin m) (j : Fin res.idx.maxn) :
    passMatrix res m i j = codeMatrix res.rows i.val (j.val + 1) := rfl

/-! ### non-vacuity -/

/-- the REGULAR instance: exact observation, successful pass, the assembled matrix `[[1]]` has trivial kernel,
    unit weights, empty regularisation subset, and a least-squares solution — every hypothesis of
    `C06_true_coordinates_fixed_point_assembled_regular` holds together -/
example : ∃ res, (∀ ob ∈ regObs, ExactObs exNet ob) ∧ passFrom exNet 0 regObs IdxState.init = .ok res ∧
    (∀ g, passMatrix res regObs.length *ᵥ g = 0 → g = 0) ∧
    ∃ (P : Matrix (Fin regObs.length) (Fin regObs.length) ℝ) (x : Fin res.idx.maxn → ℝ)
      (v : Fin regObs.length → ℝ) (rtr : ℝ),
      (∀ d, d ≠ 0 → 0 < d ⬝ᵥ P *ᵥ d) ∧
      IsLSSolution (passMatrix res regObs.length) (fun i : Fin regObs.length => res.rhs.getD i.val 0) P ∅ x v rtr := by
  obtain ⟨res, h, hn, hr⟩ := regObs_pass
  refine ⟨res, regObs_exact, h, ?_, 1, 0, 0, 0, one_posDef, ?_⟩
  · intro g hg
    funext j
    have h0 := congrFun hg ⟨0, by simp [regObs]⟩
    have hj : j = ⟨0, by omega⟩ := Fin.ext (by have := j.isLt; omega)
    subst hj
    have hsum : (passMatrix res regObs.length *ᵥ g) ⟨0, by simp [regObs]⟩ = g ⟨0, by omega⟩ := by
      simp only [mulVec, dotProduct]
      rw [Finset.sum_eq_single (⟨0, by omega⟩ : Fin res.idx.maxn)]
      · simp [passMatrix, codeMatrix, hr, rowSum_cons, rowSum_nil]
      · intro b _ hb; exact absurd (Fin.ext (by have := b.isLt; omega)) hb
      · intro hne; exact absurd (Finset.mem_univ _) hne
    rw [hsum] at h0
    simpa using h0
  · rw [pass_rhs_vec_zero exNet 0 regObs _ res regObs_exact h]
    exact zero_isLSSolution _ _ _

/-- the SINGULAR instance (free network, 2 rows, 6 unknowns, all unknowns regularised) is the example of
    `Lemmas/C06FixedPoint.lean`: -/
example : ∃ res, (∀ ob ∈ exactObs, ExactObs exNet ob) ∧ passFrom exNet 0 exactObs IdxState.init = .ok res ∧
    Resolves (passMatrix res exactObs.length) Finset.univ := by
  obtain ⟨res, h⟩ := exactObs_pass_ok
  exact ⟨res, exactObs_exact, h, resolves_univ⟩

/-- the stopping test with a direction read one full circle LOW (k = −1, outside the {0, 2π} of the old per-class
    lemmas) next to the 5 m distance, on C05's example network: exact, hence "stop" from some fuel on -/
example : (∀ ob ∈ lowObs, ExactObs exNet ob) ∧
    ∃ f0 : Nat, ∀ fuel, f0 ≤ fuel → testLinearization exNet fuel IdxState.init [] [] lowObs = some false :=
  ⟨lowObs_exact, (testLinearization_true_coordinates exNet IdxState.init [] [] lowObs lowObs_exact
    (fun _ => rfl) (fun _ => rfl)).2⟩

end Gama.Props.C06Assembled
