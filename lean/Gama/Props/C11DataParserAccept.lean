/-
  C11 — gama-g3 / adjustment input `DataParser`: the number-format part of acceptance is COMPUTED.

  `DP.crun` (Model/DataParserValues.lean) runs the generated handlers on SAX events that carry the real character data:
  `text_buffer` is part of the state (`add_text` joins the pieces with a blank; children are pooled until the end handler that
  consumes them clears it), and every condition of the shape `[!]([g &&] pure_data(istr >> x1 … >> xn))` / `!(istr >> x1 … >> xn)`
  (regenerated with the kinds of the extracted variables in Gen/DataParserConds.lean) is evaluated with the stream model of
  Model/PureData.lean.  Oracle bits remain for: `Cond.other` (counters, null pointers, value comparisons, exceptions of the matrix
  code, id lookups, the xmlns loop, everything in `g3_obs_cov` behind `istr >> d >> b`) and the guard conjunct of a `pure` condition
  (`g3->model != nullptr`, `dim>0 && width<dim`).  Round 9: `deg2gon(text_buffer, …)` of `<b>`/`<l>` and the `IsFloat` / `IsInteger`
  tests of the g3 adjustment results are COMPUTED (`Cond.lit`, recognisers of Model/Literals.lean), and acceptance of a whole
  document is an IFF (`C11_dp_document_accepted_iff`).
-/
import Gama.Lemmas.DataParserValues
import Gama.Lemmas.PureDataLang
import Gama.Lemmas.DataParserValuesExamples
import Gama.Lemmas.DataParserDoc
namespace Gama.Props.C11
open Gama Gama.DP Gama.Lit

/-- `pure_data(istr >> f)`, `f` a double, accepts EXACTLY the language of `IsFloat` with a finite value — for all strings
    (the stream scanner of libstdc++ and the recogniser of intfloat.h treat trailing blanks differently, the languages coincide) -/
theorem C11_dp_numberOk_language (s : List Char) :
    PD.numberOk s = true ↔ (FloatLang s ∧ finiteLit s = true) := PD.numberOk_language s

/-- … and is the same test as `CoreParser::toDouble` of the GKF parser -/
theorem C11_dp_numberOk_is_toDouble (s : List Char) : PD.numberOk s = toDoubleOk s := PD.numberOk_eq_toDoubleOk s

/-- the run on the real text IS `DP.run` on the events whose condition bits `toAbs` computes: every `C11_dp_*` theorem
    (stated for all bit lists) holds for it -/
theorem C11_dp_value_run_is_run (cs : CSt) (evs : List CEvent) : (crun cs evs).st = run cs.st (absEvents cs evs) :=
  crun_st cs evs

/-- transfer, spelled out for three of them: a recorded error is never lost, a refusal carries a position, accepted = clean -/
theorem C11_dp_value_run_located (evs : List CEvent) :
    ((crun CSt.init evs).st.state = .s_error ↔ (crun CSt.init evs).st.err.isSome = true) ∧
    (∀ i k, (crun CSt.init evs).st.err = some (i, k) → i < evs.length) := by
  rw [crun_st]
  refine ⟨(good_iff _).mp (run_good _ _ init_good), ?_⟩
  intro i k h
  have := run_err_located (absEvents CSt.init evs) St.init i k rfl h
  have hl : ∀ (cs : CSt) (l : List CEvent), (absEvents cs l).length = l.length := by
    intro cs l
    induction l generalizing cs with
    | nil => rfl
    | cons e r ih => simp [absEvents, ih]
  rw [hl] at this
  have h1 := this.2.1
  have h0 : St.init.n = 0 := rfl
  omega

/-- every generated handler with described conditions erases to the generated skeleton the earlier theorems are about -/
theorem C11_dp_conds_erase :
    (∀ h : StartH, (cStartProg h).erase = startProg h) ∧ (∀ h : DataH, (cDataProg h).erase = dataProg h) ∧
    (∀ h : EndH, (cEndProg h).erase = endProg h) := ⟨erase_start, erase_data, erase_end⟩

/-- THE PAIR, for every element read by one `pure_data` test (`isField`: 19 end handlers, e.g. `<distance>`, `<vector>`, `<xyz>`,
    `<apriori-standard-deviation>`, `<rows>/<cols>/<nonz>`, `<dim>`), after ANY prefix without recorded error, given the guard
    conjunct holds: (a) the end event of the element records no error, moves to `after[state]` and empties `text_buffer` IFF the
    pooled text is in the language of the chain; (b) otherwise, whatever the oracle bits and whatever follows, the error recorded
    is `(index of that end event, data)` and the document is refused with exactly that location -/
theorem C11_dp_field_accept_or_located (pre post : List CEvent) (o : List Bool) (chain : List XKind) (g : Guard)
    (hclean : (crun CSt.init pre).st.err = none)
    (hh : isField (cEndProg (etag (crun CSt.init pre).st.state)) = some (chain, g)) :
    (guardOk g o = true →
      ((crun CSt.init (pre ++ [.stop o])).st.err = none ↔ pureOk chain (crun CSt.init pre).buf = true)) ∧
    (pureOk chain (crun CSt.init pre).buf = true → guardOk g o = true →
      (crun CSt.init (pre ++ [.stop o])).st.state = after (crun CSt.init pre).st.state ∧
      after (crun CSt.init pre).st.state ≠ .s_error ∧ (crun CSt.init (pre ++ [.stop o])).buf = []) ∧
    (pureOk chain (crun CSt.init pre).buf = false →
      (crun CSt.init (pre ++ .stop o :: post)).st.err = some (pre.length, .data) ∧
      outcome (crun CSt.init (pre ++ .stop o :: post)).st = .refused (some (pre.length, .data))) := by
  refine ⟨fun hg => ⟨fun he => ?_, fun hok => ?_⟩, fun hok hg => ?_, fun hbad => field_located pre post o chain g hclean hh hbad⟩
  · cases hp : pureOk chain (crun CSt.init pre).buf
    · have := (field_located pre [] o chain g hclean hh hp).1
      rw [this] at he; cases he
    · rfl
  · rw [(field_passes pre o chain g hh hok hg).1]; exact hclean
  · have := field_passes pre o chain g hh hok hg
    exact ⟨this.2.1, field_after_ok _ (by rw [hh]; rfl), this.2.2⟩

/-- the same for an element holding ONE double (`<apriori-standard-deviation>`, `<confidence-level>`, `<tol-abs>`): accepted iff the
    text is `FloatLang` with a finite value, otherwise refused at the index of its end event -/
theorem C11_dp_number_accept_or_located (pre post : List CEvent) (o : List Bool) (g : Guard)
    (hclean : (crun CSt.init pre).st.err = none)
    (hh : isField (cEndProg (etag (crun CSt.init pre).st.state)) = some ([.double], g)) :
    (guardOk g o = true →
      ((crun CSt.init (pre ++ [.stop o])).st.err = none ↔
        (FloatLang (crun CSt.init pre).buf ∧ finiteLit (crun CSt.init pre).buf = true))) ∧
    (¬ (FloatLang (crun CSt.init pre).buf ∧ finiteLit (crun CSt.init pre).buf = true) →
      (crun CSt.init (pre ++ .stop o :: post)).st.err = some (pre.length, .data) ∧
      outcome (crun CSt.init (pre ++ .stop o :: post)).st = .refused (some (pre.length, .data))) := by
  have h := C11_dp_field_accept_or_located pre post o [.double] g hclean hh
  rw [pureOk_double] at h
  refine ⟨fun hg => ?_, fun hn => h.2.2 ?_⟩
  · rw [← C11_dp_numberOk_language]; exact h.1 hg
  · rw [← C11_dp_numberOk_language] at hn
    simpa using hn

/-- DOCUMENT level, direction "accepted ⇒ every field is in its language": in a run that records no error (by
    `C11_dp_value_run_located` that is: a document that is not refused) EVERY end event handled by a field handler found its pooled
    text in the language of its chain — whatever the oracle bits.
    `_partial`: the converse (every field in its language ⇒ accepted) needs the conditions that stay oracle bits (`Cond.other`, the
    guard conjuncts) and the element structure to be right as well; what is proved in that direction is the per-element statement
    `C11_dp_field_accept_or_located` (a), after any clean prefix. -/
theorem C11_dp_accepted_fields_in_language_partial (pre post : List CEvent) (o : List Bool) (chain : List XKind) (g : Guard)
    (hacc : (crun CSt.init (pre ++ .stop o :: post)).st.err = none)
    (hh : isField (cEndProg (etag (crun CSt.init pre).st.state)) = some (chain, g)) :
    pureOk chain (crun CSt.init pre).buf = true := by
  have hclean : (crun CSt.init pre).st.err = none := by
    cases he : (crun CSt.init pre).st.err with
    | none => rfl
    | some e =>
      have := crun_err_preserved (.stop o :: post) _ e he
      rw [← crun_append, hacc] at this
      cases this
  cases hp : pureOk chain (crun CSt.init pre).buf
  · have := (field_located pre post o chain g hclean hh hp).1
    rw [hacc] at this; cases this
  · rfl

/-- DOCUMENT level, BOTH directions.  Every event gets a verdict (`DP.verdict`, Lemmas/DataParserDoc.lean), judged up to the first
    refusal: `ok`; `struct` = refused by the automaton (unknown / unexpected element, attributes, text between elements, unexpected end
    tag); `field` = a text read by a stream test `pure_data(istr >> x1 … >> xn)` / `!(istr >> …)` is not in the language of its chain;
    `computed` = a text read by `deg2gon` / `IsFloat` / `IsInteger` is not in that recogniser's language; `oracle` = a condition that is
    NOT a function of the document failed (the oracle bits `o` of the events: `g3->model != nullptr`, `dim>0 && width<dim`, point-id
    and ellipsoid-id lookups, N/E status, the xmlns attribute loop, counters and matrix code of `</obs>`, `</cov-mat>`, the adjustment
    input).  The document is accepted (no `error()` call, final state `s_stop`) IFF no event is refused for any of the four reasons
    AND the element sequence, followed through the tables `next` / `after` ALONE (`twalk`: no handler runs), ends in `s_stop`.
    What the verdicts say for the elements is `C11_dp_field_verdict` / `C11_dp_lit_verdict` below; that the state of a clean run is the
    table walk is `C11_dp_clean_run_follows_tables`.  The oracle conjunct is explicit, not hidden: for a document whose events carry
    oracle bits under which every such condition passes, `oracleBitsOk` holds and acceptance is decided by the document alone. -/
theorem C11_dp_document_accepted_iff (evs : List CEvent) :
    DP.accepted (crun CSt.init evs) ↔
      (structureOk CSt.init evs = true ∧ endsInStop CSt.init evs = true) ∧ allFieldsInLanguage CSt.init evs = true ∧
        computedCondsOk CSt.init evs = true ∧ oracleBitsOk CSt.init evs = true :=
  document_accepted_iff CSt.init evs rfl

/-- … and without the final state: no `error()` call IFF every judged event is `ok`, from any situation without recorded error -/
theorem C11_dp_document_clean_iff (cs : CSt) (evs : List CEvent) :
    (crun cs evs).st.err = none ↔ (cs.st.err = none ∧ ∀ v ∈ verdicts cs evs, v = .ok) := crun_clean_iff evs cs

/-- a run that records no error is, state by state, the walk through the tables `next[state][tag]` / `after[state]`: the handlers
    move nowhere else (all 325 states × every entry of the row × with/without attributes × end × text, by abstract execution) -/
theorem C11_dp_clean_run_follows_tables (cs : CSt) (evs : List CEvent) (h : (crun cs evs).st.err = none) :
    (crun cs evs).st.state = twalk cs.st.state evs := crun_clean_state evs cs h

/-- what the verdict says at the end event of an element read by ONE `pure_data` test (the 19 `isField` handlers), after any prefix
    without recorded error: `field` iff the pooled text is NOT in the language of the chain, `oracle` iff it is and the guard conjunct
    fails, `ok` otherwise -/
theorem C11_dp_field_verdict (pre : List CEvent) (o : List Bool) (chain : List XKind) (g : Guard)
    (hclean : (crun CSt.init pre).st.err = none)
    (hh : isField (cEndProg (etag (crun CSt.init pre).st.state)) = some (chain, g)) :
    verdict (crun CSt.init pre) (.stop o) =
      if pureOk chain (crun CSt.init pre).buf then (if guardOk g o then .ok else .oracle) else .field :=
  field_verdict _ o chain g hclean hh

/-- … and at the end event of an element guarded by a recogniser over the whole buffer (`isLitField`: `<b>`, `<l>` with `deg2gon`; the
    number elements of the g3 adjustment results with `IsFloat` / `IsInteger`): `computed` iff the pooled text is NOT in
    `Lit.deg2gonAccepts` / `Lit.isFloat` / `Lit.isInteger` (`litOk`) -/
theorem C11_dp_lit_verdict (pre : List CEvent) (o : List Bool) (k : LitKind)
    (hclean : (crun CSt.init pre).st.err = none)
    (hh : isLitField (cEndProg (etag (crun CSt.init pre).st.state)) = some k) :
    verdict (crun CSt.init pre) (.stop o) =
      if litOk k (crun CSt.init pre).buf then .ok else .computed :=
  lit_verdict _ o k hclean hh

/-- the automaton's own refusals, read from the TABLES: after any prefix without recorded error, a start tag without an entry in the
    row of the current state (`lookup = none`; every unknown element name is one) has verdict `struct` whatever its attributes and
    oracle bits; text that is not blank where the state's character-data handler is `white_spaces` has verdict `struct`; blank text
    there and any text in a state that pools it (`add_text`) is `ok` -/
theorem C11_dp_struct_verdict (pre : List CEvent) (hclean : (crun CSt.init pre).st.err = none) :
    (∀ t ae o, lookup (crun CSt.init pre).st.state t = none → verdict (crun CSt.init pre) (.start t ae o) = .struct) ∧
    (∀ x o, dataH (crun CSt.init pre).st.state = .h_white_spaces → isBlank x = false →
      verdict (crun CSt.init pre) (.text x o) = .struct) ∧
    (∀ x o, ((dataH (crun CSt.init pre).st.state = .h_white_spaces ∧ isBlank x = true) ∨
        dataH (crun CSt.init pre).st.state = .h_add_text) → verdict (crun CSt.init pre) (.text x o) = .ok) :=
  ⟨fun t ae o h => verdict_no_entry _ t ae o hclean h, fun x o h hx => verdict_text_between _ x o hclean h hx,
   fun x o h => verdict_text_ok _ x o hclean h⟩

/-! ### non-vacuity -/

open Gama.DP.Ex

/-- a valid g3 document is accepted by `crun`: no error, `s_stop`, the buffer is empty; no oracle bit says anything about a number
    (the bits present are: `xmlns` attribute, point id, N/E status, dimension tests / Cholesky of the cov-mat, tests of `</obs>`) -/
example :
    let evs := headDoc ++ obsDoc "3e-1" ++ tailDoc
    (crun CSt.init evs).st.state = .s_stop ∧ (crun CSt.init evs).st.err = none ∧ (crun CSt.init evs).buf = [] ∧
    outcome (crun CSt.init evs).st = .accepted ∧ evs.length = 94 := by decide +kernel

/-- `<dz>1x</dz>`, `<dz>-</dz>`, `<dz>1e</dz>`, an empty `<dz>`, two numbers in `<dz>`: the children of `<vector>` are pooled and
    read by `g3_obs_vector` at the END event of `<vector>` (index 70 = the first event of `tailDoc`): refused exactly there,
    whatever follows -/
example :
    let bad (dz : String) := crun CSt.init (headDoc ++ obsDoc dz ++ tailDoc)
    (headDoc ++ obsDoc "1x").length = 70 ∧
    (bad "1x").st.err = some (70, .data) ∧ (bad "-").st.err = some (70, .data) ∧ (bad "1e").st.err = some (70, .data) ∧
    outcome (bad "1x").st = .refused (some (70, .data)) ∧ (bad "").st.err = some (70, .data) ∧ (bad "1 2").st.err = some (70, .data) ∧
    (bad "1x").buf = " A B 1 +2 1x".toList := by
  decide +kernel

/-- `add_text` joins the pieces of ONE element's character data with a blank too: `10` `.5` delivered as two pieces is read as two
    numbers and `<distance>` is refused at its end event (index 54) — the recorded chunk sensitivity of the reader -/
example :
    (crun CSt.init (headDoc ++ obsDoc "3" ["10", ".5"] ++ tailDoc)).st.err = some (54, .data) ∧
    (crun CSt.init (headDoc ++ obsDoc "3" ["10", ".5"] ++ tailDoc)).buf = " A B 10 .5".toList := by decide +kernel

/-- the hypotheses of the pair theorem are met: after `headDoc ++ obsDoc dz` (no error) the state's end handler is the field handler
    `g3_obs_vector` with chain word word double double double, guarded by `g3->model != nullptr`; and the one-double instance:
    inside `<apriori-standard-deviation>` -/
example :
    let pre := headDoc ++ obsDoc "1x"
    (crun CSt.init pre).st.err = none ∧
    isField (cEndProg (etag (crun CSt.init pre).st.state)) = some ([.word, .word, .double, .double, .double], .modelNonNull) ∧
    pureOk [.word, .word, .double, .double, .double] (crun CSt.init pre).buf = false ∧
    pureOk [.word, .word, .double, .double, .double] (crun CSt.init (headDoc ++ obsDoc "3")).buf = true ∧ guardOk .modelNonNull [] = true := by
  decide +kernel

example :
    let pre : List CEvent := [.start .t_gama_data true [], .start .t_g3_model true [], .start .t_constants true [],
      .start .t_apriori_sd true [], .text "1e".toList []]
    (crun CSt.init pre).st.err = none ∧ isField (cEndProg (etag (crun CSt.init pre).st.state)) = some ([.double], .modelNonNull) ∧
    (crun CSt.init pre).buf = " 1e".toList ∧ (crun CSt.init (pre ++ [.stop []])).st.err = some (5, .data) := by decide +kernel

/-- the document theorem on concrete documents.  The 94-event document: all five conjuncts hold, accepted.  One change each:
    `<dz>1x` ⇒ ONLY `allFieldsInLanguage` fails (71 events judged: 70 `ok`, then `field` at `</vector>`); the guard bit of `</vector>`
    false ⇒ only `oracleBitsOk` fails; an unknown element after `<g3-model>` ⇒ only `structureOk` fails; the document cut before its
    last end tag ⇒ every verdict `ok`, only `endsInStop` fails (not accepted, no error recorded) -/
example :
    let good := headDoc ++ obsDoc "3e-1" ++ tailDoc
    let c (evs : List CEvent) := (structureOk CSt.init evs, endsInStop CSt.init evs, allFieldsInLanguage CSt.init evs,
      computedCondsOk CSt.init evs, oracleBitsOk CSt.init evs)
    c good = (true, true, true, true, true) ∧ (crun CSt.init good).st.err = none ∧ (crun CSt.init good).st.state = .s_stop ∧
    c (headDoc ++ obsDoc "1x" ++ tailDoc) = (true, true, false, true, true) ∧
    verdicts CSt.init (headDoc ++ obsDoc "1x" ++ tailDoc) = List.replicate 70 .ok ++ [.field] ∧
    c (headDoc ++ obsDoc "3" ++ [.stop [false]] ++ tailDoc.drop 1) = (true, true, true, true, false) ∧
    (c (headDoc.take 3 ++ [CEvent.start .t_unknown true []] ++ headDoc.drop 3 ++ obsDoc "3" ++ tailDoc)).1 = false ∧
    c (good.take 93) = (true, false, true, true, true) ∧ (crun CSt.init (good.take 93)).st.err = none := by
  decide +kernel

/-- `computed`: a g3 point with `<b>` = `50-30-00` is passed, `<b>` = `50-30-00x` (not in the language of `deg2gon`) is refused at
    `</b>` (event 8) with verdict `computed` and nothing else; the hypotheses of `C11_dp_lit_verdict` are met there; a point id the
    model does not know (oracle bit of `</id>`) gives verdict `oracle` at event 5 -/
example :
    let pt (b : String) (idbit : Bool) : List CEvent :=
      [.start .t_gama_data false [false], .start .t_g3_model true [], .start .t_point true []] ++ el .t_id "A" [idbit] ++
        [.start .t_b true [], .text b.toList []]
    verdicts CSt.init (pt "50-30-00" false ++ [.stop []]) = List.replicate 9 .ok ∧
    verdicts CSt.init (pt "50-30-00x" false ++ [.stop []]) = List.replicate 8 .ok ++ [.computed] ∧
    (crun CSt.init (pt "50-30-00x" false ++ [.stop []])).st.err = some (8, .data) ∧
    (crun CSt.init (pt "50-30-00x" false)).st.err = none ∧
    isLitField (cEndProg (etag (crun CSt.init (pt "50-30-00x" false)).st.state)) = some .deg2gon ∧
    litOk .deg2gon (crun CSt.init (pt "50-30-00x" false)).buf = false ∧ litOk .deg2gon " 50-30-00".toList = true ∧
    verdicts CSt.init (pt "50-30-00" true) = List.replicate 5 .ok ++ [.oracle] := by
  decide +kernel

/-- hypotheses of `C11_dp_struct_verdict` on concrete prefixes: inside `<g3-model>` there is no entry for `<dx>` nor for an unknown
    name, and text there is handled by `white_spaces`; inside `<apriori-standard-deviation>` text is pooled -/
example :
    let pre : List CEvent := [.start .t_gama_data true [], .start .t_g3_model true []]
    (crun CSt.init pre).st.err = none ∧ lookup (crun CSt.init pre).st.state .t_dx = none ∧
    lookup (crun CSt.init pre).st.state .t_unknown = none ∧ dataH (crun CSt.init pre).st.state = .h_white_spaces ∧
    isBlank "x".toList = false ∧
    dataH (crun CSt.init (pre ++ [.start .t_constants true [], .start .t_apriori_sd true []])).st.state = .h_add_text := by
  decide +kernel

/-- the elements guarded by a recogniser on this tree: 2 with `deg2gon` (`<b>`, `<l>`), 50 with `IsFloat`, 8 with `IsInteger` -/
example :
    (EndH.all.filter (fun h => isLitField (cEndProg h) == some .deg2gon)).length = 2 ∧
    (EndH.all.filter (fun h => isLitField (cEndProg h) == some .isFloat)).length = 50 ∧
    (EndH.all.filter (fun h => isLitField (cEndProg h) == some .isInteger)).length = 8 := by
  decide +kernel

/-- the field handlers of the current tree (shape recognised by `isField`) -/
example : (EndH.all.filter (fun h => (isField (cEndProg h)).isSome)).length = 19 := by decide +kernel

end Gama.Props.C11
