/-
  C09 (and C12) — the statistic fields of the adjustment XML are the regenerated statistics formulas applied to the
  answer of `LocalNetwork` (round 9; audit #3 "the XML statistic fields", C09 missing 3).

    C09_xml_statistic_sites                  `decide` on the two REGENERATED tables of `LocalNetworkXML` (C12's operand table
                                             `Gen/XmlSites.lean`, C09's resolved table `Gen/StatsXmlSites.lean`): they list the same
                                             statistic sites, every resolved accessor expression is classified, the formula is the one
                                             the element's tag names, and the unit factor `sc` sits on `<stdev>`, `<err-obs>`,
                                             `<err-adj>` only.  A writer that prints another accessor under a tag (`<qrr>` ←
                                             `weight_obs(i)`), drops the `fabs`, squares `m_0()` differently or renames a local changes a
                                             regenerated `source` and this theorem fails BY NAME.
    C09_xml_statistics_are_model_statistics  for `netSolve alg np = .ok a` under the ONE input-side hypothesis (`InputGap`): the table
                                             fact, and the value of every statistic field (`Stats.Xml.value` = the regenerated
                                             `StatsGen` formula on `a`'s `defect`, `[pvv]`, `qbb(k,k)`, `qxx`, `r`, the observation's own
                                             `stdDev()`), with what the formula theorems say about it: `<degrees-of-freedom>` =
                                             `m − n + defect`, `<aposteriori>²·dof = [pvv]`, `<stdev>² = m0²·qbb/p`, `<qrr> = 1/p − qbb/p ≥ 0`,
                                             `<f> = 100·|1 − √qbb|`, `<std-residual>·stdev_res = |r_k|`, `<err-obs>·(qrr·p) = r_k`,
                                             `<err-adj> = <err-obs> − r_k`, `<flt> = m0²·qxx`.
    C09_xml_ellipse_is_model_ellipse         `<major>`, `<minor>`, `<alpha>` are the components of `StatsGen.stdErrorEllipse` on the 2×2
                                             block of `a.qxx`, which is the eigen-decomposition of that block (`IsEigenEllipse`).
  For a CORRELATED cluster `<stdev>`, `<qrr>`, `<f>`, `<std-residual>` are these formulas on the WHITENED row (C09-F1 / C07-F2:
  `Props/C09Correlated.lean` says exactly when that is the standard deviation of the adjusted observation, and bounds the
  difference); `<err-obs>`/`<err-adj>` are printed for `bandWidth() == 0` only.
-/
import Gama.Lemmas.StatsXml
import Gama.Props.C09InputGap
namespace Gama.Props.C09
open Gama Gama.Stats Gama.Stats.Xml Gama.Ls Gama.Ls.Net Gama.LS Matrix Real

set_option linter.unusedVariables false

/-- **the site ↔ formula table**, kernel-evaluated on the two regenerated tables of the tree being checked -/
theorem C09_xml_statistic_sites : Xml.tableOK = true := by decide +kernel

/-- the table fact spelled out: every statistic site of C12's regenerated operand table is a row of C09's resolved table,
    whose accessor expression is the formula the element's tag names -/
theorem C09_xml_statistic_sites_spec :
    ∀ s ∈ Gen.XmlSites.sites, Xml.isStat s = true →
      ∃ r ∈ StatsXmlSites.sites, r.tag = s.tag ∧ r.fn = s.fn ∧ r.operand = s.operand ∧
        ∃ st, Xml.classify r.source = some st ∧ Xml.expected r.tag r.operand = some st ∧ r.unit = Xml.unitOf st := by
  intro s hs hstat
  have h := C09_xml_statistic_sites
  unfold Xml.tableOK Xml.sameSites at h
  simp only [Bool.and_eq_true, List.all_eq_true, List.any_eq_true, List.mem_filter, beq_iff_eq] at h
  obtain ⟨⟨h1, -⟩, h2⟩ := h
  obtain ⟨r, hr, ⟨e1, e2⟩, e3⟩ := h1 s ⟨hs, hstat⟩
  refine ⟨r, hr, e1, e2, e3, ?_⟩
  have h3 := h2 r hr
  unfold Xml.rowOK at h3
  cases hc : Xml.classify r.source with
  | none => rw [hc] at h3; cases h3
  | some st =>
    rw [hc] at h3
    simp only [Bool.and_eq_true, decide_eq_true_eq, beq_iff_eq] at h3
    exact ⟨st, rfl, h3.1, h3.2⟩

/-- **every statistic field of the XML result is the regenerated formula on `netSolve`'s answer** (observation `k`,
    unknown `i`; all four algorithms, correlated clusters and excluded observations included) -/
theorem C09_xml_statistics_are_model_statistics (alg : Alg) (np : NetProblem ℝ)
    (hdim : (dimsN np).sum = np.m) (hrows : RowsOK (toProblem np)) (hsapr : 0 < np.m0)
    (P : Matrix (Fin (toProblem np).m) (Fin (toProblem np).m) ℝ) (hP : (toProblem np).C * P = 1)
    (hreg : Env.RegListOK (toProblem np)) {τ : ℝ}
    (hg : InputGap alg (toProblem np).A P (toProblem np).S τ)
    (a : NetAnswer ℝ) (h : netSolve alg np = .ok a) (c : Xml.Cfg)
    (i : Fin (toProblem np).n) (k : Fin (toProblem np).m) :
    Xml.tableOK = true ∧
    -- <degrees-of-freedom>, <defect>, <sum-of-squares>, <apriori>
    Xml.value np a c .dof 0 0 0 = .ok (((np.m : ℤ) - np.n + a.defect : ℤ) : ℝ) ∧
    Xml.value np a c .defect 0 0 0 = .ok (a.defect : ℝ) ∧ Xml.value np a c .pvv 0 0 0 = .ok a.pvv ∧
    Xml.value np a c .apriori 0 0 0 = .ok np.m0 ∧
    -- <aposteriori>, <ratio>
    (∃ s0, Xml.value np a c .aposteriori 0 0 0 = .ok s0 ∧ 0 ≤ s0 ∧ s0 = StatsGen.m0Aposteriori a.pvv (a.dof np) ∧
      (0 < a.dof np → s0 ^ 2 * ((a.dof np : ℤ) : ℝ) = a.pvv) ∧ (a.dof np ≤ 0 → s0 = 0) ∧
      ∃ t, Xml.value np a c .ratio 0 0 0 = .ok t ∧ (a.dof np ≠ 0 → t * np.m0 = s0) ∧ (a.dof np = 0 → t = 0)) ∧
    ∃ (m0 qii bkk sL qv : ℝ),
      a.m0 np c.act = .ok m0 ∧ 0 ≤ m0 ∧ a.qxx (i.val + 1) (i.val + 1) = .ok qii ∧ 0 ≤ qii ∧
      a.qbb (k.val + 1) (k.val + 1) = .ok bkk ∧ 0 ≤ bkk ∧ bkk ≤ 1 ∧ 0 < Net.weightObs np (k.val + 1) ∧
      -- <flt> on the diagonal
      Xml.value np a c .cov 0 (i.val + 1) (i.val + 1) = .ok (m0 ^ 2 * qii) ∧
      -- <stdev> (before the unit factor)
      Xml.value np a c .stdev (k.val + 1) 0 0 = .ok sL ∧ 0 ≤ sL ∧
        sL ^ 2 = m0 ^ 2 * (bkk / Net.weightObs np (k.val + 1)) ∧
      -- <qrr>
      Xml.value np a c .qrr (k.val + 1) 0 0 = .ok qv ∧ 0 ≤ qv ∧
        qv = 1 / Net.weightObs np (k.val + 1) - bkk / Net.weightObs np (k.val + 1) ∧
      -- <f>
      Xml.value np a c .f (k.val + 1) 0 0 = .ok (100 * |1 - √bkk|) ∧
      -- <std-residual>
      (∃ no, Xml.value np a c .stdRes (k.val + 1) 0 0 = .ok no ∧ 0 ≤ no ∧
        StatsGen.stdevRes m0 qv ^ 2 = m0 ^ 2 * qv ∧
        (0 < StatsGen.stdevRes m0 qv → no * StatsGen.stdevRes m0 qv = |Dn.vget a.r k.val|) ∧
        (StatsGen.stdevRes m0 qv ≤ 0 → no = 0)) ∧
      -- <err-obs>, <err-adj> (before the unit factor)
      (∃ em ev, Xml.value np a c .errObs (k.val + 1) 0 0 = .ok em ∧ Xml.value np a c .errAdj (k.val + 1) 0 0 = .ok ev ∧
        ev = em - Dn.vget a.r k.val ∧
        (qv * Net.weightObs np (k.val + 1) ≠ 0 → em * (qv * Net.weightObs np (k.val + 1)) = Dn.vget a.r k.val)) := by
  have hphi : 0 ≤ a.pvv := by
    have T2 := C09_net_side_conditions alg np
    revert T2 hdim hrows P hP hreg hg a h i k
    rw [scalarReal_eq_fieldScalar]
    intro hdim hrows P hP hreg hg a h i k T2
    have hm0 : np.m0 ≠ 0 := hsapr.ne'
    obtain ⟨hPc, hPe⟩ := weight_unscale_field np hm0 hdim P hP
    rw [← hPe] at hg
    have hyp := Props.C01.C01_net_solverhyp_of_inputgap np hdim hrows hm0 _ hPc hreg alg hg
    exact (T2 hdim hrows hm0 P hP hyp a h).1
  obtain ⟨m0, qii, bkk, h1, h2, h3, h4, h5, h6, h7, h8, h9, ⟨sL, s1, s2, s3⟩, ⟨qv, q1, q2, q3, q4⟩⟩ :=
    C09_stdev_of_net_gap alg np hdim hrows hsapr P hP hreg hg a h c.act i k
  have hm0' : Xml.ofStr (a.m0 np c.act) = .ok m0 := by rw [h1]; rfl
  refine ⟨C09_xml_statistic_sites, rfl, rfl, rfl, rfl, ?_, m0, qii, bkk, sL, qv, h1, h2, h3, h4, h6, h7, h8, h9, ?_, s1, s2,
    s3, q1, q2, q3, ?_, ?_, ?_⟩
  · -- <aposteriori>, <ratio>
    refine ⟨StatsGen.xmlAposteriori a.pvv (a.dof np), rfl, ?_, ?_, ?_, ?_, StatsGen.xmlRatio a.pvv np.m0 (a.dof np), rfl, ?_, ?_⟩
    · show 0 ≤ StatsGen.xmlAposteriori a.pvv (a.dof np)
      unfold StatsGen.xmlAposteriori
      split
      · exact Real.sqrt_nonneg _
      · exact le_refl 0
    · rfl
    · intro hd
      show StatsGen.xmlAposteriori a.pvv (a.dof np) ^ 2 * _ = _
      unfold StatsGen.xmlAposteriori
      rw [if_pos hd]
      have hdr : (0 : ℝ) < ((a.dof np : ℤ) : ℝ) := by exact_mod_cast hd
      simp only [sqrt_real, ofInt_real]
      rw [Real.sq_sqrt (div_nonneg hphi hdr.le)]
      field_simp
    · intro hd
      show StatsGen.xmlAposteriori a.pvv (a.dof np) = 0
      unfold StatsGen.xmlAposteriori
      rw [if_neg (not_lt.mpr hd)]
    · intro hd
      show StatsGen.xmlRatio a.pvv np.m0 (a.dof np) * np.m0 = StatsGen.xmlAposteriori a.pvv (a.dof np)
      unfold StatsGen.xmlRatio
      rw [if_pos hd]
      show StatsGen.m0Aposteriori a.pvv (a.dof np) / np.m0 * np.m0 = _
      rw [div_mul_cancel₀ _ hsapr.ne']
      rfl
    · intro hd
      show StatsGen.xmlRatio a.pvv np.m0 (a.dof np) = 0
      unfold StatsGen.xmlRatio
      rw [if_neg (not_not.mpr hd)]
  · -- <flt>
    show (match Xml.ofStr (a.m0 np c.act), a.qxx (i.val + 1) (i.val + 1) with
      | .ok m0, .ok q => Except.ok (StatsGen.covEntry m0 q)
      | .error e, _ => .error e
      | _, .error e => .error e) = _
    rw [hm0', h3]
    show Except.ok (StatsGen.covEntry m0 qii) = _
    unfold StatsGen.covEntry
    simp only [pow_two]
  · -- <f>
    show (a.qbb (k.val + 1) (k.val + 1)).map StatsGen.obsControl = _
    rw [h6]
    show Except.ok (StatsGen.obsControl bkk) = _
    unfold StatsGen.obsControl
    simp only [sqrt_real, abs_real, ofNat_real]
    norm_num
  · -- <std-residual>
    obtain ⟨r1, r2, -⟩ := C09_studentized_guard_full (StatsGen.stdevRes m0 qv) (Dn.vget a.r k.val) 1 one_pos
    refine ⟨|StatsGen.studentizedResidual (StatsGen.stdevRes m0 qv) (Dn.vget a.r k.val)|, ?_, abs_nonneg _, q4, ?_, ?_⟩
    · show (match Xml.ofStr (a.m0 np c.act), a.wcoefRes np (k.val + 1) with
        | .ok m0, .ok qv => Except.ok |StatsGen.studentizedResidual (StatsGen.stdevRes m0 qv) (Dn.vget a.r (k.val + 1 - 1))|
        | .error e, _ => .error e
        | _, .error e => .error e) = _
      rw [hm0', q1]
      simp only [Nat.add_sub_cancel]
    · intro hpos
      rw [← abs_of_pos hpos, ← abs_mul, abs_of_pos hpos, r1 hpos]
    · intro hle
      rw [r2 hle, abs_zero]
  · -- <err-obs>, <err-adj>
    refine ⟨(StatsGen.errObsAdj (Dn.vget a.r k.val) qv (Net.weightObs np (k.val + 1))).1,
      (StatsGen.errObsAdj (Dn.vget a.r k.val) qv (Net.weightObs np (k.val + 1))).2, ?_, ?_, rfl,
      fun hne => (C09_err_obs_adj (Dn.vget a.r k.val) qv (Net.weightObs np (k.val + 1)) hne).1⟩
    · show (a.wcoefRes np (k.val + 1)).map _ = _
      rw [q1]
      simp only [Nat.add_sub_cancel]
      rfl
    · show (a.wcoefRes np (k.val + 1)).map _ = _
      rw [q1]
      simp only [Nat.add_sub_cancel]
      rfl

/-- **`<major>`, `<minor>`, `<alpha>`** are the three components of the regenerated `std_error_ellipse` on the 2×2 block
    `qxx(iy,iy), qxx(iy,ix), qxx(ix,ix)` of the answer and on the value of `m_0()`, and that triple IS the
    eigen-decomposition of the block (`IsEigenEllipse`, `C09_ellipse_spec`): semi-axes `m0·√λ₁ ≥ m0·√λ₂`, bearing of the
    major axis in `[0, π)` -/
theorem C09_xml_ellipse_is_model_ellipse (alg : Alg) (np : NetProblem ℝ)
    (hdim : (dimsN np).sum = np.m) (hrows : RowsOK (toProblem np)) (hsapr : 0 < np.m0)
    (P : Matrix (Fin (toProblem np).m) (Fin (toProblem np).m) ℝ) (hP : (toProblem np).C * P = 1)
    (hreg : Env.RegListOK (toProblem np)) {τ : ℝ}
    (hg : InputGap alg (toProblem np).A P (toProblem np).S τ)
    (a : NetAnswer ℝ) (h : netSolve alg np = .ok a) (c : Xml.Cfg) (ix iy : Fin (toProblem np).n) :
    ∃ m0 cyy cyx cxx : ℝ, a.m0 np c.act = .ok m0 ∧ 0 ≤ m0 ∧
      a.qxx (iy.val + 1) (iy.val + 1) = .ok cyy ∧ a.qxx (iy.val + 1) (ix.val + 1) = .ok cyx ∧
      a.qxx (ix.val + 1) (ix.val + 1) = .ok cxx ∧
      Xml.value np a c .ellMajor 0 (ix.val + 1) (iy.val + 1) = .ok (StatsGen.stdErrorEllipse cyy cyx cxx m0).1 ∧
      Xml.value np a c .ellMinor 0 (ix.val + 1) (iy.val + 1) = .ok (StatsGen.stdErrorEllipse cyy cyx cxx m0).2.1 ∧
      Xml.value np a c .ellAlpha 0 (ix.val + 1) (iy.val + 1) = .ok (StatsGen.stdErrorEllipse cyy cyx cxx m0).2.2 ∧
      IsEigenEllipse cxx cyx cyy m0 (StatsGen.stdErrorEllipse cyy cyx cxx m0) := by
  have key : 0 ≤ a.pvv ∧ ∀ m0 : ℝ, 0 ≤ m0 → ∃ cyy cyx cxx : ℝ,
      a.qxx (iy.val + 1) (iy.val + 1) = .ok cyy ∧ a.qxx (iy.val + 1) (ix.val + 1) = .ok cyx ∧
      a.qxx (ix.val + 1) (ix.val + 1) = .ok cxx ∧
      IsEigenEllipse cxx cyx cyy m0 (StatsGen.stdErrorEllipse cyy cyx cxx m0) := by
    have T := C09_ellipse_of_net alg np
    have T2 := C09_net_side_conditions alg np
    revert T T2 hdim hrows P hP hreg hg a h ix iy
    rw [scalarReal_eq_fieldScalar]
    intro hdim hrows P hP hreg hg a h ix iy T T2
    have hm0 : np.m0 ≠ 0 := hsapr.ne'
    obtain ⟨hPc, hPe⟩ := weight_unscale_field np hm0 hdim P hP
    rw [← hPe] at hg
    have hyp := Props.C01.C01_net_solverhyp_of_inputgap np hdim hrows hm0 _ hPc hreg alg hg
    refine ⟨(T2 hdim hrows hm0 P hP hyp a h).1, fun m0 hm => ?_⟩
    obtain ⟨cyy, cyx, cxx, r1, r2, r3, -, -, -, -, he⟩ := T hdim hrows P hP hyp a h ix iy m0 hm
    exact ⟨cyy, cyx, cxx, r1, r2, r3, he⟩
  obtain ⟨hphi, hk⟩ := key
  obtain ⟨m0, hm, ha, hb, hc, -, -⟩ := C09_m0_guard_full c.act np.m0 a.pvv 1 (a.dof np) hphi one_pos
  have hnn : 0 ≤ m0 := by
    cases hact : c.act with
    | apriori => rw [ha hact]; exact hsapr.le
    | aposteriori =>
      by_cases hd : 0 < a.dof np
      · exact (hb hact hd).2
      · rw [hc hact (not_lt.mp hd)]
  obtain ⟨cyy, cyx, cxx, r1, r2, r3, he⟩ := hk m0 hnn
  have hm' : a.m0 np c.act = .ok m0 := hm
  have hm0' : Xml.ofStr (a.m0 np c.act) = .ok m0 := by rw [hm']; rfl
  refine ⟨m0, cyy, cyx, cxx, hm', hnn, r1, r2, r3, ?_, ?_, ?_, he⟩ <;>
  · unfold Xml.value
    simp only [hm0', r1, r2, r3]
    rfl

/-! ## non-vacuity -/

section examples
open Gama.Ls.Ex

/-- the statistic sites exist: C12's table has 26 of them, C09's resolved table has the same 26 rows -/
example : (Gen.XmlSites.sites.filter Xml.isStat).length = 26 ∧ StatsXmlSites.sites.length = 26 := by decide +kernel

/-- one row read off the regenerated table: `<qrr>` streams the local `qrr`, defined as `netinfo->wcoef_res(i)`, which is
    classified as the residual cofactor `StatsGen.wcoefRes`, not rescaled -/
example : (⟨"qrr", "observations", "qrr", "netinfo->wcoef_res(i)", false⟩ : StatsXmlSites.StatSite) ∈ StatsXmlSites.sites ∧
    Xml.classify "netinfo->wcoef_res(i)" = some .qrr := by decide +kernel

/-- sensitivity of the table check: a writer that printed the WEIGHT under `<qrr>` is not accepted -/
example : Xml.rowOK ⟨"qrr", "observations", "qrr", "netinfo->weight_obs(i)", false⟩ = false := by decide +kernel

/-- … nor one that forgot the `fabs` of `<std-residual>`, nor one that rescaled `<qrr>` by the angular unit -/
example : Xml.rowOK ⟨"std-residual", "observations", "no", "netinfo->studentized_residual(i)", false⟩ = false ∧
    Xml.rowOK ⟨"qrr", "observations", "qrr", "netinfo->wcoef_res(i)", true⟩ = false := by decide +kernel

/-- `C09_xml_statistics_are_model_statistics` APPLIED over ℝ to `Ex.npR` (correlated cluster with an excluded
    observation, defect 1; envelope, cholesky, gso; both `sigma-act` modes; every unknown and observation): every
    hypothesis discharged, the model answers, and `<degrees-of-freedom>` = 3 − 2 + 1 = 2 -/
example (alg : Alg) (halg : alg ≠ .svd) (c : Xml.Cfg) (i : Fin (toProblem npR).n) (k : Fin (toProblem npR).m) :
    ∃ (a : NetAnswer ℝ) (qv : ℝ), netSolve alg npR = .ok a ∧ Xml.value npR a c .dof 0 0 0 = .ok 2 ∧
      Xml.value npR a c .qrr (k.val + 1) 0 0 = .ok qv ∧ 0 ≤ qv := by
  have T := C09_xml_statistics_are_model_statistics alg npR
  have G := Props.C01.C01_net_inputgap_witness alg halg
  have A := Props.C01.C01_net_answers_witness alg halg
  revert T G A i k
  rw [scalarReal_eq_fieldScalar]
  intro i k T G A
  obtain ⟨a, ha, hd⟩ := A
  obtain ⟨-, t1, -, -, -, -, m0, qii, bkk, sL, qv, -, -, -, -, -, -, -, -, -, -, -, -, q1, q2, -⟩ :=
    T (npW_dims 2 [1]) (npW_rows 2 [1]) (by show (0 : ℝ) < 2; norm_num) _
      (weight_of_sigma npR (npW_dims 2 [1]) (by show (2 : ℝ) ≠ 0; norm_num) PcN npR_sigma_inv)
      (npW_regListOK 2 [1] (Or.inl rfl)) G a ha c i k
  refine ⟨a, qv, ha, ?_, q1, q2⟩
  rw [t1, hd]
  show Except.ok (((3 : ℤ) - 2 + (1 : ℕ) : ℤ) : ℝ) = Except.ok 2
  norm_num

end examples

end Gama.Props.C09
