/-
  C06 clause 6 (adding observations never loses a point), AcordIntersection: obligations (d) and (e) of the step
  monotonicity `aiMono` (the hypothesis of `C06_acord2_modelled_monotone_partial`; list in `Lemmas/C06PointMono.lean`).
  (a) `arrange` monotone, (b) guards monotone in the limit, (c) lock-step of the walks remain open, so `aiMono` stays a
  hypothesis.  Lemmas: `Lemmas/C06AiMonoDE.lean`.
-/
import Gama.Lemmas.C06AiMonoDE
namespace Gama.Props.C06AiMono
open Gama Gama.Cogo Gama.Median Gama.C06R Gama.C06L Gama.Acord Gama.C06A Gama.Inter Gama.C06DE
variable {ι : Type} [DecidableEq ι]

/-- **(d) `necessary_observations(id)`** is "at least two hits" (`from()`/`to()` naming the id count once, the foresight of
    an angle once more; the two-flag walk saturates at 2), hence MONOTONE in the list `SM`: a sub-list that has the two
    observations keeps them in every super-list -/
theorem C06_necessary_observations_monotone (sm sm' : List (SMo ι ℝ)) (id : ι) :
    necessaryObs sm id = decide (2 ≤ (sm.map (hits id)).sum) ∧
    (sm.Sublist sm' → necessaryObs sm id = true → necessaryObs sm' id = true) :=
  ⟨necessaryObs_eq sm id, fun h => necessaryObs_mono h id⟩

/-- **(d) `find_missing_coordinates`**: its members are the ids named by `SM` or in the point list that have no xy; so it is
    monotone in the observations and the point list, and antitone in the known set -/
theorem C06_find_missing_monotone (lt : ι → ι → Bool) (keys keys' : List ι) (pd pd' : PD ι ℝ) (sm sm' : List (SMo ι ℝ))
    (i : ι) :
    (i ∈ findMissing lt keys pd sm ↔ (i ∈ (sm.map (fun e => obsIds e.o)).flatten ∨ i ∈ keys) ∧ (pd i).bxy = false) ∧
    ((∀ j ∈ keys, j ∈ keys') → (∀ e ∈ sm, e ∈ sm') → i ∈ findMissing lt keys pd sm → i ∈ findMissing lt keys' pd sm') ∧
    (C06G.KXY pd pd' → i ∈ findMissing lt keys pd' sm → i ∈ findMissing lt keys pd sm) :=
  ⟨mem_findMissing lt keys pd sm i, fun hk hs => findMissing_mono lt pd hk hs i, fun h => findMissing_anti lt keys sm h i⟩

/-- **(d) `solvable_data`** is monotone in the known, unselected points (more ids, more points known, fewer selected,
    `extra` kept) -/
theorem C06_solvable_data_monotone (keys keys' : List ι) (pd pd' : PD ι ℝ) (sel sel' : List ι) (extra extra' : Bool)
    (hk : ∀ i ∈ keys, (pd i).bxy = true → i ∉ sel → i ∈ keys' ∧ (pd' i).bxy = true ∧ i ∉ sel')
    (he : extra = true → extra' = true) (h : solvableData keys pd sel extra = true) :
    solvableData keys' pd' sel' extra' = true :=
  solvableData_mono hk he h

/-- **(e) the start invariant** "a point of the network without xy is in `missing_xy_`" is kept by
    `AcordIntersection::execute` (and by each of its two loop turns) for ARBITRARY data — `aiLoop` may therefore return
    as soon as `missing_xy_` holds no point without xy -/
theorem C06_acord_intersection_start_invariant (fuel : Nat) (lt : ι → ι → Bool) (keys : List ι) (extra : Bool) (xN : ℝ)
    (cls : List (Cl ι ℝ)) (alg : AiAlg) (st : AiState ι ℝ) (h : MissInv keys st) :
    MissInv keys (aiExecute fuel lt keys extra xN cls alg st).2 ∧ MissInv keys (aiLoop fuel lt keys extra xN cls st).1 :=
  ⟨aiExecute_missInv fuel lt keys extra xN cls alg st h, aiLoop_missInv fuel lt keys extra xN cls st h⟩

/-! ### non-vacuity -/

/-- one distance to point 3 is not enough, two are; an angle with `from = fs = 3` alone is (two hits of one observation) -/
example : necessaryObs ([⟨0, .distance 1 3 5⟩] : List (SMo ℕ ℝ)) 3 = false ∧
    necessaryObs ([⟨0, .distance 1 3 5⟩, ⟨1, .distance 2 3 5⟩] : List (SMo ℕ ℝ)) 3 = true ∧
    necessaryObs ([⟨0, .angle 3 1 3 1⟩] : List (SMo ℕ ℝ)) 3 = true ∧
    ([⟨0, .distance 1 3 5⟩] : List (SMo ℕ ℝ)).Sublist [⟨0, .distance 1 3 5⟩, ⟨1, .distance 2 3 5⟩] := by
  refine ⟨?_, ?_, ?_, List.Sublist.cons₂ _ (List.nil_sublist _)⟩ <;>
    (rw [necessaryObs_eq]; simp [hits, HObs.from', HObs.to'])

/-- the invariant holds at the start on a state whose only point without xy, 3, is listed as missing -/
example : MissInv [1, 2, 3] (⟨fun i => ⟨0, 0, 0, decide (i ≠ 3), false⟩, [], [3], 0⟩ : AiState ℕ ℝ) := by
  intro i _ hb
  have : i = 3 := by simpa using hb
  simp [this]

end Gama.Props.C06AiMono
