import Gama.Model.MoveToFront
open Gama
def m0 : MTF Nat Nat := MTF.init [0,1,2]
#eval let (m1,r1) := m0.get 7; let (m2,r2) := m1.get 8; let (m3,r3) := m2.get 7; let (m4,r4):= m3.get 9; let (m5,r5) := m4.get 10; (r1,r2,r3,r4,r5,m5)
