import Gama.Scalar
