/-
  Driver of the `LocalNetwork` façade model (Model/NetFacade.lean); protocol of harness/c01_net.cpp.
  The definition lines are the harness' `P …` lines (without the `P`), i.e. the system the real
  `LocalNetwork` assembled; `run <alg>` answers with the model's `R …` lines.

    net <m> <n> <m0>
    row <k> c v c v …                    (m lines: the sparse rows `Asp`)
    rhs v …                              (`rhs_`)
    cluster <dim> <band> <nobs> a_1 … a_nobs v_1 … v_size     (every cluster of OD.clusters, in order)
    minx <k> i_1 … i_k
    act apriori|aposteriori              (`m_0_apriori()`: kind of the actual reference standard deviation;
                                          kept in the driver state, default aposteriori — not part of `NetProblem`)
    run env|chol|gso|svd
  Answers of `run`: `R x …`, `R r …`, `R pvv v`, `R defect d`, `R hA <i> …` (m lines), `R hb …`,
    `R qxx <i> v_1 … v_n` (n lines, all pairs `qxx(i,j)`), `R qbb <i> v_1 … v_m` (m lines, all pairs `qbb(i,j)`),
    `R wobs …` (`weight_obs`), `R sobs …` (`stdev_obs`), `R wres …` (`wcoef_res`); a line any of whose entries is
    an error is printed as `R <tag> throw <ErrKind>` (the first error in index order) — or a single `R throw <ErrKind>`.
  Usage: drv_netfacade [float|rat]
-/
import Gama.Proto
import Gama.Model.NetFacade
open Gama Gama.Proto Gama.Ls Gama.Ls.Net

variable {K : Type} [Scalar K] [Wire K]

structure St (K : Type) where
  np : Option (NetProblem K) := none
  act : Stats.SigmaAct := .aposteriori

def showVec (tag : String) (v : Array K) : String := tag ++ v.foldl (fun s x => s ++ " " ++ Wire.render x) ""

def bool? : String → Option Bool
  | "0" => some false | "1" => some true | _ => none

/-- `tag v_1 … v_k` with `v_j = f j` (1-based); `tag throw <ErrKind>` for the first error in index order
    (harness/c01_net.cpp `row_line`) -/
def rowLine (tag : String) (k : Nat) (f : Nat → Except ErrKind K) : String :=
  match (List.range k).mapM fun j => f (j + 1) with
  | .ok vs => showVec tag vs.toArray
  | .error e => tag ++ " throw " ++ e.name

def answerLines (np : NetProblem K) (act : Stats.SigmaAct) (alg : Alg) : String :=
  match netSolve alg np with
  | .error e => "R throw " ++ e.name
  | .ok a =>
    let rows := (List.range np.m).map fun i => showVec s!"R hA {i + 1}" (a.Ad.getD i #[])
    let qxx := (List.range np.n).map fun i => rowLine s!"R qxx {i + 1}" np.n (a.qxx (i + 1))
    let qbb := (List.range np.m).map fun i => rowLine s!"R qbb {i + 1}" np.m (a.qbb (i + 1))
    "\n".intercalate ([showVec "R x" a.x, showVec "R r" a.r, "R pvv " ++ Wire.render a.pvv, s!"R defect {a.defect}"]
      ++ rows ++ [showVec "R hb" a.bd] ++ qxx ++ qbb
      ++ [rowLine "R wobs" np.m (fun i => .ok (weightObs np i)),
          rowLine "R sobs" np.m (a.stdevObs np act),
          rowLine "R wres" np.m (a.wcoefRes np)])

def step (s : St K) (line : String) : St K × String :=
  let ts := tokens line
  match ts with
  | [] => (s, "")
  | ["net", m, n, m0] =>
    match m.toNat?, n.toNat?, (Wire.parse m0 : Option K) with
    | some m, some n, some m0 => ({ np := some ⟨m, n, #[], #[], [], m0, []⟩, act := .aposteriori }, "")
    | _, _, _ => (s, "bad-op")
  | _ =>
  match s.np with
  | none => (s, "bad-op")
  | some np =>
  match ts with
  | "row" :: k :: rest =>
    match k.toNat?, parseRow (K := K) rest with
    | some kn, some r => if r.size = kn then ({ s with np := some { np with rows := np.rows.push r } }, "") else (s, "bad-op")
    | _, _ => (s, "bad-op")
  | "rhs" :: rest =>
    match parseAll (K := K) rest with
    | some vs => ({ s with np := some { np with rhs := vs.toArray } }, "")
    | none => (s, "bad-op")
  | "cluster" :: d :: b :: k :: rest =>
    match d.toNat?, b.toNat?, k.toNat? with
    | some d, some b, some k =>
      match (rest.take k).mapM bool?, parseAll (K := K) (rest.drop k) with
      | some act, some vs =>
        if act.length = k then
          ({ s with np := some { np with clusters := np.clusters ++ [⟨⟨d, b, vs.toArray⟩, act⟩] } }, "")
        else (s, "bad-op")
      | _, _ => (s, "bad-op")
    | _, _, _ => (s, "bad-op")
  | "minx" :: k :: rest =>
    match k.toNat?, rest.mapM (·.toNat?) with
    | some kn, some l => if l.length = kn then ({ s with np := some { np with minx := l } }, "") else (s, "bad-op")
    | _, _ => (s, "bad-op")
  | ["act", "apriori"] => ({ s with act := .apriori }, "")
  | ["act", "aposteriori"] => ({ s with act := .aposteriori }, "")
  | ["run", a] =>
    match Alg.parse a with
    | some alg =>
      if np.rows.size = np.m ∧ np.rhs.size = np.m then (s, answerLines np s.act alg) else (s, "bad-op")
    | none => (s, "bad-op")
  | _ => (s, "bad-op")

def main (args : List String) : IO Unit :=
  match args with
  | ["rat"] => loop (step (K := Rat)) {}
  | _ => loop (step (K := Float)) {}
