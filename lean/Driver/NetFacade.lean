/-
  Driver of the `LocalNetwork` façade model (Model/NetFacade.lean); protocol of harness/c01_net.cpp.
  The definition lines are the harness' `P …` lines (without the `P`), i.e. the system the real
  `LocalNetwork` assembled; `run <alg>` answers with the model's `R …` lines.

    net <m> <n> <m0>
    row <k> c v c v …                    (m lines: the sparse rows `Asp`)
    rhs v …                              (`rhs_`)
    cluster <dim> <band> <nobs> a_1 … a_nobs v_1 … v_size     (every cluster of OD.clusters, in order)
    minx <k> i_1 … i_k
    run env|chol|gso|svd
  Usage: drv_netfacade [float|rat]
-/
import Gama.Proto
import Gama.Model.NetFacade
open Gama Gama.Proto Gama.Ls Gama.Ls.Net

variable {K : Type} [Scalar K] [Wire K]

structure St (K : Type) where
  np : Option (NetProblem K) := none

def showVec (tag : String) (v : Array K) : String := tag ++ v.foldl (fun s x => s ++ " " ++ Wire.render x) ""

def bool? : String → Option Bool
  | "0" => some false | "1" => some true | _ => none

def answerLines (np : NetProblem K) (alg : Alg) : String :=
  match netSolve alg np with
  | .error e => "R throw " ++ e.name
  | .ok a =>
    let rows := (List.range np.m).map fun i => showVec s!"R hA {i + 1}" (a.Ad.getD i #[])
    "\n".intercalate ([showVec "R x" a.x, showVec "R r" a.r, "R pvv " ++ Wire.render a.pvv, s!"R defect {a.defect}"]
      ++ rows ++ [showVec "R hb" a.bd])

def step (s : St K) (line : String) : St K × String :=
  let ts := tokens line
  match ts with
  | [] => (s, "")
  | ["net", m, n, m0] =>
    match m.toNat?, n.toNat?, (Wire.parse m0 : Option K) with
    | some m, some n, some m0 => ({ np := some ⟨m, n, #[], #[], [], m0, []⟩ }, "")
    | _, _, _ => (s, "bad-op")
  | _ =>
  match s.np with
  | none => (s, "bad-op")
  | some np =>
  match ts with
  | "row" :: k :: rest =>
    match k.toNat?, parseRow (K := K) rest with
    | some kn, some r => if r.size = kn then ({ np := some { np with rows := np.rows.push r } }, "") else (s, "bad-op")
    | _, _ => (s, "bad-op")
  | "rhs" :: rest =>
    match parseAll (K := K) rest with
    | some vs => ({ np := some { np with rhs := vs.toArray } }, "")
    | none => (s, "bad-op")
  | "cluster" :: d :: b :: k :: rest =>
    match d.toNat?, b.toNat?, k.toNat? with
    | some d, some b, some k =>
      match (rest.take k).mapM bool?, parseAll (K := K) (rest.drop k) with
      | some act, some vs =>
        if act.length = k then
          ({ np := some { np with clusters := np.clusters ++ [⟨⟨d, b, vs.toArray⟩, act⟩] } }, "")
        else (s, "bad-op")
      | _, _ => (s, "bad-op")
    | _, _, _ => (s, "bad-op")
  | "minx" :: k :: rest =>
    match k.toNat?, rest.mapM (·.toNat?) with
    | some kn, some l => if l.length = kn then ({ np := some { np with minx := l } }, "") else (s, "bad-op")
    | _, _ => (s, "bad-op")
  | ["run", a] =>
    match Alg.parse a with
    | some alg =>
      if np.rows.size = np.m ∧ np.rhs.size = np.m then (s, answerLines np alg) else (s, "bad-op")
    | none => (s, "bad-op")
  | _ => (s, "bad-op")

def main (args : List String) : IO Unit :=
  match args with
  | ["rat"] => loop (step (K := Rat)) {}
  | _ => loop (step (K := Float)) {}
