/-
  C12 driver: runs the escaping / covariance-band / index models on the operation lines of
  harness/c12_xml.cpp.  Strings cross the protocol hex-encoded (`-` = empty).
-/
import Gama.Proto
import Gama.Model.XmlEsc
import Gama.Model.CovBand
import Gama.Model.ReaderPoint
import Gama.Model.XmlRecords
import Gama.Gen.XmlSkeleton
import Gama.Model.Consumers
open Gama Gama.Proto Gama.XmlEsc Gama.CovBand Gama.ReaderPoint Gama.XmlRec Gama.XmlDoc

def unhexBytes (s : String) : Option (List UInt8) :=
  if s = "-" then some [] else
  let rec go : List Char → Option (List UInt8)
    | [] => some []
    | [_] => none
    | a :: b :: r => do
      let x ← hexDigit? a
      let y ← hexDigit? b
      let t ← go r
      pure (UInt8.ofNat (x * 16 + y) :: t)
  go s.toList

def hexBytes (b : List UInt8) : String :=
  if b.isEmpty then "-" else String.join (b.map (fun c => hexOfNat c.toNat 2))

instance : Zero String := ⟨"0"⟩

/-- upper triangle by rows (as printed with `--cov-band -1`) ↦ `Q i j`, 1-based, `i ≤ j` -/
def upperAt (dim : Nat) (q : Array String) (i j : Nat) : String :=
  -- row i starts after rows 1..i-1 of lengths dim, dim-1, …
  let start := (i - 1) * dim - (i - 1) * (i - 2) / 2
  q.getD (start + (j - i)) "?"

def parsePts : List String → Option (List Pt × List String)
  | "|" :: rest => some ([], rest)
  | a :: b :: x :: y :: z :: rest => do
    let ix ← x.toNat?
    let iy ← y.toNat?
    let iz ← z.toNat?
    let (ps, r) ← parsePts rest
    pure (⟨a = "1", b = "1", ix, iy, iz⟩ :: ps, r)
  | _ => none

def parseOris : List String → Option (List Ori)
  | [] => some []
  | a :: b :: rest => do
    let i ← a.toNat?
    let s ← b.toNat?
    let r ← parseOris rest
    pure (⟨i, s⟩ :: r)
  | _ => none

def natList (l : List Nat) : String := " ".intercalate (l.map toString)

/-- `P I <hexid> x v y v z v E P …` : points of one section, children in document order (X/Y/Z = constrained) -/
def parsePoints : List String → List (Ev String) → List (List (Ev String)) → Option (List (List (Ev String)))
  | [], _, acc => some acc.reverse
  | "P" :: r, _, acc => parsePoints r [] acc
  | "E" :: r, cur, acc => parsePoints r [] (cur.reverse :: acc)
  | "I" :: h :: r, cur, acc =>
    match unhexBytes h with
    | some b => parsePoints r (Ev.id (hexBytes b) :: cur) acc      -- ids stay hex-encoded in the model
    | none => none
  | "x" :: v :: r, cur, acc => parsePoints r (Ev.x v false :: cur) acc
  | "X" :: v :: r, cur, acc => parsePoints r (Ev.x v true :: cur) acc
  | "y" :: v :: r, cur, acc => parsePoints r (Ev.y v false :: cur) acc
  | "Y" :: v :: r, cur, acc => parsePoints r (Ev.y v true :: cur) acc
  | "z" :: v :: r, cur, acc => parsePoints r (Ev.z v false :: cur) acc
  | "Z" :: v :: r, cur, acc => parsePoints r (Ev.z v true :: cur) acc
  | _, _, _ => none

def b01 (b : Bool) : String := if b then "1" else "0"

def showPoint (p : PointRec String) : String :=
  s!"pt {p.id} {b01 p.hxy} {b01 p.hz} {b01 p.cxy} {b01 p.cz} {p.x} {p.y} {p.z} {p.indx} {p.indy} {p.indz}"

/-! ### records: writer on the quantities dumped by `wnet`, reader on the leaves of a real document -/

/-- hex ↦ the string (UTF-8); `none` if not UTF-8 -/
def unhexStr (h : String) : Option String := do
  let b ← unhexBytes h
  String.fromUTF8? (ByteArray.mk b.toArray)

def hexStr (s : String) : String := hexBytes s.toUTF8.toList

def fnum : Num Float := ⟨showFloat, float?⟩
/-- reader side: numbers stay the printed tokens (compared as numbers by the plugin) -/
def snum : Num String := ⟨id, some⟩

def sectOf : String → Option Sect
  | "fixed" => some .fixed | "approximate" => some .approximate | "adjusted" => some .adjusted | _ => none

def kindOf (t : String) : Option OKind := OKind.all.find? (fun k => k.tag == t)

def showLeaves (numeric : String → Bool) (ls : List Leaf) : String :=
  String.join (ls.map (fun l => " " ++ l.tag ++ " " ++ (if numeric l.tag then l.data else hexStr l.data)))

def isIdTag (t : String) : Bool := t == "id" || t == "from" || t == "to" || t == "left" || t == "right"

/-- 14 tokens per point: hexid axy az ix iy iz cxy cz x y z X(ix) X(iy) X(iz) -/
def parseLPoints : List String → Option (List (LPoint Float × List (Nat × Float)))
  | [] => some []
  | h :: a :: b :: ix :: iy :: iz :: c :: d :: x :: y :: z :: cx :: cy :: cz :: rest => do
    let id ← unhexStr h
    let ix ← ix.toNat?; let iy ← iy.toNat?; let iz ← iz.toNat?
    let x ← float? x; let y ← float? y; let z ← float? z
    let cx ← float? cx; let cy ← float? cy; let cz ← float? cz
    let r ← parseLPoints rest
    pure ((⟨id, a = "1", b = "1", ix, iy, iz, c = "1", d = "1", x, y, z⟩, [(ix, cx), (iy, cy), (iz, cz)]) :: r)
  | _ => none

def mkX (tbl : List (Nat × Float)) (i : Nat) : Float := (tbl.lookup i).getD 0

/-- 4 tokens per orientation: hexid i orientation X(i) -/
def parseLOris : List String → Option (List (LOri Float × (Nat × Float)))
  | [] => some []
  | h :: i :: o :: xi :: rest => do
    let id ← unhexStr h
    let i ← i.toNat?
    let o ← float? o
    let xi ← float? xi
    let r ← parseLOris rest
    pure ((⟨id, i, o⟩, (i, xi)) :: r)
  | _ => none

/-- 13 tokens per observation: kind from to bs fs value v stdev qrr f stud weight diag -/
def parseLObs : List String → Option (List (LObs Float))
  | [] => some []
  | k :: a :: b :: c :: d :: val :: v :: sd :: qrr :: f :: st :: w :: dg :: rest => do
    let k ← kindOf k
    let a ← unhexStr a; let b ← unhexStr b; let c ← unhexStr c; let d ← unhexStr d
    let val ← float? val; let v ← float? v; let sd ← float? sd; let qrr ← float? qrr
    let f ← float? f; let st ← float? st; let w ← float? w
    let r ← parseLObs rest
    pure (⟨k, a, b, c, d, val, v, sd, qrr, f, st, w, dg = "1"⟩ :: r)
  | _ => none

/-- leaves of records: `R [tag]` starts a record, `L tag hexdata` adds a leaf -/
def parseRecs : List String → Option (String × List Leaf) → List (String × List Leaf) → Option (List (String × List Leaf))
  | [], cur, acc => some ((match cur with | some c => (c.1, c.2.reverse) :: acc | none => acc).reverse)
  | "R" :: t :: r, cur, acc => parseRecs r (some (t, [])) (match cur with | some c => (c.1, c.2.reverse) :: acc | none => acc)
  | "L" :: t :: h :: r, some c, acc =>
    match unhexStr h with
    | some d => parseRecs r (some (c.1, ⟨t, d⟩ :: c.2)) acc
    | none => none
  | _, _, _ => none

def showRErr : RErr → String
  | .unknownTag => "unknownTag" | .illegalContext => "illegalContext" | .floatSyntax => "floatSyntax"
  | .xWithoutY => "xWithoutY" | .conXWithoutY => "conXWithoutY" | .missingApproxAdj => "missingApproxAdj"
  | .obsAttrMissing => "obsAttrMissing"

def showPointS (p : PointRec String) : String :=
  s!"pt {hexStr p.id} {b01 p.hxy} {b01 p.hz} {b01 p.cxy} {b01 p.cz} {p.x} {p.y} {p.z} {p.indx} {p.indy} {p.indz}"

def showObsRec (o : ObsRec String) : String :=
  s!"obs {hexStr o.xmlTag} {hexStr o.from_} {hexStr o.to} {hexStr o.left} {hexStr o.right} {o.obs} {o.adj} {o.stdev} {o.qrr} {o.f} {o.stdResidual} {hexStr o.errObs} {hexStr o.errAdj}"

def readAllObs : List (String × List Leaf) → Except RErr (List (ObsRec String))
  | [] => .ok []
  | (t, ls) :: r => match readObs snum "0" t ls with
    | .ok o => (readAllObs r).map (o :: ·)
    | .error e => .error e

/-- `ind[]` positions ↦ `m0²·qxx(ind[i], ind[j])`, from the upper triangle of the n×n matrix of cofactors -/
def covOf (n : Nat) (q : Array Float) (ind : Array Nat) (m2 : Float) (i j : Nat) : Float :=
  let a := ind.getD (i - 1) 0
  let b := ind.getD (j - 1) 0
  let (a, b) := if a ≤ b then (a, b) else (b, a)
  m2 * q.getD ((a - 1) * n - (a - 1) * (a - 2) / 2 + (b - a)) 0

/-- `D` | `S name 0|1` followed by `A attr`… | `E name` | `C` | `T` : the tokens of a real document (blank character
    data omitted) -/
def parseRToks : List String → List RTok → Option (List RTok)
  | [], acc => some acc.reverse
  | "D" :: r, acc => parseRToks r (.decl :: acc)
  | "C" :: r, acc => parseRToks r (.comment :: acc)
  | "T" :: r, acc => parseRToks r (.chars false :: acc)
  | "E" :: n :: r, acc => parseRToks r (.etag n :: acc)
  | "S" :: n :: e :: r, acc => parseRToks r (.stag n [] (e = "1") :: acc)
  | "A" :: a :: r, .stag n as e :: acc => parseRToks r (.stag n (as ++ [a]) e :: acc)
  | _, _ => none


/-! ### consumers (compare-xyz, gama-local-deformation): ids are byte strings ordered as `std::string` -/

abbrev CId := List Nat

/-- `<hexid> hxy hz x y z indx indy indz` … up to `|` -/
def parseAPts : List String → Option (List (Consumers.APoint CId Float) × List String)
  | [] => some ([], [])
  | "|" :: rest => some ([], rest)
  | h :: a :: b :: x :: y :: z :: ix :: iy :: iz :: rest => do
    let id ← unhexBytes h
    let x ← float? x
    let y ← float? y
    let z ← float? z
    let ix ← ix.toNat?
    let iy ← iy.toNat?
    let iz ← iz.toNat?
    let (ps, r) ← parseAPts rest
    pure (⟨id.map (·.toNat), a = "1", b = "1", x, y, z, ix, iy, iz⟩ :: ps, r)
  | _ => none

def hexId (i : CId) : String := hexBytes (i.map UInt8.ofNat)

/-- `dim v11 v12 … vdd |` : the matrix as the const `CovMat::operator()` returns it, row by row -/
def parseMat : List String → Option (Nat × Array Float × List String)
  | d :: rest => do
    let dim ← d.toNat?
    let (vs, r) := rest.span (· != "|")
    let fs ← vs.mapM float?
    pure (dim, fs.toArray, r.drop 1)
  | _ => none

def matAt (dim : Nat) (a : Array Float) (i j : Nat) : Float :=
  if i = 0 ∨ j = 0 ∨ i > dim ∨ j > dim then 0 else a.getD ((i - 1) * dim + (j - 1)) 0

def showCmp (r : Consumers.Report CId Float) : String :=
  "\n".intercalate (r.rows.map (fun w =>
      s!"row {hexId w.id} {showFloat w.x1} {showFloat w.y1} {showFloat w.z1} {showFloat w.dx} {showFloat w.dy} {showFloat w.dz}")
    ++ [s!"max {showFloat r.DX} {showFloat r.DY} {showFloat r.DZ}",
        s!"result {b01 r.failed} {showFloat r.absMax} exit {Consumers.exitCode r}"])

def showDef (o : Consumers.DefOut CId Float) : String :=
  "\n".intercalate (o.diffs.map (fun d =>
      s!"row {hexId d.id} {d.indx} {d.indy} {d.indz} {showFloat d.dx} {showFloat d.dy} {showFloat d.dz} {showFloat d.x2} {showFloat d.y2} {showFloat d.z2}")
    ++ [s!"cov {o.covIndex}", "t1 " ++ natList o.t1, "t2 " ++ natList o.t2]
    ++ o.C.map (fun row => "C" ++ String.join (row.map (fun v => " " ++ showFloat v))))

def step (_ : Unit) (line : String) : Unit × String :=
  match tokens line with
  | ["esc", h] =>
    match unhexBytes h with
    | some b => ((), "ok " ++ hexBytes (str2xml b))
    | none => ((), "bad-op")
  | "band" :: _path :: d :: b :: q =>
    match d.toNat?, b.toInt? with
    | some dim, some band =>
      let qa := q.toArray
      let w := write (upperAt dim qa) dim band
      let hdr := s!"hdr {w.dim} {w.band}"
      let flt := "flt" ++ String.join (w.flt.map (" " ++ ·))
      match read w with
      | .ok C =>
        let cells := (List.range dim).flatMap (fun i => (List.range dim).map (fun j => get C (i + 1) (j + 1)))
        ((), hdr ++ "\n" ++ flt ++ "\nmat" ++ String.join (cells.map (" " ++ ·)))
      | .error e => ((), hdr ++ "\n" ++ flt ++ "\nthrow " ++ (match e with | .badSize => "badSize" | .badCount => "badCount"))
    | _, _ => ((), "bad-op")
  | "index" :: _path :: rest =>
    match parsePts rest with
    | some (pts, r) =>
      match parseOris r with
      | some oris => ((), "reader " ++ natList (readerIndexes pts oris) ++ "\norig " ++ natList (originalIndex pts oris))
      | none => ((), "bad-op")
    | none => ((), "bad-op")
  | "points" :: _path :: sect :: rest =>
    match parsePoints rest [] [] with
    | some pts =>
      match runPoints "0" (sectionStart "0" (sect = "adjusted")) pts with
      | .ok st => ((), "\n".intercalate (st.out.map showPoint ++ ["end"]))
      | .error .xWithoutY => ((), "throw xWithoutY")
      | .error .conXWithoutY => ((), "throw conXWithoutY")
    | none => ((), "bad-op")
  | "doc" :: rest =>
    match parseRToks rest [] with
    | some toks => ((), s!"accepts {b01 (accepts Gama.Gen.XmlSkeleton.writeSk toks)} {toks.length}")
    | none => ((), "bad-op")
  | "wsec" :: sect :: ys :: rest =>
    match sectOf sect, float? ys, parseLPoints rest with
    | some sc, some ys, some pts =>
      let f : Frame Float := ⟨ys, mkX (pts.flatMap (·.2)), 0, 1, 0⟩
      ((), "\n".intercalate ((writeSection fnum sc f (pts.map (·.1))).map (fun ls => "point" ++ showLeaves (· != "id") ls) ++ ["end"]))
    | _, _, _ => ((), "bad-op")
  | "wori" :: ys :: r2g :: rest =>
    match float? ys, float? r2g, parseLOris rest with
    | some ys, some r2g, some os =>
      let f : Frame Float := ⟨ys, mkX (os.map (·.2)), r2g, 1, 0⟩
      ((), "\n".intercalate ((os.map (fun o => "ori" ++ showLeaves (· != "id") (writeOri fnum f o.1))) ++ ["end"]))
    | _, _, _ => ((), "bad-op")
  | "wobs" :: ys :: r2g :: sc :: kki :: rest =>
    match float? ys, float? r2g, float? sc, float? kki, parseLObs rest with
    | some ys, some r2g, some sc, some kki, some os =>
      let f : Frame Float := ⟨ys, fun _ => 0, r2g, sc, kki⟩
      ((), "\n".intercalate ((os.map (fun o => "obs " ++ o.kind.tag ++ showLeaves (fun t => !isIdTag t) (writeObs fnum f o))) ++ ["end"]))
    | _, _, _, _, _ => ((), "bad-op")
  | "wcov" :: m0 :: b :: n :: rest =>
    match float? m0, b.toInt?, n.toNat?, parsePts rest with
    | some m0, some band, some n, some (pts, r) =>
      let (ro, rq) := r.span (· != "|")
      match parseOris ro, (rq.drop 1).mapM float? with
      | some oris, some q =>
        let ind := (indList pts oris).toArray
        let w := write (covOf n q.toArray ind (m0 * m0)) ind.size band
        ((), s!"hdr {w.dim} {w.band}\nflt" ++ String.join (w.flt.map (fun x => " " ++ showFloat x)))
      | _, _ => ((), "bad-op")
    | _, _, _, _ => ((), "bad-op")
  | "rsec" :: sect :: rest =>
    match parseRecs rest none [] with
    | some recs =>
      match readPoints snum "0" (sectionStart "0" (sect = "adjusted")) (recs.map (·.2)) with
      | .ok st => ((), "\n".intercalate (st.out.map showPointS ++ ["end"]))
      | .error e => ((), "throw " ++ showRErr e)
    | none => ((), "bad-op")
  | "roris" :: k0 :: rest =>
    match k0.toNat?, parseRecs rest none [] with
    | some k0, some recs =>
      match readOris snum ⟨⟨"", "0", "0", 0⟩, "", k0, []⟩ (recs.map (·.2)) with
      | .ok st => ((), "\n".intercalate (st.out.map (fun o => s!"orientation {hexStr o.id} {o.approx} {o.adj} {o.index}") ++ ["end"]))
      | .error e => ((), "throw " ++ showRErr e)
    | _, _ => ((), "bad-op")
  | "robs" :: rest =>
    match parseRecs rest none [] with
    | some recs =>
      match readAllObs recs with
      | .ok os => ((), "\n".intercalate (os.map showObsRec ++ ["end"]))
      | .error e => ((), "throw " ++ showRErr e)
    | none => ((), "bad-op")
  | "cmpxyz" :: tol :: rest =>
    match float? tol, parseAPts rest with
    | some tol, some (f1, r) =>
      match parseAPts r with
      | some (f2, _) => ((), showCmp (Consumers.compareXYZ Float.abs tol f1 f2))
      | none => ((), "bad-op")
    | _, _ => ((), "bad-op")
  | "deform" :: rest =>
    match parseAPts rest with
    | some (p1, r1) =>
      match parseMat r1 with
      | some (d1, m1, r2) =>
        match parseAPts r2 with
        | some (p2, r3) =>
          match parseMat r3 with
          | some (d2, m2, _) =>
            match Consumers.deformation ⟨p1, d1, matAt d1 m1⟩ ⟨p2, d2, matAt d2 m2⟩ with
            | .ok o => ((), showDef o)
            | .error .index1 => ((), "throw index1")
            | .error .index2 => ((), "throw index2")
            | .error .index12 => ((), "throw index12")
          | none => ((), "bad-op")
        | none => ((), "bad-op")
      | none => ((), "bad-op")
    | none => ((), "bad-op")
  | _ => ((), "bad-op")

def main : IO Unit := loop step ()
