/-
  C12 driver: runs the escaping / covariance-band / index models on the operation lines of
  harness/c12_xml.cpp.  Strings cross the protocol hex-encoded (`-` = empty).
-/
import Gama.Proto
import Gama.Model.XmlEsc
import Gama.Model.CovBand
import Gama.Model.ReaderPoint
open Gama Gama.Proto Gama.XmlEsc Gama.CovBand Gama.ReaderPoint

def unhexBytes (s : String) : Option (List UInt8) :=
  if s = "-" then some [] else
  let rec go : List Char → Option (List UInt8)
    | [] => some []
    | [_] => none
    | a :: b :: r => do
      let x ← hexDigit? a
      let y ← hexDigit? b
      let t ← go r
      pure (UInt8.ofNat (x * 16 + y) :: t)
  go s.toList

def hexBytes (b : List UInt8) : String :=
  if b.isEmpty then "-" else String.join (b.map (fun c => hexOfNat c.toNat 2))

instance : Zero String := ⟨"0"⟩

/-- upper triangle by rows (as printed with `--cov-band -1`) ↦ `Q i j`, 1-based, `i ≤ j` -/
def upperAt (dim : Nat) (q : Array String) (i j : Nat) : String :=
  -- row i starts after rows 1..i-1 of lengths dim, dim-1, …
  let start := (i - 1) * dim - (i - 1) * (i - 2) / 2
  q.getD (start + (j - i)) "?"

def parsePts : List String → Option (List Pt × List String)
  | "|" :: rest => some ([], rest)
  | a :: b :: x :: y :: z :: rest => do
    let ix ← x.toNat?
    let iy ← y.toNat?
    let iz ← z.toNat?
    let (ps, r) ← parsePts rest
    pure (⟨a = "1", b = "1", ix, iy, iz⟩ :: ps, r)
  | _ => none

def parseOris : List String → Option (List Ori)
  | [] => some []
  | a :: b :: rest => do
    let i ← a.toNat?
    let s ← b.toNat?
    let r ← parseOris rest
    pure (⟨i, s⟩ :: r)
  | _ => none

def natList (l : List Nat) : String := " ".intercalate (l.map toString)

/-- `P I <hexid> x v y v z v E P …` : points of one section, children in document order (X/Y/Z = constrained) -/
def parsePoints : List String → List (Ev String) → List (List (Ev String)) → Option (List (List (Ev String)))
  | [], _, acc => some acc.reverse
  | "P" :: r, _, acc => parsePoints r [] acc
  | "E" :: r, cur, acc => parsePoints r [] (cur.reverse :: acc)
  | "I" :: h :: r, cur, acc =>
    match unhexBytes h with
    | some b => parsePoints r (Ev.id (hexBytes b) :: cur) acc      -- ids stay hex-encoded in the model
    | none => none
  | "x" :: v :: r, cur, acc => parsePoints r (Ev.x v false :: cur) acc
  | "X" :: v :: r, cur, acc => parsePoints r (Ev.x v true :: cur) acc
  | "y" :: v :: r, cur, acc => parsePoints r (Ev.y v false :: cur) acc
  | "Y" :: v :: r, cur, acc => parsePoints r (Ev.y v true :: cur) acc
  | "z" :: v :: r, cur, acc => parsePoints r (Ev.z v false :: cur) acc
  | "Z" :: v :: r, cur, acc => parsePoints r (Ev.z v true :: cur) acc
  | _, _, _ => none

def b01 (b : Bool) : String := if b then "1" else "0"

def showPoint (p : PointRec String) : String :=
  s!"pt {p.id} {b01 p.hxy} {b01 p.hz} {b01 p.cxy} {b01 p.cz} {p.x} {p.y} {p.z} {p.indx} {p.indy} {p.indz}"

def step (_ : Unit) (line : String) : Unit × String :=
  match tokens line with
  | ["esc", h] =>
    match unhexBytes h with
    | some b => ((), "ok " ++ hexBytes (str2xml b))
    | none => ((), "bad-op")
  | "band" :: _path :: d :: b :: q =>
    match d.toNat?, b.toInt? with
    | some dim, some band =>
      let qa := q.toArray
      let w := write (upperAt dim qa) dim band
      let hdr := s!"hdr {w.dim} {w.band}"
      let flt := "flt" ++ String.join (w.flt.map (" " ++ ·))
      match read w with
      | .ok C =>
        let cells := (List.range dim).flatMap (fun i => (List.range dim).map (fun j => get C (i + 1) (j + 1)))
        ((), hdr ++ "\n" ++ flt ++ "\nmat" ++ String.join (cells.map (" " ++ ·)))
      | .error e => ((), hdr ++ "\n" ++ flt ++ "\nthrow " ++ (match e with | .badSize => "badSize" | .badCount => "badCount"))
    | _, _ => ((), "bad-op")
  | "index" :: _path :: rest =>
    match parsePts rest with
    | some (pts, r) =>
      match parseOris r with
      | some oris => ((), "reader " ++ natList (readerIndexes pts oris) ++ "\norig " ++ natList (originalIndex pts oris))
      | none => ((), "bad-op")
    | none => ((), "bad-op")
  | "points" :: _path :: sect :: rest =>
    match parsePoints rest [] [] with
    | some pts =>
      match runPoints "0" (sectionStart "0" (sect = "adjusted")) pts with
      | .ok st => ((), "\n".intercalate (st.out.map showPoint ++ ["end"]))
      | .error .xWithoutY => ((), "throw xWithoutY")
      | .error .conXWithoutY => ((), "throw conXWithoutY")
    | none => ((), "bad-op")
  | _ => ((), "bad-op")

def main : IO Unit := loop step ()
