/-
  Driver of `Gama.NetDecision` (protocol of harness/c02_netdecision.cpp): the scenario is a table
  configuration-key ↦ scripted solver answers + predicted project equations; `run` evaluates
  `NetDecision.decide` at `Float` and prints the removal record and the verdict.
-/
import Gama.Proto
import Gama.Model.NetDecision
import Gama.Model.SingularCoords
open Gama Gama.Proto Gama.Ls Gama.NetDecision

structure NdEntry where
  unknowns : List Unknown
  nObs : Nat
  nPts : Nat
  defect : Nat
  flags : List Nat
  qxx : Array Float
  qthrow : Option ErrKind
  rthrow : Option ErrKind

structure St0 where
  pts : List Point := []
  m0 : Float := 10
  table : List (String × NdEntry) := []

def stChar : CStat → Char
  | .unused => 'u' | .fixed => 'f' | .free => 'a' | .constrained => 'c'

def parseStat : Char → Option CStat
  | 'u' => some .unused | 'f' => some .fixed | 'a' => some .free | 'c' => some .constrained | _ => none

def keyOf (net : Net) : String :=
  let l := (net.filter fun P => P.xy != .unused || P.z != .unused).map fun P =>
    P.id ++ ":" ++ String.ofList [stChar P.xy, stChar P.z]
  if l.isEmpty then "-" else ";".intercalate l

def parseKind : String → Option (Option ErrKind)
  | "ok" => some none
  | "BadRegularization" => some (some .BadRegularization)
  | "Singular" => some (some .Singular)
  | "BadRank" => some (some .BadRank)
  | "NoConvergence" => some (some .NoConvergence)
  | "ZeroDivision" => some (some .ZeroDivision)
  | _ => none

def parseUnknowns (s : String) : Option (List Unknown) :=
  if s == "-" then some [] else
  (s.splitOn ",").mapM fun w =>
    match w.splitOn ":" with
    | [t, id] =>
      (match t with
       | "X" => some UType.X | "Y" => some UType.Y | "Z" => some UType.Z | "R" => some UType.R | _ => none).map
        fun ty => ({ pid := id, type := ty } : Unknown)
    | _ => none

def field (ts : List String) (name : String) : Option String :=
  ts.findSome? fun t => if t.startsWith (name ++ "=") then some (t.drop (name.length + 1)).toString else none

def parseEntry (ts : List String) : Option (String × NdEntry) := do
  match ts with
  | key :: us :: rest =>
    let unknowns ← parseUnknowns us
    let nObs ← (← field rest "nobs").toNat?
    let nPts ← (← field rest "npts").toNat?
    let defect ← (← field rest "defect").toNat?
    let fl ← field rest "flags"
    let flags ← if fl == "-" then some [] else (fl.splitOn ",").mapM (·.toNat?)
    let qs ← field rest "qxx"
    let qxx ← if qs == "-" then some [] else (qs.splitOn ",").mapM (fun w => (Wire.parse w : Option Float))
    let q ← parseKind (← field rest "q")
    let r ← parseKind (← field rest "r")
    some (key, { unknowns, nObs, nPts, defect, flags, qxx := qxx.toArray, qthrow := q, rthrow := r })
  | _ => none

def world (t : List (String × NdEntry)) : World Float := fun net =>
  match t.lookup (keyOf net) with
  | some e =>
    { net := net, rm := []
      view := { unknowns := e.unknowns, nObs := e.nObs, nPts := e.nPts, defect := e.defect
                lindep := fun i => e.flags.contains i
                qxx := fun i => match e.qthrow with
                  | some k => .error k
                  | none => .ok (if 1 ≤ i ∧ i ≤ e.qxx.size then e.qxx[i - 1]! else 0)
                resid := match e.rthrow with
                  | some k => .error k
                  | none => .ok () } }
  | none =>
    { net := net, rm := []
      view := { unknowns := [], nObs := 0, nPts := 0, defect := 0, lindep := fun _ => false
                qxx := fun _ => .ok 0, resid := .ok () } }

def utName : UType → String
  | .X => "X" | .Y => "Y" | .Z => "Z" | .R => "R"

def showOutcome : Outcome → String
  | .ok => "ok" | .badReg => "matvec:BadRegularization" | .matvec e => "matvec:" ++ e.name
  | .noUnknowns => "noUnknowns" | .noObs => "noObs" | .noPoints => "noPoints" | .fuel => "fuel"

def showVerdict : Verdict → String
  | .adjusted d => s!"verdict adjusted {d}"
  | .cannot d ne l =>
    let ls := if l.isEmpty then "-" else ",".intercalate (l.map fun (i, u) => s!"{i}:{utName u.type}:{u.pid}")
    s!"verdict cannot {d} {if ne then 1 else 0} {ls}"
  | .exception o => "verdict exception " ++ showOutcome o

/-- `sc <k> {<id> <xy> <ix> <iy>}*k <rows> <cols> <hex>*`: the points of the `singular_coords` op -/
def takePts : Nat → List String → Option (List (String × CStat × Nat × Nat) × List String)
  | 0, ts => some ([], ts)
  | k + 1, id :: st :: ix :: iy :: rest => do
    let c ← match st.toList with
      | [ch] => parseStat ch
      | _ => none
    let i ← ix.toNat?
    let j ← iy.toNat?
    let (l, r) ← takePts k rest
    some ((id, c, i, j) :: l, r)
  | _, _ => none

def chunk (c : Nat) : Nat → List Float → List (Array Float)
  | 0, _ => []
  | r + 1, l => (l.take c).toArray :: chunk c r (l.drop c)

def runSc (ts : List String) : Option String := do
  match ts with
  | k :: rest =>
    let kn ← k.toNat?
    let (pts, rest) ← takePts kn rest
    match rest with
    | r :: c :: vals =>
      let rn ← r.toNat?
      let cn ← c.toNat?
      let vs ← vals.mapM (fun w => (Wire.parse w : Option Float))
      if vs.length != rn * cn then none else
      let A : DMat Float := (chunk cn rn vs).toArray
      let ps : List MinX.PtS := pts.map fun (id, st, _, _) => ⟨id, st, .unused⟩
      let idx : MinX.Unk → Nat := fun u => match u with
        | .x p => (pts[p]?.map (·.2.2.1)).getD 0
        | .y p => (pts[p]?.map (·.2.2.2)).getD 0
        | _ => 0
      let (b, ps', ids) := SingularCoords.singularCoords A idx ps
      let sts := String.join (ps'.map fun q => " " ++ q.id ++ ":" ++ String.ofList [stChar q.xy])
      let rm := if ids.isEmpty then " -" else String.join (ids.map fun i => " " ++ i)
      some s!"sing {if b then 1 else 0}{sts} |{rm}"
    | _ => none
  | _ => none

def step (s : St0) (line : String) : St0 × String :=
  match tokens line with
  | [] => (s, "")
  | ["point", id, xy, z] =>
    match xy.toList, z.toList with
    | [a], [b] =>
      match parseStat a, parseStat b with
      | some sa, some sb => ({ s with pts := s.pts ++ [⟨id, sa, sb⟩] }, "")
      | _, _ => (s, "bad-op")
    | _, _ => (s, "bad-op")
  | ["m0", h] =>
    match (Wire.parse h : Option Float) with
    | some x => ({ s with m0 := x }, "")
    | none => (s, "bad-op")
  | ["gkf", _] => (s, "")
  | "state" :: rest =>
    match parseEntry rest with
    | some e => ({ s with table := e :: s.table }, "")
    | none => (s, "bad-op")
  | "sc" :: rest => (s, (runSc rest).getD "bad-op")
  | ["run"] =>
    let r := NetDecision.decide s.m0 (world s.table) s.pts
    let rm := if r.1.isEmpty then " -" else String.join (r.1.map fun (id, c) => " " ++ id ++ ":" ++ c.name)
    (s, "removed" ++ rm ++ "\n" ++ showVerdict r.2)
  | _ => (s, "bad-op")

def main (_ : List String) : IO Unit := loop step {}
