/-
  Driver for C15: runs the models of lib/matvec on the lines of harness/c15_matvec.cpp.
    drv_matvec rat     exact arithmetic (everything square-root free)
    drv_matvec float   IEEE double
-/
import Gama.Proto
import Gama.Model.MemRep
import Gama.Model.MatVec
import Gama.Model.MatInvert
import Gama.Model.SymChol
import Gama.Gen.DimChecks
import Gama.Model.MatObj
import Gama.Gen.MatMembers
import Gama.Model.SymObj
import Gama.Model.VecObj
import Gama.Model.ObjCatch
import Gama.Gen.SymVecMembers
open Gama Gama.Proto Gama.MatVec

namespace C15

/-! ## object scripts -/

structure Sess (K : Type) where
  heap : MemRep.St K
  /-- (rows, cols) of the SymMat living in a MemRep slot -/
  dims : Nat → Int × Int
  /-- `row_`, `col_`, `pentry` of the Mat living in a MemRep slot (Model/MatObj.lean) -/
  mext : Nat → MatObj.Ext
  /-- `row_`, `col_`, `tol_`, `dim_`, `idf_` of the SymMat living in a MemRep slot (Model/SymObj.lean) -/
  sext : Nat → SymObj.Ext K

def Sess.init {K : Type} [Inhabited K] : Sess K :=
  ⟨MemRep.St.init, fun _ => (0, 0), fun _ => ⟨0, 0, none⟩, fun _ => ⟨0, 0, default, 0, 0⟩⟩

-- MemRep slot numbering: r.* 0..7, v.* 8..15, m.* 16..23, s.* 24..31, temporaries 32, 33
def slotBase (kind : Char) : Nat := if kind = 'r' then 0 else if kind = 'v' then 8 else if kind = 'm' then 16 else 24
def tmp1 : Nat := 32
def tmp2 : Nat := 33

section
variable {K : Type} [Scalar K] [Wire K] [Inhabited K]

def showStop : MemRep.Stop → String
  | .badRank => "throw BadRank"
  | .precondition => "bad-op"
  | .heapFault => "heap-fault"

def liveBlocks (s : MemRep.St K) : Nat :=
  ((List.range s.next).filter (fun a => (s.heap a).isSome)).length

def dumpSlots (s : Sess K) (kind : Char) : String :=
  let base := slotBase kind
  let parts := (List.range 8).map (fun i =>
    match MemRep.val s.heap (base + i) with
    | none => " | -"
    | some l =>
      let hd := if kind = 'm' then
                  let e := s.mext (base + i); s!"{e.row} {e.col}"
                else if kind = 's' then
                  let e := s.sext (base + i); s!"{e.row} {e.col}"
                else toString l.length
      " | " ++ hd ++ (if l.isEmpty then "" else " " ++ renderAll l))
  s!"dump live={liveBlocks s.heap} ub={s.heap.ubNull}" ++ String.join parts

def runOps (s : Sess K) (ops : List (MemRep.Op K)) : Except MemRep.Stop (Sess K) :=
  match MemRep.run s.heap ops with
  | .ok h => .ok { s with heap := h }
  | .error e => .error e

def finish (s : Sess K) (r : Except MemRep.Stop (Sess K)) : Sess K × String :=
  match r with
  | .ok s' => (s', "ok")
  | .error e => (s, showStop e)

def sizeOf (s : Sess K) (id : Nat) : Nat := ((MemRep.val s.heap id).getD []).length

/-- all writes of `set_all(x)` -/
def fillOps (id n : Nat) (x : K) : List (MemRep.Op K) := (List.range n).map (fun k => .write id k x)

/-- `Mat::transpose()`: `*this = trans(*this)` =
    TransMat temporary (copy of the storage), Mat temporary built element by element,
    (move-)assignment which is the copy assignment of MemRep, destruction of both temporaries -/
def transposeOps (s : Sess K) (id : Nat) : Option (List (MemRep.Op K) × (Int × Int)) :=
  match MemRep.val s.heap id with
  | none => none
  | some l =>
    let (r, c) := s.dims id
    let R := c.toNat      -- TransMat: rows = M.cols()
    let C := r.toNat
    let writes := (List.range (R * C)).map (fun p =>
      let i := p / C + 1
      let j := p % C + 1
      MemRep.Op.write tmp2 p (l.getD (tmatIdx R i j) default))
    some ([.copyCtor tmp1 id, .ctor tmp2 (Int.ofNat (R * C))] ++ writes ++
          [.assign id tmp2, .dtor tmp2, .dtor tmp1], (c, r))

def showMStop : MatObj.Stop → String
  | .badRank => "throw BadRank"
  | .singular => "throw Singular"
  | .precondition => "bad-op"
  | .heapFault => "heap-fault"

/-- one operation of the `Mat` object-history machine (Model/MatObj.lean), with the `pentry`
    initialisation regenerated from mat.h, under `try`/`catch`: after a C++ exception the session goes on
    from the state the throwing call left behind (`MatObj.thrown`, Model/ObjCatch.lean) — after
    `throw Singular` the object is half eliminated. -/
def runMat (s : Sess K) (op : MatObj.Op K) : Sess K × String :=
  match MatObj.step Gen.MatMembers.pentryInit ⟨s.heap, s.mext⟩ op with
  | .ok st => ({ s with heap := st.mem, mext := st.ext }, "ok")
  | .error e =>
    if ObjCatch.isExc e then
      let st := MatObj.thrown ⟨s.heap, s.mext⟩ op
      ({ s with heap := st.mem, mext := st.ext }, showMStop e)
    else (s, showMStop e)

/-- one operation of the `SymMat` object-history machine (Model/SymObj.lean) under `try`/`catch` -/
def runSym (s : Sess K) (op : SymObj.Op K) : Sess K × String :=
  match SymObj.step ⟨s.heap, s.sext⟩ op with
  | .ok st => ({ s with heap := st.mem, sext := st.ext }, "ok")
  | .error e =>
    if ObjCatch.isExc e then
      let st := SymObj.thrown ⟨s.heap, s.sext⟩ op
      ({ s with heap := st.mem, sext := st.ext }, showMStop e)
    else (s, showMStop e)

/-- one operation of the `Vec` object-history machine (Model/VecObj.lean) under `try`/`catch` -/
def runVec (s : Sess K) (op : VecObj.Op K) : Sess K × String :=
  match VecObj.step s.heap op with
  | .ok st => ({ s with heap := st }, "ok")
  | .error e =>
    if ObjCatch.isExc e then ({ s with heap := VecObj.thrown s.heap op }, showMStop e)
    else (s, showMStop e)

/-- all members of the SymMat objects: `dim_ row_ col_ idf_ tol_` and the packed elements -/
def dumpSym (s : Sess K) : String :=
  let parts := (List.range 8).map (fun i =>
    match MemRep.val s.heap (24 + i) with
    | none => " | -"
    | some l =>
      let e := s.sext (24 + i)
      s!" | {e.dim} {e.row} {e.col} {e.idf} {Wire.render e.tol}" ++ (if l.isEmpty then "" else " " ++ renderAll l))
  s!"dump live={liveBlocks s.heap} ub={s.heap.ubNull}" ++ String.join parts

/-- `s.*` lines: SymMat objects live in MemRep slots 24..31.  `isFloat = false`: `cholDec` needs `sqrt`,
    the exact driver answers `no-sqrt` and leaves the object alone. -/
def symStep (isFloat : Bool) (s : Sess K) (op : String) (a : List String) : Option (Sess K × String) :=
  let slot? (t : String) : Option Nat := match t.toNat? with
    | some i => if i < 8 then some (24 + i) else none
    | none => none
  match op, a with
  | "xdump", [] => some (s, dumpSym s)
  | "ctor", [i, d] =>
    match slot? i, d.toNat? with
    | some id, some d => some (runSym s (.ctor id d))
    | _, _ => some (s, "bad-op")
  | "ctor2", [i, r, c] =>
    match slot? i, r.toNat?, c.toNat? with
    | some id, some r, some c => some (runSym s (.ctor2 id r c))
    | _, _, _ => some (s, "bad-op")
  | "copy", [i, j] | "move", [i, j] =>
    match slot? i, slot? j with
    | some id, some src =>
      if op = "move" ∧ Gen.SymVecMembers.symMoves then some (s, "model-has-no-symmat-move")
      else some (runSym s (.copyCtor id src))
    | _, _ => some (s, "bad-op")
  | "assign", [i, j] | "massign", [i, j] =>
    match slot? i, slot? j with
    | some id, some src =>
      if op = "massign" ∧ Gen.SymVecMembers.symMoves then some (s, "model-has-no-symmat-move")
      else some (runSym s (.assign id src))
    | _, _ => some (s, "bad-op")
  | "reset", [i, d] =>
    match slot? i, d.toInt? with
    | some id, some d => some (runSym s (.reset id d))
    | _, _ => some (s, "bad-op")
  | "reset2", [i, r, c] =>
    match slot? i, r.toInt?, c.toInt? with
    | some id, some r, some c => some (runSym s (.reset2 id r c))
    | _, _, _ => some (s, "bad-op")
  | "set", [i, r, c, x] =>
    match slot? i, r.toNat?, c.toNat?, (Wire.parse x : Option K) with
    | some id, some r, some c, some x => some (runSym s (.set id r c x))
    | _, _, _, _ => some (s, "bad-op")
  | "fill", [i, x] =>
    match slot? i, (Wire.parse x : Option K) with
    | some id, some x => some (runSym s (.setAll id x))
    | _, _ => some (s, "bad-op")
  | "scale", [i, x] =>
    match slot? i, (Wire.parse x : Option K) with
    | some id, some x => some (runSym s (.scale id x))
    | _, _ => some (s, "bad-op")
  | "tol", [i, x] =>
    match slot? i, (Wire.parse x : Option K) with
    | some id, some x => some (runSym s (.setTol id x))
    | _, _ => some (s, "bad-op")
  | "add", [i, j] =>
    match slot? i, slot? j with
    | some id, some src => some (runSym s (.addAssign id src))
    | _, _ => some (s, "bad-op")
  | "sub", [i, j] =>
    match slot? i, slot? j with
    | some id, some src => some (runSym s (.subAssign id src))
    | _, _ => some (s, "bad-op")
  | "chol", [i] =>
    match slot? i with
    | some id => if isFloat then some (runSym s (.cholDec id)) else some (s, "no-sqrt")
    | none => some (s, "bad-op")
  | "invert", [i] =>
    match slot? i with
    | some id => some (runSym s (.invert id))
    | none => some (s, "bad-op")
  | "dtor", [i] =>
    match slot? i with
    | some id => some (runSym s (.dtor id))
    | none => some (s, "bad-op")
  | _, _ => none

/-- `v.*` lines: Vec objects live in MemRep slots 8..15 -/
def vecStep (s : Sess K) (op : String) (a : List String) : Option (Sess K × String) :=
  let slot? (t : String) : Option Nat := match t.toNat? with
    | some i => if i < 8 then some (8 + i) else none
    | none => none
  let moves := Gen.SymVecMembers.vecMoves
  match op, a with
  | "ctor", [i, n] =>
    match slot? i, n.toInt? with
    | some id, some n => some (runVec s (.ctor id n))
    | _, _ => some (s, "bad-op")
  | "copy", [i, j] =>
    match slot? i, slot? j with
    | some id, some src => some (runVec s (.copyCtor id src))
    | _, _ => some (s, "bad-op")
  | "move", [i, j] =>
    match slot? i, slot? j with
    | some id, some src => some (runVec s (if moves then .moveCtor id src else .copyCtor id src))
    | _, _ => some (s, "bad-op")
  | "assign", [i, j] =>
    match slot? i, slot? j with
    | some id, some src => some (runVec s (.assign id src))
    | _, _ => some (s, "bad-op")
  | "massign", [i, j] =>
    match slot? i, slot? j with
    | some id, some src => some (runVec s (if moves then .moveAssign id src else .assign id src))
    | _, _ => some (s, "bad-op")
  | "reset", [i, n] =>
    match slot? i, n.toNat? with
    | some id, some n => some (runVec s (.reset id n))
    | _, _ => some (s, "bad-op")
  | "set", [i, k, x] =>
    match slot? i, k.toNat?, (Wire.parse x : Option K) with
    | some id, some k, some x => some (runVec s (.set id k x))
    | _, _, _ => some (s, "bad-op")
  | "fill", [i, x] =>
    match slot? i, (Wire.parse x : Option K) with
    | some id, some x => some (runVec s (.setAll id x))
    | _, _ => some (s, "bad-op")
  | "scale", [i, x] =>
    match slot? i, (Wire.parse x : Option K) with
    | some id, some x => some (runVec s (.scale id x))
    | _, _ => some (s, "bad-op")
  | "add", [i, j] =>
    match slot? i, slot? j with
    | some id, some src => some (runVec s (.addAssign id src))
    | _, _ => some (s, "bad-op")
  | "sub", [i, j] =>
    match slot? i, slot? j with
    | some id, some src => some (runVec s (.subAssign id src))
    | _, _ => some (s, "bad-op")
  | "plus", [i, j, k] =>
    match slot? i, slot? j, slot? k with
    | some id, some a, some b => some (runVec s (.plus id a b))
    | _, _, _ => some (s, "bad-op")
  | "minus", [i, j, k] =>
    match slot? i, slot? j, slot? k with
    | some id, some a, some b => some (runVec s (.minus id a b))
    | _, _, _ => some (s, "bad-op")
  | "dtor", [i] =>
    match slot? i with
    | some id => some (runVec s (.dtor id))
    | none => some (s, "bad-op")
  | _, _ => none

/-- `m.*` lines: Mat objects live in MemRep slots 16..23 -/
def matStep (s : Sess K) (op : String) (a : List String) : Option (Sess K × String) :=
  let slot? (t : String) : Option Nat := match t.toNat? with
    | some i => if i < 8 then some (16 + i) else none
    | none => none
  match op, a with
  | "ctor", [i, r, c] =>
    match slot? i, r.toNat?, c.toNat? with
    | some id, some r, some c => some (runMat s (.ctor id r c))
    | _, _, _ => some (s, "bad-op")
  | "copy", [i, j] | "move", [i, j] =>          -- no move operations are generated for Mat
    match slot? i, slot? j with
    | some id, some src => some (runMat s (.copyCtor id src))
    | _, _ => some (s, "bad-op")
  | "assign", [i, j] | "massign", [i, j] =>
    match slot? i, slot? j with
    | some id, some src => some (runMat s (.assign id src))
    | _, _ => some (s, "bad-op")
  | "reset", [i, r, c] =>
    match slot? i, r.toNat?, c.toNat? with
    | some id, some r, some c => some (runMat s (.reset id r c))
    | _, _, _ => some (s, "bad-op")
  | "set", [i, r, c, x] =>
    match slot? i, r.toNat?, c.toNat?, (Wire.parse x : Option K) with
    | some id, some r, some c, some x => some (runMat s (.set id r c x))
    | _, _, _, _ => some (s, "bad-op")
  | "fill", [i, x] =>
    match slot? i, (Wire.parse x : Option K) with
    | some id, some x => some (runMat s (.setAll id x))
    | _, _ => some (s, "bad-op")
  | "scale", [i, x] =>
    match slot? i, (Wire.parse x : Option K) with
    | some id, some x => some (runMat s (.scale id x))
    | _, _ => some (s, "bad-op")
  | "transpose", [i] =>
    match slot? i with
    | some id => some (runMat s (.transpose id))
    | none => some (s, "bad-op")
  | "invert", [i, tol] =>
    match slot? i, (Wire.parse tol : Option K) with
    | some id, some tol => some (runMat s (.invert id tol))
    | _, _ => some (s, "bad-op")
  | "dtor", [i] =>
    match slot? i with
    | some id => some (runMat s (.dtor id))
    | none => some (s, "bad-op")
  | _, _ => none

def objStep (isFloat : Bool) (s : Sess K) (kind : Char) (op : String) (a : List String) : Sess K × String :=
  match (if kind = 'm' then matStep s op a else if kind = 's' then symStep isFloat s op a
         else if kind = 'v' then vecStep s op a else none) with
  | some r => r
  | none =>
  let base := slotBase kind
  let slot? (t : String) : Option Nat := match t.toNat? with
    | some i => if i < 8 then some (base + i) else none
    | none => none
  let isMat := kind = 'm' ∨ kind = 's'
  -- Mat / SymMat have a user-declared virtual destructor in MatBase: no implicit move
  -- operations are generated for the MemRep subobject, "move" copies.
  let movesCopy := isMat
  match op, a with
  | "dump", [] => (s, dumpSlots s kind)
  | "ctor", [i, n] =>
    match kind, slot? i, n.toInt? with
    | 'r', some id, some n => finish s (runOps s [.ctor id n])
    | 'v', some id, some n => finish s (runOps s [.ctor id n])
    | 's', some id, some n =>
      -- SymMat(d) : MatBase(d, d, d*(d+1)/2)
      finish s ((runOps s [.ctor id (n * (n + 1) / 2)]).map (fun s' => { s' with dims := MemRep.upd s'.dims id (n, n) }))
    | _, _, _ => (s, "bad-op")
  | "ctor", [i, r, c] =>
    match kind, slot? i, r.toInt?, c.toInt? with
    | 'm', some id, some r, some c =>
      finish s ((runOps s [.ctor id (r * c)]).map (fun s' => { s' with dims := MemRep.upd s'.dims id (r, c) }))
    | _, _, _, _ => (s, "bad-op")
  | "copy", [i, j] =>
    match slot? i, slot? j with
    | some id, some src =>
      finish s ((runOps s [.copyCtor id src]).map (fun s' => { s' with dims := MemRep.upd s'.dims id (s.dims src) }))
    | _, _ => (s, "bad-op")
  | "move", [i, j] =>
    match slot? i, slot? j with
    | some id, some src =>
      finish s ((runOps s [if movesCopy then .copyCtor id src else .moveCtor id src]).map
        (fun s' => { s' with dims := MemRep.upd s'.dims id (s.dims src) }))
    | _, _ => (s, "bad-op")
  | "assign", [i, j] =>
    match slot? i, slot? j with
    | some id, some src =>
      finish s ((runOps s [.assign id src]).map (fun s' => { s' with dims := MemRep.upd s'.dims id (s.dims src) }))
    | _, _ => (s, "bad-op")
  | "massign", [i, j] =>
    match slot? i, slot? j with
    | some id, some src =>
      finish s ((runOps s [if movesCopy then .assign id src else .moveAssign id src]).map
        (fun s' => { s' with dims := MemRep.upd s'.dims id (s.dims src) }))
    | _, _ => (s, "bad-op")
  | "resize", [i, n] =>
    match kind, slot? i, n.toNat? with
    | 'r', some id, some n => finish s (runOps s [.resize id n])
    | _, _, _ => (s, "bad-op")
  | "reset", [i, n] =>
    match kind, slot? i, n.toInt? with
    | 'v', some id, some n => if n < 0 then (s, "bad-op") else finish s (runOps s [.resize id n.toNat])
    | 's', some id, some n =>
      -- if (isNegative(d)) throw BadRank;  dim_ = row_ = col_ = r; resize(r*(r+1)/2);
      if n < 0 then (if (MemRep.val s.heap id).isSome then (s, "throw BadRank") else (s, "bad-op"))
      else finish s ((runOps s [.resize id (n.toNat * (n.toNat + 1) / 2)]).map
             (fun s' => { s' with dims := MemRep.upd s'.dims id (n, n) }))
    | _, _, _ => (s, "bad-op")
  | "reset", [i, r, c] =>
    match kind, slot? i, r.toNat?, c.toNat? with
    | 'm', some id, some r, some c =>
      -- if (r != row_ || c != col_) { row_ = r; col_ = c; resize(r*c); }
      if (MemRep.val s.heap id).isNone then (s, "bad-op")
      else if s.dims id = ((r : Int), (c : Int)) then (s, "ok")
      else finish s ((runOps s [.resize id (r * c)]).map
             (fun s' => { s' with dims := MemRep.upd s'.dims id ((r : Int), (c : Int)) }))
    | _, _, _, _ => (s, "bad-op")
  | "write", [i, k, x] =>
    match kind, slot? i, k.toNat?, (Wire.parse x : Option K) with
    | 'r', some id, some k, some x => finish s (runOps s [.write id k x])
    | _, _, _, _ => (s, "bad-op")
  | "set", [i, k, x] =>
    match kind, slot? i, k.toNat?, (Wire.parse x : Option K) with
    | 'v', some id, some k, some x => if k = 0 then (s, "bad-op") else finish s (runOps s [.write id (k - 1) x])
    | _, _, _, _ => (s, "bad-op")
  | "set", [i, r, c, x] =>
    match slot? i, r.toNat?, c.toNat?, (Wire.parse x : Option K) with
    | some id, some r, some c, some x =>
      let (R, C) := s.dims id
      if r = 0 ∨ c = 0 ∨ (r : Int) > R ∨ (c : Int) > C then (s, "bad-op")
      else if kind = 'm' then finish s (runOps s [.write id (matIdx C.toNat r c) x])
      else if kind = 's' then finish s (runOps s [.write id (symIdx r c) x])
      else (s, "bad-op")
    | _, _, _, _ => (s, "bad-op")
  | "fill", [i, x] =>
    match slot? i, (Wire.parse x : Option K) with
    | some id, some x =>
      if (MemRep.val s.heap id).isNone then (s, "bad-op")
      else finish s (runOps s (fillOps id (sizeOf s id) x))
    | _, _ => (s, "bad-op")
  | "transpose", [i] =>
    match kind, slot? i with
    | 'm', some id =>
      match transposeOps s id with
      | some (ops, d) => finish s ((runOps s ops).map (fun s' => { s' with dims := MemRep.upd s'.dims id d }))
      | none => (s, "bad-op")
    | _, _ => (s, "bad-op")
  | "dtor", [i] =>
    match slot? i with
    | some id => finish s (runOps s [.dtor id])
    | none => (s, "bad-op")
  | _, _ => (s, "bad-op")

/-! ## stateless algebra -/

inductive Operand (K : Type) where
  | M (A : Mat K) | T (A : TMat K) | V (v : Vec K) | W (v : Vec K) | S (A : SMat K) | K (x : K)

def takeScalars (n : Nat) (ts : List String) : Option (Array K × List String) :=
  if ts.length < n then none else
  match parseAll (K := K) (ts.take n) with
  | some xs => some (xs.toArray, ts.drop n)
  | none => none

partial def parseOperands (ts : List String) (acc : Array (Operand K)) : Option (Array (Operand K)) :=
  match ts with
  | [] => some acc
  | "M" :: r :: c :: rest =>
    match r.toNat?, c.toNat? with
    | some r, some c => match takeScalars (K := K) (r * c) rest with
      | some (x, rest) => parseOperands rest (acc.push (.M ⟨r, c, x⟩))
      | none => none
    | _, _ => none
  | "T" :: r :: c :: rest =>
    match r.toNat?, c.toNat? with
    | some r, some c => match takeScalars (K := K) (r * c) rest with
      | some (x, rest) => parseOperands rest (acc.push (.T (trans ⟨r, c, x⟩)))
      | none => none
    | _, _ => none
  | "V" :: n :: rest =>
    match n.toNat? with
    | some n => match takeScalars (K := K) n rest with
      | some (x, rest) => parseOperands rest (acc.push (.V x))
      | none => none
    | none => none
  | "W" :: n :: rest =>
    match n.toNat? with
    | some n => match takeScalars (K := K) n rest with
      | some (x, rest) => parseOperands rest (acc.push (.W x))
      | none => none
    | none => none
  | "S" :: n :: rest =>
    match n.toNat? with
    | some n => match takeScalars (K := K) (n * (n + 1) / 2) rest with
      | some (x, rest) => parseOperands rest (acc.push (.S ⟨n, x⟩))
      | none => none
    | none => none
  | "K" :: x :: rest =>
    match (Wire.parse x : Option K) with
    | some x => parseOperands rest (acc.push (.K x))
    | none => none
  | _ => none

def showErr : Err → String
  | .badRank => "throw BadRank"
  | .oob => "reads-outside-operands"

def outArr (a : Array K) : String := if a.isEmpty then "" else " " ++ renderAll a.toList

def outMB (r : Except Err (MB K)) : String :=
  match r with
  | .error e => showErr e
  | .ok A => match A.entries with
             | .error e => showErr e
             | .ok d => s!"ok M {A.rows} {A.cols}" ++ outArr d
def outM (r : Except Err (Mat K)) : String := outMB (r.map Mat.mb)
def outT (r : Except Err (TMat K)) : String := outMB (r.map TMat.mb)
def outV (tag : String) (r : Except Err (Vec K)) : String :=
  match r with
  | .error e => showErr e
  | .ok v => s!"ok {tag} {v.size}" ++ outArr v
def outS (r : Except Err (SMat K)) : String :=
  match r with
  | .error e => showErr e
  | .ok A => s!"ok S {A.dim}" ++ outArr A.data
def outK (r : Except Err K) : String :=
  match r with
  | .error e => showErr e
  | .ok x => "ok K " ++ Wire.render x

def fnOf (a : Array K) : Nat → K := fun p => a.getD p (0 : K)
def arrOf (n : Nat) (f : Nat → K) : Array K := (Array.range n).map f

/-- `isFloat`: operations that need `sqrt` are only run by the Float instance -/
def algebra (isFloat : Bool) (name : String) (ops : List (Operand K)) : String :=
  match name, ops with
  | "add", [.M A, .M B] => outM (matAdd A B)
  | "sub", [.M A, .M B] => outM (matSub A B)
  | "addg", [.M A, .M B] => outM (mbZip (· + ·) A.mb B.mb)
  | "subg", [.M A, .M B] => outM (mbZip (· - ·) A.mb B.mb)
  | "add", [.V a, .V b] => outV "V" (vecAdd a b)
  | "sub", [.V a, .V b] => outV "V" (vecSub a b)
  | "addeq", [.V a, .V b] => outV "V" (vecAdd a b)       -- add(x, *this)
  | "subeq", [.V a, .V b] => outV "V" (vecSub a b)
  | "add", [.W a, .W b] => outV "W" (vecAdd a b)         -- TransVec::operator+ : TransVec t(dim()); add(x, t)
  | "sub", [.W a, .W b] => outV "W" (vecSub a b)
  | "add", [.S A, .S B] => outS (symAdd A B)
  | "sub", [.S A, .S B] => outS (symSub A B)
  | "addf", [.S A, .S B] => outS (symZipFree (· + ·) A B)
  | "subf", [.S A, .S B] => outS (symZipFree (· - ·) A B)
  | "addeq", [.S A, .S B] => outS (symZipFree (· + ·) A B)
  | "subeq", [.S A, .S B] => outS (symZipFree (· - ·) A B)
  | "scale", [.M A, .K f] => outM (matScale A f)
  | "scale", [.K f, .M A] => outM (matScale A f)
  | "scale", [.V a, .K f] => outV "V" (vecScale a f)
  | "scale", [.K f, .V a] => outV "V" (vecScale a f)
  | "scale", [.S A, .K f] => outS (symScale A f)
  | "scaleeq", [.V a, .K f] => outV "V" (vecScale a f)
  | "scaleeq", [.M A, .K f] => outM (.ok ⟨A.rows, A.cols, A.data.map (· * f)⟩)   -- MatVecBase::operator*=
  | "add", [.M A, .T B] => outM (matAddT A B)
  | "sub", [.M A, .T B] => outM (matSubT A B)
  | "add", [.T A, .M B] => outM (tAddMat A B)
  | "sub", [.T A, .M B] => outM (tSubMat A B)
  | "add", [.T A, .T B] => outT (tAddT A B)
  | "sub", [.T A, .T B] => outT (tSubT A B)
  | "mul", [.M A, .M B] => outM (matMul A B)
  | "mulg", [.M A, .M B] => outM (mbMul A.mb B.mb)
  | "mul", [.M A, .V b] => outV "V" (matMulVec A b)
  | "mulg", [.M A, .V b] => outV "V" (mbMulVec A.mb b)
  | "mul", [.T A, .M B] => outM (tMulMat A B)
  | "mul", [.M A, .T B] => outM (matMulT A B)
  | "mul", [.T A, .T B] => outM (tMulT A B)
  | "mul", [.T A, .V b] => outV "V" (tMulVec A b)
  | "mul", [.M A, .S B] => outM (matMulSym A B)
  | "mul", [.S A, .S B] => outS (symMul A B)
  | "mul", [.W b, .M A] => outV "W" (tvecMulMat b A)
  | "mulg", [.W b, .M A] => outV "W" (tvecMulMB b A.mb)
  | "mulg", [.W b, .T A] => outV "W" (tvecMulMB b A.mb)
  | "mulg", [.W b, .S A] => outV "W" (tvecMulMB b A.mb)
  | "mul", [.V b, .T A] => outV "W" (vecMulT b A)
  | "mul", [.W a, .V b] => outK (dot a b)
  | "dot", [.V a, .V b] => outK (dot a b)
  | "trans", [.M A] => outT (.ok (trans A))
  | "transM", [.M A] => outM (matOfTrans (trans A))
  | "transT", [.M A] => outM (transT (trans A))
  | "transpose", [.M A] => outM (matTranspose A)
  | "trans", [.V a] => outV "W" (.ok a)
  | "trans", [.W a] => outV "V" (.ok a)
  | "square", [.S A] => outM (symSquare A)
  | "lower", [.S A] => outM (symLowerMat A)
  | "upper", [.S A] => outM (symUpperMat A)
  | "lower", [.M A] => outS (matLowerSym A)
  | "upper", [.M A] => outS (matUpperSym A)
  | "full", [.S A] => outMB (.ok A.mb)
  | "inv", [.M A, .K tol] =>
    if A.rows ≤ 3 ∨ A.rows ≠ A.cols then
      -- the literal model, swap loops included
      match invert A.rows A.cols tol (fnOf A.data) with
      | .error .badRank => "throw BadRank"
      | .error .singular => "throw Singular"
      | .ok f => outM (.ok ⟨A.rows, A.cols, arrOf (A.rows * A.cols) f⟩)
    else
      -- Arrays-as-functions make the literal swap loops of the model very slow beyond 3x3
      -- (every read replays the loops).  For larger N the driver runs the elimination of the
      -- model literally and applies the permutation undo through the *proved* closed form
      --   final (indc s * N + indr t) = m (indr s * N + indc t)      (Props.C15.undo_permutation)
      -- after checking its hypothesis (indr, indc are permutations of 0..N-1) at run time.
      let N := A.rows
      match gjEliminate N tol N ⟨fnOf A.data, id, id, 0, 0⟩ with
      | none => "throw Singular"
      | some g =>
        let mm := arrOf (N * N) g.m
        let ir := (Array.range N).map g.indr
        let ic := (Array.range N).map g.indc
        let isPerm (a : Array Nat) : Bool := (List.range N).all (fun v => (a.toList.filter (· == v)).length == 1)
        if isPerm ir && isPerm ic then
          let pos (a : Array Nat) (v : Nat) : Nat := (a.toList.findIdx? (· == v)).getD 0
          outM (.ok ⟨N, N, (Array.range (N * N)).map (fun p =>
            let s := pos ic (p / N)
            let t := pos ir (p % N)
            mm.getD (ir.getD s 0 * N + ic.getD t 0) (0 : K))⟩)
        else outM (.ok ⟨N, N, arrOf (N * N) (undoPermutation N g.indr g.indc g.m)⟩)
  | "chol", [.S A, .K tol] =>
    if !isFloat then "skip" else
    match cholDec A.dim tol (fnOf A.data) with
    | .error _ => "throw BadRank"
    | .ok (f, idf) => outS (.ok ⟨A.dim, arrOf (A.dim * (A.dim + 1) / 2) f⟩) ++ s!" {idf}"
  | "solve", [.S A, .V b] => outV "V" (.ok (arrOf b.size (cholSolve A.dim (fnOf A.data) (fnOf b))))
  | "sinv", [.S A] =>
    match symInvert A.dim (fnOf A.data) with
    | .error _ => "throw BadRank"
    | .ok f => outS (.ok ⟨A.dim, arrOf (A.dim * (A.dim + 1) / 2) f⟩)
  -- pinv from a decomposition: operands  A (ignored), U, W, V, W_tol
  | "pinvc", [.M A, .M U, .V W, .M V, .K tol] =>
    outM (.ok ⟨A.cols, A.rows, arrOf (A.cols * A.rows) (pinvFrom A.rows A.cols tol (fnOf U.data) (fnOf W) (fnOf V.data))⟩)
  | _, _ => "bad-op"

/-- `guard <entry name> r1 c1 r2 c2`: the guard of the table regenerated from lib/matvec
    (Gen/DimChecks.lean) evaluated on the reported dimensions of the two operands; a local result
    object is constructed with the dimensions of `*this`, so `res.size() = this->size()` -/
def guardLine (a : List String) : String :=
  match a with
  | [name, r1, c1, r2, c2] =>
    match DimCheck.find? Gen.DimChecks.table name, r1.toNat?, c1.toNat?, r2.toNat?, c2.toNat? with
    | some e, some r1, some c1, some r2, some c2 =>
      let sa : DimCheck.Shape := ⟨r1, c1⟩
      let sb : DimCheck.Shape := ⟨r2, c2⟩
      let nr := DimCheck.sizeOf e.ka sa
      let b2s (b : Bool) : String := if b then "1" else "0"
      s!"guard {b2s (DimCheck.guardFires e sa sb nr)} covers {b2s (DimCheck.covers e)} conforming {b2s (decide (DimCheck.conforming e.cls e.ka e.kb sa sb nr))}"
    | _, _, _, _, _ => "bad-op"
  | _ => "bad-op"

def step (isFloat : Bool) (s : Sess K) (line : String) : Sess K × String :=
  match tokens line with
  | [] => (s, "bad-op")
  | "guard" :: rest => (s, guardLine rest)
  | "op" :: name :: rest =>
    match parseOperands (K := K) rest #[] with
    | some ops => (s, algebra isFloat name ops.toList)
    | none => (s, "bad-op")
  | t :: rest =>
    match t.toList with
    | [k, '.'] => (s, "bad-op")
    | k :: '.' :: opn => if k = 'r' ∨ k = 'v' ∨ k = 'm' ∨ k = 's' then objStep isFloat s k (String.ofList opn) rest else (s, "bad-op")
    | _ => (s, "bad-op")

end
end C15

instance : Inhabited Rat := ⟨0⟩

def main (args : List String) : IO Unit :=
  match args with
  | ["float"] => loop (C15.step (K := Float) true) C15.Sess.init
  | _ => loop (C15.step (K := Rat) false) C15.Sess.init
