/-
  Driver of the history-free adjustment-core models (protocol of harness/adj_harness.cpp).
  Every query is answered as a fresh object with the current configuration would answer it;
  `min_x…`, `reset`, `set_alg` only change the configuration.  Usage: drv_ls [float|rat]
-/
import Gama.Proto
import Gama.Model.Ls.Common
import Gama.Model.Ls.Adj
open Gama Gama.Proto Gama.Ls

structure Obj where
  alg : Alg
  entry : Entry
  reg : Reg

structure St (K : Type) where
  build : Option (PBuild K) := none
  prob : Option (Problem K) := none
  obj : Option Obj := none
  /-- `answer prob obj`, computed once per configuration (a pure function of the two: caching it does not change
      any output, it only avoids one factorisation per query line) -/
  ans : Option (Except ErrKind (Answer K)) := none

variable {K : Type} [Scalar K] [Wire K]

def showVec (v : Array K) : String := "vec" ++ v.foldl (fun s x => s ++ " " ++ Wire.render x) ""
def showE (f : α → String) : Except ErrKind α → String
  | .ok a => f a
  | .error .NotModelled => "not-modelled"
  | .error e => "throw " ++ e.name

def answer (p : Problem K) (o : Obj) : Except ErrKind (Answer K) :=
  match o.entry with
  | .solver => solverOf o.alg { p with reg := o.reg }
  | .adj => adjSolve o.alg { p with reg := o.reg }

/-- the problem the solver object of `o` is given: the input itself (solver entry) or, for the full
    solvers inside `Adj`, the homogenised dense system `(A_dot, b_dot)` -/
def solverInput (p : Problem K) (o : Obj) : Option (Problem K) :=
  match o.entry, o.alg with
  | .solver, _ => some { p with reg := o.reg }
  | .adj, .env => some { p with reg := AdjM.regOf o.reg }
  | .adj, _ => match AdjM.homogenise { p with reg := o.reg } with
    | .ok (Ad, bd) => some (AdjM.dotProblem p Ad bd (AdjM.regOf o.reg))
    | .error _ => none

open Chol Dn in
/-- MODEL-ONLY probe (the harness cannot answer it: `g_perm` is a local of `AdjCholDec::solve`), used by the
    plugins to measure the case mix: the pivot order of the Gram–Schmidt loop over the null-space vectors.
    `gstrace <nullity> swaps <k> offid <0|1> perm <g_perm(1..nullity), 1-based>`;
    `offid 1`: at some pass the positions still to be scanned held `g_perm(i) ≠ i` (only then does it matter
    whether the search reads column `g_perm(i)` or column `i`).  The loop is `Chol.gsStep`, the model's own. -/
def gsTrace (p : Problem K) : String :=
  match Chol.regList p.n p.reg with
  | none => "gstrace none"
  | some S =>
    let n := p.n
    let A := p.dense
    let f := Chol.factor n n 0 (pmk n id) (normalMat p.m n A)
    let N0 := n - f.nullity
    if f.nullity = 0 then "gstrace 0" else
    let x0 := solveX0 n N0 f.perm f.mat (normalRhs p.m n A p.rhs)
    let G0 := gInit n N0 f.nullity f.perm f.mat x0
    let nul := f.nullity
    let rec go : Nat → Nat → Array Nat → Array (Array K) → Nat → Bool → String
      | 0, _, gperm, _, sw, off => fin nul gperm sw off "ok"
      | fuel + 1, column, gperm, G, sw, off =>
        let c0 := pget gperm column
        let p0 := dotS S (G.getD c0 #[]) (G.getD c0 #[])
        if p0 < (sTol : K) then fin nul gperm sw off "refused" else
        let off' := off || (List.range' (column + 1) (nul - (column + 1))).any fun i => pget gperm i != i
        let st := gsStep n nul S column gperm G p0
        go fuel (column + 1) st.1 st.2.1 (if st.1 == gperm then sw else sw + 1) off'
    go nul 0 (pmk (nul + 1) id) G0 0 false
where
  fin (nul : Nat) (gperm : Array Nat) (sw : Nat) (off : Bool) (how : String) : String :=
    s!"gstrace {nul} {how} swaps {sw} offid {if off then 1 else 0} perm" ++
      (List.range nul).foldl (fun s i => s ++ s!" {Dn.pget gperm i + 1}") ""

def nat2 (a b : String) : Option (Nat × Nat) := do
  let i ← a.toNat?; let j ← b.toNat?; some (i, j)

def query (a : Except ErrKind (Answer K)) (ts : List String) : Option String :=
  match ts with
  | ["x"] => some (showE (fun (r : Answer K) => match r.xErr with
      | some e => "throw " ++ e.name
      | none => showVec r.x) a)
  | ["r"] => some (showE (fun (r : Answer K) => showVec r.r) a)
  | ["rtr"] => some (showE (fun (r : Answer K) => "val " ++ Wire.render r.rtr) a)
  | ["defect"] => some (showE (fun (r : Answer K) => s!"int {r.defect}") a)
  | ["qxx", i, j] => (nat2 i j).map fun (i, j) => showE (fun x => "val " ++ Wire.render x) (a >>= fun r => r.qxx i j)
  | ["q0xx", i, j] => (nat2 i j).map fun (i, j) => showE (fun x => "val " ++ Wire.render x) (a >>= fun r => r.q0xx i j)
  | ["qbb", i, j] => (nat2 i j).map fun (i, j) => showE (fun x => "val " ++ Wire.render x) (a >>= fun r => r.qbb i j)
  | ["qbx", i, j] => (nat2 i j).map fun (i, j) => showE (fun x => "val " ++ Wire.render x) (a >>= fun r => r.qbx i j)
  | ["lindep", i] => i.toNat?.map fun i => showE (fun (b : Bool) => s!"flag {if b then 1 else 0}") (a >>= fun r => r.lindep i)
  | ["cond"] => some (showE (fun x => "val " ++ Wire.render x) (a >>= fun r => r.cond))
  | _ => none

def setObj (s : St K) (p : Problem K) (o : Obj) : St K := { s with obj := some o, ans := some (answer p o) }
def cur (s : St K) (p : Problem K) (o : Obj) : Except ErrKind (Answer K) := s.ans.getD (answer p o)

def step (s : St K) (line : String) : St K × String :=
  let ts := tokens line
  match ts with
  | [] => (s, "")
  | ["problem", m, n] =>
    match m.toNat?, n.toNat? with
    | some m, some n => ({ build := some { m := m, n := n }, prob := none, obj := none, ans := none }, "")
    | _, _ => (s, "bad-op")
  | _ =>
  match s.build with
  | some b =>
    if ts = ["end"] then
      match b.finish with
      | some p => ({ build := none, prob := some p, obj := none, ans := none }, "ok")
      | none => ({ build := none, prob := none, obj := none, ans := none }, "bad-op")
    else match b.feed ts with
      | some b' => ({ s with build := some b' }, "")
      | none => (s, "bad-op")
  | none =>
  match s.prob with
  | none => (s, "bad-op")
  | some p =>
  match ts, s.obj with
  | ["new", a, e], _ =>
    match Alg.parse a, Entry.parse e with
    | some a, some e =>
      if e == .solver && a != .env && !p.unitCov then (s, "bad-op")
      else (setObj s p ⟨a, e, p.reg⟩, "ok")
    | _, _ => (s, "bad-op")
  | _, none => (s, "bad-op")
  | ["min_x_all"], some o => if o.entry == .solver then (setObj s p { o with reg := .all }, "ok") else (s, "bad-op")
  | "min_x" :: k :: rest, some o =>
    match k.toNat?, rest.mapM (·.toNat?) with
    | some kn, some l => if o.entry == .solver ∧ l.length = kn then (setObj s p { o with reg := .subset l }, "ok") else (s, "bad-op")
    | _, _ => (s, "bad-op")
  | ["reset"], some _ => (s, "ok")
  | ["gstrace"], some o =>
    if o.alg == .chol then
      match solverInput p o with
      | some q => (s, gsTrace q)
      | none => (s, "gstrace none")
    else (s, "bad-op")
  | ["set_alg", a], some o =>
    match Alg.parse a with
    | some a => if o.entry == .adj then (setObj s p { o with alg := a }, "ok") else (s, "bad-op")
    | none => (s, "bad-op")
  | "fresh" :: q, some o => (s, (query (cur s p o) q).getD "bad-op")
  | q, some o =>
    -- Adj does not expose q0xx/qbx/lindep/cond/min_x
    if o.entry == .adj ∧ (q.head? ∈ [some "q0xx", some "qbx", some "lindep", some "cond"]) then (s, "bad-op")
    else (s, (query (cur s p o) q).getD "bad-op")

def main (args : List String) : IO Unit :=
  match args with
  | ["rat"] => loop (step (K := Rat)) {}
  | _ => loop (step (K := Float)) {}
