/-
  Driver of the history-free adjustment-core models (protocol of harness/adj_harness.cpp).
  Every query is answered as a fresh object with the current configuration would answer it;
  `min_x…`, `reset`, `set_alg` only change the configuration.  Usage: drv_ls [float|rat]
-/
import Gama.Proto
import Gama.Model.Ls.Common
import Gama.Model.Ls.Adj
open Gama Gama.Proto Gama.Ls

structure Obj where
  alg : Alg
  entry : Entry
  reg : Reg

structure St (K : Type) where
  build : Option (PBuild K) := none
  prob : Option (Problem K) := none
  obj : Option Obj := none

variable {K : Type} [Scalar K] [Wire K]

def showVec (v : Array K) : String := "vec" ++ v.foldl (fun s x => s ++ " " ++ Wire.render x) ""
def showE (f : α → String) : Except ErrKind α → String
  | .ok a => f a
  | .error .NotModelled => "not-modelled"
  | .error e => "throw " ++ e.name

def answer (p : Problem K) (o : Obj) : Except ErrKind (Answer K) :=
  match o.entry with
  | .solver => solverOf o.alg { p with reg := o.reg }
  | .adj => adjSolve o.alg { p with reg := o.reg }

def nat2 (a b : String) : Option (Nat × Nat) := do
  let i ← a.toNat?; let j ← b.toNat?; some (i, j)

def query (p : Problem K) (o : Obj) (ts : List String) : Option String :=
  let a := answer p o
  match ts with
  | ["x"] => some (showE (fun (r : Answer K) => match r.xErr with
      | some e => "throw " ++ e.name
      | none => showVec r.x) a)
  | ["r"] => some (showE (fun (r : Answer K) => showVec r.r) a)
  | ["rtr"] => some (showE (fun (r : Answer K) => "val " ++ Wire.render r.rtr) a)
  | ["defect"] => some (showE (fun (r : Answer K) => s!"int {r.defect}") a)
  | ["qxx", i, j] => (nat2 i j).map fun (i, j) => showE (fun x => "val " ++ Wire.render x) (a >>= fun r => r.qxx i j)
  | ["q0xx", i, j] => (nat2 i j).map fun (i, j) => showE (fun x => "val " ++ Wire.render x) (a >>= fun r => r.q0xx i j)
  | ["qbb", i, j] => (nat2 i j).map fun (i, j) => showE (fun x => "val " ++ Wire.render x) (a >>= fun r => r.qbb i j)
  | ["qbx", i, j] => (nat2 i j).map fun (i, j) => showE (fun x => "val " ++ Wire.render x) (a >>= fun r => r.qbx i j)
  | ["lindep", i] => i.toNat?.map fun i => showE (fun (b : Bool) => s!"flag {if b then 1 else 0}") (a >>= fun r => r.lindep i)
  | ["cond"] => some (showE (fun x => "val " ++ Wire.render x) (a >>= fun r => r.cond))
  | _ => none

def step (s : St K) (line : String) : St K × String :=
  let ts := tokens line
  match ts with
  | [] => (s, "")
  | ["problem", m, n] =>
    match m.toNat?, n.toNat? with
    | some m, some n => ({ build := some { m := m, n := n }, prob := none, obj := none }, "")
    | _, _ => (s, "bad-op")
  | _ =>
  match s.build with
  | some b =>
    if ts = ["end"] then
      match b.finish with
      | some p => ({ build := none, prob := some p, obj := none }, "ok")
      | none => ({ build := none, prob := none, obj := none }, "bad-op")
    else match b.feed ts with
      | some b' => ({ s with build := some b' }, "")
      | none => (s, "bad-op")
  | none =>
  match s.prob with
  | none => (s, "bad-op")
  | some p =>
  match ts, s.obj with
  | ["new", a, e], _ =>
    match Alg.parse a, Entry.parse e with
    | some a, some e =>
      if e == .solver && a != .env && !p.unitCov then (s, "bad-op")
      else ({ s with obj := some ⟨a, e, p.reg⟩ }, "ok")
    | _, _ => (s, "bad-op")
  | _, none => (s, "bad-op")
  | ["min_x_all"], some o => if o.entry == .solver then ({ s with obj := some { o with reg := .all } }, "ok") else (s, "bad-op")
  | "min_x" :: k :: rest, some o =>
    match k.toNat?, rest.mapM (·.toNat?) with
    | some kn, some l => if o.entry == .solver ∧ l.length = kn then ({ s with obj := some { o with reg := .subset l } }, "ok") else (s, "bad-op")
    | _, _ => (s, "bad-op")
  | ["reset"], some _ => (s, "ok")
  | ["set_alg", a], some o =>
    match Alg.parse a with
    | some a => if o.entry == .adj then ({ s with obj := some { o with alg := a } }, "ok") else (s, "bad-op")
    | none => (s, "bad-op")
  | "fresh" :: q, some o => (s, (query p o q).getD "bad-op")
  | q, some o =>
    -- Adj does not expose q0xx/qbx/lindep/cond/min_x
    if o.entry == .adj ∧ (q.head? ∈ [some "q0xx", some "qbx", some "lindep", some "cond"]) then (s, "bad-op")
    else (s, (query p o q).getD "bad-op")

def main (args : List String) : IO Unit :=
  match args with
  | ["rat"] => loop (step (K := Rat)) {}
  | _ => loop (step (K := Float)) {}
