/-
  C14 driver: runs the revision model on the line encoding of a network that the C++ harness
  (harness/c14_revise.cpp) emits from the parsed `LocalNetwork`.

    pt <id> <sxy> <sz> <hxy> <hz> <x> <y> <z>     status 0 unused 1 fixed 2 free 3 constrained
    cl <stand>                                    opens a cluster
    ob <type 0..12> <from> <to> <fs> <active> <value>
    revise                                        update(Points); revision_points(); revision_observations()
    revobs                                        revision_observations()
    abs <tol> <n> <rhs × n> <b × n>               huge_abs_terms(); test_abs_term(1..n); remove_huge_abs_terms()
    hom <m0> <n> <stdev × n> <rhs × n>            the member b after prepareProjectEquations() when no cluster has
                                                  correlations (`homDiag`)
    del                                           (model side only) `deleteItems orig (excluded state)`: the INPUT as it
                                                  was before the first revision, with the items the current state
                                                  excludes deleted; prints its points, the observation count of its
                                                  clusters, and whether `revise` finds nothing more to exclude on it
  The `abs` answer also carries the rows of the table "Outlying absolute terms" (`absRows`).
-/
import Gama.Proto
import Gama.Model.Revise
open Gama Gama.Proto Gama.Rev

abbrev NetF := Net Float

/-- the network and, once an operation has run, the input as it was before the first operation -/
structure St where
  net : NetF
  orig : Option NetF

def emptyNet : NetF :=
  { pts := [], cls := [], removed := [], undefined := [], revised := [], rejected := [], pocbod := 0, pocmer := 0 }

def St.run (s : St) (f : NetF → NetF) : St := { net := f s.net, orig := some (s.orig.getD s.net) }

def status? : String → Option Status
  | "0" => some .unused | "1" => some .fixed | "2" => some .free | "3" => some .constrained | _ => none
def statusNum : Status → Nat
  | .unused => 0 | .fixed => 1 | .free => 2 | .constrained => 3
def bool? : String → Option Bool
  | "0" => some false | "1" => some true | _ => none
def obsType? (s : String) : Option ObsType := s.toNat?.bind fun i => ObsType.all[i]?
def typeNum (t : ObsType) : Nat := (ObsType.all.findIdx? (· == t)).getD 99
def b01 (b : Bool) : String := if b then "1" else "0"

def showObsFlags (n : NetF) : String :=
  "obs " ++ "|".intercalate (n.cls.map fun c => String.join (c.obs.map fun o => b01 o.active))

def showState (n : NetF) : String :=
  "\n".intercalate [
    "pts " ++ " ".intercalate (n.pts.map fun p => s!"{p.id}:{statusNum p.sxy}{statusNum p.sz}"),
    showObsFlags n,
    "act " ++ " ".intercalate (n.cls.map fun c => toString c.actObs),
    "removed " ++ " ".intercalate (n.removed.map fun r => s!"{r.1}:{r.2}"),
    "undefined " ++ " ".intercalate (n.undefined.map toString),
    "rejected " ++ " ".intercalate (n.rejected.map fun o => s!"{typeNum o.ty}:{o.frm}:{o.to}"),
    s!"counts {n.pocbod} {n.pocmer}" ]

def showDeleted (orig cur : NetF) : String :=
  let d := deleteItems orig (excluded cur)
  let rd := revise d
  let stable := rd.removed.isEmpty && rd.rejected.isEmpty &&
    (rd.cls.all fun c => c.obs.all (·.active)) && (rd.pts.map (·.id) == d.pts.map (·.id)) &&
    (rd.pts.all fun p => p.active) && (rd.cls.map (·.obs.length) == d.cls.map (·.obs.length))
  "\n".intercalate [
    "del pts " ++ " ".intercalate (d.pts.map fun p => s!"{p.id}:{statusNum p.sxy}{statusNum p.sz}"),
    "del obs " ++ " ".intercalate (d.cls.map fun c => toString c.obs.length),
    "del stable " ++ b01 stable ]

def addObs (n : NetF) (o : Obs Float) : Option NetF :=
  match n.cls.reverse with
  | [] => none
  | c :: rest => some { n with cls := (({ c with obs := c.obs ++ [o] }) :: rest).reverse }

def step (s : St) (line : String) : St × String :=
  match tokens line with
  | ["pt", id, sxy, sz, hxy, hz, x, y, z] =>
    match id.toNat?, status? sxy, status? sz, bool? hxy, bool? hz, float? x, float? y, float? z with
    | some id, some sxy, some sz, some hxy, some hz, some x, some y, some z =>
      ({ s with net := { s.net with pts := s.net.pts ++ [{ id, sxy, sz, hxy, hz, x, y, z }] } }, "")
    | _, _, _, _, _, _, _, _ => (s, "bad-op")
  | ["cl", st] =>
    match bool? st with
    | some st => ({ s with net := { s.net with cls := s.net.cls ++ [{ stand := st, obs := [], actObs := 0, cov := fun _ _ => 0 }] } }, "")
    | none => (s, "bad-op")
  | ["ob", ty, frm, to, fs, act, v] =>
    match obsType? ty, frm.toNat?, to.toNat?, fs.toNat?, bool? act, float? v with
    | some ty, some frm, some to, some fs, some active, some value =>
      match addObs s.net { ty, frm, to, fs, active, value } with
      | some n' => ({ s with net := n' }, "")
      | none => (s, "bad-op")
    | _, _, _, _, _, _ => (s, "bad-op")
  | ["revise"] => let s' := s.run revise; (s', showState s'.net)
  | ["revobs"] => let s' := s.run revisionObservations; (s', showState s'.net)
  | "abs" :: tol :: n :: rest =>
    match float? tol, n.toNat?, parseAll (K := Float) rest with
    | some tol, some n, some vals =>
      if vals.length ≠ 2 * n then (s, "bad-op") else
      let rhs := vals.take n
      let bh := vals.drop n
      let flag := hugeFlag s.net tol rhs
      let terms := absTerms s.net tol rhs bh
      let rows := absRows s.net tol rhs bh
      let s' := s.run fun x => removeHuge x tol rhs bh
      (s', "\n".intercalate [s!"flag {b01 flag}", "terms " ++ renderAll terms,
        "rows " ++ " ".intercalate (rows.map fun q => s!"{q.1}:{typeNum q.2.ty}:{q.2.frm}:{q.2.to}"), showObsFlags s'.net])
    | _, _, _ => (s, "bad-op")
  | "hom" :: m0 :: n :: rest =>
    match float? m0, n.toNat?, parseAll (K := Float) rest with
    | some m0, some n, some vals =>
      if vals.length ≠ 2 * n then (s, "bad-op") else
      (s, "hom " ++ renderAll (homDiag m0 (vals.take n) (vals.drop n)))
    | _, _, _ => (s, "bad-op")
  | ["del"] => (s, showDeleted (s.orig.getD s.net) s.net)
  | _ => (s, "bad-op")

def main : IO Unit := loop step { net := emptyNet, orig := none }
