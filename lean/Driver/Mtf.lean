import Gama.Proto
import Gama.Model.MoveToFront
open Gama Gama.Proto

abbrev St := Option (MTF Int Nat)

def step (s : St) (line : String) : St × String :=
  match tokens line, s with
  | ["new", n], _ =>
    match n.toNat? with
    | some k => if 1 ≤ k ∧ k ≤ 5 then (some (MTF.init (List.range k)), "ok") else (s, "bad-op")
    | none => (s, "bad-op")
  | ["get", k], some m =>
    match k.toInt? with
    | some key =>
      match m.get key with
      | some (m', (b, good)) => (some m', s!"buf {b} {if good then 1 else 0}")
      | none => (s, "undefined")
    | none => (s, "bad-op")
  | ["erase"], some m => (some m.erase, "ok")
  | _, _ => (s, "bad-op")

def main : IO Unit := loop step none
