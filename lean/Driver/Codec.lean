/-
  Driver of the number printers / reader of Gama/Model/DecimalCodec.lean (tie: harness/codec_probe.cpp,
  tools/gen/codec_probe.py).

    fmt <f|e|g> <p> <0xbits>   ->  ok <text> <value read back by the model: num/den | num | none>
    rd <text>                  ->  ok <IsFloat 0|1> <value | none | big>

  The double is converted exactly to ℚ (`Proto.ratOfBits`); the rounding rule is glibc's (`RMode.halfEven`).
-/
import Gama.Proto
import Gama.Model.DecimalCodec
open Gama Gama.Proto Gama.Dec

def showVal : Option Rat → String
  | some r => showRat r
  | none => "none"

def step (s : Unit) (line : String) : Unit × String :=
  let bad := (s, "bad-op")
  match tokens line with
  | ["fmt", k, p, b] =>
    match p.toNat?, (bits? b).bind ratOfBits with
    | some p, some x =>
      let t? : Option String :=
        if k = "f" then some (fmtFixed .halfEven p x)
        else if k = "e" then some (fmtSci .halfEven p x)
        else if k = "g" then some (fmtGen .halfEven p x)
        else none
      match t? with
      | some t => (s, s!"ok {t} {showVal (rdDecimal t)}")
      | none => bad
    | _, _ => bad
  | ["rd", t] =>
    if Lit.isFloat t.toList then
      let parts := Lit.floatParts (Lit.trim t.toList)
      if parts.2.2.2.2 > 400 then (s, "ok 1 big") else (s, s!"ok 1 {showVal (rdDecimal t)}")
    else (s, "ok 0 none")
  | _ => bad

def main : IO Unit := loop step ()
