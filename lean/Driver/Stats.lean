/-
  C09 driver: recomputes every statistic LocalNetwork reports from the inputs of its formula
  (as printed by harness/c09_stats.cpp) with the model executed at Float.  The regenerated
  definitions (Gama/Gen/StatsGen.lean) are the ones executed; Props/C09.lean proves they equal
  the reference model.
-/
import Gama.Proto
import Gama.Model.Stats
import Gama.Gen.StatsGen
open Gama Gama.Proto

def act? (s : String) : Option Stats.SigmaAct :=
  if s = "apriori" then some .apriori else if s = "aposteriori" then some .aposteriori else none

def okF (xs : List Float) : String := "ok " ++ renderAll xs

def exc (r : Except String Float) (k : Float → String) : String :=
  match r with
  | .ok v => k v
  | .error e => "throw " ++ e

def step (_ : Unit) (line : String) : Unit × String :=
  let out : String :=
    match tokens line with
    | ["dof", r, c, d] =>
      match r.toInt?, c.toInt?, d.toInt? with
      | some r, some c, some d => s!"int {StatsGen.degreesOfFreedom r c d}"
      | _, _, _ => "bad-op"
    | ["m0", a, sapr, phi, dof] =>
      match act? a, float? sapr, float? phi, dof.toInt? with
      | some a, some sapr, some phi, some dof =>
        exc (StatsGen.m0 a sapr phi dof) (fun v => okF [v, StatsGen.m0Aposteriori phi dof])
      | _, _, _, _ => "bad-op"
    | ["conf", a, cp, dof, p, nv, sv] =>
      match act? a, float? cp, dof.toInt?, float? p, float? nv, float? sv with
      | some a, some cp, some dof, some p, some nv, some sv =>
        -- Normal/Student are C17's subject: the harness supplies their values at the argument
        -- the code must use; any other argument (or dof) yields NaN
        let nan : Float := 0.0 / 0.0
        let normal : Float → Float := fun x => if x == p then nv else nan
        let student : Float → Int → Float := fun x n => if x == p && n == dof then sv else nan
        exc (StatsGen.confIntCoef normal student a cp dof) (fun v => okF [v])
      | _, _, _, _, _, _ => "bad-op"
    | ["unk", m, q] =>
      match float? m, float? q with
      | some m, some q => okF [StatsGen.unknownStdev m q]
      | _, _ => "bad-op"
    | ["obs", m, sapr, qbb, sd, r] =>
      match float? m, float? sapr, float? qbb, float? sd, float? r with
      | some m, some sapr, some qbb, some sd, some r =>
        let w := StatsGen.weightObs sapr sd
        let qvv := StatsGen.wcoefRes qbb w
        let sr := StatsGen.stdevRes m qvv
        okF [w, StatsGen.sigmaL m sapr qbb sd, qvv, sr, StatsGen.studentizedResidual sr r,
             StatsGen.obsControl qbb]
      | _, _, _, _, _ => "bad-op"
    | ["ell", cyy, cyx, cxx, m] =>
      match float? cyy, float? cyx, float? cxx, float? m with
      | some cyy, some cyx, some cxx, some m =>
        let (a, b, al) := StatsGen.stdErrorEllipse cyy cyx cxx m
        okF [a, b, al]
      | _, _, _, _ => "bad-op"
    | ["cov", m, q] =>
      match float? m, float? q with
      | some m, some q => okF [StatsGen.covEntry m q]
      | _, _ => "bad-op"
    | ["accept", p] =>
      match float? p with
      | some p => s!"flag {if StatsGen.confPrAccepted p then 1 else 0}"
      | none => "bad-op"
    | _ => "bad-op"
  ((), out)

def main : IO Unit := loop step ()
