/-
  C09 driver: recomputes every statistic LocalNetwork reports from the inputs of its formula
  (as printed by harness/c09_stats.cpp) with the model executed at Float.  The regenerated
  definitions (Gama/Gen/StatsGen.lean) are the ones executed; Props/C09.lean proves they equal
  the reference model.  A line prefixed with `ref` is evaluated with the hand-written reference
  model (Gama/Model/Stats.lean) instead: tools/props/c09.py uses the pair to locate an argument
  where a regenerated formula left the reference (grid over the guard boundaries).
  Op `cidx` runs the regenerated loop of `Cluster<Observation>::update()` and `Cluster::stdDev`
  (Gama/Gen/ClusterUpdate.lean; `ref`: Gama/Model/ClusterIndex.lean) on the activity pattern and the covariance
  diagonal of a real cluster; Props/C09Cluster.lean proves the two equal and that the value is the observation's own.
-/
import Gama.Proto
import Gama.Model.Stats
import Gama.Gen.StatsGen
import Gama.Model.ClusterIndex
import Gama.Gen.ClusterUpdate
open Gama Gama.Proto

def act? (s : String) : Option Stats.SigmaAct :=
  if s = "apriori" then some .apriori else if s = "aposteriori" then some .aposteriori else none

def okF (xs : List Float) : String := "ok " ++ renderAll xs

def exc (r : Except String Float) (k : Float → String) : String :=
  match r with
  | .ok v => k v
  | .error e => "throw " ++ e

/-- the formulas, either regenerated from the C++ or the reference -/
structure Impl where
  dof : Int → Int → Int → Int
  m0 : Stats.SigmaAct → Float → Float → Int → Except String Float
  m0Apost : Float → Int → Float
  conf : (Float → Float) → (Float → Int → Float) → Stats.SigmaAct → Float → Int → Except String Float
  unk : Float → Float → Float
  weight : Float → Float → Float
  sigmaL : Float → Float → Float → Float → Float
  wcoef : Float → Float → Float
  stdevRes : Float → Float → Float
  stud : Float → Float → Float
  control : Float → Float
  ell : Float → Float → Float → Float → Float × Float × Float
  cov : Float → Float → Float
  accept : Float → Bool
  xmlApost : Float → Int → Float
  xmlRatio : Float → Float → Int → Float
  err : Float → Float → Float → Float × Float
  hw : Float → Float → Float
  /-- `cluster_index` of the observation at a position of its cluster's list after `Cluster::update()` -/
  cidx : List Cov.ObsInfo → Nat → Option Nat
  /-- `Cluster::stdDev(int)` -/
  csd : Cov.CovMat Float → Nat → Float

def genImpl : Impl where
  dof := StatsGen.degreesOfFreedom
  m0 := StatsGen.m0
  m0Apost := StatsGen.m0Aposteriori
  conf := StatsGen.confIntCoef
  unk := StatsGen.unknownStdev
  weight := StatsGen.weightObs
  sigmaL := StatsGen.sigmaL
  wcoef := StatsGen.wcoefRes
  stdevRes := StatsGen.stdevRes
  stud := StatsGen.studentizedResidual
  control := StatsGen.obsControl
  ell := StatsGen.stdErrorEllipse
  cov := StatsGen.covEntry
  accept := StatsGen.confPrAccepted
  xmlApost := StatsGen.xmlAposteriori
  xmlRatio := StatsGen.xmlRatio
  err := StatsGen.errObsAdj
  hw := StatsGen.confHalfWidth
  cidx := ClusterGen.clusterIndex
  csd := ClusterGen.stdDev

def refImpl : Impl where
  dof := Stats.degreesOfFreedom
  m0 := fun a s p d => .ok (Stats.m0 a s p d)
  m0Apost := Stats.m0Aposteriori
  conf := fun n t a c d => .ok (Stats.confIntCoef n t a c d)
  unk := Stats.unknownStdev
  weight := Stats.weightObs
  sigmaL := Stats.sigmaL
  wcoef := Stats.wcoefRes
  stdevRes := Stats.stdevRes
  stud := Stats.studentizedResidual
  control := Stats.obsControl
  ell := Stats.stdErrorEllipse
  cov := Stats.covEntry
  accept := Stats.confPrAccepted
  xmlApost := Stats.xmlAposteriori
  xmlRatio := Stats.xmlRatio
  err := Stats.errObsAdj
  hw := Stats.confHalfWidth
  cidx := Cov.clusterIndex
  csd := Cov.stdDevAt

/-- `cidx k flags d_1 … d_n`: the observation at position `k` of a cluster whose observations have the `active()`
    flags `flags` (0/1 per observation, list order) and whose covariance matrix has the diagonal `d`; answers the
    `cluster_index` `Cluster::update()` assigns and `Observation::stdDev()` = `cluster->stdDev(cluster_index)`.
    (Only the diagonal is read by `stdDev`, so the matrix is rebuilt with band 0.) -/
def evalCidx (I : Impl) (k flags : String) (ds : List String) : String :=
  match k.toNat?, ds.mapM float? with
  | some k, some ds =>
    if flags.toList.all (fun c => c == '0' || c == '1') then
      let obs : List Cov.ObsInfo := flags.toList.map fun c => ⟨c == '1', 1⟩
      let cov : Cov.CovMat Float := ⟨ds.length, 0, ds.toArray⟩
      match I.cidx obs k with
      | some ci => s!"ok {ci} " ++ renderAll [I.csd cov ci]
      | none => "ok not-assigned " ++ renderAll [(0.0 / 0.0 : Float)]
    else "bad-op"
  | _, _ => "bad-op"

def eval (I : Impl) (toks : List String) : String :=
    match toks with
    | ["dof", r, c, d] =>
      match r.toInt?, c.toInt?, d.toInt? with
      | some r, some c, some d => s!"int {I.dof r c d}"
      | _, _, _ => "bad-op"
    | ["m0", a, sapr, phi, dof] =>
      match act? a, float? sapr, float? phi, dof.toInt? with
      | some a, some sapr, some phi, some dof =>
        exc (I.m0 a sapr phi dof) (fun v => okF [v, I.m0Apost phi dof])
      | _, _, _, _ => "bad-op"
    | ["conf", a, cp, dof, p, nv, sv] =>
      match act? a, float? cp, dof.toInt?, float? p, float? nv, float? sv with
      | some a, some cp, some dof, some p, some nv, some sv =>
        -- Normal/Student are C17's subject: the harness supplies their values at the argument
        -- the code must use; any other argument (or dof) yields NaN
        let nan : Float := 0.0 / 0.0
        let normal : Float → Float := fun x => if x == p then nv else nan
        let student : Float → Int → Float := fun x n => if x == p && n == dof then sv else nan
        exc (I.conf normal student a cp dof) (fun v => okF [v])
      | _, _, _, _, _, _ => "bad-op"
    | ["unk", m, q] =>
      match float? m, float? q with
      | some m, some q => okF [I.unk m q]
      | _, _ => "bad-op"
    | ["obs", m, sapr, qbb, sd, r] =>
      match float? m, float? sapr, float? qbb, float? sd, float? r with
      | some m, some sapr, some qbb, some sd, some r =>
        let w := I.weight sapr sd
        let qvv := I.wcoef qbb w
        let sr := I.stdevRes m qvv
        okF [w, I.sigmaL m sapr qbb sd, qvv, sr, I.stud sr r, I.control qbb]
      | _, _, _, _, _ => "bad-op"
    | ["ell", cyy, cyx, cxx, m] =>
      match float? cyy, float? cyx, float? cxx, float? m with
      | some cyy, some cyx, some cxx, some m =>
        let (a, b, al) := I.ell cyy cyx cxx m
        okF [a, b, al]
      | _, _, _, _ => "bad-op"
    | ["cov", m, q] =>
      match float? m, float? q with
      | some m, some q => okF [I.cov m q]
      | _, _ => "bad-op"
    | ["xml", phi, sapr, dof] =>
      match float? phi, float? sapr, dof.toInt? with
      | some phi, some sapr, some dof => okF [I.xmlApost phi dof, I.xmlRatio phi sapr dof]
      | _, _, _ => "bad-op"
    | ["err", v, qvv, w] =>
      match float? v, float? qvv, float? w with
      | some v, some qvv, some w =>
        let (em, ev) := I.err v qvv w
        okF [em, ev]
      | _, _, _ => "bad-op"
    | ["hw", sd, kki] =>
      match float? sd, float? kki with
      | some sd, some kki => okF [I.hw sd kki]
      | _, _ => "bad-op"
    | "cidx" :: k :: flags :: ds => evalCidx I k flags ds
    | ["accept", p] =>
      match float? p with
      | some p => s!"flag {if I.accept p then 1 else 0}"
      | none => "bad-op"
    | _ => "bad-op"

def step (_ : Unit) (line : String) : Unit × String :=
  match tokens line with
  | "ref" :: rest => ((), eval refImpl rest)
  | toks => ((), eval genImpl toks)

def main : IO Unit := loop step ()
