/-
  C13 driver: parse ∘ export of the model on the operation lines of harness/c13_export.cpp.
  `obs <dochex> <stationhex> ; <kind> <attr>=<hexval> … ; <kind> …`   (numbers are decimal strings)
  `dh  <dochex> ; dh <attr>=<hexval> … ; …`
-/
import Gama.Proto
import Gama.Model.Export
open Gama Gama.Proto Gama.Export Gama.Gen.GkfAttrs

def unhexStr (s : String) : Option String :=
  if s = "-" then some "" else
  let rec go : List Char → Option (List UInt8)
    | [] => some []
    | [_] => none
    | a :: b :: r => do
      let x ← hexDigit? a
      let y ← hexDigit? b
      let t ← go r
      pure (UInt8.ofNat (x * 16 + y) :: t)
  (go s.toList).bind (fun bs => String.fromUTF8? (ByteArray.mk bs.toArray))

def hexStr (s : String) : String :=
  if s.isEmpty then "-" else String.join (s.toUTF8.toList.map (fun c => hexOfNat c.toNat 2))

/-- decimal text as the number type: zero test on the text -/
def isZeroText (s : String) : Bool :=
  !s.isEmpty && s.all (fun c => c == '0' || c == '.' || c == '-' || c == '+')

def txtFmt : NumFmt String := ⟨id, some, "0", isZeroText⟩

def attrOf : String → Option Attr
  | "from" => some .from_ | "to" => some .to | "bs" => some .bs | "fs" => some .fs | "rs" => some .rs
  | "val" => some .val | "stdev" => some .stdev | "from_dh" => some .from_dh | "to_dh" => some .to_dh
  | "bs_dh" => some .bs_dh | "fs_dh" => some .fs_dh | "dist" => some .dist | "extern" => some .extern
  | "dx" => some .dx | "dy" => some .dy | "dz" => some .dz | _ => none

def attrName : Attr → String
  | .from_ => "from" | .to => "to" | .bs => "bs" | .fs => "fs" | .rs => "rs" | .val => "val" | .stdev => "stdev"
  | .from_dh => "from_dh" | .to_dh => "to_dh" | .bs_dh => "bs_dh" | .fs_dh => "fs_dh" | .dist => "dist"
  | .extern => "extern" | .dx => "dx" | .dy => "dy" | .dz => "dz"

def elemOf : String → Option Elem
  | "distance" => some .distance | "direction" => some .direction | "angle" => some .angle
  | "s-distance" => some .sdistance | "z-angle" => some .zangle | "azimuth" => some .azimuth
  | "dh" => some .dh | _ => none

def elemName : Elem → String
  | .distance => "distance" | .direction => "direction" | .angle => "angle" | .sdistance => "s-distance"
  | .zangle => "z-angle" | .azimuth => "azimuth" | .dh => "dh" | .vec => "vec"

def parseAttr (t : String) : Option (Attr × String) :=
  match t.splitOn "=" with
  | [a, v] => do
    let an ← attrOf a
    let s ← unhexStr v
    pure (an, s)
  | _ => none

def splitSemi : List String → List String → List (List String) → List (List String)
  | [], cur, acc => (cur.reverse :: acc).reverse
  | ";" :: r, cur, acc => splitSemi r [] (cur.reverse :: acc)
  | t :: r, cur, acc => splitSemi r (t :: cur) acc

def parseElems (ts : List String) : Option (List (Elem × Attrs)) :=
  let groups := (splitSemi ts [] []).filter (· ≠ [])
  groups.mapM (fun g => match g with
    | k :: as => do
      let e ← elemOf k
      let l ← as.mapM parseAttr
      pure (e, l)
    | [] => none)

def showElem (ea : Elem × Attrs) : String :=
  "el " ++ elemName ea.1 ++ String.join (ea.2.map (fun a => " " ++ attrName a.1 ++ "=" ++ hexStr a.2))

def errName : Err → String
  | .undefinedAttribute => "undefinedAttribute" | .missingStandpoint => "missingStandpoint"
  | .missingTarget => "missingTarget" | .missingSecondTarget => "missingSecondTarget"
  | .missingValue => "missingValue" | .badNumber => "badNumber"
  | .missingPointId => "missingPointId" | .missingCoordinate => "missingCoordinate"
  | .undefinedPointType => "undefinedPointType" | .badParameter => "badParameter" | .badNetwork => "badNetwork"
  | .badCovMat => "badCovMat" | .missingCovMat => "missingCovMat" | .badVector => "badVector"
  | .illegalElement => "illegalElement" | .emptyCoordsPoint => "emptyCoordsPoint"

def step (_ : Unit) (line : String) : Unit × String :=
  match tokens line with
  | "obs" :: _doc :: cf :: rest =>
    match unhexStr cf, parseElems rest with
    | some station, some els =>
      match parseCluster txtFmt (fun _ => "IMPLICIT") (station, els) with
      | .ok c =>
        let ex := exportCluster txtFmt true c
        ((), "\n".intercalate (("station " ++ hexStr ex.1) :: ex.2.map showElem))
      | .error e => ((), "throw " ++ errName e)
    | _, _ => ((), "bad-op")
  | "dh" :: _doc :: rest =>
    match parseElems rest with
    | some els =>
      let outs := els.map (fun ea => match parseDh txtFmt (fun d => "SD(" ++ d ++ ")") ea.2 with
        | .ok h => showElem (exportDh txtFmt true (fun d => !isZeroText d) h)
        | .error e => "throw " ++ errName e)
      ((), "\n".intercalate outs)
    | none => ((), "bad-op")
  | _ => ((), "bad-op")

def main : IO Unit := loop step ()
