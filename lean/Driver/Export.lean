/-
  C13 driver: parse ∘ export of the model on the operation lines of harness/c13_export.cpp.
  `obs <dochex> <stationhex> ; <kind> <attr>=<hexval> … ; <kind> …`   (numbers are decimal strings)
  `dh  <dochex> ; dh <attr>=<hexval> … ; …`
-/
import Gama.Proto
import Gama.Model.Export
import Gama.Model.ExportNet
import Gama.Model.ExportWF
open Gama Gama.Proto Gama.Export Gama.Gen.GkfAttrs Gama.Gen.GkfDoc

def unhexStr (s : String) : Option String :=
  if s = "-" then some "" else
  let rec go : List Char → Option (List UInt8)
    | [] => some []
    | [_] => none
    | a :: b :: r => do
      let x ← hexDigit? a
      let y ← hexDigit? b
      let t ← go r
      pure (UInt8.ofNat (x * 16 + y) :: t)
  (go s.toList).bind (fun bs => String.fromUTF8? (ByteArray.mk bs.toArray))

def hexStr (s : String) : String :=
  if s.isEmpty then "-" else String.join (s.toUTF8.toList.map (fun c => hexOfNat c.toNat 2))

/-- decimal text as the number type: zero test on the text -/
def isZeroText (s : String) : Bool :=
  !s.isEmpty && s.all (fun c => c == '0' || c == '.' || c == '-' || c == '+')

def txtFmt : NumFmt String := ⟨id, some, "0", isZeroText⟩

def attrOf : String → Option Attr
  | "from" => some .from_ | "to" => some .to | "bs" => some .bs | "fs" => some .fs | "rs" => some .rs
  | "val" => some .val | "stdev" => some .stdev | "from_dh" => some .from_dh | "to_dh" => some .to_dh
  | "bs_dh" => some .bs_dh | "fs_dh" => some .fs_dh | "dist" => some .dist | "extern" => some .extern
  | "dx" => some .dx | "dy" => some .dy | "dz" => some .dz | _ => none

def attrName : Attr → String
  | .from_ => "from" | .to => "to" | .bs => "bs" | .fs => "fs" | .rs => "rs" | .val => "val" | .stdev => "stdev"
  | .from_dh => "from_dh" | .to_dh => "to_dh" | .bs_dh => "bs_dh" | .fs_dh => "fs_dh" | .dist => "dist"
  | .extern => "extern" | .dx => "dx" | .dy => "dy" | .dz => "dz"

def elemOf : String → Option Elem
  | "distance" => some .distance | "direction" => some .direction | "angle" => some .angle
  | "s-distance" => some .sdistance | "z-angle" => some .zangle | "azimuth" => some .azimuth
  | "dh" => some .dh | _ => none

def elemName : Elem → String
  | .distance => "distance" | .direction => "direction" | .angle => "angle" | .sdistance => "s-distance"
  | .zangle => "z-angle" | .azimuth => "azimuth" | .dh => "dh" | .vec => "vec"

def parseAttr (t : String) : Option (Attr × String) :=
  match t.splitOn "=" with
  | [a, v] => do
    let an ← attrOf a
    let s ← unhexStr v
    pure (an, s)
  | _ => none

def splitSemi : List String → List String → List (List String) → List (List String)
  | [], cur, acc => (cur.reverse :: acc).reverse
  | ";" :: r, cur, acc => splitSemi r [] (cur.reverse :: acc)
  | t :: r, cur, acc => splitSemi r (t :: cur) acc

def parseElems (ts : List String) : Option (List (Elem × Attrs)) :=
  let groups := (splitSemi ts [] []).filter (· ≠ [])
  groups.mapM (fun g => match g with
    | k :: as => do
      let e ← elemOf k
      let l ← as.mapM parseAttr
      pure (e, l)
    | [] => none)

def showElem (ea : Elem × Attrs) : String :=
  "el " ++ elemName ea.1 ++ String.join (ea.2.map (fun a => " " ++ attrName a.1 ++ "=" ++ hexStr a.2))

def errName : Err → String
  | .undefinedAttribute => "undefinedAttribute" | .missingStandpoint => "missingStandpoint"
  | .missingTarget => "missingTarget" | .missingSecondTarget => "missingSecondTarget"
  | .missingValue => "missingValue" | .badNumber => "badNumber"
  | .missingPointId => "missingPointId" | .missingCoordinate => "missingCoordinate"
  | .undefinedPointType => "undefinedPointType" | .badParameter => "badParameter" | .badNetwork => "badNetwork"
  | .badCovMat => "badCovMat" | .missingCovMat => "missingCovMat" | .badVector => "badVector"
  | .illegalElement => "illegalElement" | .emptyCoordsPoint => "emptyCoordsPoint"

/-! ## whole documents: `net <dochex> | H a=v … | T <descr> | P a=v … | O a=v … | pt a=v … | obs a=v … ; el <kind> a=v … ; cov <dim> <band> v … | …`
    numbers are hex doubles (inside the hex-encoded strings), sexagesimal values `D<hex double of the gon value>` -/

def dropFirst (s : String) : String := String.ofList (s.toList.drop 1)

def fCodec : Codec Float :=
  { fmt := showFloat, rd := float?, zero := 0.0, isZero := fun x => x == 0.0,
    neg := fun x => -x, fmtI := fun i => toString i, rdI := fun s => s.trimAscii.toString.toInt?,
    latOut := fun x => x * 200.0 / 3.14159265358979323846, latIn := fun x => x * 3.14159265358979323846 / 200.0,
    fmtDeg := fun x => "D" ++ showFloat x,
    rdDeg := fun s => if s.startsWith "D" then float? (dropFirst s) else none,
    toSec := fun x => x * 0.324, fromSec := fun x => x * (1.0 / 0.324),
    pos := fun x => x > 0.0, lt1 := fun x => x < 1.0, ellKnown := fun _ => true,
    sdDist := fun s d => s * Float.sqrt d }

def par0 : Params Float := ⟨10.0, 0.95, 1000.0, false, true, none, none, none, -1⟩

def splitOnTok (sep : String) : List String → List String → List (List String) → List (List String)
  | [], cur, acc => (cur.reverse :: acc).reverse
  | t :: r, cur, acc => if t == sep then splitOnTok sep r [] (cur.reverse :: acc) else splitOnTok sep r (t :: cur) acc

def kvs (ts : List String) : Option (List (String × String)) :=
  ts.mapM (fun t => match t.splitOn "=" with
    | [a, v] => (unhexStr v).map (fun s => (a, s))
    | _ => none)

def typed {α : Type} (f : String → Option α) (l : List (String × String)) : Except Err (List (α × String)) :=
  l.mapM (fun a => match f a.1 with
    | some x => .ok (x, a.2)
    | none => .error .undefinedAttribute)

def covOf (ts : List String) : Option CovDoc :=
  match ts with
  | "cov" :: d :: b :: rest => do
    let dim ← d.toNat?
    let band ← b.toNat?
    let xs ← rest.mapM unhexStr
    pure (dim, band, xs)
  | _ => none

/-- groups of an item after splitting on `;` : the cluster attributes, the elements, an optional trailing cov -/
def itemOf (groups : List (List String)) : Except Err DItem :=
  match groups with
  | ("pt" :: as) :: _ =>
    match kvs as with
    | some l => (typed PAttr.ofName l).map DItem.point
    | none => .error .illegalElement
  | (tag :: as) :: rest =>
    let cov := rest.findSome? covOf
    let els := rest.filter (fun g => g.head? != some "cov" && g != [])
    match kvs as with
    | none => .error .illegalElement
    | some cas =>
      if tag == "obs" || tag == "hd" then
        match els.mapM (fun g => match g with
            | "el" :: k :: eas => do
              let e ← elemOf k
              let l ← eas.mapM parseAttr
              pure (e, l)
            | _ => none) with
        | some l => .ok (if tag == "obs" then DItem.obs cas l cov else DItem.hdiffs l cov)
        | none => .error .undefinedAttribute
      else if tag == "co" then
        match els.mapM (fun g => match g with
            | "p" :: pas => (kvs pas).bind (fun l => (typed PAttr.ofName l).toOption)
            | _ => none) with
        | some l => .ok (DItem.coords cas l cov)
        | none => .error .undefinedAttribute
      else if tag == "ve" then
        match els.mapM (fun g => match g with
            | "vec" :: vas => vas.mapM parseAttr
            | _ => none) with
        | some l => .ok (DItem.vectors l cov)
        | none => .error .undefinedAttribute
      else .error .illegalElement
  | _ => .error .illegalElement

def docOf (secs : List (List String)) : Except Err Doc := do
  let mut d : Doc := ⟨[], "", [], [], []⟩
  let mut items : List DItem := []
  for sec in secs do
    match sec with
    | "H" :: as =>
      match kvs as with
      | some l => d := { d with net := ← typed NAttr.ofName l }
      | none => throw .illegalElement
    | ["T", t] => d := { d with descr := (unhexStr t).getD "" }
    | "P" :: as =>
      match kvs as with
      | some l => d := { d with par := d.par ++ (← typed ParAttr.ofName l) }
      | none => throw .illegalElement
    | "O" :: as =>
      match kvs as with
      | some l => d := { d with po := l }
      | none => throw .illegalElement
    | [] => pure ()
    | _ => items := items ++ [← itemOf (splitOnTok ";" sec [] [])]
  pure { d with items := items }

def showKV {α : Type} (nm : α → String) (l : List (α × String)) : String :=
  String.join (l.map (fun a => " " ++ nm a.1 ++ "=" ++ hexStr a.2))

def attrNameV : Attr → String := attrName

def showCov : Option CovDoc → String
  | none => ""
  | some c => " ; cov " ++ toString c.1 ++ " " ++ toString c.2.1 ++ String.join (c.2.2.map (fun x => " " ++ hexStr x))

def showItem : DItem → String
  | .point as => "pt" ++ showKV PAttr.name as
  | .obs as els cov => "obs" ++ showKV id as ++ String.join (els.map (fun e => " ; " ++ showElem e)) ++ showCov cov
  | .hdiffs els cov => "hd" ++ String.join (els.map (fun e => " ; " ++ showElem e)) ++ showCov cov
  | .coords as pts cov => "co" ++ showKV id as ++ String.join (pts.map (fun p => " ; p" ++ showKV PAttr.name p)) ++ showCov cov
  | .vectors vs cov => "ve" ++ String.join (vs.map (fun v => " ; vec" ++ showKV attrName v)) ++ showCov cov

def showDoc (d : Doc) : List String :=
  ["H" ++ showKV NAttr.name d.net, "T " ++ hexStr d.descr, "P" ++ showKV ParAttr.name d.par] ++ d.items.map showItem

/-! ### the hypothesis of the round-trip theorems, evaluated: the same generic model at a second carrier — numbers are
    their canonical text, conversions are symbolic — where equality of numbers is decidable, so `Net.WF` (Model/ExportWF.lean,
    `Decidable` instance) can be computed for the network the parser returns -/

def sNorm (s : String) : Option String := (float? s).map showFloat

def sCodec : Codec String :=
  { fmt := id, rd := sNorm, zero := showFloat 0.0, isZero := fun x => x == showFloat 0.0,
    neg := fun x => if x.startsWith "-" then dropFirst x else "-" ++ x,
    fmtI := fun i => toString i, rdI := fun s => s.trimAscii.toString.toInt?,
    latOut := fun x => "LO(" ++ x ++ ")", latIn := fun x => "LI(" ++ x ++ ")",
    fmtDeg := fun x => "D" ++ x, rdDeg := fun s => if s.startsWith "D" then sNorm (dropFirst s) else none,
    toSec := fun x => "S(" ++ x ++ ")", fromSec := fun x => "U(" ++ x ++ ")",
    pos := fun x => match float? x with | some v => v > 0.0 | none => false,
    lt1 := fun x => match float? x with | some v => v < 1.0 | none => false,
    ellKnown := fun _ => true, sdDist := fun s d => "SD(" ++ s ++ "," ++ d ++ ")" }

def spar0 : Params String := ⟨showFloat 10.0, showFloat 0.95, showFloat 1000.0, false, true, none, none, none, -1⟩

instance : DecidablePred (fun _ : String => True) := fun _ => isTrue trivial

def clusterTag : Cluster String → String
  | .obs .. => "obs" | .hdiffs .. => "hd" | .coords .. => "co" | .vectors .. => "ve"

/-- `wf 1`, or `wf 0` followed by the components of `Net.WF` that fail -/
def wfLine (d : Doc) : String :=
  match parseNet sCodec (fun _ => "IMPL") spar0 d with
  | .error _ => "wf -"
  | .ok n =>
    let R : String → Prop := fun _ => True
    if decide (n.WF sCodec R R) then "wf 1"
    else
      let bad : List String :=
        (if decide (n.par.WF sCodec R) then [] else ["par"]) ++
        (if decide (∀ p ∈ n.points, p.id ≠ "" ∧ p.Rep R) then [] else ["ids"]) ++
        (if decide ((n.points.map (·.id)).Nodup) then [] else ["nodup"]) ++
        ((n.clusters.filter (fun c => !decide (c.WF sCodec R R n.par.gons n.par.sigmaApr (n.points.filter Point.active)))).map
          clusterTag).eraseDups
      "wf 0 " ++ " ".intercalate bad

/-- model of gama-local's reading + export: parse, remove_inconsistency, export_xml; then the model's reading of its
    own export once more (must succeed); last line: the hypothesis `Net.WF` of the theorems for the network read -/
def runNet (secs : List (List String)) : String :=
  match docOf secs with
  | .error e => "throw " ++ errName e
  | .ok d =>
    match parseNet fCodec (fun _ => 0.0) par0 d with
    | .error e => "throw " ++ errName e
    | .ok n =>
      let ex := exportNet fCodec n
      let again := match parseNet fCodec (fun _ => 0.0) par0 ex with
        | .ok n2 => if showDoc (exportNet fCodec n2) == showDoc ex then "again same" else "again differs"
        | .error e => "again throw " ++ errName e
      "\n".intercalate (showDoc ex ++ [again, wfLine d])

def step (_ : Unit) (line : String) : Unit × String :=
  match tokens line with
  | "obs" :: _doc :: cf :: rest =>
    match unhexStr cf, parseElems rest with
    | some station, some els =>
      match parseCluster txtFmt (fun _ => "IMPLICIT") (station, els) with
      | .ok c =>
        let ex := exportCluster txtFmt true c
        ((), "\n".intercalate (("station " ++ hexStr ex.1) :: ex.2.map showElem))
      | .error e => ((), "throw " ++ errName e)
    | _, _ => ((), "bad-op")
  | "net" :: _doc :: rest => ((), runNet (splitOnTok "|" rest [] []))
  | "dh" :: _doc :: rest =>
    match parseElems rest with
    | some els =>
      let outs := els.map (fun ea => match parseDh txtFmt (fun d => "SD(" ++ d ++ ")") ea.2 with
        | .ok h => showElem (exportDh txtFmt true (fun d => !isZeroText d) dhStdevAlways h)
        | .error e => "throw " ++ errName e)
      ((), "\n".intercalate outs)
    | none => ((), "bad-op")
  | _ => ((), "bad-op")

def main : IO Unit := loop step ()
