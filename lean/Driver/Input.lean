import Gama.Proto
import Gama.Model.PointId
import Gama.Model.Input
open Gama Gama.Proto

/-- bytes cross the protocol as lower-case hex pairs, `-` for the empty string -/
def unhexBytes (s : String) : Option (List UInt8) :=
  if s = "-" then some [] else
  let rec go : List Char → Option (List UInt8)
    | [] => some []
    | [_] => none
    | a :: b :: t => do
        let x ← hexDigit? a
        let y ← hexDigit? b
        let r ← go t
        some (UInt8.ofNat (16 * x + y) :: r)
  go s.toList

def hexBytes (b : List UInt8) : String :=
  if b.isEmpty then "-" else String.join (b.map fun c => hexOfNat c.toNat 2)

def bytesToString (b : List UInt8) : String := String.ofList (b.map fun c => Char.ofNat c.toNat)

def b01 (b : Bool) : String := if b then "1" else "0"

def kindOf? : String → Option Input.ObsKind
  | "direction" => some .direction | "distance" => some .distance | "angle" => some .angle
  | "h_diff" => some .h_diff | "s_distance" => some .s_distance | "z_angle" => some .z_angle
  | "x" => some .x | "y" => some .y | "z" => some .z | "xdiff" => some .xdiff | "ydiff" => some .ydiff
  | "zdiff" => some .zdiff | "azimuth" => some .azimuth | _ => none

def parsePts : Nat → List String → Option (List (Input.NetPoint Float) × List String)
  | 0, ts => some ([], ts)
  | n + 1, h :: x :: y :: z :: ts => do
      let xf ← float? x
      let yf ← float? y
      let zf ← float? z
      let (r, rest) ← parsePts n ts
      some (⟨h = "1", xf, yf, zf⟩ :: r, rest)
  | _, _ => none

def parseObs : Nat → List String → Option (List (Input.NetObs Float) × List String)
  | 0, ts => some ([], ts)
  | n + 1, k :: v :: ts => do
      let kk ← kindOf? k
      let vf ← float? v
      let (r, rest) ← parseObs n ts
      some (⟨kk, vf⟩ :: r, rest)
  | _, _ => none

def parseFloats : Nat → List String → Option (List Float × List String)
  | 0, ts => some ([], ts)
  | n + 1, v :: ts => do
      let vf ← float? v
      let (r, rest) ← parseFloats n ts
      some (vf :: r, rest)
  | _, _ => none

def chunk (w : Nat) : Nat → List Float → List (List Float)
  | 0, _ => []
  | n + 1, l => l.take w :: chunk w n (l.drop w)

def parseClusters : Nat → List String → Option (List (Input.NetCluster Float) × List String)
  | 0, ts => some ([], ts)
  | n + 1, no :: dm :: ts => do
      let m ← no.toNat?
      let d ← dm.toNat?
      let (obs, r1) ← parseObs m ts
      let (cv, r2) ← parseFloats (d * d) r1
      let (r, rest) ← parseClusters n r2
      some (⟨obs, d, fun i j => cv.getD (i * d + j) 0⟩ :: r, rest)
  | _, _ => none

def showCluster (c : Input.NetCluster Float) : String :=
  " ".intercalate (c.obs.map fun o => showFloat o.value) ++ " : " ++
    " ".intercalate ((List.range c.dim).flatMap fun i => (List.range c.dim).map fun j => showFloat (c.cov i j))

def showNet (n : Input.Net Float) : String :=
  " ".intercalate (n.points.map fun p => showFloat p.x ++ " " ++ showFloat p.y)
    ++ " | " ++ " ; ".intercalate (n.clusters.map showCluster)

def step (_ : Unit) (line : String) : Unit × String :=
  match tokens line with
  | ["pid", a, b] =>
    match unhexBytes a, unhexBytes b with
    | some x, some y =>
      let p := PointId.init x
      let q := PointId.init y
      ((), s!"ok {b01 (PointId.lt p q)} {b01 (PointId.lt q p)} {b01 (PointId.eq p q)} {b01 (PointId.ne p q)} {b01 (p.iid != 0)} {b01 (q.iid != 0)} {hexBytes p.sid} {hexBytes q.sid}")
    | _, _ => ((), "bad-op")
  | ["pid3", a, b, c] =>
    match unhexBytes a, unhexBytes b, unhexBytes c with
    | some x, some y, some z =>
      let p := PointId.init x
      let q := PointId.init y
      let r := PointId.init z
      ((), s!"ok {b01 (PointId.lt p q)} {b01 (PointId.lt q p)} {b01 (PointId.lt q r)} {b01 (PointId.lt r q)} {b01 (PointId.lt p r)} {b01 (PointId.lt r p)}")
    | _, _, _ => ((), "bad-op")
  | "pmap" :: ids =>
    -- `std::map<PointID,int>` used within its contract (C07_pointid_total_order): one node per distinct
    -- identifier, every inserted identifier is found again, iteration ascending
    match ids.mapM unhexBytes with
    | some bs =>
      let ps := bs.map PointId.init
      ((), s!"ok {ps.eraseDups.length} {ps.length} 1")
    | none => ((), "bad-op")
  | ["dms", t] =>
    match unhexBytes t with
    | some x =>
      match (Angles.deg2gon (bytesToString x) : Option Float) with
      | some g => ((), s!"ok 1 {showFloat g}")
      | none => ((), "ok 0")
    | none => ((), "bad-op")
  | ["ang", _, v, sd] =>
    match unhexBytes v, unhexBytes sd with
    | some x, some y =>
      match (Input.angularValue (bytesToString x) : Option (Float × Bool)), Input.parseDecimal (bytesToString y) with
      | some (dm, deg), some (false, s) =>
        ((), s!"ok {showFloat (Input.toRadians dm)} {showFloat (Input.variance (Input.decToK s : Float) deg)} {b01 deg}")
      | _, _ => ((), "none")
    | _, _ => ((), "bad-op")
  | ["axes", a, g] =>
    match Input.parseAxes a, Input.parseAngles g with
    | some cs, some lh =>
      ((), s!"ok {b01 (Input.consistent cs lh)} {showFloat (Input.ySign cs lh : Float)} {b01 (Input.rightHandedCoords cs)} {b01 (Input.leftHandedCoords cs)}")
    | _, _ => ((), "error")
  | "flip" :: _ :: a :: g :: np :: rest =>
    match Input.parseAxes a, Input.parseAngles g, np.toNat? with
    | some cs, some lh, some n =>
      match parsePts n rest with
      | some (pts, no :: rest) =>
        match no.toNat? with
        | some m =>
          match parseClusters m rest with
          | some (cls, []) =>
            let net : Input.Net Float := ⟨cs, lh, false, pts, cls⟩
            let n1 := Input.removeInconsistency net
            let n2 := Input.removeInconsistency n1
            let n3 := Input.returnInconsistency n2
            ((), s!"ok {showNet n1} # {showNet n2} # {showNet n3}")
          | _ => ((), "bad-op")
        | none => ((), "bad-op")
      | _ => ((), "bad-op")
    | _, _, _ => ((), "bad-op")
  | _ => ((), "bad-op")

def main : IO Unit := loop step ()
