/-
  Line-protocol driver for the C16 models (sparse matrix, graph, connectivity, RCM, envelope).
  `drv_sparse float` executes the numeric kernels at `Float`, `drv_sparse rat` at `Rat`.
  Same operation lines as harness/c16_sparse.cpp.
-/
import Gama.Proto
import Gama.Model.Sparse
import Gama.Model.SparseOps
import Gama.Model.Graph
import Gama.Model.Connected
import Gama.Model.RCM
import Gama.Model.Envelope
import Gama.Model.BlockDiagonal
open Gama Gama.Proto

structure Sess (K : Type) where
  A : Option (SMat K) := none
  g : Option Adj := none
  o : Option SOrdering := none
  E : Option (Env K) := none      -- current envelope (before / after cholDec)
  Z : Option (Env K) := none      -- inverse
  bd : Option (Cov.BlockDiag K) := none   -- BlockDiagonal (sbdiagonal.h)

def nats (l : List Nat) : String := " ".intercalate (l.map toString)

section
variable {K : Type} [Scalar K] [Wire K]
attribute [local instance] inhabitedOfScalar

def dumpCrs (A : SMat K) : String :=
  let ptr := (List.range' 1 (A.rcnt + 1)).map fun i => A.rptr[i]!
  let ind := (A.cind.extract 0 A.ncnt).toList
  let val := (A.nonz.extract 0 A.ncnt).toList
  s!"crs {A.rows} {A.cols} {A.rcnt} {A.ncnt} ptr {nats ptr} ind {nats ind} val {renderAll val}"

def dumpGraph (g : Adj) : String :=
  let xs := (List.range' 1 (g.nodes + 1)).map fun i => g.xadj[i]!
  let n := g.xadj[g.nodes + 1]!
  s!"graph {g.nodes} xadj {nats xs} adj {nats (g.adjncy.extract 0 n).toList}"

def dumpEnv (tag : String) (E : Env K) : String :=
  let ws := (List.range' 1 E.dim).map E.width
  let xs := if E.dim = 0 then [] else (List.range' 1 (E.dim + 1)).map fun i => E.xenv.getD i 0
  s!"{tag} {E.dim} defect {E.defect} width {nats ws} xenv {nats xs} diag {renderAll E.diag.toList} env {renderAll E.env.toList}"

def dumpElements (E : Env K) : String :=
  let cells := (List.range' 1 E.dim).flatMap fun i => (List.range' 1 E.dim).map fun j =>
    match E.element i j with
    | some v => Wire.render v
    | none => "null"
  "elements " ++ " ".intercalate cells

/-- `blocks ncnt size | dim… | width… | begin(1..blocks+1) offsets | nonz[0..ncnt)` -/
def dumpBd (bd : Cov.BlockDiag K) : String :=
  let ix := List.range' 1 bd.blocks
  s!"bd {bd.blocks} {bd.ncnt} {bd.size} dim {nats (ix.map bd.dimOf)} width {nats (ix.map bd.widthOf)} begin {nats ((List.range' 1 (bd.blocks + 1)).map bd.beginOf)} nonz {renderAll (bd.nonz.extract 0 bd.ncnt).toList}"

def vecArg (ts : List String) : Option (Array K) := (parseAll ts).map List.toArray

/-- `exactTol = true` (the `Rat` driver): `cholDec()` without argument is run with the exact value
    `2⁻²⁶ = sqrt(2⁻⁵²)` of the default tolerance, because `Scalar Rat` has no square root;
    the `Float` driver runs the `tol ≤ 0 → sqrt(epsilon)` branch of the model itself. -/
def step (exactTol : Bool) (s : Sess K) (line : String) : Sess K × String :=
  match tokens line with
  | ["choldec0"] =>
    match s.E with
    | some E =>
      let E := if exactTol then E.cholDec (1 / Scalar.ofNat (2 ^ 26)) else E.cholDec 0
      ({ s with E := some E }, dumpEnv "chol" E)
    | none => (s, "bad-op")
  | ["bdnew", b, f] =>
    match b.toNat?, f.toNat? with
    | some b, some f => ({ s with bd := some (Cov.BlockDiag.init 0 b f) }, "ok")
    | _, _ => (s, "bad-op")
  | "bdadd" :: d :: w :: es =>
    match s.bd, d.toNat?, w.toNat?, (vecArg es : Option (Array K)) with
    | some bd, some d, some w, some mem =>
      if bd.canAddBlock d w mem then ({ s with bd := some (bd.addBlock 0 d w mem) }, "ok") else (s, "refused")
    | _, _, _, _ => (s, "bad-op")
  | ["bddump"] =>
    match s.bd with
    | some bd => (s, dumpBd bd)
    | none => (s, "bad-op")
  | ["bdreplicate"] =>
    match s.bd with
    | some bd => ({ s with bd := some (bd.replicate 0) }, "ok")
    | none => (s, "bad-op")
  | ["bdchol", tol] =>
    match s.bd, (if tol = "default" then some (Cov.bdTol : K) else (Wire.parse tol : Option K)) with
    | some bd, some tol => let r := bd.cholDec tol; ({ s with bd := some r.2 }, s!"int {r.1}")
    | _, _ => (s, "bad-op")
  | ["bdupper"] =>
    match s.bd with
    | some bd =>
      let t := bd.upperTable
      (s, s!"upper {bd.size} rows {nats ((List.range' 1 bd.size).flatMap fun i => [t.getD i 0, t.getD (i + 1) 0])}")
    | none => (s, "bad-op")
  | ["new", f, r, c] =>
    match f.toNat?, r.toNat?, c.toNat? with
    | some f, some r, some c => ({ A := some (SMat.new f r c) }, "ok")
    | _, _, _ => (s, "bad-op")
  | ["row"] =>
    match s.A with
    | some A =>      -- a step of the build machine (Model/SparseOps.lean)
      match SMat.BuildOp.apply? A .newRow with
      | some B => ({ A := some B }, "ok")
      | none => ({ A := s.A }, "refused")
    | none => (s, "bad-op")
  | ["add", v, k] =>
    match s.A, (Wire.parse v : Option K), k.toNat? with
    | some A, some v, some k =>
      match SMat.BuildOp.apply? A (.add v k) with
      | some B => ({ A := some B }, "ok")
      | none => ({ A := s.A }, "refused")
    | _, _, _ => (s, "bad-op")
  | ["dump"] =>
    match s.A with
    | some A => (s, dumpCrs A)
    | none => (s, "bad-op")
  | ["replicate"] =>
    match s.A with
    | some A => ({ A := some A.replicate0 }, "ok")
    | none => (s, "bad-op")
  | ["replicate3", n, r, c] =>
    match s.A, n.toNat?, r.toNat?, c.toNat? with
    | some A, some n, some r, some c =>
      match SMat.BuildOp.apply? A (.replicate n r c) with     -- the fill may continue on the replica
      | some B => ({ A := some B }, "ok")
      | none => ({ A := s.A }, "refused")
    | _, _, _, _ => (s, "bad-op")
  | ["transpose"] =>
    match s.A with
    | some A => if A.built then ({ A := some A.transpose }, "ok") else ({ A := s.A }, "refused")
    | none => (s, "bad-op")
  | ["graph"] =>
    match s.A with
    | some A => if A.built then (let g := graphOf A; ({ A := s.A, g := some g }, dumpGraph g)) else ({ A := s.A }, "refused")
    | none => (s, "bad-op")
  | ["connected"] =>
    match s.g with
    | some g =>
      match connected g with
      | some b => (s, s!"flag {if b then 1 else 0}")
      | none => (s, "undefined")
    | none => (s, "bad-op")
  | ["levels", r] =>
    match s.g, r.toNat? with
    | some g, some r =>
      let l := rootLS g r
      let xs := (List.range' 1 (l.nlev + 1)).map fun i => l.xadj[i]!
      (s, s!"levels {l.nlev} xadj {nats xs} nodes {nats (l.adjncy.extract 0 (l.xadj[l.nlev + 1]!)).toList}")
    | _, _ => (s, "bad-op")
  | ["ppn", st] =>
    match s.g, st.toNat? with
    | some g, some st => let p := ppn g st; (s, s!"ppn {p.1} {p.2}")
    | _, _ => (s, "bad-op")
  | ["rcm"] =>
    match s.g with
    | some g =>
      let o := rcm g
      ({ s with o := some o },
       s!"perm {nats ((List.range' 1 o.nodes).map fun i => o.perm[i]!)} invp {nats ((List.range' 1 o.nodes).map fun i => o.invp[i]!)}")
    | none => (s, "bad-op")
  | ["envelope"] =>
    match s.A, s.g, s.o with
    | some A, some g, some o =>
      if A.built then (let E := Env.ofSparse A g o; ({ s with E := some E }, dumpEnv "env" E))
      else (s, "refused")
    | _, _, _ => (s, "bad-op")
  | ["choldec", tol] =>
    match s.E, (Wire.parse tol : Option K) with
    | some E, some tol => let E := E.cholDec tol; ({ s with E := some E }, dumpEnv "chol" E)
    | _, _ => (s, "bad-op")
  | "solve" :: v =>
    match s.E, (vecArg v : Option (Array K)) with
    | some E, some b => if b.size = E.dim then (s, "ok " ++ renderAll (E.solve b E.dim).toList) else (s, "bad-op")
    | _, _ => (s, "bad-op")
  | "lower" :: a :: b :: v =>
    match s.E, a.toNat?, b.toNat?, (vecArg v : Option (Array K)) with
    | some E, some a, some b, some v => (s, "ok " ++ renderAll (E.lowerSolve a b v).toList)
    | _, _, _, _ => (s, "bad-op")
  | "diagonal" :: a :: b :: v =>
    match s.E, a.toNat?, b.toNat?, (vecArg v : Option (Array K)) with
    | some E, some a, some b, some v => (s, "ok " ++ renderAll (E.diagonalSolve a b v).toList)
    | _, _, _, _ => (s, "bad-op")
  | "upper" :: a :: b :: v =>
    match s.E, a.toNat?, b.toNat?, (vecArg v : Option (Array K)) with
    | some E, some a, some b, some v => (s, "ok " ++ renderAll (E.upperSolve a b v).toList)
    | _, _, _, _ => (s, "bad-op")
  | ["inverse"] =>
    match s.E with
    | some E => let Z := E.inverse; ({ s with Z := some Z }, dumpEnv "inv" Z)
    | none => (s, "bad-op")
  | ["elements", w] =>
    match (if w == "inv" then s.Z else s.E) with
    | some E => (s, dumpElements E)
    | none => (s, "bad-op")
  -- dense reference on the permuted normal matrix (model side only; checked by the oracle)
  | ["dense", tol] =>
    match s.A, s.o, (Wire.parse tol : Option K) with
    | some A, some o, some tol =>
      let n := A.cols
      let N := Dense.normal A o.invp n
      let f := Dense.ldl (Env.effTol tol) N n
      let Z := Dense.inverse f n
      let tri (M : Dense K) := (List.range n).flatMap fun i => (List.range (i + 1)).map fun j => M.get i j
      (s, s!"dense {n} defect {f.defect} N {renderAll (tri N)} L {renderAll ((List.range n).flatMap fun i => (List.range i).map fun j => f.L.get i j)} D {renderAll f.D.toList} Z {renderAll (tri Z)}")
    | _, _, _ => (s, "bad-op")
  | "densesolve" :: tol :: v =>
    match s.A, s.o, (Wire.parse tol : Option K), (vecArg v : Option (Array K)) with
    | some A, some o, some tol, some b =>
      let n := A.cols
      let f := Dense.ldl (Env.effTol tol) (Dense.normal A o.invp n) n
      (s, "ok " ++ renderAll (Dense.solve f n b).toList)
    | _, _, _, _ => (s, "bad-op")
  | _ => (s, "bad-op")
end

/-- integer square root (Newton), exact on perfect squares -/
def isqrt (n : Nat) : Nat :=
  let rec go (fuel x : Nat) : Nat :=
    match fuel with
    | 0 => x
    | fuel + 1 => let y := (x + n / x) / 2; if y < x then go fuel y else x
  if n < 2 then n else go 200 n

/-- `Scalar Rat` with a square root that is EXACT on squares of rationals (`BlockDiagonal::cholDec`
    is run at `Rat` only on blocks `C = UᵀU` with rational `U`, where every pivot is such a square;
    on any other argument the value is a floor approximation and the oracle notices) -/
@[reducible] def ratSqrtScalar : Scalar Rat :=
  { (inferInstance : Scalar Rat) with
    sqrt := fun x => if x ≤ 0 then 0 else mkRat (isqrt x.num.toNat) (isqrt x.den) }

def main (args : List String) : IO Unit :=
  match args with
  | ["rat"] => loop (@step Rat ratSqrtScalar _ true) {}
  | _ => loop (step (K := Float) false) {}
