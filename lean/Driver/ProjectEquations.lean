/-
  Driver of `Gama.PE` (Model/ProjectEquations.lean); protocol of harness/pe_net.cpp.
  The definition lines are the harness' `P …` (or `Q …`) lines without the prefix, i.e. the state of the real
  `LocalNetwork` right before (after) `project_equations()`:

    net <m0> <xNorth>                                  starts a new network
    pt <id> <x> <y> <z> <sxy> <sz> <ix> <iy> <iz>      points of PD in order; statuses u f a c; stale index fields
    cl S <station> <has_ori> <ori> <dim> <band> v…     a StandPoint cluster (station = position in PD)
    cl O <dim> <band> v…                               any other cluster; packed covariance matrix
    ob <active> <Class> <from> <to> <fs> <value>       observation of the last cluster (positions in PD)
    run                                                `PE.projectEquations` at Float; prints the harness' `R …` lines

  The initial `IdxState`: `maxn = 0`, `tab` = the non-zero index fields of the `pt` lines (orientations: none,
  the prologue resets them anyway).
-/
import Gama.Proto
import Gama.Model.ProjectEquations
open Gama Gama.Proto Gama.Lin

/-- fuel for every `while` of the linearisation -/
def FUEL : Nat := 100000

structure St where
  net : Option (PE.Net Float) := none

def kindOf? (cls : String) : Option Kind := Kind.all.find? (fun k => k.className = cls)

def status? : String → Option Status
  | "u" => some .unused | "f" => some .fixed | "a" => some .free | "c" => some .constrained | _ => none

def stChar : Status → Char
  | .unused => 'u' | .fixed => 'f' | .free => 'a' | .constrained => 'c'

def bool? : String → Option Bool
  | "0" => some false | "1" => some true | _ => none

def floats? (ts : List String) : Option (List Float) := ts.mapM float?

def enum {α : Type} (l : List α) : List (Nat × α) := (List.range l.length).zip l

def linErrName : LinErr → String
  | .zeroSlopeDistance => "zeroSlopeDistance" | .zeroZenithAngle => "zeroZenithAngle"
  | .other _ => "other" | .fuel => "fuel"

def errName : PE.Err → String
  | .lin e => linErrName e
  | .badData => "badData"
  | .prepare e => e.name
  | .fuel => "fuel"

def typeChar : NetDecision.UType → Char
  | .X => 'X' | .Y => 'Y' | .Z => 'Z' | .R => 'R'

def covLine (tag : String) (C : Cov.CovMat Float) : String :=
  C.buf.foldl (fun s x => s ++ " " ++ showFloat x) s!"{tag} {C.dim} {C.band}"

def answer (net : PE.Net Float) : String :=
  match PE.projectEquations net with
  | .error e => "R throw " ++ errName e
  | .ok (np, u) =>
    let l0 := s!"R n {np.m} {np.n}"
    let rows := (List.range np.m).map fun i =>
      let r := np.rows.getD i #[]
      r.foldl (fun s cv => s ++ s!" {cv.1} " ++ showFloat cv.2) (s!"R row " ++ showFloat (np.rhs.getD i 0) ++ s!" {r.size}")
    let unk := (enum (u.list.take np.n)).map fun (j, e) =>
      match e with
      | none => s!"R unk {j + 1} ? ? -"
      | some e =>
        let id := if e.pid = "" then "<empty>" else e.pid
        let cl := match e.ori with | some k => toString k | none => "-"
        s!"R unk {j + 1} {typeChar e.type} {id} {cl}"
    let idx := (List.range u.net.points.length).map fun p =>
      s!"R idx {p} {u.net.idx.get ⟨p, .x⟩} {u.net.idx.get ⟨p, .y⟩} {u.net.idx.get ⟨p, .z⟩}"
    let ori := (enum u.net.clusters).filterMap fun (k, c) =>
      match c.stand with
      | some _ => some s!"R ori {k} {u.net.idx.get ⟨k, .ori⟩}"
      | none => none
    let minx := s!"R minx {np.minx.length}" ++ String.join (np.minx.map fun i => s!" {i}")
    let rc := ((PE.rowRanges np).zip (PE.activeBlocks np)).flatMap fun (r, C) =>
      [s!"R range {r.1} {r.2}", covLine "R cov" C]
    let st := "R st" ++ String.join (u.net.points.map fun p => " " ++ String.ofList [stChar p.pt.sxy, stChar p.pt.sz])
    let rm := "R rm" ++ String.join (u.removed.map fun i => " " ++ (if i = "" then "<empty>" else i))
    "\n".intercalate ([l0] ++ rows ++ unk ++ idx ++ ori ++ [minx] ++ rc ++ [st, rm])

def addIdx (s : IdxState) (p : Nat) (c : Coord) (i : Nat) : IdxState :=
  if i = 0 then s else { s with tab := s.tab ++ [(⟨p, c⟩, i)] }

def step (s : St) (line : String) : St × String :=
  match tokens line with
  | [] => (s, "")
  | ["net", m0, xn] =>
    match float? m0, float? xn with
    | some m0, some xn => ({ net := some ⟨[], [], m0, xn, FUEL, ⟨0, []⟩⟩ }, "")
    | _, _ => (s, "bad-op")
  | ts =>
  match s.net with
  | none => (s, "bad-op")
  | some net =>
  match ts with
  | ["pt", id, x, y, z, sxy, sz, ix, iy, iz] =>
    match float? x, float? y, float? z, status? sxy, status? sz, ix.toNat?, iy.toNat?, iz.toNat? with
    | some x, some y, some z, some a, some b, some ix, some iy, some iz =>
      let p := net.points.length
      let id := if id = "<empty>" then "" else id
      ({ net := some { net with points := net.points ++ [⟨id, ⟨x, y, z, a, b⟩⟩]
                                idx := addIdx (addIdx (addIdx net.idx p .x ix) p .y iy) p .z iz } }, "")
    | _, _, _, _, _, _, _, _ => (s, "bad-op")
  | "cl" :: "S" :: st :: has :: ori :: d :: b :: rest =>
    match st.toNat?, bool? has, float? ori, d.toNat?, b.toNat?, floats? rest with
    | some st, some has, some ori, some d, some b, some vs =>
      ({ net := some { net with clusters := net.clusters ++ [⟨some (st, if has then some ori else none), ⟨d, b, vs.toArray⟩, []⟩] } }, "")
    | _, _, _, _, _, _ => (s, "bad-op")
  | "cl" :: "O" :: d :: b :: rest =>
    match d.toNat?, b.toNat?, floats? rest with
    | some d, some b, some vs =>
      ({ net := some { net with clusters := net.clusters ++ [⟨none, ⟨d, b, vs.toArray⟩, []⟩] } }, "")
    | _, _, _ => (s, "bad-op")
  | ["ob", a, cls, frm, to, fs, v] =>
    match bool? a, kindOf? cls, frm.toNat?, to.toNat?, fs.toNat?, float? v with
    | some a, some k, some frm, some to, some fs, some v =>
      match net.clusters.getLast? with
      | none => (s, "bad-op")
      | some c =>
        ({ net := some { net with clusters := net.clusters.dropLast ++ [{ c with obs := c.obs ++ [⟨a, k, frm, to, fs, v⟩] }] } }, "")
    | _, _, _, _, _, _ => (s, "bad-op")
  | ["run"] => (s, answer net)
  | _ => (s, "bad-op")

def main : IO Unit := Proto.loop step {}
