import Gama.Proto
import Gama.Model.Ellipsoid
import Gama.Model.Angles
import Gama.Model.Bearing
import Gama.Model.GeoLiterals
import Gama.Model.GeoGrammar
import Gama.Lemmas.GeoDmsParse
open Gama Gama.Proto

abbrev St := Ellipsoid Float

def initSt : St := Ellipsoid.ofRow Gen.defaultEllipsoid

def h3 (a b c : Float) : String := s!"ok {showFloat a} {showFloat b} {showFloat c}"
def abf (e : St) : String := h3 e.A e.B e.ff

def showStr (s : String) : String := s.map (fun c => if c = ' ' then '_' else c)

def unhexStr (h : String) : Option String :=
  let rec go : List Char → List Char → Option (List Char)
    | a :: b :: rest, acc =>
      match hexDigit? a, hexDigit? b with
      | some x, some y => go rest (Char.ofNat (16 * x + y) :: acc)
      | _, _ => none
    | [], acc => some acc.reverse
    | _, _ => none
  (go h.toList []).map String.ofList

def fuel : Nat := 1000000000000

def strOut (o : Option String) : String :=
  match o with
  | some s => "str " ++ showStr s
  | none => "unmodelled"

def step (e : St) (line : String) : St × String :=
  let bad := (e, "bad-op")
  match tokens line with
  | ["ell", id] =>
    match Ellipsoid.byId id with
    | some r => let e' : St := Ellipsoid.ofRow r; (e', abf e')
    | none => (e, "unknown")
  | ["ellnum", k] =>
    match k.toInt? with
    | some ki =>
      match Gen.ellipsoidTable.find? (fun r => (r.num : Int) == ki) with
      | some r => let e' : St := Ellipsoid.ofRow r; (e', "id " ++ r.id ++ "\n" ++ abf e')
      | none => (e, "unknown")
    | none => bad
  | ["default"] => (initSt, abf initSt)
  | ["setab", a, b] =>
    match float? a, float? b with
    | some a, some b => let e' := Ellipsoid.setAb a b; (e', abf e')
    | _, _ => bad
  | ["setaf", a, b] =>
    match float? a, float? b with
    | some a, some b => let e' := Ellipsoid.setAf a b; (e', abf e')
    | _, _ => bad
  | ["setaf1", a, b] =>
    match float? a, float? b with
    | some a, some b => let e' := Ellipsoid.setAf1 a b; (e', abf e')
    | _, _ => bad
  | ["mnwvf", b] =>
    match float? b with
    | some b => (e, s!"ok {showFloat (e.M b)} {showFloat (e.N b)} {showFloat (e.W b)} {showFloat (e.V b)} {showFloat (e.F b)}")
    | none => bad
  | ["blh2xyz", b, l, h] =>
    match float? b, float? l, float? h with
    | some b, some l, some h => let (x, y, z) := e.blh2xyz b l h; (e, h3 x y z)
    | _, _, _ => bad
  | ["xyz2blh", x, y, z] =>
    match float? x, float? y, float? z with
    | some x, some y, some z => let (b, l, h) := e.xyz2blh x y z; (e, h3 b l h)
    | _, _, _ => bad
  | ["rt", b, l, h] =>
    match float? b, float? l, float? h with
    | some b, some l, some h =>
      let (x, y, z) := e.blh2xyz b l h
      let (b', l', h') := e.xyz2blh x y z
      (e, s!"ok {showFloat x} {showFloat y} {showFloat z} {showFloat b'} {showFloat l'} {showFloat h'}")
    | _, _, _ => bad
  | ["gdg", g, sign, prec] =>
    match float? g, sign.toInt?, prec.toNat? with
    | some g, some sign, some prec =>
      match Angles.gon2deg g sign prec with
      | some s =>
        match (Angles.deg2gon s : Option Float) with
        | some g' => (e, "str " ++ showStr s ++ "\nok " ++ showFloat g')
        | none => (e, "str " ++ showStr s ++ "\nfalse")
      | none => (e, "unmodelled")
    | _, _, _ => bad
  | ["dr", x] =>
    match float? x with
    | some x => let r := Angles.dms2rad fuel x; (e, s!"ok {showFloat r} {showFloat (Angles.rad2dms fuel r)}")
    | none => bad
  | ["rd", r] =>
    match float? r with
    | some r => let x := Angles.rad2dms fuel r; (e, s!"ok {showFloat x} {showFloat (Angles.dms2rad fuel x)}")
    | none => bad
  | ["gon2deg", g, sign, prec] =>
    match float? g, sign.toInt?, prec.toNat? with
    | some g, some sign, some prec => (e, strOut (Angles.gon2deg g sign prec))
    | _, _, _ => bad
  | ["rad2deg", g, sign, prec] =>
    match float? g, sign.toInt?, prec.toNat? with
    | some g, some sign, some prec => (e, strOut (Angles.rad2degStr g sign prec))
    | _, _, _ => bad
  | ["latlong", r, prec] =>
    match float? r, prec.toNat? with
    | some r, some prec => (e, strOut (Angles.latlong r prec))
    | _, _ => bad
  | "deg2gon" :: rest =>
    match rest with
    | [] | [_] =>
      match unhexStr (rest.headD "") with
      | some s =>
        match (Angles.deg2gon s : Option Float) with
        | some g => (e, "ok " ++ showFloat g)
        | none => (e, "false")
      | none => bad
    | _ => bad
  | ["dms2rad", x] =>
    match float? x with
    | some x => (e, "ok " ++ showFloat (Angles.dms2rad fuel x))
    | none => bad
  | ["rad2dms", x] =>
    match float? x with
    | some x => (e, "ok " ++ showFloat (Angles.rad2dms fuel x))
    | none => bad
  | ["bd", ya, xa, yb, xb] =>
    match float? ya, float? xa, float? yb, float? xb with
    | some ya, some xa, some yb, some xb =>
      let (b, d) := Bearing.bearingDistance ya xa yb xb
      (e, s!"ok {showFloat b} {showFloat d}")
    | _, _, _, _ => bad
  | ["dist", ya, xa, yb, xb] =>
    match float? ya, float? xa, float? yb, float? xb with
    | some ya, some xa, some yb, some xb => (e, "ok " ++ showFloat (Bearing.distance ya xa yb xb))
    | _, _, _, _ => bad
  | "isint" :: rest =>
    match rest with
    | [] | [_] =>
      match unhexStr (rest.headD "") with
      | some s => (e, s!"flag {if Literals.isIntegerCur s.toList then 1 else 0}")
      | none => bad
    | _ => bad
  | "isfloat" :: rest =>
    match rest with
    | [] | [_] =>
      match unhexStr (rest.headD "") with
      | some s => (e, s!"flag {if Literals.isFloat s.toList then 1 else 0}")
      | none => bad
    | _ => bad
  -- the documented formats (Gama/Model/GeoGrammar.lean) decided by the derivative matcher: third party of the tie
  | "rxint" :: rest =>
    match rest with
    | [] | [_] =>
      match unhexStr (rest.headD "") with
      | some s => (e, s!"flag {if Grammar.integerRx.accepts s.toList then 1 else 0}")
      | none => bad
    | _ => bad
  | "rxflt" :: rest =>
    match rest with
    | [] | [_] =>
      match unhexStr (rest.headD "") with
      | some s => (e, s!"flag {if Grammar.floatRx.accepts s.toList then 1 else 0}")
      | none => bad
    | _ => bad
  | "rxdms" :: rest =>
    match rest with
    | [] | [_] =>
      match unhexStr (rest.headD "") with
      | some s => (e, s!"flag {if Angles.dmsDecide s.toList then 1 else 0} {if Grammar.dmsRx.accepts s.toList then 1 else 0}")
      | none => bad
    | _ => bad
  | _ => bad

def main : IO Unit := loop step initSt
