/-
  Driver for C11: runs Gama.Gkf.run (GkfRun over the GENERATED automaton) on the SAX event
  lines printed by harness/c11_gkf.cpp, and the literal recognisers of Model/Literals.lean.
  Input lines (see the harness):  start <hexname> <line> <d> [<hexattr>[!]]… | stop <line> <d> |
  text <line> <hex> | end | lit <hex> | enum <hexalphabet> <n> | cov <dim> <band> <hex>
  and, for Gama.Gkf.crun (Model/GkfValues.lean: the value checks computed from the real attribute strings):
  C start <hexname> <line> [<hexattr>=<hexvalue>]… | C stop <line> <pd> | C text <line> <hex> | cend
  (answers `VR <state> <kind>` / `VO …`, to be equal to the harness' `R` / `O` lines)
-/
import Gama.Proto
import Gama.Model.GkfRun
import Gama.Model.GkfCov
import Gama.Model.GkfValues
open Gama Gama.Proto Gama.Gkf

def unhex (s : String) : Option (List Char) :=
  if s == "-" then some [] else
  let rec go : List Char → Option (List Char)
    | [] => some []
    | [_] => none
    | a :: b :: r => do
        let x ← hexDigit? a
        let y ← hexDigit? b
        let t ← go r
        pure (Char.ofNat (x * 16 + y) :: t)
  go s.toList

def tagOf (name : List Char) : Tag :=
  match tagTable.find? (fun p => p.1.toList == name) with
  | some p => p.2
  | none => .unknown

def parseAttr (tok : String) : Option Attr :=
  let cs := tok.toList
  let (h, ne) := match cs.getLast? with
    | some '!' => (cs.dropLast, true)
    | _ => (cs, false)
  (unhex (String.ofList h)).map (fun n => ⟨String.ofList n, ne⟩)

structure DSt where
  st : St := St.init
  lines : Array Nat := #[]
  cs : CSt := CSt.init
  clines : Array Nat := #[]

def stateIdx (s : State) : Nat := State.all.idxOf s

def emit (old new : St) : String :=
  let k := match old.err, new.err with
    | none, some (_, k) => k.name
    | _, _ => "-"
  s!"R {stateIdx new.state} {k}"

def feed (d : DSt) (line : Nat) (e : Event) : DSt × String :=
  let st' := step d.st e
  ({ d with st := st', lines := d.lines.push line }, emit d.st st')

def parseCAttr (tok : String) : Option CAttr :=
  match tok.splitOn "=" with
  | [a, b] => do
    let n ← unhex a
    let v ← unhex b
    pure ⟨String.ofList n, v⟩
  | _ => none

def cfeed (d : DSt) (line : Nat) (e : CEvent) : DSt × String :=
  let cs' := cstep d.cs e
  ({ d with cs := cs', clines := d.clines.push line }, "V" ++ emit d.cs.st cs'.st)

def flag? (s : String) : Option Bool := if s == "1" then some true else if s == "0" then some false else none

/-- mask = isFloat + 2·isInteger + 4·deg2gon + 8·toDouble ; value of toIndex -/
def litResult (s : List Char) : String :=
  let m := (if Lit.isFloat s then 1 else 0) + (if Lit.isInteger s then 2 else 0) + (if Lit.deg2gonAccepts s then 4 else 0) +
    (if Lit.toDoubleOk s then 8 else 0)
  let x := match Lit.toIndex s with
    | none => "-"
    | some v => if v ≥ 2147483648 then "big" else toString v
  s!"{m}:{x}"

def enumAll (alpha : Array Char) (n : Nat) : String := Id.run do
  let k := alpha.size
  let total := k ^ n
  let mut out := ""
  let mut cur := ""
  for c in [0:total] do
    -- digits of c in base k, most significant first, exactly n of them
    let mut s : List Char := []
    let mut v := c
    for _ in [0:n] do
      s := alpha[v % k]! :: s
      v := v / k
    cur := cur ++ litResult s
    if (c + 1) % 64 == 0 then
      out := out ++ cur ++ "\n"
      cur := ""
    else cur := cur ++ " "
  if total % 64 != 0 then out := out ++ cur ++ "\n"
  return out ++ s!"count {total}"

def stepLine (d : DSt) (line : String) : DSt × String :=
  match tokens line with
  | "start" :: name :: ln :: dd :: attrs =>
    match unhex name, ln.toNat?, flag? dd, attrs.mapM parseAttr with
    | some nm, some l, some ok, some as => feed d l (.start (tagOf nm) as ok)
    | _, _, _, _ => (d, "bad-op")
  | ["stop", ln, dd] =>
    match ln.toNat?, flag? dd with
    | some l, some ok => feed d l (.stop ok)
    | _, _ => (d, "bad-op")
  | ["text", ln, hx] =>
    match ln.toNat?, unhex hx with
    | some l, some cs => feed d l (.text cs)
    | _, _ => (d, "bad-op")
  | "C" :: "start" :: name :: ln :: attrs =>
    match unhex name, ln.toNat?, attrs.mapM parseCAttr with
    | some nm, some l, some as => cfeed d l (.start (tagOf nm) as)
    | _, _, _ => (d, "bad-op")
  | ["C", "stop", ln, pd] =>
    match ln.toNat?, flag? pd with
    | some l, some ok => cfeed d l (.stop ok)
    | _, _ => (d, "bad-op")
  | ["C", "text", ln, hx] =>
    match ln.toNat?, unhex hx with
    | some l, some cs => cfeed d l (.text cs)
    | _, _ => (d, "bad-op")
  | ["cend"] =>
    match outcome d.cs.st with
    | .accepted => (d, "VO ok")
    | .refused none => (d, "VO parser 0 -1")
    | .refused (some (i, _)) => (d, s!"VO parser {d.clines[i]?.getD 0} -1")
  | ["end"] =>
    match outcome d.st with
    | .accepted => (d, "O ok")
    | .refused none => (d, "O parser 0 -1")
    | .refused (some (i, _)) => (d, s!"O parser {d.lines[i]?.getD 0} -1")
  | ["lit", hx] =>
    match unhex hx with
    | some cs => (d, "lit " ++ litResult cs)
    | none => (d, "bad-op")
  | ["enum", hx, n] =>
    match unhex hx, n.toNat? with
    | some a, some k => if a.isEmpty || k > 8 then (d, "bad-op") else (d, enumAll a.toArray k)
    | _, _ => (d, "bad-op")
  | ["cov", sd, sb, hx] =>
    match unhex sd, unhex sb, unhex hx with
    | some a, some b, some cs => (d, "cov " ++ (Cov.verdict a b cs).name)
    | _, _, _ => (d, "bad-op")
  | _ => (d, "bad-op")

def main : IO Unit := loop stepLine {}
