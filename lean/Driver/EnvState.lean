/-
  Driver of the AdjEnvelope state machine (Model/EnvState.lean) for the C04 correspondence.
  Protocol = harness/adj_harness.cpp restricted to `new env solver`, plus
    envinfo <n> <nullity> invp … width … rows …     facts read from the implementation through the probe
    state                                            prints the discrete state like GamaVerifProbe::env_state
  Query answers are evaluated numerically through the history-free envelope model
  (Gama.Ls.envSolve) from the *symbolic* answer of the state machine; an answer whose
  provenance is not what a fresh object would compute prints `stale …`.

  Round 3: a case may define several problems (`problem … end` repeatedly; `select k` picks the one
  `new` uses, default the last); `reset_new k` is `reset(data of problem k)` (Model/EnvHist.lean,
  `HOp.resetNew`); an `envinfo` line must follow before the next query.  Numbers are printed through
  `Gama.C04.denote` (Model/EnvDenote.lean): every provenance term is evaluated on the problem it NAMES.
-/
import Gama.Proto
import Gama.Model.EnvState
import Gama.Model.EnvHist
import Gama.Model.EnvDenote
import Gama.Model.Ls.Common
import Gama.Model.Ls.Env
open Gama Gama.Proto Gama.Ls Gama.C04

structure St where
  build : Option (PBuild Float) := none
  prob : Option (Problem Float) := none
  /-- all problems of the case (identity = 1-based position) and the ordering facts read for each -/
  probs : Array (Problem Float) := #[]
  infos : Array (Option Info) := #[]
  sel : Nat := 0             -- identity of `prob`
  cur : Nat := 0             -- identity of the data set the object holds
  info : Option Info := none
  st : Option EnvState := none
  active : Bool := false     -- `new env solver` seen
  bufDim : Nat := 0          -- `HState.bufDim` (dimension of the qxxbuf vectors)

def parseInfo (ts : List String) : Option Info := do
  let nums ← ts.mapM (fun t => if t == "invp" ∨ t == "width" ∨ t == "rows" then some 0 else t.toNat?)
  -- layout: n nullity invp <n> width <n> rows m {k c…}
  match ts with
  | n :: nul :: "invp" :: rest =>
    let n ← n.toNat?
    let nul ← nul.toNat?
    let invp ← (rest.take n).mapM (·.toNat?)
    let rest := rest.drop n
    match rest with
    | "width" :: rest =>
      let width ← (rest.take n).mapM (·.toNat?)
      match rest.drop n with
      | "rows" :: m :: rest =>
        let m ← m.toNat?
        let rec rows (k : Nat) (l : List String) (acc : Array (List Nat)) : Option (Array (List Nat)) :=
          match k, l with
          | 0, _ => some acc
          | k + 1, c :: l => do
              let c ← c.toNat?
              let cs ← (l.take c).mapM (·.toNat?)
              rows k (l.drop c) (acc.push cs)
          | _, _ => none
        let rs ← rows m rest #[]
        let _ := nums
        some ⟨n, nul, invp.toArray, width.toArray, rs⟩
      | _ => none
    | _ => none
  | _ => none

def showState (s : EnvState) : String :=
  let b (x : Bool) := if x then "1" else "0"
  let minx := match s.minx with
    | none => " none"
    | some l => s!" {l.length}" ++ l.foldl (fun a i => a ++ s!" {i}") ""
  let keys := s.mtf.ents.foldl (fun a (k, v) => a ++ s!" {k}:{v}") ""
  s!"st {s.stage} {b s.iqbb} {b s.ires} {b s.iq0} {b s.ix} minx{minx} keys{keys}"

def showVec (v : Array Float) : String := "vec" ++ v.foldl (fun s x => s ++ " " ++ showFloat x) ""
def showE (f : α → String) : Except ErrKind α → String
  | .ok a => f a
  | .error e => "throw " ++ e.name

def showD : DVal Float → String
  | .vec v => showVec v
  | .num x => "val " ++ showFloat x
  | .int n => s!"int {n}"
  | .flag b => s!"flag {if b then 1 else 0}"
  | .ok => "ok"
  | .err e => "throw " ++ e.name
  | .stale w => "stale " ++ w

/-- the numeric world of the case: problems by identity, inverse orderings from the `envinfo` facts -/
def world (s : St) : World Float := worldOf s.probs s.infos

/-- the problem the object currently holds -/
def curProb (s : St) : Problem Float := (world s).prob s.cur

/-- numeric value of a symbolic answer: `denote` on the data sets the term names -/
def evalOut (s : St) (cur : Option (List Nat)) (o : Out) : String := showD (denote (world s) s.cur cur o)

def parseOp (ts : List String) : Option Op :=
  match ts with
  | ["x"] => some .unknowns | ["r"] => some .residuals | ["rtr"] => some .sumsq | ["defect"] => some .defect
  | ["qxx", i, j] => do some (.qxx (← i.toNat?) (← j.toNat?))
  | ["q0xx", i, j] => do some (.q0xx (← i.toNat?) (← j.toNat?))
  | ["qbb", i, j] => do some (.qbb (← i.toNat?) (← j.toNat?))
  | ["lindep", i] => do some (.lindep (← i.toNat?))
  | ["min_x_all"] => some .minxAll
  | "min_x" :: k :: rest => do
      let k ← k.toNat?
      let l ← rest.mapM (·.toNat?)
      if l.length = k then some (.minx l) else none
  | ["reset"] => some .reset
  | _ => none

def step' (s : St) (line : String) : St × String :=
  let ts := tokens line
  match ts with
  | [] => (s, "")
  | ["problem", m, n] =>
    match m.toNat?, n.toNat? with
    | some m, some n => ({ build := some { m := m, n := n }, probs := s.probs, infos := s.infos }, "")
    | _, _ => (s, "bad-op")
  | _ =>
  match s.build with
  | some b =>
    if ts = ["end"] then
      match b.finish with
      | some p => ({ prob := some p, probs := s.probs.push p, infos := s.infos.push none,
                     sel := s.probs.size + 1 }, "ok")
      | none => ({}, "bad-op")
    else match b.feed ts with
      | some b' => ({ s with build := some b' }, "")
      | none => (s, "bad-op")
  | none =>
  match s.prob with
  | none => (s, "bad-op")
  | some p =>
  match ts with
  | ["select", k] =>
    match k.toNat? with
    | some k => if 1 ≤ k ∧ k ≤ s.probs.size then
        ({ s with prob := s.probs[k - 1]?, sel := k, st := none, active := false, info := none }, "ok") else (s, "bad-op")
    | none => (s, "bad-op")
  | ["new", "env", "solver"] =>
    let m0 : Option (List Nat) := match p.reg with | .subset l => some l | _ => none
    ({ s with active := true, st := some (Gama.C04.init m0), bufDim := 0, info := none, cur := s.sel }, "ok")
  | ["reset_new", k] =>
    match k.toNat?, s.st with
    | some k, some st =>
      if 1 ≤ k ∧ k ≤ s.probs.size then
        -- `reset(data')`: the model's `reset` looks at neither input
        let dummy : EnvInput := { n := 0, nullity := 0, invp := id, inEnv := fun _ _ => true, resolves := fun _ => true, qbbIn := fun _ _ => true }
        let h' := (hstep ⟨dummy, st, s.bufDim⟩ (.resetNew dummy)).1
        ({ s with st := some h'.s, bufDim := h'.bufDim, cur := k, info := none }, "ok")
      else (s, "bad-op")
    | _, _ => (s, "bad-op")
  | "envinfo" :: rest =>
    match parseInfo rest with
    | some f =>
      -- round 4: the facts must describe the numeric problem (`Info.agrees`: ordering 1-based and injective on
      -- 1..n, size and defect those of `envSolve`); then `toInputOf_pos`, `worldOf_describes`, `toInputOf_facts`
      -- make the input an instance of the C04 theorems
      if f.agrees (curProb s) then
        ({ s with info := some f, infos := s.infos.setIfInBounds (s.cur - 1) (some f) }, " ".intercalate ts)
      else (s, s!"envinfo-does-not-describe-the-problem n {f.n} nullity {f.nullity} model-n {(curProb s).n} model-defect {defectP (curProb s)}")
    | none => (s, "bad-op")
  | ["state"] =>
    match s.st with
    | some st => (s, showState st)
    | none => (s, "bad-op")
  | "fresh" :: q =>
    match s.st, s.info, parseOp q with
    | some st, some f, some op =>
      let inp := f.toInputOf (curProb s) s.cur
      (s, evalOut s st.minx (Gama.C04.fresh inp st.minx op))
    | _, _, _ => (s, "bad-op")
  | _ =>
    match s.st, s.info, parseOp ts with
    | some st, some f, some op =>
      let inp := f.toInputOf (curProb s) s.cur
      let r := hstep ⟨inp, st, s.bufDim⟩ (.q op)
      ({ s with st := some r.1.s, bufDim := r.1.bufDim }, evalOut s r.1.s.minx r.2)
    | _, _, _ => (s, "bad-op")

def main : IO Unit := loop step' {}
