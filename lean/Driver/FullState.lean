/-
  Driver of the C04 state machines of the full solvers and of class `Adj`
  (Model/FullState.lean, Model/AdjState.lean).  Protocol = harness/c04_full.cpp:
    new <chol|gso|svd> solver | new <env|chol|gso|svd> adj
    info <alg> <n> <nullity>        facts read from the implementation (echoed).  Round 6, solver entry: the machine
                                     runs on `Full.inputOf alg p` (size, defect, resolution verdicts computed by the numeric
                                     solver model at Float on the data set the object holds); the line is echoed only if
                                     `FInfo.agrees` (same size, same defect), else `info-does-not-describe-the-problem …`
                                     Round 9, adj entry: the chol / gso / svd machines inside `Adj` run on
                                     `Full.inputOf alg q`, `q` = the homogenised system `(A_dot, b_dot)` the numeric model
                                     (`Ls.AdjM.homogenise`, `dotProblem`) computes from the Float problem — what the solver
                                     inside `Adj` is really given; an `info chol|gso|svd` line is echoed only if
                                     `FInfo.agrees alg q`.  If the model's homogenisation fails: the probe's nullity and
                                     the length test (`resolvesDefault`), as before
    envinfo …                        facts for the envelope solver inside Adj (echoed only if `Info.agrees p`, round 13;
                                     `info env` only if its defect is `defectP p`); its resolution facts come from the
                                     numeric problem (`Info.toInputOf`: `resolvesP p`, as Driver/EnvState.lean)
    state                            discrete state as GamaVerifProbe prints it
    x r rtr defect qxx qbb qbx lindep min_x_all min_x reset set_alg, fresh <query>
  The discrete state comes from the state machine.  A numeric answer is printed through the
  history-free models (Gama.Ls.solverOf / adjSolve) only if the symbolic answer of the state
  machine equals the history-free specification; otherwise `stale …` (never on a tree for which
  the theorems of Props/C04Full.lean hold), `after-throw` when the answer is read from artefacts
  a BadRegularization left half-done (the `Pending` state of `full_history_free_across_inputs`, where the object
  provably differs from a fresh one; outside `CfgOk` of the `…_resolving` theorems; the comparator only
  checks that the implementation does not throw there), `not-modelled` when the numeric model
  does not cover the query.

  Round 3: several problems per case (`problem … end` repeatedly, `select k`), `reset_new k` =
  `reset(A', b')` of problem k (solver entry; Model/FullHist.lean) / `set(data of problem k)` (adj entry;
  Model/AdjHist.lean: the `Adj` machine carries `A_dot`, `b_dot` — printed in the state line as
  `adot <rows> <cols>` — and the provenance of the matrix the solver was given; an answer computed from a
  matrix that is not "rows of the current data on a zeroed matrix" prints `stale …`).  `info`/`envinfo`
  lines must follow a `reset_new` before the next query.
-/
import Gama.Proto
import Gama.Model.FullState
import Gama.Model.AdjState
import Gama.Lemmas.FullState
import Gama.Lemmas.AdjState
import Gama.Model.FullHist
import Gama.Model.FullDenote
import Gama.Model.AdjHist
import Gama.Lemmas.AdjHist
import Gama.Model.Ls.Common
import Gama.Model.Ls.Adj
open Gama Gama.Proto Gama.Ls Gama.C04 Gama.C04.Full Gama.C04.AdjM

/-! envelope facts: `Gama.C04.Info`, `Info.toInput` (Model/EnvDenote.lean, shared with Driver/EnvState.lean) -/

def parseInfo (ts : List String) : Option Info := do
  match ts with
  | n :: nul :: "invp" :: rest =>
    let n ← n.toNat?
    let nul ← nul.toNat?
    let invp ← (rest.take n).mapM (·.toNat?)
    let rest := rest.drop n
    match rest with
    | "width" :: rest =>
      let width ← (rest.take n).mapM (·.toNat?)
      match rest.drop n with
      | "rows" :: m :: rest =>
        let m ← m.toNat?
        let rec rows (k : Nat) (l : List String) (acc : Array (List Nat)) : Option (Array (List Nat)) :=
          match k, l with
          | 0, _ => some acc
          | k + 1, c :: l => do
              let c ← c.toNat?
              let cs ← (l.take c).mapM (·.toNat?)
              rows k (l.drop c) (acc.push cs)
          | _, _ => none
        let rs ← rows m rest #[]
        some ⟨n, nul, invp.toArray, width.toArray, rs⟩
      | _ => none
    | _ => none
  | _ => none

/-! the object under test -/
inductive Obj
  | full (k : Kind) (s : FState)
  | svd (s : SState)
  | adj (s : HA)

structure St where
  build : Option (PBuild Float) := none
  prob : Option (Problem Float) := none
  probs : Array (Problem Float) := #[]
  sel : Nat := 0             -- identity (1-based position) of `prob`
  obj : Option Obj := none
  /-- adj entry: nullity per algorithm as the implementation sees it (env, chol, gso, svd) -/
  nul : AdjM.Alg → Nat := fun _ => 0
  env : Option Info := none
  /-- solver entry (round 6): `Full.inputOf (algorithm of the object) (current problem)` — set by `new` / `reset_new` -/
  finp : Full.Input := { n := 0, nullity := 0, resolves := fun _ => true }
  /-- adj entry (round 9): the system the full-matrix solver inside `Adj` is given for the current data —
      `dotProblem p A_dot b_dot` of the numeric model's homogenisation; `none`: the model's homogenisation fails -/
  dot : Option (Problem Float) := none
  /-- adj entry (round 9): `Full.inputOf alg dot` for chol, gso, svd — set by `new … adj` / `reset_new` -/
  ain : Option (Full.Input × Full.Input × Full.Input) := none

def b01 (x : Bool) : String := if x then "1" else "0"
def showList (l : List Nat) : String := s!"{l.length}" ++ l.foldl (fun a i => a ++ s!" {i}") ""

def sortDedup (l : List Nat) : List Nat :=
  let m := l.foldl max 0
  (List.range (m + 1)).filter (fun i => l.contains i)

def showFull (k : Kind) (s : FState) : String :=
  match k with
  | .chol => s!"st {b01 s.solved} {b01 s.useAll} list " ++ (match s.list with | none => "null" | some l => showList l)
  | .gso => s!"st {b01 s.solved} {b01 s.useAll} list " ++ showList (sortDedup (s.list.getD []))
              ++ s!" err {b01 (s.err != 0)}"

def showSvd (nullity : Nat) (s : SState) : String :=
  -- `minV` of an EARLIER input survives `reset`; it equals the plain V only if saved from the current data
  -- `.broken l`: `min_subset_x` threw at SOME null column (round 6: lists of at least `defect` indices that do not
  -- resolve it are generated); `V_` was modified iff an earlier null column had passed the test — not determined by
  -- the symbolic state, printed as `*` (the comparator then accepts either bit)
  let veq := match s.vprov with | .plain => b01 (s.minV && s.minVok) | .broken _ => "*" | _ => "0"
  s!"st {b01 s.solved} {b01 s.decomposed} {b01 s.sub} list " ++ (match s.list with | none => "null" | some l => showList l)
    ++ " defect " ++ (if s.decomposed then s!"{nullity}" else "-")
    ++ " veq " ++ (if s.decomposed then veq else "-")
    ++ " minV " ++ b01 s.minV

def showEnv (s : EnvState) : String :=
  let minx := match s.minx with
    | none => " none"
    | some l => s!" {l.length}" ++ l.foldl (fun a i => a ++ s!" {i}") ""
  let keys := s.mtf.ents.foldl (fun a (k, v) => a ++ s!" {k}:{v}") ""
  s!"st {s.stage} {b01 s.iqbb} {b01 s.ires} {b01 s.iq0} {b01 s.ix} minx{minx} keys{keys}"

def algName : AdjM.Alg → String
  | .env => "env" | .gso => "gso" | .svd => "svd" | .chol => "chol"

def showSolver (nul : AdjM.Alg → Nat) : Solver → String
  | .env s => showEnv s
  | .full k s => showFull k s
  | .svd s => showSvd (nul .svd) s

def showAdj (nul : AdjM.Alg → Nat) (h : HA) : String :=
  let s := h.s
  s!"adj {b01 s.solved} {algName s.alg} adot {h.adot.rows} {h.adot.cols} ls " ++
    (match s.ls with
     | none => "null"
     | some sv => algName sv.alg ++ " | " ++ showSolver nul sv)

/-! numeric answers through the history-free models -/
def showVec (v : Array Float) : String := "vec" ++ v.foldl (fun s x => s ++ " " ++ showFloat x) ""
def showE (f : α → String) : Except ErrKind α → String
  | .ok a => f a
  | .error .NotModelled => "not-modelled"
  | .error e => "throw " ++ e.name

def VProv.isBroken : VProv → Bool
  | .broken _ => true
  | _ => false

def outBroken : Full.Out → Bool
  | .x p => VProv.isBroken p | .resid p => VProv.isBroken p | .sumsq p => VProv.isBroken p
  | .qxx _ _ _ v => VProv.isBroken v | .qbx _ _ _ v => VProv.isBroken v
  | _ => false

def numFull (a : Except ErrKind (Answer Float)) : Full.Out → String
  | .x _ => showE (fun (r : Answer Float) => match r.xErr with | some e => "throw " ++ e.name | none => showVec r.x) a
  | .resid _ => showE (fun (r : Answer Float) => showVec r.r) a
  | .sumsq _ => showE (fun (r : Answer Float) => "val " ++ showFloat r.rtr) a
  | .defect => showE (fun (r : Answer Float) => s!"int {r.defect}") a
  | .lindep i => showE (fun (b : Bool) => s!"flag {b01 b}") (a >>= fun r => r.lindep i)
  | .qxx i j _ _ => showE (fun x => "val " ++ showFloat x) (a >>= fun r => r.qxx i j)
  | .qbb i j => showE (fun x => "val " ++ showFloat x) (a >>= fun r => r.qbb i j)
  | .qbx i j _ _ => showE (fun x => "val " ++ showFloat x) (a >>= fun r => r.qbx i j)
  | .badReg => "throw BadRegularization"
  | .stale w => "stale " ++ w
  | .ok => "ok"

def showD : DVal Float → String
  | .vec v => showVec v
  | .num x => "val " ++ showFloat x
  | .int n => s!"int {n}"
  | .flag b => s!"flag {b01 b}"
  | .ok => "ok"
  | .err .NotModelled => "not-modelled"
  | .err e => "throw " ++ e.name
  | .stale w => "stale " ++ w

/-- numbers are printed through the denotation of the symbolic answer (Model/FullDenote.lean) -/
def evalFull (outside : Bool) (alg : Ls.Alg) (p : Problem Float) (c : Reg) (o expected : Full.Out) : String :=
  match o with
  | .badReg => "throw BadRegularization"
  | .ok => "ok"
  | .stale w => "stale " ++ w
  | _ => if outside || outBroken o then "after-throw"
         else if o = expected then showD (denoteF alg p c o)
         else "stale " ++ toString (repr o)

def parseOp (ts : List String) : Option Full.Op :=
  match ts with
  | ["x"] => some .unknowns | ["r"] => some .residuals | ["rtr"] => some .sumsq | ["defect"] => some .defect
  | ["qxx", i, j] => do some (.qxx (← i.toNat?) (← j.toNat?))
  | ["qbb", i, j] => do some (.qbb (← i.toNat?) (← j.toNat?))
  | ["qbx", i, j] => do some (.qbx (← i.toNat?) (← j.toNat?))
  | ["lindep", i] => do some (.lindep (← i.toNat?))
  | ["min_x_all"] => some .minxAll
  | "min_x" :: k :: rest => do
      let k ← k.toNat?
      let l ← rest.mapM (·.toNat?)
      if l.length = k then some (.minx l) else none
  | ["reset"] => some .reset
  | _ => none

def parseAlg : String → Option AdjM.Alg
  | "env" => some .env | "gso" => some .gso | "svd" => some .svd | "chol" => some .chol | _ => none

def lsAlg : AdjM.Alg → Ls.Alg
  | .env => .env | .gso => .gso | .svd => .svd | .chol => .chol

def parseAOp (ts : List String) : Option AOp :=
  match ts with
  | ["x"] => some .x | ["r"] => some .r | ["rtr"] => some .rtr | ["defect"] => some .defect
  | ["qxx", i, j] => do some (.qxx (← i.toNat?) (← j.toNat?))
  | ["qbb", i, j] => do some (.qbb (← i.toNat?) (← j.toNat?))
  | ["set_alg", a] => do some (.setAlg (← parseAlg a))
  | ["reset"] => some .set
  | _ => none

/-- ADJ ENTRY, FALLBACK ONLY (the numeric model's homogenisation fails, or no `envinfo` line yet): a length test —
    the adj generator stores lists that resolve the defect.  Otherwise the numeric model is asked (`Full.resolvesF` on
    the homogenised system, `resolvesP` on the problem). -/
def resolvesDefault (nullity : Nat) (l : List Nat) : Bool := decide (nullity ≤ (sortDedup l).length)

/-- adj entry, fallback only (facts from the probe) -/
def fInput (n nullity : Nat) : Full.Input := { n := n, nullity := nullity, resolves := resolvesDefault nullity }

/-- adj entry (round 9): the problem the solver inside `Adj` really gets — the homogenised `(A_dot, b_dot)` as a
    unit-covariance problem (`Ls.adjFull` runs `solverOf alg` on exactly this, with `regOf p.reg`; `Full.inputOf`
    does not look at `reg`) -/
def dotOf (p : Problem Float) : Option (Problem Float) :=
  match Gama.Ls.AdjM.homogenise p with
  | .ok (Ad, bd) => some (Gama.Ls.AdjM.dotProblem p Ad bd (Gama.Ls.AdjM.regOf p.reg))
  | .error _ => none

/-- … and the symbolic inputs OF that problem for the three full-matrix machines (`adj_driver_input_is_instance`) -/
def ainOf (q : Problem Float) : Full.Input × Full.Input × Full.Input :=
  (Full.inputOf .chol q, Full.inputOf .gso q, Full.inputOf .svd q)

/-- solver entry: the symbolic input OF the numeric problem (`full_driver_input_is_instance`) -/
def objAlg : Obj → Option Ls.Alg
  | .full k _ => some (algOf k)
  | .svd _ => some .svd
  | .adj _ => none

/-- the configured list does not resolve the defect: outside `CfgOk` of `full_history_free_across_inputs_resolving` /
    `full_answer_denotes_resolving` (and `SCfgOk` of the svd theorems), INSIDE `full_history_free_across_inputs` and
    `full_answer_denotes` (a fresh object refuses; an answer read afterwards is the `Pending` state) -/
def outsideF (inp : Full.Input) (s : FState) : Bool := inp.nullity != 0 && !inp.resolves (Full.eff inp s)
def outsideS (inp : Full.Input) (s : SState) : Bool := inp.nullity != 0 && s.sub && !inp.resolves (s.list.getD [])

/-- the configuration the object holds, as `full_answer_denotes` / `svd_answer_denotes` state it -/
def regFull (s : FState) : Reg := cfgReg s.useAll s.list
def regSvd (s : SState) : Reg := cfgReg (!s.sub) s.list

def aInput (s : St) (p : Problem Float) : AInput :=
  let minx : Option (List Nat) := match p.reg with | .subset l => some l | _ => none
  -- the envelope inside `Adj` is given the ORIGINAL problem (sparse branch): resolution facts from `resolvesP p`
  let envIn : EnvInput := match s.env with
    | some f => f.toInputOf p s.sel
    | none => { n := p.n, nullity := s.nul .env, invp := fun i => i, inEnv := fun _ _ => true,
                resolves := resolvesDefault (s.nul .env), qbbIn := fun _ _ => true }
  -- the full-matrix solvers are given the homogenised system: `Full.inputOf alg (dot problem)`
  let fin : Full.Input × Full.Input × Full.Input := match s.ain with
    | some t => t
    | none => (fInput p.n (s.nul .chol), fInput p.n (s.nul .gso), fInput p.n (s.nul .svd))
  { env := { envIn with id := s.sel }, chol := fin.1, gso := fin.2.1, svd := fin.2.2,
    minx := minx, rows := fun i => ((p.rows.getD (i - 1) #[]).toList.map (·.1)), id := s.sel, m := p.m, n := p.n }

def numAdj (a : Except ErrKind (Answer Float)) : AOp → String
  | .x => showE (fun (r : Answer Float) => showVec r.x) a
  | .r => showE (fun (r : Answer Float) => showVec r.r) a
  | .rtr => showE (fun (r : Answer Float) => "val " ++ showFloat r.rtr) a
  | .defect => showE (fun (r : Answer Float) => s!"int {r.defect}") a
  | .qxx i j => showE (fun x => "val " ++ showFloat x) (a >>= fun r => r.qxx i j)
  | .qbb i j => showE (fun x => "val " ++ showFloat x) (a >>= fun r => r.qbb i j)
  | _ => "ok"

def evalAdj (a : Except ErrKind (Answer Float)) (op : AOp) (o expected : HAOut) : String :=
  match o.1 with
  | .ok => "ok"
  | .throw (.env .badReg) => "throw BadRegularization"
  | .throw (.full .badReg) => "throw BadRegularization"
  | .nullDeref => "null-deref"
  | _ => if o = expected then numAdj a op else "stale " ++ toString (repr o.1) ++ " on " ++ toString (repr o.2)

def step' (s : St) (line : String) : St × String :=
  let ts := tokens line
  match ts with
  | [] => (s, "")
  | ["problem", m, n] =>
    match m.toNat?, n.toNat? with
    | some m, some n => ({ build := some { m := m, n := n }, probs := s.probs }, "")
    | _, _ => (s, "bad-op")
  | _ =>
  match s.build with
  | some b =>
    if ts = ["end"] then
      match b.finish with
      | some p => ({ prob := some p, probs := s.probs.push p, sel := s.probs.size + 1 }, "ok")
      | none => ({}, "bad-op")
    else match b.feed ts with
      | some b' => ({ s with build := some b' }, "")
      | none => (s, "bad-op")
  | none =>
  match s.prob with
  | none => (s, "bad-op")
  | some p =>
  match ts with
  | ["select", k] =>
    match k.toNat? with
    | some k => if 1 ≤ k ∧ k ≤ s.probs.size then ({ s with prob := s.probs[k - 1]?, sel := k, obj := none, env := none, dot := none, ain := none }, "ok") else (s, "bad-op")
    | none => (s, "bad-op")
  | ["reset_new", k] =>
    match k.toNat? with
    | none => (s, "bad-op")
    | some k =>
      if ¬ (1 ≤ k ∧ k ≤ s.probs.size) then (s, "bad-op") else
      let p' := s.probs.getD (k - 1) p
      let s' : St := { s with prob := some p', sel := k, env := none, nul := fun _ => 0 }
      match s.obj with
      | some (.full kd st) =>
        if !p'.unitCov then (s, "bad-op")
        else ({ s' with obj := some (.full kd (Full.freset st)), finp := Full.inputOf (algOf kd) p' }, "ok")
      | some (.svd st) =>
        if !p'.unitCov then (s, "bad-op")
        else ({ s' with obj := some (.svd (Full.sreset st)), finp := Full.inputOf .svd p' }, "ok")
      | some (.adj h) =>
        -- `set(data')`: the model's `set` does not look at the data; the new facts arrive with `info`/`envinfo`
        let d := dotOf p'
        ({ s' with obj := some (.adj (hastep h (.setData h.inp)).1), dot := d, ain := d.map ainOf }, "ok")
      | none => (s, "bad-op")
  | ["new", a, "solver"] =>
    if !p.unitCov then (s, "bad-op") else
    let cfgF : FState := match p.reg with
      | .subset l => Full.init false (some l) | _ => Full.init true none
    let cfgS : SState := match p.reg with
      | .subset l => Full.sinit true (some l) | _ => Full.sinit false none
    match a with
    | "chol" => ({ s with obj := some (.full .chol cfgF), env := none, finp := Full.inputOf .chol p }, "ok")
    | "gso" => ({ s with obj := some (.full .gso cfgF), env := none, finp := Full.inputOf .gso p }, "ok")
    | "svd" => ({ s with obj := some (.svd cfgS), env := none, finp := Full.inputOf .svd p }, "ok")
    | _ => (s, "bad-op")
  | ["new", a, "adj"] =>
    match parseAlg a with
    | some a =>
      let d := dotOf p
      let s1 : St := { s with env := none, dot := d, ain := d.map ainOf }
      ({ s1 with obj := some (.adj (hainit (aInput s1 p) a)) }, "ok")
    | none => (s, "bad-op")
  | ["info", a, n, nul] =>
    match parseAlg a, n.toNat?, nul.toNat? with
    | some a, some n, some k =>
      match s.obj.bind objAlg with
      | some alg =>
        -- round 6: the facts read from the real class must be those of the numeric problem the machine runs on
        -- (`FInfo.agrees`; then `full_driver_input_is_instance`)
        let f : FInfo := ⟨n, k⟩
        if lsAlg a == alg && f.agrees alg p then (s, " ".intercalate ts)
        else (s, s!"info-does-not-describe-the-problem {algName a} n {n} nullity {k} model-n {(Full.inputOf alg p).n} model-defect {(Full.inputOf alg p).nullity}")
      | none =>
        match (if a = .env then none else s.dot) with
        | some q =>
          -- round 9, adj entry, chol / gso / svd: size and `defect()` read from a fresh `Adj` with that algorithm must
          -- be those the numeric model computes for the homogenised system the machine runs on
          let f : FInfo := ⟨n, k⟩
          if f.agrees (lsAlg a) q then ({ s with nul := fun b => if b = a then k else s.nul b }, " ".intercalate ts)
          else (s, s!"info-does-not-describe-the-problem {algName a} n {n} nullity {k} model-n {(Full.inputOf (lsAlg a) q).n} model-defect {(Full.inputOf (lsAlg a) q).nullity}")
        | none =>
          if n != p.n then (s, s!"info-does-not-describe-the-problem {algName a} n {n} model-n {p.n}")
          -- round 13, adj entry, envelope: `Adj` hands the sparse solver the problem itself (it homogenises inside), so size
          -- and `defect()` of a fresh `Adj` with the envelope algorithm must be those of `envSolve p` (`defectP`)
          else if a = .env && k != defectP p then
            (s, s!"info-does-not-describe-the-problem {algName a} n {n} nullity {k} model-n {p.n} model-defect {defectP p}")
          else ({ s with nul := fun b => if b = a then k else s.nul b }, " ".intercalate ts)
    | _, _, _ => (s, "bad-op")
  | "envinfo" :: rest =>
    match parseInfo rest with
    | some f =>
      -- round 13: as `Driver/EnvState.lean` — the probe's facts of the envelope solver inside `Adj` (ordering, size, defect)
      -- must describe the numeric problem (`Info.agrees`: ordering 1-based and injective on 1..n, `n = p.n`,
      -- `nullity = defectP p`); then `env_driver_input_is_instance` applies to the `EnvInput` `aInput` builds from them
      if f.agrees p then ({ s with env := some f }, " ".intercalate ts)
      else (s, s!"envinfo-does-not-describe-the-problem n {f.n} nullity {f.nullity} model-n {p.n} model-defect {defectP p}")
    | none => (s, "bad-op")
  | ["state"] =>
    match s.obj with
    | some (.full k st) => (s, showFull k st)
    | some (.svd st) => (s, showSvd s.finp.nullity st)
    | some (.adj st) => (s, showAdj s.nul st)
    | none => (s, "bad-op")
  | "fresh" :: q =>
    match s.obj with
    | some (.full k st) =>
      match parseOp q with
      | some op =>
        let inp := s.finp
        let o := Full.fresh k inp st.useAll st.list op
        (s, evalFull (outsideF inp st) (algOf k) p (regFull st) o (Full.spec k inp (Full.eff inp st) op))
      | none => (s, "bad-op")
    | some (.svd st) =>
      match parseOp q with
      | some op =>
        let inp := s.finp
        let o := Full.sfresh inp st.sub st.list op
        (s, evalFull (outsideS inp st) .svd p (regSvd st) o (Full.sspec inp (Full.seff st) op))
      | none => (s, "bad-op")
    | some (.adj h) =>
      match parseAOp q with
      | some op =>
        let inp := aInput s p
        (s, evalAdj (adjSolve (lsAlg h.s.alg) p) op (hafresh inp h.s.alg op) (haspec inp h.s.alg op))
      | none => (s, "bad-op")
    | none => (s, "bad-op")
  | _ =>
    match s.obj with
    | some (.full k st) =>
      match parseOp ts with
      | some op =>
        let inp := s.finp
        let (st', o) := Full.step k inp st op
        ({ s with obj := some (.full k st') },
          evalFull (outsideF inp st') (algOf k) p (regFull st') o (Full.spec k inp (Full.eff inp st) op))
      | none => (s, "bad-op")
    | some (.svd st) =>
      match parseOp ts with
      | some op =>
        let inp := s.finp
        let (st', o) := Full.sstep inp st op
        ({ s with obj := some (.svd st') },
          evalFull (outsideS inp st') .svd p (regSvd st') o (Full.sspec inp (Full.seff st) op))
      | none => (s, "bad-op")
    | some (.adj h) =>
      match parseAOp ts with
      | some op =>
        let inp := aInput s p
        let (h', o) := hastep { h with inp := inp } (.q op)
        ({ s with obj := some (.adj h') }, evalAdj (adjSolve (lsAlg h.s.alg) p) op o (haspec inp h.s.alg op))
      | none => (s, "bad-op")
    | none => (s, "bad-op")

def main : IO Unit := loop step' {}
