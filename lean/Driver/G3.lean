/-
  Line-protocol driver for C19 (`drv_g3`): recomputes, with the Lean models at `Float`, what
  `harness/c19_g3.cpp` printed from the real `g3::Model`:
    pt / cl / ob / sd lines  (the inputs as the real parser stored them)  +  `run`
      → `res frame|idx|dm|par|act|mat|row|cov|blk|rhs|minx` lines
    ev lines (SAX events of the text written by `AdjInputData::write_xml`) + `adjrt`
      → `rd …` lines (the model reader's result) and `ev …` lines (the model writer's events)
-/
import Gama.Proto
import Gama.Model.Neu
import Gama.Model.G3Book
import Gama.Model.AdjXml
open Gama Gama.Proto Gama.Neu Gama.G3Book

structure PtIn where
  name : String
  b : Float
  l : Float
  x : Float
  y : Float
  z : Float
  h : Float
  geoid : Float
  s : PtS

inductive ObIn where
  | vector (f t : String) (dx dy dz fdh tdh : Float)
  | xyz (p : String) (x y z : Float)
  | distance (f t : String) (v fdh tdh : Float)
  | height (p : String) (v : Float)
  | hdiff (f t : String) (v : Float)
  | angle (f l r : String)
  | zenith (f t : String)
  | azimuth (f t : String)

def ObIn.toObs : ObIn → Obs String
  | .vector f t .. => .vector f t
  | .xyz p .. => .xyz p
  | .distance f t .. => .distance f t
  | .height p _ => .height p
  | .hdiff f t _ => .hdiff f t
  | .angle f l r => .angle f l r
  | .zenith f t => .zenith f t
  | .azimuth f t => .azimuth f t

structure ClIn where
  nobs : Nat
  dim : Nat
  band : Nat
  vals : List Float

structure St where
  sd : Float := 1
  tol : Float := 1000
  pts : List PtIn := []
  cls : List ClIn := []
  obs : List ObIn := []
  evs : List (AdjXml.Ev String) := []

def pstate? : String → Option PState
  | "0" => some .unused | "1" => some .fixed | "2" => some .free | "3" => some .constr | _ => none
def bool? : String → Option Bool
  | "0" => some false | "1" => some true | _ => none

def floats? (ts : List String) : Option (List Float) := ts.mapM float?

def parsePt : List String → Option PtIn
  | [name, b, l, x, y, z, h, g, hx, hb, hg, sn, se, su] => do
    let [b, l, x, y, z, h, g] ← floats? [b, l, x, y, z, h, g] | none
    pure ⟨name, b, l, x, y, z, h, g, ⟨← bool? hx, ← bool? hb, ← bool? hg, ← pstate? sn, ← pstate? se, ← pstate? su⟩⟩
  | _ => none

def parseOb : List String → Option ObIn
  | ["vector", f, t, a, b, c, d, e] => do
    let [a, b, c, d, e] ← floats? [a, b, c, d, e] | none
    pure (.vector f t a b c d e)
  | ["xyz", p, a, b, c] => do
    let [a, b, c] ← floats? [a, b, c] | none
    pure (.xyz p a b c)
  | ["distance", f, t, a, b, c] => do
    let [a, b, c] ← floats? [a, b, c] | none
    pure (.distance f t a b c)
  | ["height", p, a] => do pure (.height p (← float? a))
  | ["hdiff", f, t, a] => do pure (.hdiff f t (← float? a))
  | ["angle", f, l, r, _] => some (.angle f l r)
  | ["zenith", f, t, _] => some (.zenith f t)
  | ["azimuth", f, t, _] => some (.azimuth f t)
  | _ => none

def tag? : String → AdjXml.Tag
  | "adj-input-data" => .adjInputData | "sparse-mat" => .sparseMat | "rows" => .rows | "cols" => .cols
  | "nonz" => .nonz | "row" => .row | "int" => .int | "flt" => .flt | "block-diagonal" => .blockDiagonal
  | "blocks" => .blocks | "block" => .block | "dim" => .dim | "width" => .width | "vector" => .vector
  | "array" => .array | _ => .other

def tagName : AdjXml.Tag → String
  | .adjInputData => "adj-input-data" | .sparseMat => "sparse-mat" | .rows => "rows" | .cols => "cols"
  | .nonz => "nonz" | .row => "row" | .int => "int" | .flt => "flt" | .blockDiagonal => "block-diagonal"
  | .blocks => "blocks" | .block => "block" | .dim => "dim" | .width => "width" | .vector => "vector"
  | .array => "array" | .other => "?"

def codec : AdjXml.Codec Float String :=
  { fmtF := showFloat, rdF := float?, fmtN := toString, rdN := String.toNat? }

def points (s : St) : Points String := fun n => (s.pts.find? (·.name == n)).map (·.s.normalise)

def showRow (k : Nat) (r : Row Float) : String :=
  s!"res row {k} {r.length}" ++ String.join (r.map fun (c, i) => s!" {i} {showFloat c}")

/-- the model point the linearisation reads -/
def mkPt (s : St) (bk : Book String) (n : String) : Option (Pt Float) := do
  let p ← s.pts.find? (·.name == n)
  let ps := p.s.normalise
  let ix := fun c => bk.idx.index (isFreePar (points s)) (n, c)
  pure { X := p.x, Y := p.y, Z := p.z, R := transformationMatrix p.b p.l, H := p.h, geoid := p.geoid,
         freeH := ps.freeH, freeU := ps.freeU, iN := ix .N, iE := ix .E, iU := ix .U }

/-- `none` = observation type whose coefficients are not modelled (angle, zenith, azimuth) -/
def linOne (s : St) (bk : Book String) : ObIn → Option (LinOut Float)
  | .vector f t dx dy dz fdh tdh => do pure (linVector (← mkPt s bk f) (← mkPt s bk t) dx dy dz fdh tdh s.tol)
  | .xyz p x y z => do pure (linXYZ (← mkPt s bk p) x y z s.tol)
  | .distance f t v fdh tdh => do pure (linDistance (← mkPt s bk f) (← mkPt s bk t) v fdh tdh s.tol)
  | .height p v => do pure (linHeight (← mkPt s bk p) v)
  | .hdiff f t v => do pure (linHeightDiff (← mkPt s bk f) (← mkPt s bk t) v)
  | _ => none

/-- one pass of `update_observations` + the linearisation loop over `active_obs`;
    returns the book, the per-observation results and the new activity flags -/
def pass (s : St) (act : List Bool) : Book String × List (ObIn × Option (LinOut Float)) × List Bool :=
  let P := points s
  let cand := (s.obs.zip act).map fun (o, a) => (o, a && (revision P o.toObs).isSome)
  let bk := updateObservations P ((cand.filter (·.2)).map (·.1.toObs))
  let lins := (cand.filter (·.2)).map fun (o, _) => (o, linOne s bk o)
  let act' := cand.map fun (o, a) =>
    a && !(match linOne s bk o with | some l => l.rejected | none => false)
  (bk, lins, act')

/-- `do { … } while (!check_observations())` : repeat while an observation was rejected -/
def passes (s : St) : Nat → List Bool → Book String × List (ObIn × Option (LinOut Float)) × List Bool
  | 0, act => pass s act
  | fuel + 1, act =>
    let (bk, lins, act') := pass s act
    let settled := ((s.obs.zip act).map fun (o, a) => a && (revision (points s) o.toObs).isSome) == act'
    if settled then (bk, lins, act') else passes s fuel act'

def showAdj (pfx : String) (d : AdjXml.AdjData Float) : List String :=
  (match d.mat with
   | some m => [s!"{pfx} mat {m.rows} {m.cols} {m.nonz}"] ++
       (m.rowsL.zipIdx.map fun (r, k) =>
         s!"{pfx} row {k + 1} {r.length}" ++ String.join (r.map fun (i, x) => s!" {i} {showFloat x}"))
   | none => [s!"{pfx} nomat"]) ++
  (match d.cov with
   | some bs => [s!"{pfx} cov {bs.length} {AdjXml.covNonz bs}"] ++
       bs.map fun b => s!"{pfx} blk {b.dim} {b.width}" ++ String.join (b.vals.map fun x => " " ++ showFloat x)
   | none => [s!"{pfx} nocov"]) ++
  [s!"{pfx} rhs {d.rhs.length}" ++ String.join (d.rhs.map fun x => " " ++ showFloat x)] ++
  (match d.minx with
   | some a => [s!"{pfx} minx {a.length}" ++ String.join (a.map fun i => s!" {i}")]
   | none => [s!"{pfx} nominx"])

def showEv : AdjXml.Ev String → String
  | .start t => "ev S " ++ tagName t
  | .stop t => "ev E " ++ tagName t
  | .text s => "ev T " ++ s
  | .ws => "ev W"

def runModel (s : St) : String :=
  let P := points s
  let (bk, lins, act) := passes s s.obs.length (s.obs.map fun _ => true)
  let frames := s.pts.flatMap fun p =>
    let R := transformationMatrix p.b p.l
    (if p.s.hasPosition then
      [s!"res frame {p.name} " ++ renderAll [R.r11, R.r12, R.r13, R.r21, R.r22, R.r23, R.r31, R.r32, R.r33]]
     else []) ++
    [s!"res idx {p.name} {bk.idx.index (isFreePar P) (p.name, .N)} {bk.idx.index (isFreePar P) (p.name, .E)} {bk.idx.index (isFreePar P) (p.name, .U)}"]
  let compName : Comp → String | .N => "N" | .E => "E" | .U => "U"
  let par := "res par" ++ String.join (bk.idx.par.map fun ((n, c), _) => s!" {n}.{compName c}")
  -- rows and rhs in order
  let (rowLines, rhsToks, _) := lins.foldl (init := (([] : List String), ([] : List String), 1))
    fun (ls, rs, k) (o, l) =>
      match l with
      | some out =>
        (ls ++ (out.rows.zipIdx.map fun (r, j) => showRow (k + j) r), rs ++ out.rhs.map showFloat, k + out.rows.length)
      | none =>
        let d := o.toObs.dimension
        (ls ++ (List.range d).map (fun j => s!"res row {k + j} skip"), rs ++ List.replicate d "skip", k + d)
  -- cofactor blocks, cluster by cluster
  let (blks, _) := s.cls.foldl (init := (([] : List String), act)) fun (ls, a) c =>
    let mine := a.take c.nobs
    let rest := a.drop c.nobs
    if mine.all id then
      (ls ++ [s!"res blk {c.dim} {c.band} " ++ renderAll (cofactorBlock s.sd c.vals)], rest)
    else if mine.any id then (ls ++ ["res blk skip"], rest)
    else (ls, rest)
  let mx := minx P bk
  "\n".intercalate (frames ++
    [s!"res dm {bk.rows} {bk.idx.cols} {bk.floats}", par,
     "res act" ++ String.join (act.map fun a => if a then " 1" else " 0"),
     s!"res mat {bk.rows} {bk.idx.cols} skip"] ++ rowLines ++
    [s!"res cov {blks.length} skip"] ++ blks ++
    [s!"res rhs {rhsToks.length} " ++ " ".intercalate rhsToks,
     if mx.isEmpty then "res nominx" else s!"res minx {mx.length}" ++ String.join (mx.map fun i => s!" {i}")])

def runAdjRt (s : St) : String :=
  match AdjXml.readAll codec s.evs with
  | .error e => s!"rd throw {repr e}"
  | .ok [d] => "\n".intercalate (showAdj "rd" d ++ (AdjXml.writeAdj codec d).map showEv)
  | .ok ds => s!"rd count {ds.length}"

def step (s : St) (line : String) : St × String :=
  match tokens line with
  | ["sd", a, b] =>
    match float? a, float? b with
    | some a, some b => ({ s with sd := a, tol := b }, "")
    | _, _ => (s, "bad-op")
  | "pt" :: rest =>
    match parsePt rest with
    | some p => ({ s with pts := s.pts ++ [p] }, "")
    | none => (s, "bad-op")
  | "cl" :: nobs :: _nact :: dim :: band :: vals =>
    match nobs.toNat?, dim.toNat?, band.toNat?, floats? vals with
    | some n, some d, some b, some v => ({ s with cls := s.cls ++ [⟨n, d, b, v⟩] }, "")
    | _, _, _, _ => (s, "bad-op")
  | "ob" :: _act :: rest =>
    match parseOb rest with
    | some o => ({ s with obs := s.obs ++ [o] }, "")
    | none => (s, "bad-op")
  | ["run"] => (s, runModel s)
  | ["ev", "S", "gnu-gama-data"] => (s, "")
  | ["ev", "S", "gnu-gama-data", "+atts"] => (s, "")
  | ["ev", "E", "gnu-gama-data"] => (s, "")
  | ["ev", "S", t] => ({ s with evs := s.evs ++ [.start (tag? t)] }, "")
  | ["ev", "S", _, "+atts"] => (s, "bad-op")
  | ["ev", "E", t] => ({ s with evs := s.evs ++ [.stop (tag? t)] }, "")
  | "ev" :: "T" :: toks => ({ s with evs := s.evs ++ toks.map .text }, "")
  | ["ev", "W"] => ({ s with evs := s.evs ++ [.ws] }, "")
  | ["adjrt"] => (s, runAdjRt s)
  | _ => (s, "bad-op")

def main : IO Unit := loop step {}
