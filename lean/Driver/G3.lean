/-
  Line-protocol driver for C19 (`drv_g3`): recomputes, with the Lean models at `Float`, what
  `harness/c19_g3.cpp` printed from the real `g3::Model`:
    pt / cl / ob / sd lines  (the inputs as the real parser stored them)  +  `run`
      → `res frame|idx|dm|par|act|mat|row|cov|blk|rhs|minx` lines (mat / row / cov / blk / rhs / minx are read off
        `G3Dump.dumpOf`, the `Ls.Problem` handed to the model of class `Adj`)
    `hom` → `hom dim|row|rhs` : `AdjM.homogenise (dumpOf …)`, the system `Adj` hands a full solver
    ev lines (SAX events of the text written by `AdjInputData::write_xml`) + `adjrt`
      → `rd …` lines (the model reader's result) and `ev …` lines (the model writer's events)
-/
import Gama.Proto
import Gama.Model.Neu
import Gama.Model.G3Book
import Gama.Model.AdjXml
import Gama.Model.G3Lin
import Gama.Gen.G3Linearization
import Gama.Model.G3Parser
import Gama.Gen.G3ParserSites
import Gama.Model.G3Net
import Gama.Model.G3Dump
open Gama Gama.Proto Gama.Neu Gama.G3Book Gama.G3Lin Gama.G3Net

structure PtIn where
  name : String
  b : Float
  l : Float
  x : Float
  y : Float
  z : Float
  h : Float
  geoid : Float
  s : PtS
  dB : Float
  dL : Float

/-- an observation as the real parser stored it: the bookkeeping view (`Obs String`), the name of
    its generated linearisation, the point name of every role, and its own data -/
structure ObIn where
  obs : Obs String
  kind : String
  names : List (Role × String)
  o : GObs Float

def ObIn.toObs (o : ObIn) : Obs String := o.obs

structure ClIn where
  nobs : Nat
  dim : Nat
  band : Nat
  vals : List Float

structure St where
  sd : Float := 1
  tol : Float := 1000
  pts : List PtIn := []
  cls : List ClIn := []
  obs : List ObIn := []
  evs : List (AdjXml.Ev String) := []
  gpts : List (Role × GPt Float) := []
  precs : List (G3Parser.Rec Unit Float) := []
  adjx : List Float := []
  adjDefect : Nat := 0
  adjRtr : Float := 0
  qxx : List Float := []
  qn : Nat := 0
  refApriori : Bool := false

def pstate? : String → Option PState
  | "0" => some .unused | "1" => some .fixed | "2" => some .free | "3" => some .constr | _ => none
def bool? : String → Option Bool
  | "0" => some false | "1" => some true | _ => none

def floats? (ts : List String) : Option (List Float) := ts.mapM float?

def parsePt : List String → Option PtIn
  | [name, b, l, x, y, z, h, g, hx, hb, hg, sn, se, su, db, dl] => do
    let [b, l, x, y, z, h, g, db, dl] ← floats? [b, l, x, y, z, h, g, db, dl] | none
    pure ⟨name, b, l, x, y, z, h, g, ⟨← bool? hx, ← bool? hb, ← bool? hg, ← pstate? sn, ← pstate? se, ← pstate? su⟩, db, dl⟩
  | _ => none

def gobs (v1 v2 v3 fdh tdh ldh rdh : Float) : GObs Float := ⟨v1, v2, v3, fdh, tdh, ldh, rdh⟩

def parseOb : List String → Option ObIn
  | ["vector", f, t, a, b, c, d, e] => do
    let [a, b, c, d, e] ← floats? [a, b, c, d, e] | none
    pure ⟨.vector f t, "vector", [(.frm, f), (.to, t)], gobs a b c d e 0 0⟩
  | ["xyz", p, a, b, c] => do
    let [a, b, c] ← floats? [a, b, c] | none
    pure ⟨.xyz p, "xyz", [(.pt, p)], gobs a b c 0 0 0 0⟩
  | ["distance", f, t, a, b, c] => do
    let [a, b, c] ← floats? [a, b, c] | none
    pure ⟨.distance f t, "distance", [(.frm, f), (.to, t)], gobs a 0 0 b c 0 0⟩
  | ["height", p, a] => do pure ⟨.height p, "height", [(.pt, p)], gobs (← float? a) 0 0 0 0 0 0⟩
  | ["hdiff", f, t, a, b, c] => do
    let [a, b, c] ← floats? [a, b, c] | none
    pure ⟨.hdiff f t, "hdiff", [(.frm, f), (.to, t)], gobs a 0 0 b c 0 0⟩
  | ["angle", f, l, r, a, b, c, d] => do
    let [a, b, c, d] ← floats? [a, b, c, d] | none
    pure ⟨.angle f l r, "angle", [(.frm, f), (.left, l), (.right, r)], gobs a 0 0 b 0 c d⟩
  | ["zenith", f, t, a, b, c] => do
    let [a, b, c] ← floats? [a, b, c] | none
    pure ⟨.zenith f t, "zenith", [(.frm, f), (.to, t)], gobs a 0 0 b c 0 0⟩
  | ["azimuth", f, t, a, b, c] => do
    let [a, b, c] ← floats? [a, b, c] | none
    pure ⟨.azimuth f t, "azimuth", [(.frm, f), (.to, t)], gobs a 0 0 b c 0 0⟩
  | _ => none

def tag? : String → AdjXml.Tag
  | "adj-input-data" => .adjInputData | "sparse-mat" => .sparseMat | "rows" => .rows | "cols" => .cols
  | "nonz" => .nonz | "row" => .row | "int" => .int | "flt" => .flt | "block-diagonal" => .blockDiagonal
  | "blocks" => .blocks | "block" => .block | "dim" => .dim | "width" => .width | "vector" => .vector
  | "array" => .array | _ => .other

def tagName : AdjXml.Tag → String
  | .adjInputData => "adj-input-data" | .sparseMat => "sparse-mat" | .rows => "rows" | .cols => "cols"
  | .nonz => "nonz" | .row => "row" | .int => "int" | .flt => "flt" | .blockDiagonal => "block-diagonal"
  | .blocks => "blocks" | .block => "block" | .dim => "dim" | .width => "width" | .vector => "vector"
  | .array => "array" | .other => "?"

def codec : AdjXml.Codec Float String :=
  { fmtF := showFloat, rdF := float?, fmtN := toString, rdN := String.toNat? }

def points (s : St) : Points String := fun n => (s.pts.find? (·.name == n)).map (·.s.normalise)

def showRow (k : Nat) (r : Row Float) : String :=
  s!"res row {k} {r.length}" ++ String.join (r.map fun (c, i) => s!" {i} {showFloat c}")

/-- the point table of the network model (`G3Net.Net`): corrections are zero before the adjustment
    (`X() = X.init_value()`), the frame is the one `set_xyz / set_blh` stored -/
def toNPt (p : PtIn) : NPt Float :=
  { X := p.x, Y := p.y, Z := p.z, X0 := p.x, Y0 := p.y, Z0 := p.z, B := p.b, L := p.l, H := p.h,
    geoid := p.geoid, dB := p.dB, dL := p.dL, R := transformationMatrix p.b p.l, s := p.s }

def netOf (s : St) : Net String Float := ⟨fun n => (s.pts.find? (·.name == n)).map toNPt, s.tol⟩

def ObIn.toNObs (o : ObIn) : NObs String Float := ⟨o.obs, o.o⟩

/-- one pass of `update_observations` + the linearisation loop over `active_obs` (`G3Net.bookOf`,
    `G3Net.netEqs`); returns the book, the project equations and the new activity flags -/
def pass (s : St) (act : List Bool) : Book String × List (Row Float × Float) × List Bool :=
  let net := netOf s
  let cand := (s.obs.zip act).map fun (o, a) => (o, a && (revision net.points o.toObs).isSome)
  let nobs := (cand.filter (·.2)).map (·.1.toNObs)
  let bk := bookOf net nobs
  let eqs := netEqs net nobs
  let act' := cand.map fun (o, a) => a && !(linObs net bk.idx.ind o.toNObs).rejected
  (bk, eqs, act')

/-- `do { … } while (!check_observations())` : repeat while an observation was rejected -/
def passes (s : St) : Nat → List Bool → Book String × List (Row Float × Float) × List Bool
  | 0, act => pass s act
  | fuel + 1, act =>
    let (bk, lins, act') := pass s act
    let settled := ((s.obs.zip act).map fun (o, a) => a && (revision (netOf s).points o.toObs).isSome) == act'
    if settled then (bk, lins, act') else passes s fuel act'

def showAdj (pfx : String) (d : AdjXml.AdjData Float) : List String :=
  (match d.mat with
   | some m => [s!"{pfx} mat {m.rows} {m.cols} {m.nonz}"] ++
       (m.rowsL.zipIdx.map fun (r, k) =>
         s!"{pfx} row {k + 1} {r.length}" ++ String.join (r.map fun (i, x) => s!" {i} {showFloat x}"))
   | none => [s!"{pfx} nomat"]) ++
  (match d.cov with
   | some bs => [s!"{pfx} cov {bs.length} {AdjXml.covNonz bs}"] ++
       bs.map fun b => s!"{pfx} blk {b.dim} {b.width}" ++ String.join (b.vals.map fun x => " " ++ showFloat x)
   | none => [s!"{pfx} nocov"]) ++
  [s!"{pfx} rhs {d.rhs.length}" ++ String.join (d.rhs.map fun x => " " ++ showFloat x)] ++
  (match d.minx with
   | some a => [s!"{pfx} minx {a.length}" ++ String.join (a.map fun i => s!" {i}")]
   | none => [s!"{pfx} nominx"])

def showEv : AdjXml.Ev String → String
  | .start t => "ev S " ++ tagName t
  | .stop t => "ev E " ++ tagName t
  | .text s => "ev T " ++ s
  | .ws => "ev W"

/-- the clusters of `G3Dump`: covariance matrix, records with their `active()` flag -/
def clustersOf (s : St) (act : List Bool) : List (G3Dump.Cluster String Float) :=
  (s.cls.foldl (init := (([] : List (G3Dump.Cluster String Float)), s.obs.zip act)) fun (acc, rest) c =>
    (acc ++ [⟨⟨c.dim, c.band, c.vals.toArray⟩, (rest.take c.nobs).map fun (o, a) => (a, o.toNObs)⟩],
     rest.drop c.nobs)).1

/-- `adj_input_data` after the last pass of `update_linearization` (the activity flags are settled: the
    records still active are exactly those the last pass linearised) -/
def dumpOfSt (s : St) : List Bool × Ls.Problem Float :=
  let (_, _, act) := passes s s.obs.length (s.obs.map fun _ => true)
  (act, G3Dump.dumpOf (netOf s) s.sd (clustersOf s act))

def runModel (s : St) : String :=
  let P := (netOf s).points
  let (bk, lins, act) := passes s s.obs.length (s.obs.map fun _ => true)
  let frames := s.pts.flatMap fun p =>
    let R := transformationMatrix p.b p.l
    (if p.s.hasPosition then
      [s!"res frame {p.name} " ++ renderAll [R.r11, R.r12, R.r13, R.r21, R.r22, R.r23, R.r31, R.r32, R.r33]]
     else []) ++
    [s!"res idx {p.name} {bk.idx.index (isFreePar P) (p.name, .N)} {bk.idx.index (isFreePar P) (p.name, .E)} {bk.idx.index (isFreePar P) (p.name, .U)}"]
  let compName : Comp → String | .N => "N" | .E => "E" | .U => "U"
  let par := "res par" ++ String.join (bk.idx.par.map fun ((n, c), _) => s!" {n}.{compName c}")
  -- everything below is read off the ONE value `dumpOf` (the object of the theorems of Props/C19Dump.lean)
  let d := G3Dump.dumpOf (netOf s) s.sd (clustersOf s act)
  let rowLines := d.rows.toList.zipIdx.map fun (r, k) =>
    s!"res row {k + 1} {r.size}" ++ String.join (r.toList.map fun (i, c) => s!" {i} {showFloat c}")
  let rhsToks := d.rhs.toList.map showFloat
  let blks := d.cov.toList.map fun b => s!"res blk {b.dim} {b.width} " ++ renderAll b.v.toList
  let written := G3Dump.bdWritten d.cov.toList
  let announced := G3Dump.bdAnnounced (netOf s) (clustersOf s act)
  "\n".intercalate (frames ++
    [s!"res dm {bk.rows} {bk.idx.cols} {bk.floats}", par,
     "res act" ++ String.join (act.map fun a => if a then " 1" else " 0"),
     -- `SparseMatrix::nonzeroes()` = the number of `add_element` calls
     s!"res mat {d.m} {d.n} {G3Dump.floatsWritten lins}"] ++ rowLines ++
    -- `BlockDiagonal::blocks() / nonzeroes()` = what `add_block` received; `res bd` = what was allocated
    [s!"res cov {written.1} {written.2}"] ++ blks ++
    [s!"res rhs {rhsToks.length} " ++ " ".intercalate rhsToks,
     match d.reg with
     | .subset mx => s!"res minx {mx.length}" ++ String.join (mx.map fun i => s!" {i}")
     | _ => "res nominx",
     s!"hom bd {announced.1} {announced.2} {written.1} {written.2}"])

/-- `A_dot`, `b_dot` of `Adj::init_least_squares` on gama-g3's own input -/
def runHom (s : St) : String :=
  let (_, d) := dumpOfSt s
  match Ls.AdjM.homogenise d with
  | .error e => s!"hom throw {e.name}"
  | .ok (Ad, bd) =>
    "\n".intercalate ([s!"hom dim {d.m} {d.n}"] ++
      ((List.range d.m).map fun i =>
        s!"hom row {i + 1}" ++ String.join ((List.range d.n).map fun j => " " ++ showFloat (Ls.Dn.mget Ad i j))) ++
      ["hom rhs" ++ String.join ((List.range d.m).map fun i => " " ++ showFloat (Ls.Dn.vget bd i))])

def runAdjRt (s : St) : String :=
  match AdjXml.readAll codec s.evs with
  | .error e => s!"rd throw {repr e}"
  | .ok [d] => "\n".intercalate (showAdj "rd" d ++ (AdjXml.writeAdj codec d).map showEv)
  | .ok ds => s!"rd count {ds.length}"


/-- `Model::update_adjustment` + `Model::write_xml_adjustment_results_points` on what the harness read from class
    `Adj` (`adj`, `qxx`, `ref` lines): statistics and, per point in the order written, what `Point::write_xml` computes -/
def runResult (s : St) : String :=
  let net := netOf s
  let (bk, _, _) := passes s s.obs.length (s.obs.map fun _ => true)
  let n := s.qn
  -- upper triangle, row-major: entry (i, j), 1 ≤ i ≤ j ≤ n
  let q (i j : Nat) : Float :=
    let (a, b) := if i ≤ j then (i, j) else (j, i)
    if a = 0 ∨ b > n then 0 else s.qxx.getD ((a - 1) * n - (a - 1) * (a - 2) / 2 + (b - a)) 0
  let a : AdjOut Float := ⟨fun k => if k = 0 then 0 else s.adjx.getD (k - 1) 0, s.adjDefect, s.adjRtr, q⟩
  let st := stats bk a s.sd s.refApriori
  let pts := (pointOrder bk.idx).map fun name =>
    match reportPoint net bk a st.stdVariance name, net.points name with
    | some o, some ps =>
      let fixedPos := ps.sN.isFixed && ps.sE.isFixed && ps.sU.isFixed
      s!"res pt {name} " ++ renderAll [o.dn, o.de, o.du, o.cx, o.cy, o.cz, o.ax, o.ay, o.az, o.dh] ++
        (if fixedPos then " fixed" else " " ++ renderAll (o.covNeu ++ o.covXyz))
    | _, _ => s!"res pt {name} missing"
  "\n".intercalate ([s!"res stat {st.redundancy} {showFloat st.aposterioriSd} {showFloat st.stdDeviation} {showFloat st.stdVariance}"] ++ pts)

def role? : String → Option Role
  | "frm" => some .frm | "to" => some .to | "left" => some .left | "right" => some .right | "pt" => some .pt
  | _ => none

def parseGpt : List String → Option (Role × GPt Float)
  | role :: rest => do
    let r ← role? role
    let fs ← floats? (rest.take 21)
    let [sn, se, su, iN, iE, iU] := rest.drop 21 | none
    match fs with
    | [x, y, z, x0, y0, z0, b, l, h, g, db, dl, r11, r12, r13, r21, r22, r23, r31, r32, r33] =>
      pure (r, { X := x, Y := y, Z := z, X0 := x0, Y0 := y0, Z0 := z0, B := b, L := l, H := h, geoid := g,
                 dB := db, dL := dl, R := ⟨r11, r12, r13, r21, r22, r23, r31, r32, r33⟩,
                 sN := ← pstate? sn, sE := ← pstate? se, sU := ← pstate? su,
                 iN := ← iN.toNat?, iE := ← iE.toNat?, iU := ← iU.toNat? })
    | _ => none
  | [] => none

/-- one direct `Model::linearization(T*)` on the points given by `gpt` lines -/
def runLin (s : St) : List String → String
  | ty :: rest =>
    match Gama.Gen.G3Lin.byName (K := Float) ty, floats? rest with
    | some f, some [v1, v2, v3, fdh, tdh, ldh, rdh, tol] =>
      let P : Pts Float := fun r => (s.gpts.lookup r).getD zeroPt
      let out := evalLin P (f P (gobs v1 v2 v3 fdh tdh ldh rdh) tol)
      "\n".intercalate ((out.rows.zipIdx.map fun (r, j) => showRow (1 + j) r) ++
        [s!"res rhs {out.rhs.length}" ++ String.join (out.rhs.map fun x => " " ++ showFloat x),
         s!"res rej {if out.rejected then 1 else 0} {if out.rejected then 1 else 0}"])
    | _, _ => "bad-op"
  | [] => "bad-op"

def kind? : String → Option G3Parser.Kind
  | "distance" => some .dist | "zenith" => some .zenith | "azimuth" => some .azimuth | "vector" => some .vector
  | "xyz" => some .xyz | "hdiff" => some .hdiff | "height" => some .height | "angle" => some .angle | _ => none
def kindName : G3Parser.Kind → String
  | .dist => "distance" | .zenith => "zenith" | .azimuth => "azimuth" | .vector => "vector"
  | .xyz => "xyz" | .hdiff => "hdiff" | .height => "height" | .angle => "angle"
def field? : String → Option G3Parser.Field
  | "from-dh" => some .fromDh | "to-dh" => some .toDh | "left-dh" => some .leftDh | "right-dh" => some .rightDh
  | _ => none

def parseOpts : List String → Option (List (G3Parser.Field × Float))
  | [] => some []
  | f :: v :: t => do pure ((← field? f, ← float? v) :: (← parseOpts t))
  | _ => none

/-- the records given by `prec` lines through the parser model; the uninitialised members hold 7 -/
def runParse (s : St) : String :=
  match G3Parser.parse (K := Float) Gama.Gen.G3ParserSites.sites (fun _ => 7.0) s.precs with
  | .error _ => "throw unknownTag"
  | .ok bs => "\n".intercalate (bs.map fun b => s!"pb {kindName b.kind}" ++ String.join (b.dh.map fun (_, v) => " " ++ showFloat v))

def step (s : St) (line : String) : St × String :=
  match tokens line with
  | "prec" :: kind :: rest =>
    match kind? kind, parseOpts rest with
    | some k, some o => ({ s with precs := s.precs ++ [⟨k, (), o⟩] }, "")
    | _, _ => (s, "bad-op")
  | ["prun"] => (s, runParse s)
  | "gpt" :: rest =>
    match parseGpt rest with
    | some g => ({ s with gpts := s.gpts ++ [g] }, "")
    | none => (s, "bad-op")
  | "lin" :: rest => (s, runLin s rest)
  | ["sd", a, b] =>
    match float? a, float? b with
    | some a, some b => ({ s with sd := a, tol := b }, "")
    | _, _ => (s, "bad-op")
  | "pt" :: rest =>
    match parsePt rest with
    | some p => ({ s with pts := s.pts ++ [p] }, "")
    | none => (s, "bad-op")
  | "cl" :: nobs :: _nact :: dim :: band :: vals =>
    match nobs.toNat?, dim.toNat?, band.toNat?, floats? vals with
    | some n, some d, some b, some v => ({ s with cls := s.cls ++ [⟨n, d, b, v⟩] }, "")
    | _, _, _, _ => (s, "bad-op")
  | "ob" :: _act :: rest =>
    match parseOb rest with
    | some o => ({ s with obs := s.obs ++ [o] }, "")
    | none => (s, "bad-op")
  | ["run"] => (s, runModel s)
  | ["hom"] => (s, runHom s)
  | "adj" :: _alg :: defect :: rtr :: _n :: xs =>
    match defect.toNat?, float? rtr, floats? xs with
    | some d, some r, some x => ({ s with adjDefect := d, adjRtr := r, adjx := x }, "")
    | _, _, _ => (s, "bad-op")
  | "qxx" :: n :: vals =>
    match n.toNat?, floats? vals with
    | some n, some v => ({ s with qn := n, qxx := v }, "")
    | _, _ => (s, "bad-op")
  | ["ref", r] =>
    match bool? r with
    | some b => ({ s with refApriori := b }, "")
    | none => (s, "bad-op")
  | ["result"] => (s, runResult s)
  | ["ev", "S", "gnu-gama-data"] => (s, "")
  | ["ev", "S", "gnu-gama-data", "+atts"] => (s, "")
  | ["ev", "E", "gnu-gama-data"] => (s, "")
  | ["ev", "S", t] => ({ s with evs := s.evs ++ [.start (tag? t)] }, "")
  | ["ev", "S", _, "+atts"] => (s, "bad-op")
  | ["ev", "E", t] => ({ s with evs := s.evs ++ [.stop (tag? t)] }, "")
  | "ev" :: "T" :: toks => ({ s with evs := s.evs ++ toks.map .text }, "")
  | ["ev", "W"] => ({ s with evs := s.evs ++ [.ws] }, "")
  | ["adjrt"] => (s, runAdjRt s)
  | _ => (s, "bad-op")

def main : IO Unit := loop step {}
