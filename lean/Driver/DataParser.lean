/-
  Driver for C11 / DataParser: runs Gama.DP.step (Model/DataParserRun.lean over the GENERATED tables and handler
  skeletons) on the SAX event lines printed by harness/c11_dataparser.cpp.
  (also: `pd <kinds> <hex>` = PD.pureData after the extractions `kinds` (d = double, w = word) from the text)
  Input lines:  start <hexname> <line> <ae> <k> | stop <line> <k> | text <line> <hex> <k> | end
  where k is the kind of the error the implementation first recorded during the event (or -).  The outcomes of
  the data-dependent conditions inside a handler are not observable from outside: the driver takes the first
  oracle (in lexicographic order, `true` first) under which the model records the same k — if there is none it
  answers `R ? nopath`.  The state after the event and the final outcome are the model's prediction.
-/
import Gama.Proto
import Gama.Model.DataParserRun
import Gama.Model.PureData
open Gama Gama.Proto Gama.DP

def unhex (s : String) : Option (List Char) :=
  if s == "-" then some [] else
  let rec go : List Char → Option (List Char)
    | [] => some []
    | [_] => none
    | a :: b :: r => do
        let x ← hexDigit? a
        let y ← hexDigit? b
        let t ← go r
        pure (Char.ofNat (x * 16 + y) :: t)
  go s.toList

def tagOf (name : List Char) : Tag :=
  match tagTable.find? (fun p => p.1.toList == name) with
  | some p => p.2
  | none => .t_unknown

structure DSt where
  st : St := St.init
  lines : Array Nat := #[]

/-- number of data-dependent conditions in a skeleton -/
def nIf : Prog → Nat
  | .ifData a b => 1 + nIf a + nIf b
  | .seq a b | .ifNoAttrs a b | .ifHasAttrs a b | .ifStateErr a b | .ifBlank a b => nIf a + nIf b
  | .scope a => nIf a
  | _ => 0

/-- all oracles of length n, `true` first -/
def oracles : Nat → List (List Bool)
  | 0 => [[]]
  | n + 1 => (oracles n).flatMap (fun o => [true :: o, false :: o])

def progOf (st : St) : Event → Prog
  | .start t _ _ => startProg (stag st.state t)
  | .stop _ => endProg (etag st.state)
  | .text _ _ => dataProg (dataH st.state)

def withOracle (e : Event) (d : List Bool) : Event :=
  match e with
  | .start t ae _ => .start t ae d
  | .stop _ => .stop d
  | .text s _ => .text s d

def kindName (old new : St) : String :=
  match old.err, new.err with
  | none, some (_, k) => k.name
  | _, _ => "-"

/-- the first oracle under which the model, started without a recorded error, records kind `k` (or none for `-`) -/
def findOracle (st : St) (e : Event) (k : String) : Option (List Bool) :=
  let n := min (nIf (progOf st e)) 12
  let clean : St := { st with err := none }
  (oracles n).find? (fun d =>
    let k' := kindName clean (step clean (withOracle e d))
    -- once an error is recorded the implementation cannot show further calls of error(): the calls that do not
    -- depend on the data (unknown tag, no transition, ...) are the model's own; a path with a failing data check
    -- is not chosen
    if st.err.isSome then k' != "data" else k' == k)

def feed (d : DSt) (line : Nat) (e : Event) (k : String) : DSt × String :=
  -- after a recorded error the implementation cannot show whether error() was called again: k is `-`
  match findOracle d.st e k with
  | none => ({ d with lines := d.lines.push line }, "R ? nopath")
  | some o =>
    let st' := step d.st (withOracle e o)
    ({ st := st', lines := d.lines.push line }, s!"R {st'.state.idx} {kindName d.st st'}")

def flag? (s : String) : Option Bool := if s == "1" then some true else if s == "0" then some false else none

def stepLine (d : DSt) (line : String) : DSt × String :=
  match tokens line with
  | ["start", name, ln, ae, k] =>
    match unhex name, ln.toNat?, flag? ae with
    | some nm, some l, some a => feed d l (.start (tagOf nm) a []) k
    | _, _, _ => (d, "bad-op")
  | ["stop", ln, k] =>
    match ln.toNat? with
    | some l => feed d l (.stop []) k
    | _ => (d, "bad-op")
  | ["text", ln, hx, k] =>
    match ln.toNat?, unhex hx with
    | some l, some cs => feed d l (.text cs []) k
    | _, _ => (d, "bad-op")
  | ["pd", kinds, hx] =>
    -- `pure_data(istr >> …)`: kinds = a string over d (double) / w (word); answer: failbit eofbit before the call, its result
    match unhex hx with
    | some cs =>
      let xs := kinds.toList.filterMap (fun c => if c == 'd' then some PD.Extraction.double else if c == 'w' then some PD.Extraction.word else none)
      let st := xs.foldl (fun st x => x.run st) (PD.Stream.ofText cs)
      let b (x : Bool) := if x then "1" else "0"
      (d, s!"pd {b st.fail}{b st.eof} {b (PD.pureData st)}")
    | none => (d, "bad-op")
  | ["end"] =>
    match outcome d.st with
    | .accepted => (d, "O ok")
    | .refused none => (d, "O parser 0 -1")
    | .refused (some (i, _)) => (d, s!"O parser {d.lines[i]?.getD 0} -1")
  | _ => (d, "bad-op")

def main : IO Unit := loop stepLine {}
