/-
  Driver for C11 / DataParser: runs Gama.DP.step (Model/DataParserRun.lean over the GENERATED tables and handler
  skeletons) on the SAX event lines printed by harness/c11_dataparser.cpp.
  (also: `pd <kinds> <hex>` = PD.pureData after the extractions `kinds` (d = double, w = word, i = int, u = size_t) from the text)
  For every event the driver answers two lines: `R …` = DP.step with the condition bits searched from k (the old tie) and
  `V …` = DP.cstep on the REAL text (number-format conditions computed, `g3->model != nullptr` true, the other bits searched from k);
  at `end`: `O …` and `W …` (outcome of DP.crun, with the line of the event that recorded the error).
  Input lines:  start <hexname> <line> <ae> <k> | stop <line> <k> | text <line> <hex> <k> | end
  where k is the kind of the error the implementation first recorded during the event (or -).  The outcomes of
  the data-dependent conditions inside a handler are not observable from outside: the driver takes the first
  oracle (in lexicographic order, `true` first) under which the model records the same k — if there is none it
  answers `R ? nopath`.  The state after the event and the final outcome are the model's prediction.
-/
import Gama.Proto
import Gama.Model.DataParserRun
import Gama.Model.PureData
import Gama.Model.DataParserValues
open Gama Gama.Proto Gama.DP

def unhex (s : String) : Option (List Char) :=
  if s == "-" then some [] else
  let rec go : List Char → Option (List Char)
    | [] => some []
    | [_] => none
    | a :: b :: r => do
        let x ← hexDigit? a
        let y ← hexDigit? b
        let t ← go r
        pure (Char.ofNat (x * 16 + y) :: t)
  go s.toList

def tagOf (name : List Char) : Tag :=
  match tagTable.find? (fun p => p.1.toList == name) with
  | some p => p.2
  | none => .t_unknown

structure DSt where
  st : St := St.init
  lines : Array Nat := #[]
  /-- the run on the real text (`DP.crun`): state + `text_buffer` -/
  cs : CSt := CSt.init

/-- number of data-dependent conditions in a skeleton -/
def nIf : Prog → Nat
  | .ifData a b => 1 + nIf a + nIf b
  | .seq a b | .ifNoAttrs a b | .ifHasAttrs a b | .ifStateErr a b | .ifBlank a b => nIf a + nIf b
  | .scope a => nIf a
  | _ => 0

/-- all oracles of length n, `true` first -/
def oracles : Nat → List (List Bool)
  | 0 => [[]]
  | n + 1 => (oracles n).flatMap (fun o => [true :: o, false :: o])

def progOf (st : St) : Event → Prog
  | .start t _ _ => startProg (stag st.state t)
  | .stop _ => endProg (etag st.state)
  | .text _ _ => dataProg (dataH st.state)

def withOracle (e : Event) (d : List Bool) : Event :=
  match e with
  | .start t ae _ => .start t ae d
  | .stop _ => .stop d
  | .text s _ => .text s d

def kindName (old new : St) : String :=
  match old.err, new.err with
  | none, some (_, k) => k.name
  | _, _ => "-"

/-- the first oracle under which the model, started without a recorded error, records kind `k` (or none for `-`) -/
def findOracle (st : St) (e : Event) (k : String) : Option (List Bool) :=
  let n := min (nIf (progOf st e)) 12
  let clean : St := { st with err := none }
  (oracles n).find? (fun d =>
    let k' := kindName clean (step clean (withOracle e d))
    -- once an error is recorded the implementation cannot show further calls of error(): the calls that do not
    -- depend on the data (unknown tag, no transition, ...) are the model's own; a path with a failing data check
    -- is not chosen
    if st.err.isSome then k' != "data" else k' == k)

def feed (d : DSt) (line : Nat) (e : Event) (k : String) : DSt × String :=
  -- after a recorded error the implementation cannot show whether error() was called again: k is `-`
  match findOracle d.st e k with
  | none => ({ d with lines := d.lines.push line }, "R ? nopath")
  | some o =>
    let st' := step d.st (withOracle e o)
    ({ d with st := st', lines := d.lines.push line }, s!"R {st'.state.idx} {kindName d.st st'}")

/-! ### the run on the real text: conditions about number formats are COMPUTED from the text of the `text` lines -/

/-- number of oracle bits a `CProg` can consume -/
def nOracle : CProg → Nat
  | .ifData .other a b => 1 + nOracle a + nOracle b
  | .ifData (.pure _ _ .none _) a b => nOracle a + nOracle b
  | .ifData (.pure _ _ _ _) a b => 1 + nOracle a + nOracle b
  | .ifData _ a b => nOracle a + nOracle b
  | .seq a b | .ifNoAttrs a b | .ifHasAttrs a b | .ifStateErr a b | .ifBlank a b => nOracle a + nOracle b
  | .scope a => nOracle a
  | _ => 0

def cprogOf (cs : CSt) : CEvent → CProg
  | .start t _ _ => cStartProg (stag cs.st.state t)
  | .stop _ => cEndProg (etag cs.st.state)
  | .text _ _ => cDataProg (dataH cs.st.state)

def withOracleC (e : CEvent) (o : List Bool) : CEvent :=
  match e with
  | .start t ae _ => .start t ae o
  | .stop _ => .stop o
  | .text s _ => .text s o

/-- the oracle bits of the conditions that are not computed: the first assignment (`true` first) under which the model, started
    without a recorded error, records the kind the implementation recorded; the guards `g3->model != nullptr` are `true` -/
def findOracleC (cs : CSt) (e : CEvent) (k : String) : Option (List Bool) :=
  let n := min (nOracle (cprogOf cs e)) 12
  let clean : CSt := { cs with st := { cs.st with err := none } }
  (oracles n).find? (fun o =>
    let k' := kindName clean.st (cstep clean (withOracleC e o)).st
    if cs.st.err.isSome then k' != "data" else k' == k)

/-- `g3->model != nullptr`: true in every state the harness can reach; the search above must not use it to explain a refusal -/
def modelGuardOnly : CProg → Bool
  | .ifData (.pure _ _ .modelNonNull _) a b => nOracle a + nOracle b == 0
  | .seq a b => (modelGuardOnly a && nOracle b == 0) || (nOracle a == 0 && modelGuardOnly b)
  | .scope a => modelGuardOnly a
  | _ => false

def feedC (d : DSt) (e : CEvent) (k : String) : DSt × String :=
  -- a handler whose only oracle bit is the `g3->model != nullptr` guard is run with that bit `true`: its verdict is computed
  let o? := if modelGuardOnly (cprogOf d.cs e) then some [] else findOracleC d.cs e k
  match o? with
  | none => ({ d with cs := cstep d.cs (withOracleC e []) }, "V ? nopath")
  | some o =>
    let cs' := cstep d.cs (withOracleC e o)
    ({ d with cs := cs' }, s!"V {cs'.st.state.idx} {kindName d.cs.st cs'.st}")

def flag? (s : String) : Option Bool := if s == "1" then some true else if s == "0" then some false else none

def stepLine (d : DSt) (line : String) : DSt × String :=
  match tokens line with
  | ["start", name, ln, ae, k] =>
    match unhex name, ln.toNat?, flag? ae with
    | some nm, some l, some a =>
      let (d1, r) := feed d l (.start (tagOf nm) a []) k
      let (d2, v) := feedC d1 (.start (tagOf nm) a []) k
      (d2, r ++ "\n" ++ v)
    | _, _, _ => (d, "bad-op")
  | ["stop", ln, k] =>
    match ln.toNat? with
    | some l =>
      let (d1, r) := feed d l (.stop []) k
      let (d2, v) := feedC d1 (.stop []) k
      (d2, r ++ "\n" ++ v)
    | _ => (d, "bad-op")
  | ["text", ln, hx, k] =>
    match ln.toNat?, unhex hx with
    | some l, some cs =>
      let (d1, r) := feed d l (.text cs []) k
      let (d2, v) := feedC d1 (.text cs []) k
      (d2, r ++ "\n" ++ v)
    | _, _ => (d, "bad-op")
  | ["pd", kinds, hx] =>
    -- `pure_data(istr >> …)`: kinds = a string over d (double) / w (word); answer: failbit eofbit before the call, its result
    match unhex hx with
    | some cs =>
      let xs := kinds.toList.filterMap (fun c => if c == 'd' then some PD.Extraction.double else if c == 'w' then some PD.Extraction.word
        else if c == 'i' then some PD.Extraction.int else if c == 'u' then some PD.Extraction.size else none)
      let st := xs.foldl (fun st x => x.run st) (PD.Stream.ofText cs)
      let b (x : Bool) := if x then "1" else "0"
      (d, s!"pd {b st.fail}{b st.eof} {b (PD.pureData st)}")
    | none => (d, "bad-op")
  | ["end"] =>
    let w := match outcome d.cs.st with
      | .accepted => "W ok"
      | .refused none => "W parser 0 -1"
      | .refused (some (i, _)) => s!"W parser {d.lines[i]?.getD 0} -1"
    match outcome d.st with
    | .accepted => (d, "O ok\n" ++ w)
    | .refused none => (d, "O parser 0 -1\n" ++ w)
    | .refused (some (i, _)) => (d, s!"O parser {d.lines[i]?.getD 0} -1\n" ++ w)
  | _ => (d, "bad-op")

def main : IO Unit := loop stepLine {}
