/-
  Driver of `Gama.MinX` (protocol of harness/c08_minx.cpp): the network is described by the `sp` /
  `pt` / `ob` lines the harness' `dump` printed for the real `PD` / `OD`; `pass` runs
  `MinX.projectEquations` with the structural world and prints what the harness reads from the real
  `LocalNetwork` after `project_equations()`.
-/
import Gama.Proto
import Gama.Model.MinX
open Gama Gama.Proto Gama.NetDecision Gama.MinX

structure DSt where
  nsp : Nat := 0
  pts : List PtS := []
  obs : List (Bool × Obs) := []
  idx : Unk → Nat := fun _ => 0
  minn : Nat := 0
  minx : List Nat := []

def stChar : CStat → Char
  | .unused => 'u' | .fixed => 'f' | .free => 'a' | .constrained => 'c'
def parseStat : Char → Option CStat
  | 'u' => some .unused | 'f' => some .fixed | 'a' => some .free | 'c' => some .constrained | _ => none

def parseKind : String → Option Kind
  | "Direction" => some .direction | "Distance" => some .distance | "Angle" => some .angle
  | "H_Diff" => some .h_diff | "S_Distance" => some .s_distance | "Z_Angle" => some .z_angle
  | "X" => some .x | "Y" => some .y | "Z" => some .z | "Xdiff" => some .xdiff | "Ydiff" => some .ydiff
  | "Zdiff" => some .zdiff | "Azimuth" => some .azimuth | _ => none
def kindName : Kind → String
  | .direction => "Direction" | .distance => "Distance" | .angle => "Angle" | .h_diff => "H_Diff"
  | .s_distance => "S_Distance" | .z_angle => "Z_Angle" | .x => "X" | .y => "Y" | .z => "Z"
  | .xdiff => "Xdiff" | .ydiff => "Ydiff" | .zdiff => "Zdiff" | .azimuth => "Azimuth"

def statStr (p : PtS) : String := String.ofList [stChar p.xy, stChar p.z]


def enum {α : Type} (l : List α) : List (Nat × α) := (List.range l.length).zip l

def passLines (s : DSt) : DSt × String :=
  let W := World.structural s.obs
  match projectEquations W (fuelFor s.pts) ⟨s.pts, s.idx, s.minn, s.minx⟩ [] with
  | none => (s, "fuel")
  | some (st2, o) =>
    let l1 := s!"out {o.unknowns} {o.minn} :" ++ String.join (o.minx.map fun i => s!" {i}")
    let l2 := (enum st2.pts).filterMap fun (k, p) =>
      if p.xy.active || p.z.active then some s!"idx {k} {st2.idx (.x k)} {st2.idx (.y k)} {st2.idx (.z k)}" else none
    let l3 := (List.range s.nsp).map fun k => s!"ori {k} {st2.idx (.ori k)}"
    let l4 := "st" ++ String.join (st2.pts.map fun p => " " ++ statStr p)
    let l5 := "rm" ++ String.join (o.removed.map fun i => " " ++ i)
    let l6 := "act " ++ String.ofList (s.obs.map fun fo => if isRevised st2.pts s.obs fo then '1' else '0')
    ({ s with pts := st2.pts, idx := st2.idx, minn := st2.minn, minx := st2.minx },
     "\n".intercalate ([l1] ++ l2 ++ l3 ++ [l4, l5, l6]))

def setAt {α : Type} (l : List α) (k : Nat) (f : α → α) : List α :=
  (enum l).map fun (i, a) => if i = k then f a else a

def step (s : DSt) (line : String) : DSt × String :=
  match tokens line with
  | ["sp", k] => ({ s with nsp := k.toNat?.getD 0 }, "")
  | ["pt", id, st] =>
    match st.toList with
    | [a, b] =>
      match parseStat a, parseStat b with
      | some x, some z => ({ s with pts := s.pts ++ [⟨id, x, z⟩] }, "")
      | _, _ => (s, "bad-op")
    | _ => (s, "bad-op")
  | ["ob", a, k, sp, f, t, fs] =>
    match parseKind k, sp.toNat?, f.toNat?, t.toNat?, fs.toNat? with
    | some kk, some spn, some fn, some tn, some fsn => ({ s with obs := s.obs ++ [(a == "1", ⟨kk, spn, fn, tn, fsn⟩)] }, "")
    | _, _, _, _, _ => (s, "bad-op")
  | ["load", _] => (s, "ok")
  | ["dump"] =>
    let l0 := s!"sp {s.nsp}"
    let l1 := s.pts.map fun p => s!"pt {p.id} {statStr p}"
    let l2 := s.obs.map fun (a, o) => s!"ob {if a then 1 else 0} {kindName o.kind} {o.sp} {o.pfrom} {o.pto} {o.pfs}"
    (s, "\n".intercalate ([l0] ++ l1 ++ l2))
  | ["pass"] => passLines s
  | ["rm_obs", k] =>
    match k.toNat? with
    | some kn => ({ s with obs := setAt s.obs kn fun (_, o) => (false, o) }, "ok")
    | none => (s, "bad-op")
  | "outlier" :: ks =>
    let kn := ks.filterMap (·.toNat?)
    let obs' := (enum s.obs).map fun (i, fo) => if kn.contains i then (false, fo.2) else fo
    ({ s with obs := obs' }, s!"ok {(obs'.filter fun fo => !fo.1).length}")
  | ["rm_pt", p, g] =>
    match p.toNat? with
    | some pn =>
      ({ s with pts := setAt s.pts pn fun q => if g == "xy" then { q with xy := .unused } else { q with z := .unused } }, "ok")
    | none => (s, "bad-op")
  | ["relin"] => (s, "ok")
  | [] => (s, "")
  | _ => (s, "bad-op")

def main : IO Unit := Proto.loop step {}
