/-
  Driver for C11 (adjustment-results reader): runs Gama.AdjRes.run (Model/AdjResRun.lean over the GENERATED
  tables of Gen/AdjResAutomaton.lean) on the SAX event lines printed by harness/c11_adjres.cpp.
  Input lines:  start <hexname> <line> [<hexattr>=<hexval>]… | stop <line> | text <line> <hex> | end
  Output     :  R <state> <hexmsg|-> <stack size> <tmp_i|-> <tmp_e|-> <writes>   after every event,  O … for `end`,
                followed by  D 0|1 : did the two numeric `<cov-mat>` tests pass at every event (`AdjRes.RunDemand`, the
                hypothesis of `C11_reader_accepts_writer_output`, Model/AdjResWriter.lean)
-/
import Gama.Proto
import Gama.Model.AdjResRun
import Gama.Model.AdjResWriter
open Gama Gama.Proto Gama.AdjRes

def unhex (s : String) : Option (List Char) :=
  if s == "-" then some [] else
  let rec go : List Char → Option (List Char)
    | [] => some []
    | [_] => none
    | a :: b :: r => do
        let x ← hexDigit? a
        let y ← hexDigit? b
        let t ← go r
        pure (Char.ofNat (x * 16 + y) :: t)
  go s.toList

def hexOf (s : String) : String :=
  let d := "0123456789abcdef".toList.toArray
  let r := s.toUTF8.foldl (fun acc b => acc.push d[(b.toNat / 16)]! |>.push d[(b.toNat % 16)]!) ""
  if r.isEmpty then "-" else r

/-- bytes ≥ 0x80 arrive as single `Char`s 128..255 (never blank / digit): enough for the model -/
def parseAttr (tok : String) : Option (String × String) :=
  match tok.splitOn "=" with
  | [a, v] => do
    let n ← unhex a
    let w ← unhex v
    pure (String.ofList n, String.ofList w)
  | _ => none

structure DSt where
  st : St := St.init
  lines : Array Nat := #[]
  /-- `RunDemand St.init` of the events so far -/
  demand : Bool := true

def stateIdx (s : State) : Nat := State.all.idxOf s

def optNat : Option Nat → String
  | some n => toString n
  | none => "-"

def emit (old new : St) : String :=
  let k := match old.err, new.err with
    | none, some (_, k) => hexOf k.msg
    | _, _ => "-"
  s!"R {stateIdx new.state} {k} {new.stack.length} {optNat new.iterI} {optNat new.iterE} {new.writes.length} {new.unknowns}"

def feed (d : DSt) (line : Nat) (e : Event) : DSt × String :=
  let st' := step d.st e
  ({ st := st', lines := d.lines.push line, demand := d.demand && evDemand d.st e }, emit d.st st')

def stepLine (d : DSt) (line : String) : DSt × String :=
  match tokens line with
  | "start" :: name :: ln :: attrs =>
    match unhex name, ln.toNat?, attrs.mapM parseAttr with
    | some nm, some l, some as => feed d l (.start (String.ofList nm) as)
    | _, _, _ => (d, "bad-op")
  | ["stop", ln] =>
    match ln.toNat? with
    | some l => feed d l .stop
    | _ => (d, "bad-op")
  | ["text", ln, hx] =>
    match ln.toNat?, unhex hx with
    | some l, some cs => feed d l (.text cs)
    | _, _ => (d, "bad-op")
  | ["end"] =>
    let dl := if d.demand then "\nD 1" else "\nD 0"
    match outcome d.st with
    | .accepted => (d, "O ok" ++ dl)
    | .refused none => (d, "O parser 0 -1" ++ dl)
    | .refused (some (i, _)) => (d, s!"O parser {d.lines[i]?.getD 0} -1" ++ dl)
  | _ => (d, "bad-op")

def main : IO Unit := loop stepLine {}
