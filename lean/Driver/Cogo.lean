import Gama.Proto
import Gama.Model.GaussNewton
open Gama Gama.Proto Gama.Cogo

/-- numeric tokens: hex doubles, or decimal naturals (counts / flags) -/
def num? (s : String) : Option Float :=
  match float? s with
  | some x => some x
  | none => s.toNat?.map Float.ofNat

def showRes (r : Res Float) : String :=
  let pts := r.sols.foldl (fun acc p => acc ++ " " ++ showFloat p.x ++ " " ++ showFloat p.y) ""
  s!"sol {r.sols.length} {if r.small then 1 else 0}{pts}"

def chunk3 : List Float → List (Float × Float × Float)
  | a :: b :: c :: rest => (a, b, c) :: chunk3 rest
  | _ => []

/-- one point block of the `pol` ops: free_xy x y dx dy free_z z dz → corrected (x, y, z) -/
def ptBlock (b : List Float) : Float × Float × Float :=
  match b with
  | [fxy, x, y, dx, dy, fz, z, dz] =>
    (GN.corr (fxy != 0) x dx, GN.corr (fxy != 0) y dy, GN.corr (fz != 0) z dz)
  | _ => (0, 0, 0)

def fuel : Nat := 64

def refineOp (ts : List String) : String := Id.run do
  -- groups of 6 tokens: ty id xval a b c
  let rec groups : List String → List (String × String × Float × Float × Float × Float)
    | ty :: id :: x :: a :: b :: c :: rest =>
      match float? x, float? a, float? b, float? c with
      | some x, some a, some b, some c => (ty, id, x, a, b, c) :: groups rest
      | _, _, _, _ => []
    | _ => []
  let gs := groups ts
  -- ids → Nat (points and standpoints live in separate maps, one numbering suffices)
  let names := gs.foldl (fun acc g => if acc.contains g.2.1 then acc else acc ++ [g.2.1]) ([] : List String)
  let idx (s : String) : Nat := (names.idxOf s)
  let unks : List GN.Unk := gs.map (fun g =>
    match g.1 with
    | "X" => GN.Unk.X (idx g.2.1) | "Y" => GN.Unk.Y (idx g.2.1)
    | "Z" => GN.Unk.Z (idx g.2.1) | _ => GN.Unk.R (idx g.2.1))
  let xs : List Float := gs.map (fun g => g.2.2.1)
  let ptOf (q : Nat) : GN.P3 Float :=
    match gs.find? (fun g => g.1 != "R" && idx g.2.1 == q) with
    | some g => ⟨g.2.2.2.1, g.2.2.2.2.1, g.2.2.2.2.2⟩
    | none => ⟨0, 0, 0⟩
  let oriOf (q : Nat) : Float :=
    match gs.find? (fun g => g.1 == "R" && idx g.2.1 == q) with
    | some g => g.2.2.2.1
    | none => 0
  let st : GN.St Float := ⟨ptOf, oriOf⟩
  let st' := GN.refine xs unks st
  let outs := gs.map (fun g =>
    if g.1 == "R" then s!"R {showFloat (st'.ori (idx g.2.1))}"
    else
      let p := st'.pts (idx g.2.1)
      s!"{g.1} {showFloat p.x} {showFloat p.y} {showFloat p.z}")
  return "new " ++ " | ".intercalate outs

def step (_ : Unit) (line : String) : Unit × String :=
  let ts := tokens line
  match ts with
  | [] => ((), "")
  | "refine" :: rest => ((), refineOp rest)
  | op :: rest =>
    match rest.mapM num? with
    | none => ((), "bad-op")
    | some a =>
      let r : String :=
        match op, a with
        | "bd", [ya, xa, yb, xb] =>
          let r := bearingDistance ya xa yb xb
          s!"ok {showFloat r.1} {showFloat r.2}"
        | "dd", [x1, y1, x2, y2, r1, r2, sal] => showRes (distDist ⟨x1, y1⟩ ⟨x2, y2⟩ r1 r2 sal)
        | "dirdir", [x1, y1, h1, x2, y2, h2, sal] => showRes (dirDir ⟨x1, y1⟩ h1 ⟨x2, y2⟩ h2 sal)
        | "dirdist", [x1, y1, h1, x2, y2, r, sal] => showRes (dirDist ⟨x1, y1⟩ h1 ⟨x2, y2⟩ r sal)
        | "circle", [x1, y1, x2, y2, u, sal] =>
          match circle (⟨x1, y1⟩ : Pt Float) ⟨x2, y2⟩ u sal with
          | (some (c, r), sm) => s!"circ 1 {if sm then 1 else 0} {showFloat c.x} {showFloat c.y} {showFloat r}"
          | (none, sm) => s!"circ 0 {if sm then 1 else 0}"
        | "dirang", [sx, sy, h1, b1x, b1y, b2x, b2y, u, sal] =>
          showRes (dirAngle ⟨sx, sy⟩ h1 ⟨b1x, b1y⟩ ⟨b2x, b2y⟩ u sal)
        | "distang", [bx, by', d, b1x, b1y, b2x, b2y, u, sal] =>
          showRes (distAngle ⟨bx, by'⟩ d ⟨b1x, b1y⟩ ⟨b2x, b2y⟩ u sal)
        | "angang", [b1x, b1y, b2x, b2y, u1, b3x, b3y, b4x, b4y, u2, sal] =>
          showRes (angleAngle ⟨b1x, b1y⟩ ⟨b2x, b2y⟩ u1 ⟨b3x, b3y⟩ ⟨b4x, b4y⟩ u2 sal)
        | "polar", [sx, sy, o, dir, dist] =>
          let p := polar (⟨sx, sy⟩ : Pt Float) o dir dist
          s!"ok {showFloat p.x} {showFloat p.y}"
        | "simtr", [f1x, f1y, f2x, f2y, t1x, t1y, t2x, t2y, px, py] =>
          let k := transformationKey (⟨f1x, f1y⟩ : Pt Float) ⟨f2x, f2y⟩ ⟨t1x, t1y⟩ ⟨t2x, t2y⟩
          let p := transform k ⟨px, py⟩
          s!"ok {showFloat p.x} {showFloat p.y}"
        | "median", _ :: v => s!"ok {showFloat (Median.median v)}"
        | "median2", _ :: v => s!"ok {showFloat (Median.median2 v)}"
        | "orient", sx :: sy :: _ :: rest =>
          let dirs := (chunk3 rest).map (fun t => (bearing (⟨sx, sy⟩ : Pt Float) ⟨t.1, t.2.1⟩, t.2.2))
          let r := Median.orientation fuel dirs
          s!"ori {showFloat r.1} {r.2}"
        | "poldist", val :: v :: rest =>
          let f := ptBlock (rest.take 8); let t := ptBlock ((rest.drop 8).take 8)
          s!"ok {showFloat (GN.polDistance val v f.1 f.2.1 t.1 t.2.1)}"
        | "poldir", val :: v :: rest =>
          let f := ptBlock (rest.take 8); let t := ptBlock ((rest.drop 8).take 8)
          match rest.drop 16 with
          | [orp, xori] => s!"ok {showFloat (GN.polDirection fuel val v orp xori f.1 f.2.1 t.1 t.2.1)}"
          | _ => "bad-op"
        | "polangle", val :: v :: rest =>
          let f := ptBlock (rest.take 8); let t := ptBlock ((rest.drop 8).take 8)
          let t2 := ptBlock ((rest.drop 16).take 8)
          s!"ok {showFloat (GN.polAngle fuel val v f.1 f.2.1 t.1 t.2.1 t2.1 t2.2.1)}"
        | "polsdist", val :: v :: rest =>
          let f := ptBlock (rest.take 8); let t := ptBlock ((rest.drop 8).take 8)
          -- the visitor's lambda: d := -(d + p) twice, i.e. from - to; only squares are used
          s!"ok {showFloat (GN.polSDistance val v (f.1 - t.1) (f.2.1 - t.2.1) (f.2.2 - t.2.2))}"
        | "polzangle", val :: v :: rest =>
          let f := ptBlock (rest.take 8); let t := ptBlock ((rest.drop 8).take 8)
          s!"ok {showFloat (GN.polZAngle fuel val v (f.1 - t.1) (f.2.1 - t.2.1) (f.2.2 - t.2.2))}"
        | "testlin", _ :: pols => s!"flag {if GN.testLin pols then 1 else 0}"
        | _, _ => "bad-op"
      ((), r)

def main : IO Unit := loop step ()
