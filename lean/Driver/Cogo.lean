import Gama.Proto
import Gama.Model.GaussNewton
import Gama.Model.AcordAzimuth
import Gama.Model.AcordHdiffVector
import Gama.Model.AcordZderived
import Gama.Model.AcordIntersection
import Gama.Model.Acord2
import Gama.Model.PointId
import Gama.Model.LinTypes
import Gama.Model.TestLinearization
import Gama.Model.RefineAdjustment
open Gama Gama.Proto Gama.Cogo

/-- numeric tokens: hex doubles, or decimal naturals (counts / flags) -/
def num? (s : String) : Option Float :=
  match float? s with
  | some x => some x
  | none => s.toNat?.map Float.ofNat

def showRes (r : Res Float) : String :=
  let pts := r.sols.foldl (fun acc p => acc ++ " " ++ showFloat p.x ++ " " ++ showFloat p.y) ""
  s!"sol {r.sols.length} {if r.small then 1 else 0}{pts}"

def chunk3 : List Float → List (Float × Float × Float)
  | a :: b :: c :: rest => (a, b, c) :: chunk3 rest
  | _ => []

def fuel : Nat := 64

/-- one point block of the `pol` ops: free_xy x y dx dy free_z z dz → the point as `Lin.Obs` holds it
    (status free / fixed) and the corrections `x(index_x())`, `x(index_y())`, `x(index_z())` of its unknowns -/
def ptBlock (b : List Float) : Gama.Lin.Pt Float × (Gama.Lin.Coord → Float) :=
  match b with
  | [fxy, x, y, dx, dy, fz, z, dz] =>
    (⟨x, y, z, if fxy != 0 then .free else .fixed, if fz != 0 then .free else .fixed⟩,
     fun c => match c with | .x => dx | .y => dy | .z => dz | .ori => 0)
  | _ => (⟨0, 0, 0, .fixed, .fixed⟩, fun _ => 0)

/-- the same block as the corrected coordinates (x, y, z) the hand-written `GN.pol*` take -/
def ptCorr (b : List Float) : Float × Float × Float :=
  match b with
  | [fxy, x, y, dx, dy, fz, z, dz] =>
    (GN.corr (fxy != 0) x dx, GN.corr (fxy != 0) y dy, GN.corr (fz != 0) z dz)
  | _ => (0, 0, 0)

/-- `pol` of the REGENERATED `TestLinearizationVisitor::visit` of the class (`Gen/TestLinVisitor.lean`) on the
    record the generated linearisation reads -/
def polOp (k : Gama.Lin.Kind) (val v : Float) (f t fs : List Float) (orp xori : Float) : String :=
  let (pf, cf) := ptBlock f
  let (pt, ct) := ptBlock t
  let (ps, cs) := ptBlock fs
  let o : Gama.Lin.Obs Float := ⟨pf, pt, ps, val, orp, 0⟩
  let s : Gama.Gen.TestLin.Sol Float :=
    ⟨fun r c => match r with | .pfrom => cf c | .pto => ct c | .pfs => cs c | .station => xori, v⟩
  match Gama.TL.Kind.visit k fuel o s with
  | some mp => s!"ok {showFloat mp.2}"
  | none => "throw fuel"


def refineOp (ts : List String) : String := Id.run do
  -- groups of 6 tokens: ty id xval a b c
  let rec groups : List String → List (String × String × Float × Float × Float × Float)
    | ty :: id :: x :: a :: b :: c :: rest =>
      match float? x, float? a, float? b, float? c with
      | some x, some a, some b, some c => (ty, id, x, a, b, c) :: groups rest
      | _, _, _, _ => []
    | _ => []
  let gs := groups ts
  -- ids → Nat (points and standpoints live in separate maps, one numbering suffices)
  let names := gs.foldl (fun acc g => if acc.contains g.2.1 then acc else acc ++ [g.2.1]) ([] : List String)
  let idx (s : String) : Nat := (names.idxOf s)
  let unks : List GN.Unk := gs.map (fun g =>
    match g.1 with
    | "X" => GN.Unk.X (idx g.2.1) | "Y" => GN.Unk.Y (idx g.2.1)
    | "Z" => GN.Unk.Z (idx g.2.1) | _ => GN.Unk.R (idx g.2.1))
  let xs : List Float := gs.map (fun g => g.2.2.1)
  let ptOf (q : Nat) : GN.P3 Float :=
    match gs.find? (fun g => g.1 != "R" && idx g.2.1 == q) with
    | some g => ⟨g.2.2.2.1, g.2.2.2.2.1, g.2.2.2.2.2⟩
    | none => ⟨0, 0, 0⟩
  let oriOf (q : Nat) : Float :=
    match gs.find? (fun g => g.1 == "R" && idx g.2.1 == q) with
    | some g => g.2.2.2.1
    | none => 0
  let st : GN.St Float := ⟨ptOf, oriOf⟩
  let st' := GN.refine xs unks st
  let outs := gs.map (fun g =>
    if g.1 == "R" then s!"R {showFloat (st'.ori (idx g.2.1))}"
    else
      let p := st'.pts (idx g.2.1)
      s!"{g.1} {showFloat p.x} {showFloat p.y} {showFloat p.z}")
  return "new " ++ " | ".intercalate outs


/-! ## `acord` stream: one Acord2 strategy step on a small network (see harness/c06_cogo.cpp::run_acord) -/
section AcordStream
open Gama.Acord

abbrev PID := PointId.PointID
def pid (s : String) : PID := PointId.init s.toUTF8.toList

structure ACase where
  ids : List String := []                                  -- order of first appearance
  pts : List (PID × LP Float × Bool × Bool) := []
  od : List (Cluster PID Float) := []                      -- reversed; the open cluster is the head
  later : List (PID × Float) := []                         -- `N id z`: heights published between two executions

def ACase.note (c : ACase) (id : String) : ACase :=
  if c.ids.contains id then c else { c with ids := c.ids ++ [id] }

/-- append an observation to the open cluster (`none`: no cluster open / wrong cluster class) -/
def ACase.addSp (c : ACase) (o : Obs PID Float) : Option ACase :=
  match c.od with
  | .standpoint s obs :: rest => some { c with od := .standpoint s (obs ++ [o]) :: rest }
  | .hdiffs _ :: _ => none
  | .vectors _ :: _ => none
  | [] => none

def parseAcord : Nat → List String → ACase → Option ACase
  | 0, _, _ => none
  | _, [], c => some c
  | n + 1, "P" :: id :: bxy :: x :: y :: bz :: z :: axy :: az :: rest, c =>
    match num? x, num? y, num? z with
    | some x, some y, some z =>
      let p : LP Float := ⟨if bxy != "0" then x else 0, if bxy != "0" then y else 0, if bz != "0" then z else 0,
                           bxy != "0", bz != "0"⟩
      parseAcord n rest { (c.note id) with pts := c.pts ++ [(pid id, p, axy != "0", az != "0")] }
    | _, _, _ => none
  | n + 1, "N" :: id :: z :: rest, c =>
    match num? z with
    | some z => parseAcord n rest { (c.note id) with later := c.later ++ [(pid id, z)] }
    | none => none
  | n + 1, "S" :: st :: rest, c => parseAcord n rest { (c.note st) with od := .standpoint (pid st) [] :: c.od }
  | n + 1, "ang" :: f :: bs :: fs :: v :: rest, c =>
    -- an Angle is no Azimuth / Distance / S_Distance / Z_Angle: the four strategies of this parser pass it by
    match num? v with
    | some _ =>
      match (((c.note f).note bs).note fs).addSp (.other (pid f) (pid bs)) with
      | some c => parseAcord n rest c
      | none => none
    | none => none
  | n + 1, "H" :: rest, c => parseAcord n rest { c with od := .hdiffs [] :: c.od }
  | n + 1, "V" :: rest, c => parseAcord n rest { c with od := .vectors [] :: c.od }
  | n + 1, k :: f :: t :: v :: rest, c =>
    match num? v with
    | none => none
    | some v =>
      let c := (c.note f).note t
      let f := pid f
      let t := pid t
      if k == "sd" || k == "za" then
        match rest with
        | a :: b :: rest =>
          match num? a, num? b with
          | some a, some b =>
            match c.addSp (if k == "sd" then .sdistance f t v a b else .zangle f t v a b) with
            | some c => parseAcord n rest c
            | none => none
          | _, _ => none
        | _ => none
      else
        let c' : Option ACase :=
          match k, c.od with
          | "az", _ => c.addSp (.azimuth f t v)
          | "d", _ => c.addSp (.distance f t v)
          | "dir", _ => c.addSp (.other f t)
          -- the harness adds whatever class the record names to whatever cluster is open; the generator
          -- only puts hd into H and dx/dy/dz into V clusters (other placements are `bad-op` here)
          | "hd", .hdiffs obs :: r => some { c with od := .hdiffs (obs ++ [(f, t, v)]) :: r }
          | "dx", .vectors obs :: r => some { c with od := .vectors (obs ++ [.xdiff f t v]) :: r }
          | "dy", .vectors obs :: r => some { c with od := .vectors (obs ++ [.ydiff f t v]) :: r }
          | "dz", .vectors obs :: r => some { c with od := .vectors (obs ++ [.zdiff f t v]) :: r }
          | _, _ => none
        match c' with
        | some c => parseAcord n rest c
        | none => none
  | _, _, _ => none

def showPts (ids : List String) (st : St PID Float) : List String :=
  ids.map (fun id =>
    let p := st.pd (pid id)
    let b (x : Bool) := if x then "1" else "0"
    s!"pt {id} {b p.bxy} {showFloat (if p.bxy then p.x else 0)} {showFloat (if p.bxy then p.y else 0)} {b p.bz} {showFloat (if p.bz then p.z else 0)} {b (st.missXY.contains (pid id))} {b (st.missZ.contains (pid id))}")

def showCands (ids : List String) (cand : List (PID × Float)) : List String :=
  ids.filterMap (fun id =>
    let vs := (cand.filter (fun c => decide (c.1 = pid id))).map (·.2)
    if vs.isEmpty then none else some (s!"cand {id}" ++ vs.foldl (fun a v => a ++ " " ++ showFloat v) ""))


/-! ### `acord intersection …`: AcordIntersection::execute (Gama/Model/AcordIntersection.lean) -/
section InterStream
open Gama.Inter

structure ICase where
  ids : List String := []
  pts : List (PID × LP Float × Bool × Bool) := []
  cls : List (Cl PID Float) := []          -- reversed; the open cluster is the head
  sp : List Bool := []                     -- reversed: is the cluster a StandPoint
  extra : Bool := false                    -- an Azimuth or Xdiff is present (`solvable_data`)

def ICase.note (c : ICase) (id : String) : ICase :=
  if c.ids.contains id then c else { c with ids := c.ids ++ [id] }

def ICase.add (c : ICase) (o : HObs PID Float) : Option ICase :=
  match c.cls with
  | cl :: rest => some { c with cls := { cl with obs := cl.obs ++ [o] } :: rest }
  | [] => none

/-- `Observation::norm_rad_val` of the constructors (generated values are already in [0, 2π)) -/
def nrm (v : Float) : Float := normRad v

def parseInter : Nat → List String → ICase → Option ICase
  | 0, _, _ => none
  | _, [], c => some c
  | n + 1, "P" :: id :: bxy :: x :: y :: bz :: z :: axy :: az :: rest, c =>
    match num? x, num? y, num? z with
    | some x, some y, some z =>
      let p : LP Float := ⟨if bxy != "0" then x else 0, if bxy != "0" then y else 0, if bz != "0" then z else 0,
                           bxy != "0", bz != "0"⟩
      parseInter n rest { (c.note id) with pts := c.pts ++ [(pid id, p, axy != "0", az != "0")] }
    | _, _, _ => none
  | n + 1, "N" :: id :: _ :: rest, c => parseInter n rest (c.note id)
  | n + 1, "S" :: st :: rest, c => parseInter n rest { (c.note st) with cls := ⟨none, []⟩ :: c.cls, sp := true :: c.sp }
  | n + 1, "H" :: rest, c => parseInter n rest { c with cls := ⟨none, []⟩ :: c.cls, sp := false :: c.sp }
  | n + 1, "V" :: rest, c => parseInter n rest { c with cls := ⟨none, []⟩ :: c.cls, sp := false :: c.sp }
  | n + 1, "ang" :: f :: bs :: fs :: v :: rest, c =>
    match num? v with
    | some v =>
      match (((c.note f).note bs).note fs).add (.angle (pid f) (pid bs) (pid fs) (nrm v)) with
      | some c => parseInter n rest c
      | none => none
    | none => none
  | n + 1, k :: f :: t :: v :: rest, c =>
    match num? v with
    | none => none
    | some v =>
      let c := (c.note f).note t
      let f := pid f
      let t := pid t
      if k == "sd" || k == "za" then
        match rest with
        | a :: b :: rest =>
          match num? a, num? b with
          | some a, some b =>
            match c.add (if k == "sd" then .sdistance f t v a b else .zangle f t v) with
            | some c => parseInter n rest c
            | none => none
          | _, _ => none
        | _ => none
      else
        let c' : Option ICase :=
          match k with
          | "az" => ({ c with extra := true } : ICase).add (.azimuth f t (nrm v))
          | "d" => c.add (.distance f t v)
          | "dir" => c.add (.direction f t (nrm v))
          | "hd" => if c.cls.isEmpty then none else some c
          | "dx" => if c.cls.isEmpty then none else some { c with extra := true }
          | "dy" => if c.cls.isEmpty then none else some c
          | "dz" => if c.cls.isEmpty then none else some c
          | _ => none
        match c' with
        | some c => parseInter n rest c
        | none => none
  | _, _, _ => none

def interOp (firstOnly : Bool) (reps : Nat) (cs : Lin.CS) (rh : Bool) (rest : List String) : String :=
  match parseInter (rest.length + 1) rest {} with
  | none => "bad-op"
  | some c =>
    let cls := c.cls.reverse
    let sp := c.sp.reverse
    let xN : Float := Lin.xNorthAngle cs rh
    let pd : Acord.PD PID Float := fun i => match c.pts.reverse.find? (fun p => decide (p.1 = i)) with
      | some p => p.2.1 | none => Acord.LP.unset
    let last := c.pts.filter (fun p => match c.pts.reverse.find? (fun q => decide (q.1 = p.1)) with
      | some q => q.2.2.1 == p.2.2.1 && q.2.2.2 == p.2.2.2 && q.2.1.bxy == p.2.1.bxy && q.2.1.bz == p.2.1.bz | none => false)
    let keys := Acord.dedup (c.pts.map (·.1))
    let st0 : AiState PID Float := ⟨pd, cls.map (·.ori), Acord.dedup (Acord.missingXY last), salDefault⟩
    -- `intersection-first` (model side only, used by the plugin to tell whether solve_insertion - which has no model -
    -- got its turn before the model solved a point): ONLY the first `approxy_.calculation()` of execute()
    let r : AiAlg × AiState PID Float :=
      if firstOnly then
        let q := acCalculation 64 PointId.lt keys c.extra st0.sal (copyHorizontal cls) ⟨st0.pd, st0.oris⟩
        ({}, { st0 with pd := q.pd, oris := q.oris })
      else
        (List.range reps).foldl (fun (as : AiAlg × AiState PID Float) _ =>
          aiExecute 64 PointId.lt keys c.extra xN cls as.1 as.2) ({}, st0)
    let stA : Acord.St PID Float := ⟨r.2.pd, r.2.missXY, Acord.dedup (Acord.missingZ last), []⟩
    let oriLines := ((List.range cls.length).zip (sp.zip r.2.oris)).filterMap (fun x =>
      if x.2.1 then
        some (match x.2.2 with
          | some o => s!"ori {x.1} 1 {showFloat o}"
          | none => s!"ori {x.1} 0 {showFloat 0}")
      else none)
    "\n".intercalate (showPts c.ids stA ++ oriLines ++ [s!"completed {if r.1.completed then 1 else 0}"])

end InterStream

def acordOp (ts : List String) : String :=
  match ts with
  | "intersection" :: reps :: cs :: rh :: rest =>
    match reps.toNat?, cs.toNat? >>= Lin.CS.ofNat? with
    | some reps, some cs => interOp false reps cs (rh != "0") rest
    | _, _ => "bad-op"
  | "intersection-first" :: reps :: cs :: rh :: rest =>
    match reps.toNat?, cs.toNat? >>= Lin.CS.ofNat? with
    | some reps, some cs => interOp true reps cs (rh != "0") rest
    | _, _ => "bad-op"
  | alg :: reps :: cs :: rh :: rest =>
    match reps.toNat?, cs.toNat? >>= Lin.CS.ofNat?, parseAcord (rest.length + 1) rest {} with
    | some reps, some cs, some c =>
      let od := c.od.reverse
      let xN : Float := Lin.xNorthAngle cs (rh != "0")
      let pd : PD PID Float := fun i => match c.pts.reverse.find? (fun p => decide (p.1 = i)) with
        | some p => p.2.1 | none => LP.unset
      -- the map holds one entry per id: a repeated `P` record overwrites (`PD[id] = p`)
      let last := c.pts.filter (fun p => match c.pts.reverse.find? (fun q => decide (q.1 = p.1)) with
        | some q => q.2.2.1 == p.2.2.1 && q.2.2.2 == p.2.2.2 && q.2.1.bxy == p.2.1.bxy && q.2.1.bz == p.2.1.bz | none => false)
      let st0 : St PID Float := ⟨pd, dedup (missingXY last), dedup (missingZ last), []⟩
      let fuel := 2 * (c.ids.length + 2)
      let out : Option (List String × St PID Float × Bool) :=
        match alg with
        | "azimuth" =>
          let r := (List.range reps).foldl (fun (as : AzAlg PID Float × St PID Float) _ =>
            azExecute 64 PointId.lt xN od as.1 as.2) (AzAlg.fresh, st0)
          some ([], r.2, r.1.completed)
        | "hdiff" =>
          -- `completed k` after every execution (what Acord2::execute looks at after the round); the `N` records are
          -- heights another strategy publishes between the first and the second execution
          (List.range reps).foldlM (fun (x : List String × HdAlg PID Float × St PID Float) k =>
            (hdExecute fuel od x.2.1 x.2.2).map (fun r =>
              let st := if k == 0 then
                  c.later.foldl (fun (s : St PID Float) nz =>
                    { s with pd := s.pd.upd nz.1 ((s.pd nz.1).setZ nz.2), missZ := Acord.erase s.missZ nz.1 }) r.2
                else r.2
              (x.1 ++ [s!"completed {if r.1.completed then 1 else 0}"], r.1, st))) ([], HdAlg.fresh, st0)
            |>.map (fun r => (r.1, r.2.2, r.2.1.completed))
        | "vector" =>
          (List.range reps).foldlM (fun (as : VecAlg PID Float × St PID Float) _ =>
            vecExecute fuel od as.1 as.2) (VecAlg.fresh, st0) |>.map (fun r => ([], r.2, r.1.completed))
        | "zderived" =>
          let r := (List.range reps).foldl (fun (x : List String × ZdAlg × St PID Float) _ =>
            let e := zdExecute od x.2.1 x.2.2
            let st := getMediansZ e.2
            (x.1 ++ showCands c.ids e.2.candZ, e.1, { st with candZ := [] })) ([], ZdAlg.fresh, st0)
          some (r.1, r.2.2, r.2.1.completed)
        | _ => none
      match out with
      | some (pre, st, done) =>
        "\n".intercalate (pre ++ showPts c.ids st ++ [s!"completed {if done then 1 else 0}"])
      | none => if alg == "hdiff" || alg == "vector" then "fuel" else "bad-op"
    | _, _, _ => "bad-op"
  | _ => "bad-op"

/-! ### `acord2 …`: Acord2::execute (Gama/Model/Acord2.lean) over the five modelled strategies -/

def hasObs (od : List (Cluster PID Float)) (p : Obs PID Float → Bool) : Bool :=
  od.any (fun c => match c with | .standpoint _ obs => obs.any p | _ => false)

def acord2Op (ts : List String) : String :=
  match ts with
  | cs :: rh :: rest =>
    match cs.toNat? >>= Lin.CS.ofNat?, parseAcord (rest.length + 1) rest {}, parseInter (rest.length + 1) rest {} with
    | some cs, some c, some ci =>
      if !c.later.isEmpty then "bad-op" else
      let od := c.od.reverse
      let cls := ci.cls.reverse
      let xN : Float := Lin.xNorthAngle cs (rh != "0")
      let pd : PD PID Float := fun i => match c.pts.reverse.find? (fun p => decide (p.1 = i)) with
        | some p => p.2.1 | none => LP.unset
      let last := c.pts.filter (fun p => match c.pts.reverse.find? (fun q => decide (q.1 = p.1)) with
        | some q => q.2.2.1 == p.2.2.1 && q.2.2.2 == p.2.2.2 && q.2.1.bxy == p.2.1.bxy && q.2.1.bz == p.2.1.bz | none => false)
      let keys := dedup (c.pts.map (·.1))
      -- the flags the constructor of Acord2 computes
      let hasAz := hasObs od (fun o => match o with | .azimuth .. => true | _ => false)
      let slope := hasObs od (fun o => match o with | .zangle .. => true | .sdistance .. => true | _ => false)
      let hasHd := od.any (fun c => match c with | .hdiffs _ => true | _ => false)
      let hasVec := od.any (fun c => match c with | .vectors _ => true | _ => false)
      let hasSp := od.any (fun c => match c with | .standpoint .. => true | _ => false)
      let fuelIn := 2 * (c.ids.length + 2) + 64
      let algs := modelledAlgs fuelIn PointId.lt keys ci.extra xN od cls hasAz hasHd slope hasVec hasSp
      let g0 : G PID Float (Priv PID Float (AiPriv Float)) :=
        ⟨⟨pd, dedup (missingXY last), dedup (missingZ last), []⟩, [],
         ⟨AzAlg.fresh, HdAlg.fresh, VecAlg.fresh, ZdAlg.fresh, ⟨{}, cls.map (fun (x : Inter.Cl PID Float) => x.ori), salDefault⟩⟩⟩
      let run (fuel : Nat) := execute slope id fuel algs g0
      let full := run (Acord.measure g0 + 1)
      if !full.finished then "fuel" else
      let rl := (List.range full.rounds).map (fun k =>
        let g := (run k).state
        s!"r {k + 1} {g.st.missXY.length} {g.st.missZ.length}")
      "\n".intercalate (rl ++ [s!"rounds {full.rounds}"] ++ showPts c.ids full.state.st)
    | _, _, _ => "bad-op"
  | _ => "bad-op"

end AcordStream

/-! ### `refine_obsdh_reductions` (Model/RefineAdjustment.lean over Gen/RefineObsdh.lean)

  `obsdh adjusted nx x1 … xnx (k raw from_dh to_dh reduction F T)*` with `k` = 0 `S_Distance`, 1 `Z_Angle`, 2 any other
  class, and a point block `x y z free_xy free_z index_x index_y index_z test_xyz`.  Observation `i` names the points
  `2i` (from) and `2i+1` (to).  Output `ok status reduction…` (the stored reductions after the call). -/
namespace ObsdhStream
open Gama.Lin

def chunk (n : Nat) : Nat → List Float → List (List Float)
  | 0, _ => []
  | fuel + 1, l => if l.length < n ∨ n = 0 then [] else l.take n :: chunk n fuel (l.drop n)

def nat (f : Float) : Nat := f.toUInt64.toNat

def ptOf (b : List Float) : Gama.Lin.Pt Float × (Nat × Nat × Nat) × Bool :=
  match b with
  | [x, y, z, fxy, fz, ix, iy, iz, h] =>
    (⟨x, y, z, if fxy != 0 then .free else .fixed, if fz != 0 then .free else .fixed⟩, (nat ix, nat iy, nat iz), h != 0)
  | _ => (⟨0, 0, 0, .fixed, .fixed⟩, (0, 0, 0), false)

def run (a : List Float) : String :=
  match a with
  | adj :: nx :: rest =>
    let x := rest.take (nat nx)
    let recs := chunk 23 (rest.length + 1) (rest.drop (nat nx))
    let pts : List (Gama.Lin.Pt Float × (Nat × Nat × Nat) × Bool) :=
      recs.flatMap fun r => [ptOf ((r.drop 5).take 9), ptOf ((r.drop 14).take 9)]
    let σ : Net Float :=
      { pt := fun j => match pts[j]? with | some p => p.1 | none => ⟨0, 0, 0, .fixed, .fixed⟩, ori := fun _ => 0, xNorth := 0 }
    let xyz : Nat → Bool := fun j => match pts[j]? with | some p => p.2.2 | none => false
    let tab : List (Unk × Nat) := (pts.zipIdx.flatMap fun (p, j) =>
      [((⟨j, .x⟩ : Unk), p.2.1.1), (⟨j, .y⟩, p.2.1.2.1), (⟨j, .z⟩, p.2.1.2.2)]).filter (·.2 != 0)
    let idx : IdxState := ⟨x.length, tab⟩
    let obs : List (RA.DObs Float) := recs.zipIdx.map fun (r, i) =>
      let k : Kind := match nat (r.getD 0 2) with | 0 => .s_distance | 1 => .z_angle | _ => .h_diff
      ⟨k, 0, 2 * i, 2 * i + 1, 0, r.getD 1 0, r.getD 2 0, r.getD 3 0, r.getD 4 0⟩
    let res := RA.refineObsdh (adj != 0) σ xyz idx x obs
    let reds := res.1.foldl (fun acc o => acc ++ " " ++ showFloat o.red) ""
    s!"ok {if res.2.1 then 1 else 0}{reds}"
  | _ => "bad-op"

end ObsdhStream

def step (_ : Unit) (line : String) : Unit × String :=
  let ts := tokens line
  match ts with
  | [] => ((), "")
  | "refine" :: rest => ((), refineOp rest)
  | "acord" :: rest => ((), acordOp rest)
  | "acord2" :: rest => ((), acord2Op rest)
  | op :: rest =>
    match rest.mapM num? with
    | none => ((), "bad-op")
    | some a =>
      let r : String :=
        match op, a with
        | "bd", [ya, xa, yb, xb] =>
          let r := bearingDistance ya xa yb xb
          s!"ok {showFloat r.1} {showFloat r.2}"
        | "dd", [x1, y1, x2, y2, r1, r2, sal] => showRes (distDist ⟨x1, y1⟩ ⟨x2, y2⟩ r1 r2 sal)
        | "dirdir", [x1, y1, h1, x2, y2, h2, sal] => showRes (dirDir ⟨x1, y1⟩ h1 ⟨x2, y2⟩ h2 sal)
        | "dirdist", [x1, y1, h1, x2, y2, r, sal] => showRes (dirDist ⟨x1, y1⟩ h1 ⟨x2, y2⟩ r sal)
        | "circle", [x1, y1, x2, y2, u, sal] =>
          match circle (⟨x1, y1⟩ : Pt Float) ⟨x2, y2⟩ u sal with
          | (some (c, r), sm) => s!"circ 1 {if sm then 1 else 0} {showFloat c.x} {showFloat c.y} {showFloat r}"
          | (none, sm) => s!"circ 0 {if sm then 1 else 0}"
        | "dirang", [sx, sy, h1, b1x, b1y, b2x, b2y, u, sal] =>
          showRes (dirAngle ⟨sx, sy⟩ h1 ⟨b1x, b1y⟩ ⟨b2x, b2y⟩ u sal)
        | "distang", [bx, by', d, b1x, b1y, b2x, b2y, u, sal] =>
          showRes (distAngle ⟨bx, by'⟩ d ⟨b1x, b1y⟩ ⟨b2x, b2y⟩ u sal)
        | "angang", [b1x, b1y, b2x, b2y, u1, b3x, b3y, b4x, b4y, u2, sal] =>
          showRes (angleAngle ⟨b1x, b1y⟩ ⟨b2x, b2y⟩ u1 ⟨b3x, b3y⟩ ⟨b4x, b4y⟩ u2 sal)
        | "polar", [sx, sy, o, dir, dist] =>
          let p := polar (⟨sx, sy⟩ : Pt Float) o dir dist
          s!"ok {showFloat p.x} {showFloat p.y}"
        | "simtr", [f1x, f1y, f2x, f2y, t1x, t1y, t2x, t2y, px, py] =>
          let k := transformationKey (⟨f1x, f1y⟩ : Pt Float) ⟨f2x, f2y⟩ ⟨t1x, t1y⟩ ⟨t2x, t2y⟩
          let p := transform k ⟨px, py⟩
          s!"ok {showFloat p.x} {showFloat p.y}"
        | "median", _ :: v => s!"ok {showFloat (Median.median v)}"
        | "median2", _ :: v => s!"ok {showFloat (Median.median2 v)}"
        | "orient", sx :: sy :: _ :: rest =>
          let dirs := (chunk3 rest).map (fun t => (bearing (⟨sx, sy⟩ : Pt Float) ⟨t.1, t.2.1⟩, t.2.2))
          let r := Median.orientation fuel dirs
          s!"ori {showFloat r.1} {r.2}"
        -- the hand-written reading of the visitor (Model/GaussNewton.lean) …
        | "poldist", val :: v :: rest =>
          let f := ptCorr (rest.take 8); let t := ptCorr ((rest.drop 8).take 8)
          s!"ok {showFloat (GN.polDistance val v f.1 f.2.1 t.1 t.2.1)}"
        | "poldir", val :: v :: rest =>
          let f := ptCorr (rest.take 8); let t := ptCorr ((rest.drop 8).take 8)
          match rest.drop 16 with
          | [orp, xori] => s!"ok {showFloat (GN.polDirection fuel val v orp xori f.1 f.2.1 t.1 t.2.1)}"
          | _ => "bad-op"
        | "polangle", val :: v :: rest =>
          let f := ptCorr (rest.take 8); let t := ptCorr ((rest.drop 8).take 8)
          let t2 := ptCorr ((rest.drop 16).take 8)
          s!"ok {showFloat (GN.polAngle fuel val v f.1 f.2.1 t.1 t.2.1 t2.1 t2.2.1)}"
        | "polsdist", val :: v :: rest =>
          let f := ptCorr (rest.take 8); let t := ptCorr ((rest.drop 8).take 8)
          -- the visitor's lambda: d := -(d + p) twice, i.e. from - to; only squares are used
          s!"ok {showFloat (GN.polSDistance val v (f.1 - t.1) (f.2.1 - t.2.1) (f.2.2 - t.2.2))}"
        | "polzangle", val :: v :: rest =>
          let f := ptCorr (rest.take 8); let t := ptCorr ((rest.drop 8).take 8)
          s!"ok {showFloat (GN.polZAngle fuel val v (f.1 - t.1) (f.2.1 - t.2.1) (f.2.2 - t.2.2))}"
        -- … and the visitor REGENERATED from the source (Gen/TestLinVisitor.lean), on the same op lines
        | "gpoldist", val :: v :: rest => polOp .distance val v (rest.take 8) ((rest.drop 8).take 8) [] 0 0
        | "gpoldir", val :: v :: rest =>
          match rest.drop 16 with
          | [orp, xori] => polOp .direction val v (rest.take 8) ((rest.drop 8).take 8) [] orp xori
          | _ => "bad-op"
        | "gpolangle", val :: v :: rest =>
          polOp .angle val v (rest.take 8) ((rest.drop 8).take 8) ((rest.drop 16).take 8) 0 0
        | "gpolsdist", val :: v :: rest => polOp .s_distance val v (rest.take 8) ((rest.drop 8).take 8) [] 0 0
        | "gpolzangle", val :: v :: rest => polOp .z_angle val v (rest.take 8) ((rest.drop 8).take 8) [] 0 0
        | "testlin", _ :: pols => s!"flag {if GN.testLin pols then 1 else 0}"
        | "obsdh", a => ObsdhStream.run a
        | _, _ => "bad-op"
      ((), r)

def main : IO Unit := loop step ()
