/-
  Line-protocol driver for the C10 models (CovMat packed storage, activeCov, scaleCov,
  band LDLᵀ / Cholesky, forward substitutions, block-diagonal variant, cov-mat parsing).
  An op ending in `R` runs the model at `Rat` (exact), in `F` at `Float`.
-/
import Gama.Proto
import Gama.Model.Packed
import Gama.Model.ActiveCov
import Gama.Model.BandChol
import Gama.Model.CovParse
import Gama.Model.Homogenization
import Gama.Gen.YSign
open Gama Gama.Proto Gama.Cov

def splitBar (ts : List String) : List (List String) :=
  let rec go (cur : List String) (acc : List (List String)) : List String → List (List String)
    | [] => (cur.reverse :: acc).reverse
    | t :: rest => if t = "|" then go [] (cur.reverse :: acc) rest else go (t :: cur) acc rest
  go [] [] ts

def showOptInt : Option Int → String
  | none => "x"
  | some k => toString k

def mkCov {K} [Wire K] (d b : String) (elems : List String) : Option (CovMat K) := do
  let d ← d.toNat?
  let b ← b.toNat?
  let es ← parseAll (K := K) elems
  if (Packed.size d b).toNat ≠ es.length then none else
  some ⟨d, b, es.toArray⟩

def showCov {K} [Wire K] (m : CovMat K) : String :=
  s!"ok {m.dim} {m.band} " ++ renderAll m.buf.toList

def showExc {K} [Wire K] : Except Err (CovMat K) → String
  | .ok m => showCov m
  | .error e => "throw " ++ e.name

section generic
variable (K : Type) [Scalar K] [Wire K]

def opChol (ptr : Bool) (args : List String) : String :=
  match args with
  | d :: b :: es =>
    match mkCov (K := K) d b es with
    | some m => showExc (if ptr then cholDecPtr m else cholDec m)
    | none => "bad-op"
  | _ => "bad-op"

def opAdjChol (args : List String) : String :=
  match args with
  | d :: b :: es =>
    match mkCov (K := K) d b es with
    | some m => showExc (adjCholdec m)
    | none => "bad-op"
  | _ => "bad-op"

def opFwd (args : List String) : String :=
  match splitBar args with
  | [d :: b :: es, vs] =>
    match mkCov (K := K) d b es, parseAll (K := K) vs with
    | some m, some v => "ok " ++ renderAll (forwardSubst m v.toArray).toList
    | _, _ => "bad-op"
  | _ => "bad-op"

def parseObs (dims mask : List String) : Option (List ObsInfo) := do
  let ds ← dims.mapM String.toNat?
  let ms ← mask.mapM String.toNat?
  if ds.length ≠ ms.length then none else
  some ((ds.zip ms).map fun (d, a) => ⟨a ≠ 0, d⟩)

def opAct (args : List String) : String :=
  match splitBar args with
  | [d :: b :: es, dims, mask] =>
    match mkCov (K := K) d b es, parseObs dims mask with
    | some m, some obs =>
      let (ao, ad, nz) := clusterUpdate obs m.band
      s!"upd {ao} {ad} {nz} " ++ showCov (activeCov m obs)
    | _, _ => "bad-op"
  | _ => "bad-op"

def opScale (args : List String) : String :=
  match splitBar args with
  | [d :: b :: es, [p, sc]] =>
    match mkCov (K := K) d b es, p.toNat?, Wire.parse (K := K) sc with
    | some m, some p, some sc => showExc (scaleCov m p sc)
    | _, _, _ => "bad-op"
  | _ => "bad-op"

/-- `bd tol | d b es… | d b es… …` : BlockDiagonal::cholDec, prints return value and all blocks -/
def opBd (args : List String) : String :=
  match splitBar args with
  | [tolS] :: blocks =>
    match (if tolS = "default" then some (bdTol : K) else Wire.parse (K := K) tolS),
          blocks.mapM (fun bl => match bl with | d :: b :: es => mkCov (K := K) d b es | _ => none) with
    | some tol, some bs =>
      let (ret, fs) := bdCholDec tol bs
      s!"int {ret} " ++ " | ".intercalate (fs.map fun f => renderAll f.buf.toList)
    | _, _ => "bad-op"
  | _ => "bad-op"

/-- `hom | d b es… | v…` : one block factored by BlockDiagonal::cholDec, then the sweep on `v` -/
def opSweep (args : List String) : String :=
  match splitBar args with
  | [d :: b :: es, vs] =>
    match mkCov (K := K) d b es, parseAll (K := K) vs with
    | some m, some v =>
      match bdCholBlock (bdTol : K) m with
      | .ok f => "ok " ++ renderAll (sweep f v.toArray).toList
      | .error _ => "notpd"
    | _, _ => "bad-op"
  | _ => "bad-op"

/-- dense path on one block: `Adj::choldec` then `Adj::forwardSubstitution` -/
def opDense (args : List String) : String :=
  match splitBar args with
  | [d :: b :: es, vs] =>
    match mkCov (K := K) d b es, parseAll (K := K) vs with
    | some m, some v =>
      match adjCholdec m with
      | .ok f => "ok " ++ renderAll (forwardSubst f v.toArray).toList
      | .error e => "throw " ++ e.name
    | _, _ => "bad-op"
  | _ => "bad-op"

/-- `homrun m n nb | row_1 (c v c v …) | … | row_m | rhs | d b es… (nb blocks)` :
    the whole `Homogenization::run` on an `AdjInputData`; prints `total_scaled_nonzeroes`, the
    homogenised right-hand side and the three CRS arrays of the homogenised sparse matrix -/
def opHomRun (args : List String) : String :=
  let rec pairs : List String → Option (List (Nat × K))
    | [] => some []
    | c :: v :: rest => do
      let c ← c.toNat?
      let v ← Wire.parse (K := K) v
      let r ← pairs rest
      some ((c, v) :: r)
    | _ => none
  match splitBar args with
  | [mS, nS, nbS] :: groups =>
    match mS.toNat?, nS.toNat?, nbS.toNat? with
    | some m, some n, some nb =>
      if groups.length ≠ m + 1 + nb then "bad-op" else
      match (groups.take m).mapM pairs, parseAll (K := K) (groups.getD m []),
            ((groups.drop (m + 1)).mapM fun bl => match bl with | d :: b :: es => mkCov (K := K) d b es | _ => none) with
      | some rows, some rhs, some bs =>
        let nnz := (rows.map List.length).sum
        let A : SMat K := rows.foldl (fun A row => row.foldl (fun A e => A.addElement e.2 e.1) A.newRow)
          (@SMat.new K ⟨0⟩ nnz m n)
        let floats := (bs.map fun b => b.buf.size).sum
        let cov := bs.foldl (fun bd b => bd.addBlock 0 b.dim b.band b.buf) (BlockDiag.init (0 : K) bs.length floats)
        if !(Hom.canRun A cov rhs.toArray) then "refused" else
        match Hom.run (bdTol : K) A cov rhs.toArray with
        | .error e => "throw " ++ e.name
        | .ok o =>
          let sm := o.sm
          let ptr := (List.range' 1 (sm.rcnt + 1)).map fun i => sm.rptr[i]!
          let nats (l : List Nat) := " ".intercalate (l.map toString)
          s!"ok {o.total} pr {renderAll o.pr.toList} sm {sm.rows} {sm.cols} {sm.rcnt} {sm.ncnt} ptr {nats ptr} ind {nats (sm.cind.extract 0 sm.ncnt).toList} val {renderAll (sm.nonz.extract 0 sm.ncnt).toList}"
      | _, _, _ => "bad-op"
    | _, _, _ => "bad-op"
  | _ => "bad-op"

/-- `ysign d b es… | flags 0/1 … | values …` : one cluster through `change_y_signs_for_inconsistent_system_`
    (condition regenerated from network.cpp, `Gen/YSign.lean`); prints the covariance buffer and the values -/
def opYSign (args : List String) : String :=
  match splitBar args with
  | [d :: b :: es, flags, vals] =>
    match mkCov (K := K) d b es, flags.mapM String.toNat?, parseAll (K := K) vals with
    | some m, some fs, some vs =>
      let c := Gama.Gen.YSign.changeCluster (K := K) ⟨fs.map (· ≠ 0), vs, m⟩
      s!"ok {c.cov.dim} {c.cov.band} " ++ renderAll c.cov.buf.toList ++ " | " ++ renderAll c.values
    | _, _, _ => "bad-op"
  | _ => "bad-op"

/-- `ypoint test_xy x y` : `if (p.test_xy()) p.set_xy(p.x(), -p.y());` -/
def opYPoint (args : List String) : String :=
  match args with
  | [h, x, y] =>
    match h.toNat?, Wire.parse (K := K) x, Wire.parse (K := K) y with
    | some h, some x, some y =>
      let p := Gama.Cov.YSign.changePoint (K := K) ⟨h ≠ 0, x, y⟩
      "ok " ++ renderAll [p.x, p.y]
    | _, _, _ => "bad-op"
  | _ => "bad-op"

end generic

def opIdx (args : List String) : String :=
  match args.mapM String.toNat? with
  | some [d, b] =>
    let cells := (List.range d).flatMap fun r => (List.range d).map fun s => showOptInt (Packed.idx d b (r+1) (s+1))
    s!"size {Packed.size d b} " ++ " ".intercalate cells
  | _ => "bad-op"

def opBandIdx (args : List String) : String :=
  match args.mapM String.toNat? with
  | some [d, b] =>
    let cells := (List.range d).flatMap fun r => (List.range d).map fun s => showOptInt (Packed.bandIdx b (r+1) (s+1))
    s!"size {Packed.bandSize d b} " ++ " ".intercalate cells
  | _ => "bad-op"

/-- `covparse kind dimCheck check undef dim band | words… | sigma flag sigma flag …`
    (`dim`,`band`: `m` missing, `b` bad, or a number; a word: a number token or `bad`;
    for coords/vectors the third group is the single number `nobs`) -/
def opParse (args : List String) : String :=
  let attr (t : String) : Option CovParse.Attr :=
    if t = "m" ∨ t = "none" then some .missing else if t = "b" then some .bad else t.toNat?.map .val
  let word (t : String) : Option (Option Rat) := if t = "bad" then some none else (rat? t).map some
  let rec pairs : List String → Option (List (Rat × Bool))
    | [] => some []
    | s :: f :: rest => do
      let sv ← rat? s
      let r ← pairs rest
      some ((sv, f ≠ "0") :: r)
    | _ => none
  match splitBar args with
  | [[kind, dc, ck, ud, dS, bS], ws, third] =>
    match attr dS, attr bS, ws.mapM word with
    | some da, some ba, some words =>
      let s0 : CovParse.St Rat := { data := words }
      let s1 := if dS = "none" then s0 else CovParse.processCov s0 (ud ≠ "0") da ba
      let res : Option (CovParse.St Rat × CovMat Rat) :=
        if kind = "obs" ∨ kind = "hdiffs" then
          (pairs third).map fun sg => CovParse.finishObsWith (dc ≠ "0") (kind = "obs") (ck ≠ "0") s1 sg
        else match third with
          | [n] => n.toNat?.map fun nobs => CovParse.finishCoords (ck ≠ "0") s1 nobs
          | _ => none
      match res with
      | some (s2, m) =>
        match s2.err with
        | some e => "err " ++ e.name
        | none => showCov m
      | none => "bad-op"
    | _, _, _ => "bad-op"
  | _ => "bad-op"

def step (_ : Unit) (line : String) : Unit × String :=
  let out :=
    match tokens line with
    | "idx" :: a => opIdx a
    | "bandidx" :: a => opBandIdx a
    | "cholR" :: a => opChol Rat false a
    | "cholF" :: a => opChol Float false a
    | "cholptrR" :: a => opChol Rat true a
    | "cholptrF" :: a => opChol Float true a
    | "acholF" :: a => opAdjChol Float a
    | "fwdR" :: a => opFwd Rat a
    | "fwdF" :: a => opFwd Float a
    | "actR" :: a => opAct Rat a
    | "actF" :: a => opAct Float a
    | "scaleR" :: a => opScale Rat a
    | "scaleF" :: a => opScale Float a
    | "bdF" :: a => opBd Float a
    | "sweepF" :: a => opSweep Float a
    | "denseF" :: a => opDense Float a
    | "homrunF" :: a => opHomRun Float a
    | "covparse" :: a => opParse a
    | "ysignF" :: a => opYSign Float a
    | "ysignR" :: a => opYSign Rat a
    | "ypointF" :: a => opYPoint Float a
    | _ => "bad-op"
  ((), out)

def main : IO Unit := loop step ()
