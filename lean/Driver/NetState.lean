/-
  Driver of the LocalNetwork cascade model (Model/NetState.lean over Gen/NetCascade.lean).
  Protocol = harness/c04_net.cpp.  Prints the four flags after `flags`; for a member call prints
  `sound` when every artefact read was computed from the current configuration (the history-free
  specification), `stale <level…>` otherwise; configuration changes bump the ghost counters.
  `<member> !` carries the input fact "the solver threw inside this call",
  `remove_huge <0|1>` carries the input fact "some absolute term is outlying" read from the
  implementation; `fresh …` prints `-` (the implementation's fresh network is the oracle).
-/
import Gama.Proto
import Gama.Model.NetState
import Gama.Lemmas.NetState
import Gama.Lemmas.NetStateSolver
import Gama.Model.NetDenoteParse
open Gama Gama.Proto Gama.C04.Net Gama.C04.Net.Gen

/-- round 4: the machine run is `MState` (Model/NetState.lean): the cascade plus the solver object's regularisation
    list; `set_algorithm` is `MOp.setAlgorithm` (new solver object with the default list + `update(Points)`).  The list
    content is taken as independent of the configuration (`lst` constant): the most demanding instance — a hand-over
    "only when the list changed" is then reported as `stale solver-list` after `set_algorithm`.
    Round 9: `handCode` / `setAlgGen Gen.setAlg` interpret the rows regenerated from network.cpp; `set_algorithm <name>`
    answers `ok <class>` (model: `classOf Gen.setAlg name`; harness: dynamic type of `least_squares` through the probe). -/
structure St where
  st : Option MState := none

def minp (throws : Bool) : MInput := { net := { throws := throws }, lst := fun _ => [] }

def b01 (x : Bool) : String := if x then "1" else "0"

def showOut (c : Cfg) : NOut → String
  | .ok => "ok"
  | .throw => "throw"
  | .read l =>
    let bad := l.filter fun (lv, p) => p != some (snap c lv)
    if bad.isEmpty then "sound" else "stale" ++ bad.foldl (fun a (lv, _) => a ++ s!" {lv}") ""

def inpOf (throws : Bool) : NInput := { throws := throws }

/-- harness op ↦ table row -/
def rowOf : String → Option String
  | "solve" => some "solve" | "residuals" => some "residuals" | "trans_VWV" => some "trans_VWV"
  | "degrees_of_freedom" => some "degrees_of_freedom" | "unknowns_count" => some "unknowns_count"
  | "observations_count" => some "observations_count#2" | "points_count" => some "points_count"
  | "huge_abs_terms" => some "huge_abs_terms" | "null_space" => some "null_space"
  -- composite harness ops of the free-network oracle: `solve()` first, then standard deviations / ellipses / sums
  | "adjusted_stdevs" => some "solve" | "adjusted_ellipses" => some "solve" | "inner_constraints" => some "solve"
  | "m_0_aposteriori_value" => some "m_0_aposteriori_value"
  | "revision_points" => some "revision_points" | "revision_observations" => some "revision_observations"
  | "project_equations" => some "project_equations"
  | "update_points" => some "update_points" | "update_observations" => some "update_observations"
  | "update_residuals" => some "update_residuals" | "update_adjustment" => some "update_adjustment"
  | "is_adjusted" => some "is_adjusted"
  | _ => none

def call (s : MState) (row : String) (throws : Bool := false) : MState × String :=
  match member? row with
  | some m =>
    let r := mstep (minp throws) s (.net (.call m))
    let lists := match r.2.2 with
      | some (l, c) => (if l = curList (minp throws) s.net then "" else " solver-list")
                       ++ (if c = s.cls then "" else " solver-class")
      | none => ""
    let o := showOut r.1.net.cfg r.2.1
    (r.1, if lists == "" then o else (if o == "sound" then "stale" else o) ++ lists)
  | none => (s, "bad-op")

def chg (s : MState) (l : Nat) : MState := (mstep (minp false) s (.net (.change l))).1

def inp : NInput := inpOf false

def step' (σ : St) (line : String) : St × String :=
  let ts := tokens line
  match ts with
  | [] => (σ, "")
  | ["load", _] => ({ st := some (minit ⟨0, 0, 0, 0⟩) }, "ok")
  | ["load", _, alg] => ({ st := some (minit ⟨0, 0, 0, 0⟩ (classOf Gen.setAlg alg)) }, "ok")   -- algorithm of the file
  | _ =>
  match σ.st with
  | none => (σ, "bad-op")
  | some s =>
  match ts with
  | ["flags"] => (σ, s!"fl {b01 s.net.f0} {b01 s.net.f1} {b01 s.net.f2} {b01 s.net.f3}")
  | "fresh" :: _ => (σ, "-")
  | "chg_obs" :: _ => ({ st := some (chg s 1) }, "ok")
  | "chg_xyz" :: _ => ({ st := some (chg s 2) }, "ok")
  | "denote" :: rest =>
    -- round 13: EXECUTE the network-level denotation at Float.  The harness brought the observations up to date
    -- (`if (!tst_redmer_) revision_observations()`), printed the state of the real network (`rest`) and asked `solve()`,
    -- `residuals()`, `trans_VWV()`.  The machine does the same calls; if their symbolic answers are the specification
    -- (artefacts of the current configuration, solver holding the current list, of the current class) the value is
    -- `specRead W cls cfg 3` with `W` = the parsed network: `netSolve (alg of the class) np`, `projectEquations net =
    -- .ok (np, _)` — by `net_answer_denotes` the value `denoteOut` gives the answer.  `denote !` / `denote !local`:
    -- the solver / `vyrovnani_` threw in the implementation (input fact, as for the other members).
    let s0 := if s.net.f1 then s else (call s "revision_observations").1
    match rest with
    | ["!"] => let r := call s0 "solve" true; ({ st := some r.1 }, r.2)
    | ["!local"] => let r := call s0 "project_equations"; ({ st := some r.1 }, "throw")
    | _ =>
      let r1 := call s0 "solve"
      let r2 := call r1.1 "residuals"
      let r3 := call r2.1 "trans_VWV"
      let bad := [r1.2, r2.2, r3.2].filter (· != "sound")
      match parseNet rest with
      | none => ({ st := some r3.1 }, "bad-op")
      | some net =>
        if !bad.isEmpty then ({ st := some r3.1 }, "den " ++ " ".intercalate bad)
        else
          let W : NWorld Float := fun _ => net
          ({ st := some r3.1 }, showDen r3.1.cls (specRead W r3.1.cls r3.1.net.cfg 3))
  | ["set_algorithm", a] =>      -- round 9: the class of the new solver object, from the regenerated `Gen.setAlg`
    let s' := (mstep (minp false) s (.setAlgorithm a)).1
    ({ st := some s' }, "ok " ++ s'.cls)
  | [_, "!local"] =>          -- vyrovnani_ threw its own exception (no unknowns / observations / points) after
    let r := call s "project_equations"      -- project_equations(), before the flag is set
    ({ st := some r.1 }, "throw")
  | "raw" :: _ :: _ :: "!local" :: _ =>
    let r := call s "project_equations"
    ({ st := some r.1 }, "throw")
  | ["refine", "!"] =>        -- solve() inside refine_approx_coordinates threw: nothing else happened
    let r := call s "solve" true
    ({ st := some r.1 }, r.2)
  | ["refine"] =>
    let r := call s "refine_approx_coordinates"
    ({ st := some (chg r.1 2) }, "ok")
  | ["remove_huge", h] =>
    if h == "1" then
      let r := call s "remove_huge_abs_terms"
      ({ st := some (chg r.1 1) }, "huge 1")
    else
      let r := call s "huge_abs_terms"
      ({ st := some r.1 }, "huge 0")
  | "raw" :: w :: rest =>
    let r := call s w (rest.contains "!")
    ({ st := some r.1 }, r.2)
  | [q, "!"] =>               -- the implementation's solver threw inside this call (input fact)
    match rowOf q with
    | some row => let r := call s row true; ({ st := some r.1 }, r.2)
    | none => (σ, "bad-op")
  | [q] =>
    match rowOf q with
    | some row =>
      let r := call s row
      ({ st := some r.1 }, if r.2 == "sound" ∧ (memberD row).reads.isEmpty then "ok" else r.2)
    | none => (σ, "bad-op")
  | _ => (σ, "bad-op")

def main : IO Unit := loop step' {}
