import Gama.Proto
import Gama.Model.Statan
open Gama Gama.Proto Gama.Statan

def fuel : Nat := 100000000

def step (s : Unit) (line : String) : Unit × String :=
  let bad := (s, "bad-op")
  match tokens line with
  | ["normal", a] =>
    match float? a with
    | some a => (s, "ok " ++ showFloat (normal fuel a))
    | none => bad
  | ["student", a, n] =>
    match float? a, n.toInt? with
    | some a, some n => (s, "ok " ++ showFloat (student fuel a n))
    | _, _ => bad
  | ["chi", p, n] =>
    match float? p, n.toInt? with
    | some p, some n => (s, "ok " ++ showFloat (chiSquare fuel p n))
    | _, _ => bad
  | ["ks", x] =>
    match float? x with
    | some x => (s, "ok " ++ showFloat (ksProb x))
    | none => bad
  | ["nd", x] =>
    match float? x with
    | some x => let (D, f) := normalDistribution fuel x; (s, s!"ok {showFloat D} {showFloat f}")
    | none => bad
  | _ => bad

def main : IO Unit := loop step ()
