import Gama.Proto
import Gama.Model.LinTypes
import Gama.Gen.Linearization
import Gama.Gen.XNorth
import Gama.Model.LinPass
open Gama Gama.Proto Gama.Lin

/-- fuel for every `while` (the C++ loops run a handful of iterations on sane input) -/
def FUEL : Nat := 100000

structure St where
  ids : List String                       -- point ids in order of first mention
  pts : List (String × Pt Float)
  sps : List (Nat × (String × Float))     -- cluster k ↦ (station, orientation)
  cs : CS
  rh : Bool
  idx : IdxState
  last : List (Nat × Float) := []         -- the sparse row of the last observation, as pushed

def St.init : St := ⟨[], [], [], .NE, false, IdxState.init, []⟩

/-- class name → `Kind` (the inverse of `Kind.className`; `Gen.Lin.visit` is the same dispatch:
    `Props.C05.C05_kind_is_visit`) -/
def kindOf? (cls : String) : Option Kind := Kind.all.find? (fun k => k.className = cls)

def St.idOf (s : St) (name : String) : St × Nat :=
  match s.ids.idxOf? name with
  | some i => (s, i)
  | none => ({ s with ids := s.ids ++ [name] }, s.ids.length)

def St.pt (s : St) (name : String) : Pt Float :=
  match s.pts.find? (·.1 = name) with
  | some e => e.2
  | none => ⟨0, 0, 0, .unused, .unused⟩       -- `PD[id]` default-constructs

def status? : String → Option Status
  | "u" => some .unused | "f" => some .fixed | "a" => some .free | "c" => some .constrained | _ => none

def step (s : St) (line : String) : St × String :=
  match tokens line with
  | ["cs", n, rh] =>
    match n.toNat? >>= CS.ofNat? with
    | some c => ({ s with cs := c, rh := rh = "1" }, "ok")
    | none => (s, "bad-op")
  | ["xnorth"] => (s, "ok " ++ showFloat (Gen.XNorth.xNorthAngle s.cs s.rh : Float))
  | ["zero"] =>
    -- the one textual difference between the three models of bearing_distance: `Scalar.ofNat 0` vs `0`
    (s, s!"flag {if (Scalar.ofNat 0 : Float).toBits == (0 : Float).toBits then 1 else 0}")
  | ["asm"] =>
    -- the last row as its consumers see it: per distinct column the sum of the pushes (`rowSum`) and
    -- the entry of the dense matrix with the assignment operator of the source (`denseRow`)
    let cols := rowCols s.last
    let body := cols.foldl (fun acc c => acc ++ s!" {c} " ++ showFloat (rowSum s.last c) ++ " " ++
                  showFloat (denseRow Gen.Lin.denseAccumulates s.last c 0)) ""
    (s, s!"asm {cols.length}{body}")
  | ["idx", id] =>
    match s.ids.idxOf? id with
    | some i => (s, s!"int {s.idx.get ⟨i, .x⟩} {s.idx.get ⟨i, .y⟩} {s.idx.get ⟨i, .z⟩}")
    | none => (s, "int 0 0 0")
  | ["idxo", k] =>
    match k.toNat? with
    | some kk => if (s.sps.find? (·.1 = kk)).isSome then (s, s!"int {s.idx.get ⟨1000000 + kk, .ori⟩}") else (s, "bad-op")
    | none => (s, "bad-op")
  | ["reset"] =>
    -- project_equations prologue over the points of PD (ids 1000000+k are orientations)
    let guard : Nat → Bool := fun i =>
      match s.ids[i]? with
      | some name =>
        match s.pts.find? (·.1 = name) with
        | some e => Gen.Lin.resetGuard e.2
        | none => false
      | none => false
    ({ s with idx := s.idx.resetPass guard }, "ok")
  | ["maxn"] => (s, s!"int {s.idx.maxn}")
  | ["pt", id, x, y, z, sxy, sz] =>
    match float? x, float? y, float? z, status? sxy, status? sz with
    | some x, some y, some z, some a, some b =>
      ({ s with pts := (id, ⟨x, y, z, a, b⟩) :: s.pts.filter (·.1 ≠ id) }, "ok")
    | _, _, _, _, _ => (s, "bad-op")
  | ["sp", k, st, ori] =>
    match k.toNat?, float? ori with
    | some k, some o => ({ s with sps := (k, (st, o)) :: s.sps.filter (·.1 ≠ k) }, "ok")
    | _, _ => (s, "bad-op")
  | ["obs", cls, k, frm, to, fs, val] =>
    match float? val, kindOf? cls with
    | some v, some kind =>
      if cls = "Angle" ∧ frm = fs then (s, "throw ctorFromEqualsTo") else
      match ctorValue FUEL cls v with
      | .error .nonPositive => (s, "throw ctorNonPositive")
      | .error .fromEqualsTo => (s, "throw ctorFromEqualsTo")
      | .error .fuel => (s, "fuel")
      | .ok v =>
        let sp? : Option (Option (Nat × (String × Float))) :=
          if k = "-" then some none else
          match k.toNat? with
          | some kk => (s.sps.find? (·.1 = kk)).map some
          | none => none
        match sp? with
        | none => (s, "bad-op")
        | some sp =>
          let kk : Nat := match sp with | some e => e.1 | none => 0
          let (s, ifrom) := s.idOf frm
          let (s, ito) := s.idOf to
          let (s, ifs) := if fs = "-" then (s, 0) else s.idOf fs
          -- the network as the pass reads it: points by position in `ids`, stand-point k as 1000000+k
          let σ : Net Float :=
            { pt := fun i => match s.ids[i]? with | some name => s.pt name | none => s.pt "",
              ori := fun j => match s.sps.find? (fun e => 1000000 + e.1 = j) with | some e => e.2.2 | none => 0,
              xNorth := Gen.XNorth.xNorthAngle s.cs s.rh }
          let ob : NObs Float := ⟨kind, 1000000 + kk, ifrom, ito, ifs, v⟩
          match passFrom σ FUEL [ob] s.idx with
          | .error .zeroSlopeDistance => (s, "throw zeroSlopeDistance")
          | .error .zeroZenithAngle => (s, "throw zeroZenithAngle")
          | .error (.other _) => (s, "throw other")
          | .error .fuel => (s, "fuel")
          | .ok res =>
            let rows := res.rows.headD []
            let rhs := res.rhs.headD 0
            let body := rows.foldl (fun acc r => acc ++ s!" {r.1} " ++ showFloat r.2) ""
            ({ s with idx := res.idx, last := rows },
             s!"lin {showFloat v} {showFloat rhs} {rows.length}{body} {res.idx.maxn}")
    | _, _ => (s, "bad-op")
  | _ => (s, "bad-op")

def main : IO Unit := loop step St.init
