// C04 (LocalNetwork update cascade): the real LocalNetwork in-process, built from a .gkf by GKFparser;
// private flags through the friend probe (struct GamaVerifProbe is a friend of LocalNetwork under
// -DGAMA_VERIF).  Linked with the libgama objects of the tree under test.
//
// protocol (one op per line; doubles as 0x+16 hex)
//   load <path.gkf>
//   flags                         fl <tst_redbod_> <tst_redmer_> <tst_rov_opr_> <tst_vyrovnani_>
//   members whose first statement brings the network up to date ("ensuring"), answers printed:
//     solve | residuals | trans_VWV | degrees_of_freedom | unknowns_count | observations_count | points_count
//     huge_abs_terms | null_space | m_0_aposteriori_value
//   compute functions:   revision_points | revision_observations | project_equations
//   invalidation only:   update_points | update_observations | update_residuals | update_adjustment
//   configuration changes (each followed by the update the API prescribes):
//     chg_obs <k>                 k-th observation (1-based, over OD) toggled passive/active; update_observations()
//     chg_xyz <k> <hex mm>        k-th adjustable point shifted; update_residuals()
//     denote                      (round 13) revision_observations() if needed; `den <class> x n … r m … pvv v || <state>`:
//                                 the answers of solve()/residuals()/trans_VWV() and the state as model input
//     set_algorithm <alg>         (update(Points) inside); answers `ok <dynamic class of the new solver object>`
//     refine                      refine_approx_coordinates()
//     remove_huge                 remove_huge_abs_terms(); prints "huge <0|1>" (whether any term was outlying)
//   raw readers (no ensure):      raw stdev_obs <i> | raw wcoef_res <i> | raw qxx <i> <j> | raw qbb <i> <j> | raw rhs <i>
//                                 raw studentized_residual <i> | is_adjusted
//   fresh <member …>              the member on a brand-new network with the same configuration (same
//                                 file, current coordinates/orientations, passive flags and algorithm copied);
//                                 for `raw …` the fresh network is adjusted first (solve()), which is the
//                                 protocol the raw readers assume
#include <cmath>
#include <fstream>
#include <iostream>
#include <map>
#include <memory>
#include <sstream>
#include <string>
#include <vector>
#include <gnu_gama/local/network.h>
#include <gnu_gama/local/language.h>
#include <gnu_gama/local/acord/acord2.h>
#include <gnu_gama/xml/gkfparser.h>
#include "proto.h"

using namespace GNU_gama::local;

struct GamaVerifProbe {
  // sizes of the cached vectors: a raw reader on a network that was never adjusted indexes an empty vector
  static int dim_sigma_L(const LocalNetwork& n) { return n.sigma_L.dim(); }
  static int dim_vahkopr(const LocalNetwork& n) { return n.vahkopr.dim(); }
  static int dim_rhs(const LocalNetwork& n) { return n.rhs_.dim(); }
  static void flags(const LocalNetwork& n, std::ostream& out) {
    out << "fl " << n.tst_redbod_ << " " << n.tst_redmer_ << " " << n.tst_rov_opr_ << " " << n.tst_vyrovnani_ << "\n";
  }
  static bool revised(const LocalNetwork& n) { return n.tst_redmer_; }
  // round 9: dynamic class of the solver object `least_squares` (what set_algorithm(name) really created)
  static const char* solver_class(const LocalNetwork& n) {
    typedef GNU_gama::local::MatVecException MVE;
    if (n.least_squares == nullptr) return "null";
    if (dynamic_cast<GNU_gama::AdjGSO<double, int, MVE>*>(n.least_squares)) return "AdjGSO";
    if (dynamic_cast<GNU_gama::AdjSVD<double, int, MVE>*>(n.least_squares)) return "AdjSVD";
    if (dynamic_cast<GNU_gama::AdjCholDec<double, int, MVE>*>(n.least_squares)) return "AdjCholDec";
    if (dynamic_cast<GNU_gama::AdjEnvelope<double, int, MVE>*>(n.least_squares)) return "AdjEnvelope";
    return "other";
  }
};

static std::string gkf_text;

static LocalNetwork* load_text()
{
  LocalNetwork* n = new LocalNetwork;
  {
    GNU_gama::local::GKFparser gkf(*n);
    gkf.xml_parse(gkf_text.c_str(), int(gkf_text.size()), 1);
  }
  if (!n->has_algorithm()) n->set_algorithm();
  n->remove_inconsistency();
  { Acord2 acord2(n->PD, n->OD); acord2.execute(); }     // approximate coordinates / orientations, as gama-local does
  return n;
}

static void out_vec(const GNU_gama::Vec<>& v)
{ std::cout << "vec"; for (int i = 1; i <= v.dim(); i++) std::cout << " " << vp::hex(v(i)); std::cout << "\n"; }
static void out_val(double x) { std::cout << "val " << vp::hex(x) << "\n"; }

// copy the configuration of `a` into the freshly loaded `f` (same file: same points, clusters, observations)
static void copy_config(LocalNetwork& a, LocalNetwork& f)
{
  if (f.algorithm() != a.algorithm()) f.set_algorithm(a.algorithm());
  for (auto& kv : a.PD) {
    LocalPoint& q = f.PD[kv.first];
    const LocalPoint& p = kv.second;
    if (p.test_xy()) q.set_xy(p.x(), p.y());
    if (p.test_z()) q.set_z(p.z());
    if (!p.active_xy() && q.active_xy()) q.set_unused_xy();     // points the object under test has removed
    if (!p.active_z() && q.active_z()) q.set_unused_z();
  }
  auto ia = a.OD.begin(), ea = a.OD.end();
  auto jf = f.OD.begin(), ef = f.OD.end();
  for (; ia != ea && jf != ef; ++ia, ++jf) {
    if ((*ia)->active()) (*jf)->set_active(); else (*jf)->set_passive();
  }
  auto ca = a.OD.clusters.begin(); auto cf = f.OD.clusters.begin();
  for (; ca != a.OD.clusters.end() && cf != f.OD.clusters.end(); ++ca, ++cf) {
    StandPoint* sa = dynamic_cast<StandPoint*>(*ca); StandPoint* sf = dynamic_cast<StandPoint*>(*cf);
    if (sa && sf && sa->test_orientation()) sf->set_orientation(sa->orientation());
  }
  f.update_points();
}

static bool member(LocalNetwork& n, const std::vector<std::string>& t)
{
  const std::string& q = t[0];
  auto I = [&](size_t k) { return std::stoi(t.at(k)); };
  if (q == "solve") out_vec(n.solve());
  else if (q == "residuals") out_vec(n.residuals());
  else if (q == "trans_VWV") out_val(n.trans_VWV());
  else if (q == "degrees_of_freedom") { int v = n.degrees_of_freedom(); std::cout << "int " << v << "\n"; }
  else if (q == "unknowns_count") { int v = n.unknowns_count(); std::cout << "int " << v << "\n"; }
  else if (q == "observations_count") { int v = n.observations_count(); std::cout << "int " << v << "\n"; }
  else if (q == "points_count") { int v = n.points_count(); std::cout << "int " << v << "\n"; }
  else if (q == "huge_abs_terms") { bool v = n.huge_abs_terms(); std::cout << "flag " << (v ? 1 : 0) << "\n"; }
  else if (q == "null_space") { int v = n.null_space(); std::cout << "int " << v << "\n"; }
  else if (q == "m_0_aposteriori_value") out_val(n.m_0_aposteriori_value());
  else if (q == "is_adjusted") std::cout << "flag " << (n.is_adjusted() ? 1 : 0) << "\n";
  // round 4 (seeded/C04-seed4): what depends on the regularisation the CURRENT solver object applies.  Each op follows
  // the documented protocol (adjust first: solve()), so it is compared with a fresh network like the ensuring members.
  else if (q == "adjusted_stdevs") {
    n.solve();
    std::cout << "vec";
    for (int i = 1; i <= n.unknowns_count(); i++) std::cout << " " << vp::hex(n.unknown_stdev(i));
    std::cout << "\n";
  }
  else if (q == "adjusted_ellipses") {
    n.solve();
    std::cout << "vec";
    for (auto& kv : n.PD) {
      const LocalPoint& p = kv.second;
      if (!p.free_xy() || !p.index_x()) continue;
      double ea, eb, alfa;
      n.std_error_ellipse(kv.first, ea, eb, alfa);
      std::cout << " " << vp::hex(ea) << " " << vp::hex(eb);
    }
    std::cout << "\n";
  }
  else if (q == "inner_constraints") {
    // corrections of the constrained points: sum dx, sum dy, sum (x dy - y dx) [rotation, x,y in km], sum |d|, count
    const GNU_gama::local::Vec& x = n.solve();
    double sx = 0, sy = 0, sr = 0, sa = 0; int cnt = 0;
    for (auto& kv : n.PD) {
      const LocalPoint& p = kv.second;
      if (!p.free_xy() || !p.index_x() || !p.constrained_xy()) continue;
      const double dx = x(p.index_x()), dy = x(p.index_y());
      sx += dx; sy += dy; sr += (p.x() * dy - p.y() * dx) / 1000.0; sa += std::fabs(dx) + std::fabs(dy); cnt++;
    }
    std::cout << "vec " << vp::hex(sx) << " " << vp::hex(sy) << " " << vp::hex(sr) << " " << vp::hex(sa) << " " << vp::hex(double(cnt)) << "\n";
  }
  else if (q == "raw") {
    const std::string& w = t.at(1);
    if ((w == "stdev_obs" && I(2) > GamaVerifProbe::dim_sigma_L(n)) ||
        ((w == "wcoef_res" || w == "studentized_residual") && I(2) > GamaVerifProbe::dim_vahkopr(n)) ||
        (w == "rhs" && I(2) > GamaVerifProbe::dim_rhs(n))) { std::cout << "undefined\n"; return true; }
    if (w == "stdev_obs") out_val(n.stdev_obs(I(2)));
    else if (w == "wcoef_res") out_val(n.wcoef_res(I(2)));
    else if (w == "rhs") out_val(n.rhs(I(2)));
    else if (w == "studentized_residual") out_val(n.studentized_residual(I(2)));
    else if (w == "qxx") out_val(n.qxx(I(2), I(3)));
    else if (w == "qbb") out_val(n.qbb(I(2), I(3)));
    else return false;
  }
  else return false;
  return true;
}


// ---- round 13: `denote` — the state of the real network as definition lines of the model of project_equations()
// (same vocabulary as harness/pe_net.cpp `dump_state`, one line, items separated by " | "), then the answers of
// solve(), residuals(), trans_VWV() of THIS (historied) object
static const char* cls_of(const Observation* o)
{
  if (dynamic_cast<const Direction*>(o))  return "Direction";
  if (dynamic_cast<const Distance*>(o))   return "Distance";
  if (dynamic_cast<const Angle*>(o))      return "Angle";
  if (dynamic_cast<const H_Diff*>(o))     return "H_Diff";
  if (dynamic_cast<const S_Distance*>(o)) return "S_Distance";
  if (dynamic_cast<const Z_Angle*>(o))    return "Z_Angle";
  if (dynamic_cast<const X*>(o))          return "X";
  if (dynamic_cast<const Y*>(o))          return "Y";
  if (dynamic_cast<const Z*>(o))          return "Z";
  if (dynamic_cast<const Xdiff*>(o))      return "Xdiff";
  if (dynamic_cast<const Ydiff*>(o))      return "Ydiff";
  if (dynamic_cast<const Zdiff*>(o))      return "Zdiff";
  if (dynamic_cast<const Azimuth*>(o))    return "Azimuth";
  return "?";
}
static char stc(bool active, bool fixed, bool constrained, bool adjusted)
{ return !active ? 'u' : fixed ? 'f' : constrained ? 'c' : adjusted ? 'a' : 'u'; }
static char st_xy(const LocalPoint& p) { return stc(p.active_xy(), p.fixed_xy(), p.constrained_xy(), p.free_xy()); }
static char st_z(const LocalPoint& p)  { return stc(p.active_z(),  p.fixed_z(),  p.constrained_z(),  p.free_z()); }
static std::string idtok(const PointID& id) { return id.str().empty() ? std::string("<empty>") : id.str(); }

static void dump_state(LocalNetwork& N, std::ostream& out)
{
  std::vector<PointID> ids; std::map<PointID, int> pos;
  for (auto& kv : N.PD) { pos[kv.first] = int(ids.size()); ids.push_back(kv.first); }
  auto pos_of = [&](const PointID& id) { auto f = pos.find(id); return f == pos.end() ? int(ids.size()) : f->second; };
  out << "net " << vp::hex(N.apriori_m_0()) << " " << vp::hex(N.PD.xNorthAngle());
  for (const PointID& id : ids) {
    const LocalPoint& p = N.PD.find(id)->second;
    const bool xy = p.test_xy(), z = p.test_z();
    out << " | pt " << idtok(id) << " " << vp::hex(xy ? p.x() : 0.0) << " " << vp::hex(xy ? p.y() : 0.0) << " "
        << vp::hex(z ? p.z() : 0.0) << " " << st_xy(p) << " " << st_z(p) << " "
        << p.index_x() << " " << p.index_y() << " " << p.index_z();
  }
  for (const auto* cl : N.OD.clusters) {
    if (const StandPoint* sp = dynamic_cast<const StandPoint*>(cl))
      out << " | cl S " << pos_of(sp->station) << " " << (sp->test_orientation() ? 1 : 0) << " "
          << vp::hex(sp->test_orientation() ? sp->orientation() : 0.0);
    else out << " | cl O";
    const CovMat& C = cl->covariance_matrix;
    out << " " << C.rows() << " " << C.bandWidth();
    for (const double* q = C.begin(), *e = C.end(); q != e; ++q) out << " " << vp::hex(*q);
    for (const Observation* o : cl->observation_list) {
      const std::string k = cls_of(o);
      int from = pos_of(o->from()), to = pos_of(o->to()), fs = 0;
      if (k == "X" || k == "Y" || k == "Z") to = from;
      if (const Angle* a = dynamic_cast<const Angle*>(o)) fs = pos_of(a->fs());
      out << " | ob " << (o->active() ? 1 : 0) << " " << k << " " << from << " " << to << " " << fs << " " << vp::hex(o->value());
    }
  }
}

static void denote(LocalNetwork& n)
{
  std::ostringstream st, ans;
  if (!GamaVerifProbe::revised(n)) n.revision_observations();   // what project_equations() starts with
  dump_state(n, st);
  GNU_gama::Vec<> x = n.solve();
  GNU_gama::Vec<> r = n.residuals();
  double pvv = n.trans_VWV();
  ans << "den " << GamaVerifProbe::solver_class(n) << " x " << x.dim();
  for (int i = 1; i <= x.dim(); i++) ans << " " << vp::hex(x(i));
  ans << " r " << r.dim();
  for (int i = 1; i <= r.dim(); i++) ans << " " << vp::hex(r(i));
  ans << " pvv " << vp::hex(pvv);
  std::cout << ans.str() << " || " << st.str() << "\n";
}

int main()
{
  set_gama_language(en);
  std::unique_ptr<LocalNetwork> IS;
  std::string line; bool is_case;
  while (vp::next(line, is_case)) {
    if (is_case) { IS.reset(); gkf_text.clear(); continue; }
    std::vector<std::string> t = vp::tokens(line);
    if (t.empty()) continue;
    try {
      if (t[0] == "load") {
        std::ifstream in(t.at(1)); std::stringstream ss; ss << in.rdbuf(); gkf_text = ss.str();
        IS.reset(load_text());
        std::cout << "ok\n"; continue;
      }
      if (!IS) { std::cout << "bad-op\n"; continue; }
      LocalNetwork& n = *IS;
      const std::string& q = t[0];
      if (q == "flags") GamaVerifProbe::flags(n, std::cout);
      else if (q == "revision_points") { n.revision_points(); std::cout << "ok\n"; }
      else if (q == "revision_observations") { n.revision_observations(); std::cout << "ok\n"; }
      else if (q == "project_equations") { n.project_equations(); std::cout << "ok\n"; }
      else if (q == "update_points") { n.update_points(); std::cout << "ok\n"; }
      else if (q == "update_observations") { n.update_observations(); std::cout << "ok\n"; }
      else if (q == "update_residuals") { n.update_residuals(); std::cout << "ok\n"; }
      else if (q == "update_adjustment") { n.update_adjustment(); std::cout << "ok\n"; }
      else if (q == "chg_obs") {
        int k = std::stoi(t.at(1)), c = 0; bool done = false;
        for (auto i = n.OD.begin(), e = n.OD.end(); i != e; ++i)
          if (++c == k) { if ((*i)->active()) (*i)->set_passive(); else (*i)->set_active(); done = true; break; }
        n.update_observations();
        std::cout << (done ? "ok\n" : "ok none\n");
      }
      else if (q == "chg_xyz") {
        int k = std::stoi(t.at(1)), c = 0; double d = vp::unhex(t.at(2)) / 1000.0; bool done = false;
        for (auto& kv : n.PD) {
          LocalPoint& p = kv.second;
          if (!(p.free_xy() || p.free_z())) continue;
          if (++c != k) continue;
          if (p.free_xy() && p.test_xy()) p.set_xy(p.x() + d, p.y() - d);
          if (p.free_z() && p.test_z()) p.set_z(p.z() + d);
          done = true; break;
        }
        n.update_residuals();
        std::cout << (done ? "ok\n" : "ok none\n");
      }
      else if (q == "set_algorithm") { n.set_algorithm(t.at(1)); std::cout << "ok " << GamaVerifProbe::solver_class(n) << "\n"; }
      else if (q == "denote") denote(n);
      else if (q == "refine") { n.refine_approx_coordinates(); std::cout << "ok\n"; }
      else if (q == "remove_huge") { bool h = n.huge_abs_terms(); n.remove_huge_abs_terms(); std::cout << "huge " << (h ? 1 : 0) << "\n"; }
      else if (q == "fresh") {
        std::unique_ptr<LocalNetwork> F(load_text());
        copy_config(n, *F);
        std::vector<std::string> qq(t.begin() + 1, t.end());
        if (!qq.empty() && qq[0] == "raw") F->solve();     // the documented protocol for the raw readers: adjust first
        if (qq.empty() || !member(*F, qq)) std::cout << "bad-op\n";
      }
      else if (!member(n, t)) std::cout << "bad-op\n";
    }
    catch (const GNU_gama::local::Exception& e) { std::cout << "throw local " << e.what() << "\n"; }
    catch (const GNU_gama::Exception::matvec& e) { std::cout << "throw matvec " << e.error() << "\n"; }
    catch (const GNU_gama::Exception::base& e) { std::cout << "throw gama " << e.what() << "\n"; }
    catch (const std::exception& e) { std::cout << "bad-op\n"; }
    std::cout.flush();
  }
  return 0;
}
