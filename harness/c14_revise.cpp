// Correspondence harness C14: the exclusion logic of GNU_gama::local::LocalNetwork run in-process on
// a network parsed from a .gkf by GKFparser.
//
// stdin (one op per line)
//   load <path.gkf> <acord 0|1|2> parse (1: run Acord2 as gama-local does, 2: only its orientation loop); emits the line
//                                 encoding of the parsed network for the Lean driver
//   revise                        update_points(); revision_points(); revision_observations()
//   revobs                        revision_observations()
//   abs <tol as hex double>       tol_abs(tol); huge_abs_terms(); test_abs_term(1..n); remove_huge_abs_terms()
// stdout
//   "E <line>"  lines for lean/Driver/Revise.lean (network encoding and the ops, `abs` completed with
//               the vectors rhs_ and b the C++ had at that moment)
//               `hom`: when no cluster has correlations, sigma-apr, the stdDev() of the revised observations and rhs_;
//               the driver answers with the model's homogenised vector, compared with the member b
//   "R <line>"  observed results, same shape as the driver's output
#include <cstdio>
#include <fstream>
#include <iostream>
#include <map>
#include <memory>
#include <sstream>
#include <string>
#include <vector>
#include <gnu_gama/local/network.h>
#include <gnu_gama/local/acord/acord2.h>
#include <gnu_gama/local/language.h>
#include <gnu_gama/local/orientation.h>
#include <gnu_gama/xml/gkfparser.h>
#include "proto.h"

using namespace GNU_gama::local;

static std::unique_ptr<LocalNetwork> IS;
static std::map<PointID, int> idx;          // PD order at load time, 1-based
static std::vector<PointID> order;
static int absent_next = 900000;
static std::map<PointID, int> absent;

static int pid(const PointID& id)
{
  auto i = idx.find(id);
  if (i != idx.end()) return i->second;
  auto a = absent.find(id);
  if (a != absent.end()) return a->second;
  return absent[id] = absent_next++;
}

static int type_of(const Observation* o)
{
  if (dynamic_cast<const Direction*>(o))  return 0;
  if (dynamic_cast<const Distance*>(o))   return 1;
  if (dynamic_cast<const Angle*>(o))      return 2;
  if (dynamic_cast<const H_Diff*>(o))     return 3;
  if (dynamic_cast<const S_Distance*>(o)) return 4;
  if (dynamic_cast<const Z_Angle*>(o))    return 5;
  if (dynamic_cast<const X*>(o))          return 6;
  if (dynamic_cast<const Y*>(o))          return 7;
  if (dynamic_cast<const Z*>(o))          return 8;
  if (dynamic_cast<const Xdiff*>(o))      return 9;
  if (dynamic_cast<const Ydiff*>(o))      return 10;
  if (dynamic_cast<const Zdiff*>(o))      return 11;
  if (dynamic_cast<const Azimuth*>(o))    return 12;
  return 99;
}

static int st_xy(const LocalPoint& p)
{ return p.fixed_xy() ? 1 : p.constrained_xy() ? 3 : p.free_xy() ? 2 : 0; }
static int st_z(const LocalPoint& p)
{ return p.fixed_z() ? 1 : p.constrained_z() ? 3 : p.free_z() ? 2 : 0; }

static void emit_network()
{
  for (const PointID& id : order) {
    const LocalPoint& p = IS->PD[id];
    std::cout << "E pt " << idx[id] << " " << st_xy(p) << " " << st_z(p) << " "
              << (p.test_xy() ? 1 : 0) << " " << (p.test_z() ? 1 : 0) << " "
              << vp::hex(p.x()) << " " << vp::hex(p.y()) << " " << vp::hex(p.z()) << "\n";
  }
  for (auto* cl : IS->OD.clusters) {
    std::cout << "E cl " << (dynamic_cast<StandPoint*>(cl) ? 1 : 0) << "\n";
    for (Observation* o : cl->observation_list) {
      int fs = 0;
      if (const Angle* a = dynamic_cast<const Angle*>(o)) fs = pid(a->fs());
      std::cout << "E ob " << type_of(o) << " " << pid(o->from()) << " " << pid(o->to()) << " " << fs << " "
                << (o->active() ? 1 : 0) << " " << vp::hex(o->value()) << "\n";
    }
  }
}

static void obs_flags()
{
  std::cout << "R obs ";
  bool first = true;
  for (auto* cl : IS->OD.clusters) {
    if (!first) std::cout << "|";
    first = false;
    for (Observation* o : cl->observation_list) std::cout << (o->active() ? 1 : 0);
  }
  std::cout << "\n";
}

static void join(const char* head, const std::vector<std::string>& v)
{
  std::cout << "R " << head << " ";
  for (size_t i = 0; i < v.size(); i++) std::cout << (i ? " " : "") << v[i];
  std::cout << "\n";
}

static void state()
{
  std::vector<std::string> v;
  for (const PointID& id : order) {
    const LocalPoint& p = IS->PD[id];
    v.push_back(std::to_string(idx[id]) + ":" + std::to_string(st_xy(p)) + std::to_string(st_z(p)));
  }
  join("pts", v);
  obs_flags();
  v.clear();
  for (auto* cl : IS->OD.clusters) v.push_back(std::to_string(cl->activeObs()));
  join("act", v);
  v.clear();
  {
    auto c = IS->removed_code.begin();
    for (auto i = IS->removed_points.begin(); i != IS->removed_points.end(); ++i, ++c)
      v.push_back(std::to_string(pid(*i)) + ":" + std::to_string(int(*c)));
  }
  join("removed", v);
  v.clear();
  for (const PointID& id : IS->undefined_coordinates()) v.push_back(std::to_string(pid(id)));
  join("undefined", v);
  v.clear();
  for (const Observation* o : IS->rejected_observations())
    v.push_back(std::to_string(type_of(o)) + ":" + std::to_string(pid(o->from())) + ":" + std::to_string(pid(o->to())));
  join("rejected", v);
  const LocalNetwork* C = IS.get();
  std::cout << "R counts " << IS->points_count() << " " << C->observations_count() << "\n";
}

int main()
{
  set_gama_language(en);
  std::string line;
  bool is_case;
  while (vp::next(line, is_case)) {
    if (is_case) { IS.reset(); idx.clear(); order.clear(); absent.clear(); absent_next = 900000; continue; }
    std::vector<std::string> t = vp::tokens(line);
    if (t.empty()) continue;
    try {
      if (t[0] == "load" && t.size() == 3) {
        IS.reset(new LocalNetwork);
        std::ifstream in(t[1]);
        std::stringstream ss; ss << in.rdbuf();
        std::string text = ss.str();
        {
          GKFparser gkf(*IS);
          gkf.xml_parse(text.c_str(), int(text.size()), 1);
        }
        if (!IS->has_algorithm()) IS->set_algorithm();
        if (t[2] == "1") {
          IS->remove_inconsistency();
          Acord2 acord2(IS->PD, IS->OD);
          acord2.execute();
        }
        else if (t[2] == "2") {        // only the last loop of Acord2::execute: missing orientations
          IS->remove_inconsistency();
          for (auto* cl : IS->OD.clusters)
            if (StandPoint* sp = dynamic_cast<StandPoint*>(cl))
              if (!sp->test_orientation()) {
                Orientation ori(IS->PD, sp->observation_list);
                double shift; int n;
                ori.orientation(sp, shift, n);
                if (n > 0) sp->set_orientation(shift);
              }
        }
        int k = 0;
        for (auto& kv : IS->PD) { idx[kv.first] = ++k; order.push_back(kv.first); }
        emit_network();
        std::cout << "R loaded " << order.size();
        for (const PointID& id : order) std::cout << " " << id.str();     // metadata: PD order
        std::cout << "\n";
      }
      else if (!IS) std::cout << "R bad-op\n";
      else if (t[0] == "revise") {
        IS->update_points();
        IS->revision_points();
        IS->revision_observations();
        std::cout << "E revise\n";
        state();
      }
      else if (t[0] == "revobs") {
        IS->revision_observations();
        std::cout << "E revobs\n";
        state();
      }
      else if (t[0] == "abs" && t.size() == 2) {
        const double tol = vp::unhex(t[1]);
        IS->tol_abs(tol);
        const size_t nrem = IS->removed_points.size();
        bool flag = IS->huge_abs_terms();
        if (IS->removed_points.size() != nrem) { std::cout << "R numeric\n"; continue; }
        const LocalNetwork* C = IS.get();
        const int n = C->observations_count();
        std::vector<double> rhs(n), bh(n);
        IS->tol_abs(-1);
        for (int i = 1; i <= n; i++) { rhs[i-1] = IS->rhs(i); bh[i-1] = IS->test_abs_term(i); }
        IS->tol_abs(tol);
        bool diagonal = true;
        for (auto* cl : IS->OD.clusters)
          if (cl->activeObs() && cl->covariance_matrix.bandWidth() != 0) diagonal = false;
        std::vector<double> sd(n);
        for (int i = 1; i <= n; i++) sd[i-1] = IS->ptr_obs(i)->stdDev();
        std::cout << "E abs " << vp::hex(tol) << " " << n;
        for (double x : rhs) std::cout << " " << vp::hex(x);
        for (double x : bh)  std::cout << " " << vp::hex(x);
        std::cout << "\n";
        std::cout << "R flag " << (flag ? 1 : 0) << "\n";
        std::cout << "R terms";
        for (int i = 1; i <= n; i++) std::cout << " " << vp::hex(IS->test_abs_term(i));
        std::cout << "\n";
        // the rows of "Outlying absolute terms" (results/text/outlying_abs_terms.h: returns when the gate is
        // closed, else one row per i with test_abs_term(i) != 0: i, ptr_obs(i)), printed by gama-local right
        // before remove_huge_abs_terms()
        std::cout << "R rows";
        if (IS->huge_abs_terms())
          for (int i = 1; i <= C->observations_count(); i++) {
            const Observation* pm = IS->ptr_obs(i);
            if (IS->test_abs_term(i))
              std::cout << " " << i << ":" << type_of(pm) << ":" << pid(pm->from()) << ":" << pid(pm->to());
          }
        std::cout << "\n";
        IS->remove_huge_abs_terms();
        obs_flags();
        if (diagonal) {
          std::cout << "E hom " << vp::hex(IS->apriori_m_0()) << " " << n;
          for (double x : sd)  std::cout << " " << vp::hex(x);
          for (double x : rhs) std::cout << " " << vp::hex(x);
          std::cout << "\n";
          std::cout << "R hom";
          for (double x : bh) std::cout << " " << vp::hex(x);
          std::cout << "\n";
        }
      }
      else std::cout << "R bad-op\n";
    }
    catch (const GNU_gama::local::ParserException& e) { std::cout << "R throw parser " << e.line << "\n"; }
    catch (const GNU_gama::local::Exception& e)       { std::cout << "R throw local\n"; }
    catch (const GNU_gama::Exception::matvec& e)      { std::cout << "R throw matvec " << e.error() << "\n"; }
    catch (const GNU_gama::Exception::base& e)        { std::cout << "R throw gama\n"; }
    catch (const std::exception& e)                   { std::cout << "R throw std\n"; }
    std::cout.flush();
  }
  return 0;
}
