// C01, second entry point: class LocalNetwork (gama-local) in front of the four solvers.
// Builds a real LocalNetwork from a .gkf, adjusts it through the public accessors solve(), residuals(),
// trans_VWV() and the cofactor accessors qxx(i,j), qbb(i,j), weight_obs(i), stdev_obs(i), wcoef_res(i), and dumps
//   * "P …" lines: the system project_equations() assembled in its FINAL pass (sparse rows Asp, rhs_, every
//     cluster of OD.clusters with its packed covariance matrix and the active() flags, m_0_apr_, min_x_, the
//     configured kind of actual sigma) — exactly the definition lines of lean/Driver/NetFacade.lean (without "P "),
//   * "R …" lines: the implementation's answers, in the shape of `answerLines` of that driver:
//       R x …, R r …, R pvv v, R defect d, R hA <i> …, R hb …,
//       R qxx <i> v_1 … v_n   (i = 1..n; all pairs qxx(i,j))      or  R qxx <i> throw <Kind>
//       R qbb <i> v_1 … v_m   (i = 1..m; all pairs qbb(i,j))      or  R qbb <i> throw <Kind>
//       R wobs v_1 … v_m (weight_obs), R sobs v_1 … v_m (stdev_obs), R wres v_1 … v_m (wcoef_res)
//                                                                  or  R <tag> throw <Kind>
// Private state through the friend probe (struct GamaVerifProbe is a friend of LocalNetwork under -DGAMA_VERIF).
//
// ops (stdin):
//   load <path.gkf> <env|chol|gso|svd>   parse, set_algorithm, remove_inconsistency, Acord2
//   dump                                 adjust, then the P lines and the R lines (or a single "R throw <Kind>")
// output: every line starts with P (model input), R (result) or E (echo/ok/throw of the harness itself)
#include <cmath>
#include <cstdio>
#include <fstream>
#include <iostream>
#include <memory>
#include <sstream>
#include <string>
#include <vector>
#include <gnu_gama/local/network.h>
#include <gnu_gama/local/acord/acord2.h>
#include <gnu_gama/local/language.h>
#include <gnu_gama/xml/gkfparser.h>
#include <gnu_gama/sparse/smatrix.h>
#include "proto.h"

using namespace GNU_gama::local;

struct GamaVerifProbe {
  static const GNU_gama::SparseMatrix<double, int>* Asp(const LocalNetwork& n)
  { return n.Asp ? n.Asp : n.input.mat(); }   // sparse solvers take the matrix over into AdjInputData
  static int cols(const LocalNetwork& n) { return n.pocet_neznamych_; }
  static int rows(const LocalNetwork& n) { return n.pocmer_; }
  static const Mat& dense(const LocalNetwork& n) { return n.A; }   // base class OLS: homogenised design matrix
  static const Vec& denseb(const LocalNetwork& n) { return n.b; }  // base class OLS: homogenised right-hand side
  static int rhs_dim(const LocalNetwork& n) { return n.rhs_.dim(); }
  static int min_n(const LocalNetwork& n) { return n.min_n_; }
  static const int* min_x(const LocalNetwork& n) { return n.min_x_; }
  static int defect(LocalNetwork& n) { return n.least_squares->defect(); }   // null_space() without its point removal
};

static std::unique_ptr<LocalNetwork> IS;

static const char* kind(int e)
{
  switch (e) {
    case GNU_gama::Exception::BadRank: return "BadRank";
    case GNU_gama::Exception::BadIndex: return "BadIndex";
    case GNU_gama::Exception::Singular: return "Singular";
    case GNU_gama::Exception::BadRegularization: return "BadRegularization";
    case GNU_gama::Exception::NoConvergence: return "NoConvergence";
    case GNU_gama::Exception::ZeroDivision: return "ZeroDivision";
    case GNU_gama::Exception::NonPositiveDefinite: return "NonPositiveDefinite";
    case GNU_gama::Exception::NotImplemented: return "NotImplemented";
    case GNU_gama::Exception::StreamError: return "StreamError";
  }
  return "Other";
}

// the system as assembled in the last pass of project_equations()
static void dump_problem()
{
  const LocalNetwork& N = *IS;
  const int rows = GamaVerifProbe::rows(N), cols = GamaVerifProbe::cols(N);
  const GNU_gama::SparseMatrix<double, int>* A = GamaVerifProbe::Asp(N);
  if (A == nullptr || GamaVerifProbe::rhs_dim(N) != rows || A->rows() != rows) {
    std::cout << "E no-system\n";
    return;
  }
  std::cout << "P net " << rows << " " << cols << " " << vp::hex(N.apriori_m_0()) << "\n";
  GNU_gama::SparseMatrix<double, int>* Am = const_cast<GNU_gama::SparseMatrix<double, int>*>(A);
  for (int i = 1; i <= rows; i++) {
    std::cout << "P row " << A->size(i);
    const int* ib = Am->ibegin(i);
    const double* nb = Am->begin(i);
    const double* ne = Am->end(i);
    for (; nb != ne; ++nb, ++ib) std::cout << " " << *ib << " " << vp::hex(*nb);
    std::cout << "\n";
  }
  std::cout << "P rhs";
  for (int i = 1; i <= rows; i++) std::cout << " " << vp::hex(N.rhs(i));
  std::cout << "\n";
  for (const auto* cl : IS->OD.clusters) {
    const auto& C = cl->covariance_matrix;
    std::cout << "P cluster " << C.rows() << " " << C.bandWidth() << " " << cl->observation_list.size();
    for (const Observation* o : cl->observation_list) std::cout << " " << (o->active() ? 1 : 0);
    for (const double* p = C.begin(), *e = C.end(); p != e; ++p) std::cout << " " << vp::hex(*p);
    std::cout << "\n";
  }
  const int k = GamaVerifProbe::min_n(N);
  const int* mx = GamaVerifProbe::min_x(N);
  std::cout << "P minx " << (mx ? k : 0);
  if (mx) for (int i = 0; i < k; i++) std::cout << " " << mx[i];
  std::cout << "\n";
  std::cout << "P act " << (N.m_0_apriori() ? "apriori" : "aposteriori") << "\n";
}

// one line of answers "R <tag> v_1 … v_k" with v_j = f(j); the whole line becomes "R <tag> throw <Kind>" when an
// accessor throws (the first one in index order decides, as in the driver's `rowLine`)
template <typename F> static void row_line(const std::string& tag, int k, F f)
{
  std::ostringstream os;
  os << "R " << tag;
  try {
    for (int j = 1; j <= k; j++) os << " " << vp::hex(f(j));
    std::cout << os.str() << "\n";
  }
  catch (const GNU_gama::Exception::matvec& e) { std::cout << "R " << tag << " throw " << kind(e.error()) << "\n"; }
  catch (const GNU_gama::Exception::base& e) { std::cout << "R " << tag << " throw gama " << e.what() << "\n"; }
  catch (const std::exception& e) { std::cout << "R " << tag << " throw std " << e.what() << "\n"; }
}

static void dump()
{
  std::string thrown;
  GNU_gama::local::Vec x, r;
  double pvv = 0;
  try {
    x = IS->solve();
    r = IS->residuals();
    pvv = IS->trans_VWV();
  }
  catch (const GNU_gama::local::Exception& e) { thrown = std::string("local ") + e.what(); }
  catch (const GNU_gama::Exception::matvec& e) { thrown = kind(e.error()); }
  catch (const GNU_gama::Exception::base& e) { thrown = std::string("gama ") + e.what(); }
  catch (const std::exception& e) { thrown = std::string("std ") + e.what(); }

  try { dump_problem(); }
  catch (const GNU_gama::Exception::matvec& e) { std::cout << "E throw matvec " << kind(e.error()) << "\n"; }
  catch (const std::exception& e) { std::cout << "E throw std " << e.what() << "\n"; }

  if (!thrown.empty()) { std::cout << "R throw " << thrown << "\n"; return; }

  LocalNetwork& N = *IS;
  std::cout << "R x";
  for (int i = 1; i <= x.dim(); i++) std::cout << " " << vp::hex(x(i));
  std::cout << "\nR r";
  for (int i = 1; i <= r.dim(); i++) std::cout << " " << vp::hex(r(i));
  std::cout << "\nR pvv " << vp::hex(pvv) << "\n";
  try { int d = GamaVerifProbe::defect(N); std::cout << "R defect " << d << "\n"; }
  catch (const GNU_gama::Exception::matvec& e) { std::cout << "R defect throw " << kind(e.error()) << "\n"; }
  const Mat& D = GamaVerifProbe::dense(N);
  for (int i = 1; i <= D.rows(); i++) {
    std::cout << "R hA " << i;
    for (int j = 1; j <= D.cols(); j++) std::cout << " " << vp::hex(D(i, j));
    std::cout << "\n";
  }
  const Vec& hb = GamaVerifProbe::denseb(N);
  std::cout << "R hb";
  for (int i = 1; i <= hb.dim(); i++) std::cout << " " << vp::hex(hb(i));
  std::cout << "\n";

  // cofactor accessors (network.h): plain delegation to the solver / vectors filled by vyrovnani_()
  const int nn = x.dim(), mm = r.dim();
  for (int i = 1; i <= nn; i++)
    row_line("qxx " + std::to_string(i), nn, [&](int j) { return N.qxx(i, j); });
  for (int i = 1; i <= mm; i++)
    row_line("qbb " + std::to_string(i), mm, [&](int j) { return N.qbb(i, j); });
  row_line("wobs", mm, [&](int i) { return N.weight_obs(i); });
  row_line("sobs", mm, [&](int i) { return N.stdev_obs(i); });
  row_line("wres", mm, [&](int i) { return N.wcoef_res(i); });
}

int main()
{
  set_gama_language(en);
  std::string line;
  bool is_case;
  while (vp::next(line, is_case)) {
    if (is_case) { IS.reset(); continue; }
    std::vector<std::string> t = vp::tokens(line);
    if (t.empty()) continue;
    try {
      if (t[0] == "load" && t.size() == 3) {
        std::string alg;
        if      (t[2] == "env")  alg = "envelope";
        else if (t[2] == "chol") alg = "cholesky";
        else if (t[2] == "gso")  alg = "gso";
        else if (t[2] == "svd")  alg = "svd";
        else { std::cout << "E bad-op\n"; continue; }
        IS.reset(new LocalNetwork);
        std::ifstream in(t[1]);
        if (!in) { IS.reset(); std::cout << "E bad-op\n"; continue; }
        std::stringstream ss; ss << in.rdbuf();
        std::string text = ss.str();
        {
          GNU_gama::local::GKFparser gkf(*IS);
          gkf.xml_parse(text.c_str(), int(text.size()), 1);
        }
        IS->set_algorithm(alg);
        IS->remove_inconsistency();
        Acord2 acord2(IS->PD, IS->OD);
        acord2.execute();
        std::cout << "E loaded " << IS->PD.size() << "\n";
      }
      else if (!IS) std::cout << "E bad-op\n";
      else if (t[0] == "dump" && t.size() == 1) dump();
      else std::cout << "E bad-op\n";
    }
    catch (const GNU_gama::local::Exception& e) { std::cout << "E throw local " << e.what() << "\n"; }
    catch (const GNU_gama::Exception::matvec& e) { std::cout << "E throw matvec " << kind(e.error()) << "\n"; }
    catch (const GNU_gama::Exception::base& e) { std::cout << "E throw gama " << e.what() << "\n"; }
    catch (const std::exception& e) { std::cout << "E throw std " << e.what() << "\n"; }
    catch (...) { std::cout << "E throw unknown\n"; }
    std::cout.flush();
  }
  return 0;
}
