// Correspondence harness for C16: SparseMatrix, SparseMatrixGraph, connected(),
// RootedLevelStructure, PseudoPeripheralNode, ReverseCuthillMcKee, Envelope.
// Public API only.  Same operation lines as lean/Driver/Sparse.lean.
//
//   new <floats> <rows> <cols> | row | add <hex> <col> | dump | replicate | replicate3 n r c
//   transpose | graph | connected | levels <r> | ppn <start> | rcm | envelope
//   choldec <tolhex> | choldec0 | solve <hex..> | lower a b <hex..> | diagonal a b <hex..> | upper a b <hex..>
//   inverse | elements env|inv
//   bdnew <blcks> <floats> | bdadd <dim> <width> <hex..> | bddump | bdreplicate | bdchol <tolhex>|default | bdupper
//     (BlockDiagonal / UpperBlockDiagonal, sparse/sbdiagonal.h)
//
// A call that would be undefined behaviour in the C++ (no capacity left, transposing or
// graphing a matrix that is not completely built) is answered `refused` without calling the library.
#include <cstdlib>
#include <iostream>
#include <memory>
#include <sstream>
#include <string>
#include <vector>
#include <gnu_gama/sparse/smatrix.h>
#include <gnu_gama/sparse/smatrix_graph.h>
#include <gnu_gama/sparse/smatrix_ordering.h>
#include <gnu_gama/sparse/sbdiagonal.h>
#include <gnu_gama/adj/envelope.h>
#include "proto.h"

using namespace GNU_gama;
typedef SparseMatrix<double, int>      SM;
typedef SparseMatrixGraph<double, int> Graph;
typedef ReverseCuthillMcKee<int>       RCM;
typedef Envelope<double, int>          Env;
typedef BlockDiagonal<double, int>     BD;
typedef UpperBlockDiagonal<double, int> UBD;

// verification probe (friend of Envelope when compiled with -DGAMA_VERIF): raw row pointers
struct GamaVerifProbe {
  static std::vector<long> xenv(const Env& e) {
    std::vector<long> v;
    if (e.dim_ == 0) return v;
    for (int i = 1; i <= e.dim_ + 1; i++) v.push_back(long(e.xenv_[i] - e.env_));
    return v;
  }
};

struct Sess {
  std::unique_ptr<SM> A;
  int floats = 0;                 // capacity given to the constructor / replicate
  int rowcap = 0;
  int started = 0;                // rows started (the class keeps rcnt_ private)
  std::unique_ptr<Graph> g;
  std::unique_ptr<RCM> o;
  std::unique_ptr<Env> E, Z;
  std::unique_ptr<BD> bd;         // BlockDiagonal; the class checks no capacity, the harness tracks it
  long bd_blcks = 0, bd_floats = 0;
  void stale() { Z.reset(); E.reset(); o.reset(); g.reset(); }   // derived objects of an older matrix
  void reset() { stale(); A.reset(); floats = rowcap = started = 0; bd.reset(); bd_blcks = bd_floats = 0; }
  // preconditions that no library code checks (see lean/Gama/Model/Sparse.lean: built, nodupRows)
  bool built() const {
    if (started != A->rows()) return false;
    if (started == 0) return A->nonzeroes() == 0;
    const int* c = A->ibegin(1);
    for (int i = 0; i < A->nonzeroes(); i++) if (c[i] < 1 || c[i] > A->columns()) return false;
    return true;
  }
  bool nodup_rows() const {
    for (int r = 1; r <= A->rows(); r++)
      for (const int* i = A->ibegin(r); i != A->iend(r); ++i)
        for (const int* j = i + 1; j != A->iend(r); ++j) if (*i == *j) return false;
    return true;
  }
};

static void dump_crs(const Sess& s)
{
  const SM& A = *s.A;
  // row pointers are private: reconstruct them from begin(i)/end(i) relative to begin(1)
  std::cout << "crs " << A.rows() << " " << A.columns() << " " << s.started << " " << A.nonzeroes() << " ptr";
  if (s.started >= 1) {
    const double* base = A.begin(1) - 0;
    // begin(1) is nonz + rptr[1]; rptr[1] == 0 for every matrix the class can produce
    for (int i = 1; i <= s.started; i++) std::cout << " " << (A.begin(i) - base);
    std::cout << " " << (A.end(s.started) - base);
  } else {
    std::cout << " 0";            // rptr[1] of an empty build is not defined; model prints its placeholder
  }
  std::cout << " ind";
  if (s.started >= 1) { const int* c = A.ibegin(1); for (int i = 0; i < A.nonzeroes(); i++) std::cout << " " << c[i]; }
  std::cout << " val";
  if (s.started >= 1) { const double* v = A.begin(1); for (int i = 0; i < A.nonzeroes(); i++) std::cout << " " << vp::hex(v[i]); }
  std::cout << "\n";
}

static void dump_env(const char* tag, const Env& E)
{
  std::cout << tag << " " << E.dim() << " defect " << E.defect() << " width";
  for (int i = 1; i <= E.dim(); i++) std::cout << " " << (E.end(i) - E.begin(i));
  std::cout << " xenv";
  for (long o : GamaVerifProbe::xenv(E)) std::cout << " " << o;
  std::cout << " diag";
  for (int i = 1; i <= E.dim(); i++) std::cout << " " << vp::hex(E.diagonal(i));
  std::cout << " env";
  for (int i = 1; i <= E.dim(); i++)
    for (const double* p = E.begin(i); p != E.end(i); ++p) std::cout << " " << vp::hex(*p);
  std::cout << "\n";
}

static bool nat_arg(const std::string& t, long& v)
{
  if (t.empty() || t.size() > 9) return false;
  for (char c : t) if (c < '0' || c > '9') return false;
  v = std::atol(t.c_str());
  return true;
}

// `bd <blocks> <ncnt> <size> dim .. width .. begin <begin(1..blocks+1) - begin(1)> nonz <nonz[0..ncnt)>`
static void dump_bd(const BD& b)
{
  std::cout << "bd " << b.blocks() << " " << b.nonzeroes() << " " << b.dim() << " dim";
  for (int i = 1; i <= b.blocks(); i++) std::cout << " " << b.dim(i);
  std::cout << " width";
  for (int i = 1; i <= b.blocks(); i++) std::cout << " " << b.width(i);
  std::cout << " begin";
  const double* base = b.begin(1);
  for (int i = 1; i <= b.blocks() + 1; i++) std::cout << " " << (b.begin(i) - base);
  std::cout << " nonz";
  for (int i = 0; i < b.nonzeroes(); i++) std::cout << " " << vp::hex(base[i]);
  std::cout << "\n";
}

static bool vec_arg(const std::vector<std::string>& t, size_t from, std::vector<double>& v)
{
  v.clear();
  for (size_t i = from; i < t.size(); i++) {
    if (t[i].size() != 18 || t[i].compare(0, 2, "0x") != 0) return false;
    v.push_back(vp::unhex(t[i]));
  }
  return true;
}

static void out_vec(const std::vector<double>& v)
{
  std::cout << "ok";
  for (double x : v) std::cout << " " << vp::hex(x);
  std::cout << "\n";
}

int main()
{
  Sess s;
  std::string line;
  bool is_case;
  while (vp::next(line, is_case)) {
    if (is_case) { s.reset(); continue; }
    std::vector<std::string> t = vp::tokens(line);
    if (t.empty()) { std::cout << "bad-op\n"; continue; }
    const std::string& op = t[0];
    if (op == "new" && t.size() == 4) {
      s.reset();
      s.floats = std::atoi(t[1].c_str()); s.rowcap = std::atoi(t[2].c_str());
      s.A.reset(new SM(s.floats, s.rowcap, std::atoi(t[3].c_str())));
      std::cout << "ok\n";
    } else if (op == "row" && t.size() == 1 && s.A) {
      s.stale();
      if (s.started < s.rowcap) { s.A->new_row(); s.started++; std::cout << "ok\n"; }
      else std::cout << "refused\n";
    } else if (op == "add" && t.size() == 3 && s.A) {
      s.stale();
      if (s.A->nonzeroes() < s.floats && s.started >= 1) {
        s.A->add_element(vp::unhex(t[1]), std::atoi(t[2].c_str())); std::cout << "ok\n";
      } else std::cout << "refused\n";
    } else if (op == "dump" && t.size() == 1 && s.A) {
      dump_crs(s);
    } else if (op == "replicate" && t.size() == 1 && s.A) {
      s.stale();
      s.floats = s.A->nonzeroes(); s.rowcap = s.A->rows();
      s.A.reset(s.A->replicate());
      std::cout << "ok\n";
    } else if (op == "replicate3" && t.size() == 4 && s.A) {
      int n = std::atoi(t[1].c_str()), r = std::atoi(t[2].c_str()), c = std::atoi(t[3].c_str());
      s.stale();
      if (s.A->nonzeroes() <= n && s.started <= r) {
        s.A.reset(s.A->replicate(n, r, c)); s.floats = n; s.rowcap = r; std::cout << "ok\n";
      } else std::cout << "refused\n";
    } else if (op == "transpose" && t.size() == 1 && s.A) {
      s.stale();
      if (!s.built()) { std::cout << "refused\n"; continue; }
      int cols = s.A->columns(), n = s.A->nonzeroes();
      s.A.reset(s.A->transpose());
      s.floats = n; s.rowcap = cols; s.started = cols;
      std::cout << "ok\n";
    } else if (op == "graph" && t.size() == 1 && s.A) {
      s.stale();
      if (!s.built()) { std::cout << "refused\n"; continue; }
      s.g.reset(new Graph(s.A.get()));
      const Graph& g = *s.g;
      std::cout << "graph " << g.nodes() << " xadj";
      for (int i = 1; i <= g.nodes() + 1; i++) std::cout << " " << g.xadj(i);
      std::cout << " adj";
      for (int i = 1; i <= g.nodes(); i++)
        for (Graph::const_iterator b = g.begin(i), e = g.end(i); b != e; ++b) std::cout << " " << *b;
      std::cout << "\n";
    } else if (op == "connected" && t.size() == 1 && s.g) {
      std::cout << "flag " << (s.g->connected() ? 1 : 0) << "\n";
    } else if (op == "levels" && t.size() == 2 && s.g) {
      RootedLevelStructure<int> rls;
      rls.root(std::atoi(t[1].c_str()), s.g.get());
      int nl = s.g->nodes() == 0 ? 0 : rls.adst.nodes();
      std::cout << "levels " << nl << " xadj";
      for (int i = 1; i <= nl + 1; i++) std::cout << " " << rls.adst.xadj(i);
      std::cout << " nodes";
      for (int i = 0; i < rls.adst.xadj(nl + 1); i++) std::cout << " " << rls.adst.adjncy(i);
      std::cout << "\n";
    } else if (op == "ppn" && t.size() == 2 && s.g) {
      PseudoPeripheralNode<int> p;
      p.set_starting_node(std::atoi(t[1].c_str()));
      int r = p(s.g.get());
      std::cout << "ppn " << r << " " << (s.g->nodes() == 0 ? 0 : p.levels()) << "\n";
    } else if (op == "rcm" && t.size() == 1 && s.g) {
      s.o.reset(new RCM(s.g.get()));
      std::cout << "perm";
      for (int i = 1; i <= s.o->nodes(); i++) std::cout << " " << s.o->perm(i);
      std::cout << " invp";
      for (int i = 1; i <= s.o->nodes(); i++) std::cout << " " << s.o->invp(i);
      std::cout << "\n";
    } else if (op == "envelope" && t.size() == 1 && s.A && s.g && s.o) {
      if (!s.built()) { std::cout << "refused\n"; continue; }
      s.E.reset(new Env(s.A.get(), s.g.get(), s.o.get()));
      dump_env("env", *s.E);
    } else if (op == "choldec0" && t.size() == 1 && s.E) {
      s.E->cholDec();                            // default argument: tol = sqrt(epsilon)
      dump_env("chol", *s.E);
    } else if (op == "choldec" && t.size() == 2 && s.E) {
      s.E->cholDec(vp::unhex(t[1]));
      dump_env("chol", *s.E);
    } else if (op == "solve" && s.E) {
      std::vector<double> v;
      if (!vec_arg(t, 1, v) || (int)v.size() != s.E->dim()) { std::cout << "bad-op\n"; continue; }
      if (!v.empty()) s.E->solve(v.data(), s.E->dim());
      out_vec(v);
    } else if ((op == "lower" || op == "diagonal" || op == "upper") && t.size() >= 3 && s.E) {
      std::vector<double> v;
      int a = std::atoi(t[1].c_str()), b = std::atoi(t[2].c_str());
      if (!vec_arg(t, 3, v)) { std::cout << "bad-op\n"; continue; }
      std::vector<double> w(v);
      w.push_back(0);                           // keep data() valid for empty vectors
      if (op == "lower") s.E->lowerSolve(a, b, w.data());
      else if (op == "diagonal") s.E->diagonalSolve(a, b, w.data());
      else s.E->upperSolve(a, b, w.data());
      w.pop_back();
      out_vec(w);
    } else if (op == "inverse" && t.size() == 1 && s.E) {
      s.Z.reset(new Env);
      s.Z->inverse(*s.E);
      dump_env("inv", *s.Z);
    } else if (op == "elements" && t.size() == 2 && (t[1] == "inv" ? (bool)s.Z : (bool)s.E)) {
      const Env& E = t[1] == "inv" ? *s.Z : *s.E;
      std::cout << "elements";
      for (int i = 1; i <= E.dim(); i++)
        for (int j = 1; j <= E.dim(); j++) {
          const double* p = E.element(i, j);
          if (p) std::cout << " " << vp::hex(*p); else std::cout << " null";
        }
      std::cout << "\n";
    } else if (op == "bdnew" && t.size() == 3) {
      long b, f;
      if (!nat_arg(t[1], b) || !nat_arg(t[2], f)) { std::cout << "bad-op\n"; continue; }
      s.bd.reset(new BD(int(b), int(f)));
      s.bd_blcks = b; s.bd_floats = f;
      std::cout << "ok\n";
    } else if (op == "bdadd" && t.size() >= 3 && s.bd) {
      long d, w;
      std::vector<double> mem;
      if (!nat_arg(t[1], d) || !nat_arg(t[2], w) || !vec_arg(t, 3, mem)) { std::cout << "bad-op\n"; continue; }
      // add_block checks nothing: a table cell and N floats must be left, mem must hold N elements
      const long N = d * (w + 1) - w * (w + 1) / 2;
      const long used = s.bd->begin(s.bd->blocks() + 1) - s.bd->begin(1);
      if (s.bd->blocks() < s.bd_blcks && N >= 0 && N <= (long)mem.size() && used + N <= s.bd_floats) {
        mem.push_back(0);                       // keep data() valid for N == 0
        s.bd->add_block(int(d), int(w), mem.data());
        std::cout << "ok\n";
      } else std::cout << "refused\n";
    } else if (op == "bddump" && t.size() == 1 && s.bd) {
      dump_bd(*s.bd);
    } else if (op == "bdreplicate" && t.size() == 1 && s.bd) {
      s.bd_blcks = s.bd->blocks(); s.bd_floats = s.bd->nonzeroes();
      s.bd.reset(s.bd->replicate());
      std::cout << "ok\n";
    } else if (op == "bdchol" && t.size() == 2 && s.bd) {
      int r;
      if (t[1] == "default") r = s.bd->cholDec();       // default argument: tol = 1e-14
      else {
        std::vector<double> v;
        if (!vec_arg(t, 1, v)) { std::cout << "bad-op\n"; continue; }
        r = s.bd->cholDec(v[0]);
      }
      std::cout << "int " << r << "\n";
    } else if (op == "bdupper" && t.size() == 1 && s.bd) {
      UBD up(s.bd.get());
      std::cout << "upper " << up.dim() << " rows";
      if (up.dim() > 0) {
        const double* base = s.bd->begin(1);
        for (int i = 1; i <= up.dim(); i++) std::cout << " " << (up.begin(i) - base) << " " << (up.end(i) - base);
      }
      std::cout << "\n";
    } else std::cout << "bad-op\n";
  }
  return 0;
}
