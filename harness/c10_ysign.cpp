// C10: LocalNetwork::change_y_signs_for_inconsistent_system_() on a real LocalNetwork.
// Parses a .gkf (GKFparser), dumps every point and every cluster (which observations are Y / Ydiff, the
// observed values, the packed covariance matrix), calls remove_inconsistency(), dumps again, calls
// return_inconsistency(), dumps again.
//
// op (stdin):  ysign <path.gkf>
// output:
//   E consistent 0|1
//   P point <test_xy 0|1> <x> <y>                                        (before; PD order)
//   P cluster <dim> <band> <nobs> | <flag 0|1 …> | <value …> | <packed covariance …>
//   R point … / R cluster …       after remove_inconsistency()           (same shapes)
//   B point … / B cluster …       after return_inconsistency()           (must equal the P lines)
// doubles as hex bit patterns (harness/proto.h)
#include <cmath>
#include <fstream>
#include <iostream>
#include <sstream>
#include <string>
#include <vector>
#include <gnu_gama/local/network.h>
#include <gnu_gama/local/language.h>
#include <gnu_gama/xml/gkfparser.h>
#include "proto.h"

using namespace GNU_gama::local;

static void dump(LocalNetwork& N, const char* tag)
{
  for (PointData::iterator i = N.PD.begin(); i != N.PD.end(); ++i)
    {
      LocalPoint& p = (*i).second;
      std::cout << tag << " point " << (p.test_xy() ? 1 : 0);
      if (p.test_xy()) std::cout << " " << vp::hex(p.x()) << " " << vp::hex(p.y());
      else             std::cout << " " << vp::hex(0.0) << " " << vp::hex(0.0);
      std::cout << "\n";
    }
  for (auto* cl : N.OD.clusters)
    {
      const auto& C = cl->covariance_matrix;
      std::cout << tag << " cluster " << C.dim() << " " << C.bandWidth() << " " << cl->observation_list.size() << " |";
      for (Observation* o : cl->observation_list)
        std::cout << " " << ((dynamic_cast<Y*>(o) || dynamic_cast<Ydiff*>(o)) ? 1 : 0);
      std::cout << " |";
      for (Observation* o : cl->observation_list) std::cout << " " << vp::hex(o->value());
      std::cout << " |";
      for (const double* p = C.begin(), *e = C.end(); p != e; ++p) std::cout << " " << vp::hex(*p);
      std::cout << "\n";
    }
}

int main()
{
  set_gama_language(en);
  std::string line;
  bool is_case;
  while (vp::next(line, is_case))
    {
      if (is_case) continue;
      std::vector<std::string> t = vp::tokens(line);
      if (t.empty()) continue;
      try
        {
          if (t[0] == "ysign" && t.size() == 2)
            {
              LocalNetwork N;
              std::ifstream in(t[1]);
              if (!in) { std::cout << "E bad-op\n"; continue; }
              std::stringstream ss; ss << in.rdbuf();
              std::string text = ss.str();
              {
                GKFparser gkf(N);
                gkf.xml_parse(text.c_str(), int(text.size()), 1);
              }
              std::cout << "E consistent " << (N.consistent() ? 1 : 0) << "\n";
              dump(N, "P");
              N.remove_inconsistency();
              dump(N, "R");
              N.return_inconsistency();
              dump(N, "B");
            }
          else std::cout << "E bad-op\n";
        }
      catch (const GNU_gama::local::ParserException& e) { std::cout << "E throw parser " << e.what() << "\n"; }
      catch (const GNU_gama::local::Exception& e) { std::cout << "E throw local " << e.what() << "\n"; }
      catch (const GNU_gama::Exception::base& e) { std::cout << "E throw gama " << e.what() << "\n"; }
      catch (const std::exception& e) { std::cout << "E throw std " << e.what() << "\n"; }
      std::cout.flush();
    }
  return 0;
}
