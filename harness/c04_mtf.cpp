// Correspondence harness: GNU_gama::MoveToFront<N,int,int> (lib/gnu_gama/movetofront.h)
// protocol (stdin, one op per line):   new <N> | get <key> | erase
// output:                              ok | buf <b> <good> | ok
#include <cstdio>
#include <cstring>
#include <cstdlib>
#include <iostream>
#include <sstream>
#include <string>
#include <memory>
#include <gnu_gama/movetofront.h>
#include "proto.h"

struct Any { virtual ~Any(){} virtual std::pair<int,bool> get(int)=0; virtual void erase()=0; };
template<size_t N> struct Impl : Any {
  GNU_gama::MoveToFront<N,int,int> m;
  Impl() : m(0) {}
  std::pair<int,bool> get(int k) override { return m.get(k); }
  void erase() override { m.erase(); }
};

int main()
{
  std::unique_ptr<Any> p;
  std::string line;
  bool is_case;
  while (vp::next(line, is_case)) {
    if (is_case) { p.reset(); continue; }
    std::istringstream in(line);
    std::string op; in >> op;
    if (op == "new") {
      int n; in >> n;
      switch (n) {
        case 1: p.reset(new Impl<1>); break;
        case 2: p.reset(new Impl<2>); break;
        case 3: p.reset(new Impl<3>); break;
        case 4: p.reset(new Impl<4>); break;
        case 5: p.reset(new Impl<5>); break;
        default: std::cout << "bad-op\n"; continue;
      }
      std::cout << "ok\n";
    } else if (op == "get" && p) {
      int k; in >> k;
      auto r = p->get(k);
      std::cout << "buf " << r.first << " " << (r.second ? 1 : 0) << "\n";
    } else if (op == "erase" && p) {
      p->erase(); std::cout << "ok\n";
    } else std::cout << "bad-op\n";
  }
  return 0;
}
