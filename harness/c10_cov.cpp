// Correspondence harness for C10: the real CovMat / BandMat / Cluster<Observation> /
// Adj::choldec / Adj::forwardSubstitution / BlockDiagonal / UpperBlockDiagonal /
// Homogenization / Adj (all four algorithms) driven by the line protocol of lean/Driver/Cov.lean.
#include <cmath>
#include <cstdio>
#include <cstring>
#include <iostream>
#include <list>
#include <memory>
#include <sstream>
#include <string>
#include <vector>
#include <matvec/covmat.h>
#include <matvec/bandmat.h>
#include <gnu_gama/obsdata.h>
#include <gnu_gama/adj/adj.h>
#include <gnu_gama/adj/adj_input_data.h>
#include <gnu_gama/adj/homogenization.h>
#include <gnu_gama/sparse/sbdiagonal.h>
#include <gnu_gama/sparse/smatrix.h>
#include "proto.h"

using namespace GNU_gama;
typedef std::vector<std::string> Toks;

static std::vector<Toks> split_bar(const Toks& t, size_t from) {
  std::vector<Toks> g(1);
  for (size_t i = from; i < t.size(); i++) {
    if (t[i] == "|") g.push_back(Toks()); else g.back().push_back(t[i]);
  }
  return g;
}

static const char* excname(const Exception::matvec& e) {
  switch (e.error()) {
    case Exception::BadRank: return "BadRank";
    case Exception::BadIndex: return "BadIndex";
    case Exception::NonPositiveDefinite: return "NonPositiveDefinite";
    case Exception::Singular: return "Singular";
    case Exception::BadRegularization: return "BadRegularization";
    case Exception::NoConvergence: return "NoConvergence";
    default: return "Other";
  }
}

// d b e1 e2 ...  -> CovMat ; false if the element count is not d(b+1)-b(b+1)/2
static bool mk_cov(const Toks& g, CovMat<>& C) {
  if (g.size() < 2) return false;
  int d = std::stoi(g[0]), b = std::stoi(g[1]);
  C.reset(d, b);
  if ((long)(C.end() - C.begin()) != (long)g.size() - 2) return false;
  double* p = C.begin();
  for (size_t i = 2; i < g.size(); i++) *p++ = vp::unhex(g[i]);
  return true;
}
static std::string show_cov(const CovMat<>& C) {
  std::ostringstream o;
  o << "ok " << C.dim() << " " << C.bandWidth();
  for (const double* p = C.begin(); p != C.end(); ++p) o << " " << vp::hex(*p);
  return o.str();
}

// a minimal observation type for Cluster<Observation>
struct TObs {
  typedef CovMat<> CovarianceMatrix;
  const Cluster<TObs>* cluster;
  int cluster_index;
  bool act; int dim;
  TObs(bool a, int d) : cluster(nullptr), cluster_index(0), act(a), dim(d) {}
  bool active() const { return act; }
  int dimension() const { return dim; }
};
struct TCluster : Cluster<TObs> {
  TCluster() : Cluster<TObs>(nullptr) {}
  TCluster* clone(const ObservationData<TObs>*) const override { return new TCluster; }
};

static void op_idx(const Toks& t) {
  int d = std::stoi(t[1]), b = std::stoi(t[2]);
  CovMat<> C(d, b);
  const CovMat<>& cc = C;
  for (double* p = C.begin(); p != C.end(); ++p) *p = 1.0 + (p - C.begin());
  std::cout << "size " << (long)(C.end() - C.begin());
  for (int r = 1; r <= d; r++)
    for (int s = 1; s <= d; s++) {
      try {
        double* p = &C(r, s);
        long off = p - C.begin();
        // const access and operator[] must agree with the non-const access
        long lo = std::min(r, s), hi = std::max(r, s);
        bool same = (cc(r, s) == *p) && (C[lo] + (hi - lo) == p);
        std::cout << " " << (same ? off : -999999);
      } catch (const Exception::matvec& e) {
        std::cout << ((e.error() == Exception::BadIndex && cc(r, s) == 0) ? " x" : " ?");
      }
    }
  std::cout << "\n";
}

static void op_bandidx(const Toks& t) {
  int d = std::stoi(t[1]), b = std::stoi(t[2]);
  BandMat<> C(d, b);
  const BandMat<>& cc = C;
  for (double* p = C.begin(); p != C.end(); ++p) *p = 1.0 + (p - C.begin());
  std::cout << "size " << (long)(C.end() - C.begin());
  for (int r = 1; r <= d; r++)
    for (int s = 1; s <= d; s++) {
      try {
        double* p = &C(r, s);
        std::cout << " " << ((cc(r, s) == *p) ? (long)(p - C.begin()) : -999999);
      } catch (const Exception::matvec& e) {
        std::cout << ((e.error() == Exception::BadIndex && cc(r, s) == 0) ? " x" : " ?");
      }
    }
  std::cout << "\n";
}

static void op_chol(const Toks& t, bool adj) {
  CovMat<> C;
  if (!mk_cov(Toks(t.begin() + 1, t.end()), C)) { std::cout << "bad-op\n"; return; }
  try {
    if (adj) Adj::choldec(C); else C.cholDec();
    std::cout << show_cov(C) << "\n";
  } catch (const Exception::matvec& e) { std::cout << "throw " << excname(e) << "\n"; }
}

static bool mk_vec(const Toks& g, Vec<>& v) {
  v.reset(g.size());
  for (size_t i = 0; i < g.size(); i++) v(i + 1) = vp::unhex(g[i]);
  return true;
}
static std::string show_vec(const Vec<>& v) {
  std::ostringstream o;
  for (int i = 1; i <= v.dim(); i++) o << " " << vp::hex(v(i));
  return o.str();
}

static void op_fwd(const Toks& t) {
  auto g = split_bar(t, 1);
  CovMat<> C; Vec<> v;
  if (g.size() != 2 || !mk_cov(g[0], C)) { std::cout << "bad-op\n"; return; }
  mk_vec(g[1], v);
  if (v.dim() != C.dim()) { std::cout << "bad-op\n"; return; }
  Adj::forwardSubstitution(C, v);
  std::cout << "ok" << show_vec(v) << "\n";
}

static void op_act(const Toks& t) {
  auto g = split_bar(t, 1);
  TCluster cl;
  if (g.size() != 3 || !mk_cov(g[0], cl.covariance_matrix) || g[1].size() != g[2].size()) {
    std::cout << "bad-op\n"; return;
  }
  for (size_t i = 0; i < g[1].size(); i++)
    cl.observation_list.push_back(new TObs(g[2][i] != "0", std::stoi(g[1][i])));
  cl.update();
  CovMat<> A = cl.activeCov();
  std::cout << "upd " << cl.activeObs() << " " << cl.activeDim() << " " << cl.activeNonz() << " "
            << show_cov(A) << "\n";
}

static void op_scale(const Toks& t) {
  auto g = split_bar(t, 1);
  TCluster cl;
  if (g.size() != 2 || g[1].size() != 2 || !mk_cov(g[0], cl.covariance_matrix)) { std::cout << "bad-op\n"; return; }
  try {
    cl.scaleCov(std::stoi(g[1][0]), vp::unhex(g[1][1]));
    std::cout << show_cov(cl.covariance_matrix) << "\n";
  } catch (const Exception::matvec& e) { std::cout << "throw " << excname(e) << "\n"; }
}

static void op_bd(const Toks& t) {
  auto g = split_bar(t, 1);
  if (g.size() < 2 || g[0].size() != 1) { std::cout << "bad-op\n"; return; }
  std::vector<CovMat<>> blocks(g.size() - 1);
  long floats = 0;
  for (size_t i = 1; i < g.size(); i++) {
    if (!mk_cov(g[i], blocks[i - 1])) { std::cout << "bad-op\n"; return; }
    floats += blocks[i - 1].end() - blocks[i - 1].begin();
  }
  BlockDiagonal<> bd(blocks.size(), floats);
  for (auto& b : blocks) bd.add_block(b.dim(), b.bandWidth(), b.begin());
  int ret = g[0][0] == "default" ? bd.cholDec() : bd.cholDec(vp::unhex(g[0][0]));
  std::cout << "int " << ret;
  for (int b = 1; b <= bd.blocks(); b++) {
    if (b > 1) std::cout << " |";
    for (const double* p = bd.begin(b); p != bd.end(b); ++p) std::cout << " " << vp::hex(*p);
  }
  std::cout << "\n";
}

// one block, vector v: the homogenised rhs and the homogenised single column of A (= v)
static void op_sweep(const Toks& t) {
  auto g = split_bar(t, 1);
  CovMat<> C; Vec<> v;
  if (g.size() != 2 || !mk_cov(g[0], C)) { std::cout << "bad-op\n"; return; }
  mk_vec(g[1], v);
  const int N = C.dim();
  if (v.dim() != N) { std::cout << "bad-op\n"; return; }
  {
    BlockDiagonal<> probe(1, C.end() - C.begin());
    probe.add_block(N, C.bandWidth(), C.begin());
    if (probe.cholDec() != 0) { std::cout << "notpd\n"; return; }
  }
  AdjInputData aid;
  SparseMatrix<>* A = new SparseMatrix<>(N, N, 1);
  for (int i = 1; i <= N; i++) { A->new_row(); A->add_element(v(i), 1); }
  aid.set_mat(A);
  BlockDiagonal<>* bd = new BlockDiagonal<>(1, C.end() - C.begin());
  bd->add_block(N, C.bandWidth(), C.begin());
  aid.set_cov(bd);
  aid.set_rhs(v);
  Homogenization<> h(&aid);
  const Vec<>& pr = h.rhs();
  const SparseMatrix<>* sm = h.mat();
  std::cout << "ok" << show_vec(pr);
  // the homogenised column must be the same numbers (exact zeros are dropped from the sparse rows)
  bool same = true;
  for (int i = 1; i <= N; i++) {
    double c = 0;
    const double* b = sm->begin(i); const double* e = sm->end(i);
    if (b != e) c = *b;
    if (!(c == pr(i)) && !(c != c && pr(i) != pr(i))) same = false;
  }
  std::cout << (same ? "" : " column-differs") << "\n";
}

static void op_dense(const Toks& t) {
  auto g = split_bar(t, 1);
  CovMat<> C; Vec<> v;
  if (g.size() != 2 || !mk_cov(g[0], C)) { std::cout << "bad-op\n"; return; }
  mk_vec(g[1], v);
  if (v.dim() != C.dim()) { std::cout << "bad-op\n"; return; }
  try {
    Adj::choldec(C);
    Adj::forwardSubstitution(C, v);
    std::cout << "ok" << show_vec(v) << "\n";
  } catch (const Exception::matvec& e) { std::cout << "throw " << excname(e) << "\n"; }
}

// adj <alg> m n | a11 a12 .. (row major, m*n) | rhs (m) | d b es | d b es ...
// the real Adj on AdjInputData: unknowns, residuals (un-homogenised), rtr
static void op_adj(const Toks& t) {
  auto g = split_bar(t, 1);
  if (g.size() < 4 || g[0].size() != 3) { std::cout << "bad-op\n"; return; }
  std::string alg = g[0][0];
  int m = std::stoi(g[0][1]), n = std::stoi(g[0][2]);
  if ((int)g[1].size() != m * n || (int)g[2].size() != m) { std::cout << "bad-op\n"; return; }
  AdjInputData* aid = new AdjInputData;
  SparseMatrix<>* A = new SparseMatrix<>(m * n, m, n);
  for (int i = 0; i < m; i++) {
    A->new_row();
    for (int j = 0; j < n; j++) {
      double a = vp::unhex(g[1][i * n + j]);
      if (a != 0) A->add_element(a, j + 1);
    }
  }
  aid->set_mat(A);
  Vec<> rhs; mk_vec(g[2], rhs);
  aid->set_rhs(rhs);
  std::vector<CovMat<>> blocks(g.size() - 3);
  long floats = 0; int total = 0;
  for (size_t i = 3; i < g.size(); i++) {
    if (!mk_cov(g[i], blocks[i - 3])) { std::cout << "bad-op\n"; delete aid; return; }
    floats += blocks[i - 3].end() - blocks[i - 3].begin();
    total += blocks[i - 3].dim();
  }
  if (total != m) { std::cout << "bad-op\n"; delete aid; return; }
  BlockDiagonal<>* bd = new BlockDiagonal<>(blocks.size(), floats);
  for (auto& b : blocks) bd->add_block(b.dim(), b.bandWidth(), b.begin());
  aid->set_cov(bd);
  Adj adj;
  adj.set(aid);      // Adj owns aid
  if (alg == "envelope") adj.set_algorithm(Adj::envelope);
  else if (alg == "gso") adj.set_algorithm(Adj::gso);
  else if (alg == "svd") adj.set_algorithm(Adj::svd);
  else if (alg == "cholesky") adj.set_algorithm(Adj::cholesky);
  else { std::cout << "bad-op\n"; return; }
  try {
    Vec<> x = adj.x();
    Vec<> r = adj.r();
    std::cout << "ok" << show_vec(x) << " |" << show_vec(r) << " | " << vp::hex(adj.rtr()) << "\n";
  } catch (const Exception::matvec& e) { std::cout << "throw " << excname(e) << "\n"; }
  catch (const Exception::base& e) { std::cout << "throw base\n"; }
}

// homrunF m n nb | row_1: c v c v .. | .. | row_m | rhs | d b es | .. (nb blocks)
// the whole Homogenization::run on an AdjInputData: homogenised rhs and the CRS arrays of the
// homogenised sparse matrix, read through the public API only.  `total_scaled_nonzeroes` (the
// capacity of the result) and `rcnt_` are not observable: `-` is printed for the first, rows()
// for the second (a result whose rows are not all started makes the ptr list differ / ASan fire).
// `refused` = input on which the call is undefined (decided here, the library is not called).
static bool all_digits(const std::string& s) {
  if (s.empty()) return false;
  for (char c : s) if (c < '0' || c > '9') return false;
  return true;
}
static void op_homrun(const Toks& t) {
  auto g = split_bar(t, 1);
  if (g.empty() || g[0].size() != 3 || !all_digits(g[0][0]) || !all_digits(g[0][1]) || !all_digits(g[0][2])) {
    std::cout << "bad-op\n"; return;
  }
  const int m = std::stoi(g[0][0]), n = std::stoi(g[0][1]), nb = std::stoi(g[0][2]);
  if ((long)g.size() != 1L + m + 1 + nb) { std::cout << "bad-op\n"; return; }
  std::vector<std::vector<std::pair<int, double>>> rows(m);
  long nnz = 0;
  bool cols_ok = true;
  for (int i = 0; i < m; i++) {
    const Toks& r = g[1 + i];
    if (r.size() % 2) { std::cout << "bad-op\n"; return; }
    for (size_t k = 0; k < r.size(); k += 2) {
      if (!all_digits(r[k])) { std::cout << "bad-op\n"; return; }
      int c = std::stoi(r[k]);
      double v = vp::unhex(r[k + 1]);
      if (c < 1 || c > n) cols_ok = false;
      rows[i].push_back(std::make_pair(c, v));
      nnz++;
    }
  }
  Vec<> rhs; mk_vec(g[1 + m], rhs);
  std::vector<CovMat<>> blocks(nb);
  long floats = 0; int total = 0;
  for (int i = 0; i < nb; i++) {
    if (!mk_cov(g[2 + m + i], blocks[i])) { std::cout << "bad-op\n"; return; }
    floats += blocks[i].end() - blocks[i].begin();
    total += blocks[i].dim();
  }
  if (!cols_ok || total != m || rhs.dim() != m) { std::cout << "refused\n"; return; }

  AdjInputData aid;
  SparseMatrix<>* A = new SparseMatrix<>(nnz, m, n);
  for (int i = 0; i < m; i++) {
    A->new_row();
    for (auto& e : rows[i]) A->add_element(e.second, e.first);
  }
  aid.set_mat(A);
  BlockDiagonal<>* bd = new BlockDiagonal<>(nb, floats);
  for (auto& b : blocks) bd->add_block(b.dim(), b.bandWidth(), b.begin());
  aid.set_cov(bd);
  aid.set_rhs(rhs);
  try {
    Homogenization<> h(&aid);
    const Vec<>& pr = h.rhs();
    const SparseMatrix<>* sm = h.mat();
    std::ostringstream o;
    o << "ok - pr" << show_vec(pr) << " sm " << sm->rows() << " " << sm->columns() << " " << sm->rows()
      << " " << sm->nonzeroes() << " ptr";
    const int R = sm->rows();
    if (R >= 1) {
      const double* base = sm->begin(1);
      for (int r = 1; r <= R; r++) o << " " << (long)(sm->begin(r) - base);
      o << " " << (long)(sm->end(R) - base);
    } else o << " 0";
    o << " ind";
    for (int r = 1; r <= R; r++)
      for (const int* p = sm->ibegin(r); p != sm->iend(r); ++p) o << " " << *p;
    o << " val";
    for (int r = 1; r <= R; r++)
      for (const double* p = sm->begin(r); p != sm->end(r); ++p) o << " " << vp::hex(*p);
    std::cout << o.str() << "\n";
  } catch (const Exception::matvec& e) { std::cout << "throw " << excname(e) << "\n"; }
}

int main() {
  std::string line;
  bool is_case;
  while (vp::next(line, is_case)) {
    if (is_case) continue;
    Toks t = vp::tokens(line);
    if (t.empty()) continue;
    const std::string& op = t[0];
    try {
      if (op == "idx" && t.size() == 3) op_idx(t);
      else if (op == "bandidx" && t.size() == 3) op_bandidx(t);
      else if (op == "cholR" || op == "cholF" || op == "cholptrR" || op == "cholptrF") op_chol(t, false);
      else if (op == "acholF") op_chol(t, true);
      else if (op == "fwdR" || op == "fwdF") op_fwd(t);
      else if (op == "actR" || op == "actF") op_act(t);
      else if (op == "scaleR" || op == "scaleF") op_scale(t);
      else if (op == "bdF") op_bd(t);
      else if (op == "sweepF") op_sweep(t);
      else if (op == "denseF") op_dense(t);
      else if (op == "homrunF") op_homrun(t);
      else if (op == "adj") op_adj(t);
      else std::cout << "bad-op\n";
    } catch (const std::exception& e) { std::cout << "bad-op\n"; }
    std::cout.flush();
  }
  return 0;
}
