// C07 correspondence harness: PointID comparisons, deg2gon, the value/variance a single angular
// observation gets through GKFparser::process_*/finish_obs (incl. Cluster::scaleCov), axes/angles
// -> consistent()/y_sign(), and remove_inconsistency()/return_inconsistency() on a parsed network.
// Line protocol: see lean/Driver/Input.lean (same operations, same output shapes).
// Oracle-only operation (no model side, compared with the mathematical reduction by tools/props/c07.py):
//   wrap <Direction|Angle|Azimuth> <cs 0..7> <rh 0|1> <val> <ori> <tx> <ty> <fx> <fy>
//     station at (0,0), target (bs) at (tx,ty), fs at (fx,fy), stand-point orientation <ori>; the real
//     LocalLinearization is applied; prints  lin <stored value> <rhs> <xNorthAngle>
#include <cmath>
#include <fstream>
#include <map>
#include <memory>
#include <vector>
#include <sstream>
#include <gnu_gama/gon2deg.h>
#include <gnu_gama/local/cluster.h>
#include <gnu_gama/local/local_linearization.h>
#include <gnu_gama/local/network.h>
#include <gnu_gama/local/pointid.h>
#include <gnu_gama/xml/gkfparser.h>
#include "proto.h"

using namespace GNU_gama::local;
using std::string;
using std::vector;

static bool unhex_bytes(const string& s, string& out)
{
  out.clear();
  if (s == "-") return true;
  if (s.size() % 2) return false;
  for (size_t i = 0; i < s.size(); i += 2) {
    unsigned v;
    if (std::sscanf(s.substr(i, 2).c_str(), "%2x", &v) != 1) return false;
    out.push_back(static_cast<char>(v));
  }
  return true;
}

static string hex_bytes(const string& s)
{
  if (s.empty()) return "-";
  string r;
  char buf[4];
  for (unsigned char c : s) { std::snprintf(buf, sizeof buf, "%02x", c); r += buf; }
  return r;
}

static string xml_attr(const string& s)
{
  string r;
  for (char c : s) {
    switch (c) {
      case '&': r += "&amp;"; break;
      case '<': r += "&lt;"; break;
      case '>': r += "&gt;"; break;
      case '"': r += "&quot;"; break;
      default: r.push_back(c);
    }
  }
  return r;
}

// returns false when the parser reported an error
static bool parse_text(LocalNetwork& IS, const string& text)
{
  try {
    GKFparser gkf(IS);
    gkf.xml_parse(text.c_str(), text.length(), 1);
    return true;
  } catch (...) {
    return false;
  }
}

static const char* kind_of(const Observation* o)
{
  if (dynamic_cast<const Direction*>(o)) return "direction";
  if (dynamic_cast<const Distance*>(o)) return "distance";
  if (dynamic_cast<const Angle*>(o)) return "angle";
  if (dynamic_cast<const H_Diff*>(o)) return "h_diff";
  if (dynamic_cast<const S_Distance*>(o)) return "s_distance";
  if (dynamic_cast<const Z_Angle*>(o)) return "z_angle";
  if (dynamic_cast<const X*>(o)) return "x";
  if (dynamic_cast<const Y*>(o)) return "y";
  if (dynamic_cast<const Z*>(o)) return "z";
  if (dynamic_cast<const Xdiff*>(o)) return "xdiff";
  if (dynamic_cast<const Ydiff*>(o)) return "ydiff";
  if (dynamic_cast<const Zdiff*>(o)) return "zdiff";
  if (dynamic_cast<const Azimuth*>(o)) return "azimuth";
  return "?";
}

static string show_net(LocalNetwork& IS)
{
  std::ostringstream s;
  bool first = true;
  for (PointData::iterator i = IS.PD.begin(); i != IS.PD.end(); ++i) {
    LocalPoint& p = (*i).second;
    if (!first) s << " ";
    first = false;
    s << vp::hex(p.test_xy() ? p.x() : 0.0) << " " << vp::hex(p.test_xy() ? p.y() : 0.0);
  }
  s << " | ";
  bool firstc = true;
  for (auto ci = IS.OD.clusters.begin(); ci != IS.OD.clusters.end(); ++ci) {
    if (!firstc) s << " ; ";
    firstc = false;
    first = true;
    for (auto m = (*ci)->observation_list.begin(); m != (*ci)->observation_list.end(); ++m) {
      if (!first) s << " ";
      first = false;
      s << vp::hex((*m)->value());
    }
    s << " :";
    // covariance matrix (dense) of the clusters whose <cov-mat> is given explicitly
    if (dynamic_cast<Vectors*>(*ci) || dynamic_cast<Coordinates*>(*ci)) {
      const auto& C = (*ci)->covariance_matrix;
      const int N = C.dim();
      for (int r = 1; r <= N; r++)
        for (int c = 1; c <= N; c++) s << " " << vp::hex(C(r, c));
    }
  }
  return s.str();
}

int main()
{
  string line;
  bool is_case;
  while (vp::next(line, is_case)) {
    if (is_case) continue;
    vector<string> t = vp::tokens(line);
    if (t.empty()) continue;
    if (t[0] == "pid" && t.size() == 3) {
      string a, b;
      if (!unhex_bytes(t[1], a) || !unhex_bytes(t[2], b)) { std::cout << "bad-op\n"; continue; }
      PointID p(a), q(b);
      // iid is private; black-box test: numeric ids sort before every non-numeric one, and "\x01" is the
      // smallest non-empty non-numeric id, so x is numeric iff x is not the empty id and x < PointID("\x01")
      bool pnum, qnum;
      pnum = p.str() != "" && (p < PointID("\x01"));
      qnum = q.str() != "" && (q < PointID("\x01"));
      std::cout << "ok " << (p < q) << " " << (q < p) << " " << (p == q) << " " << (p != q) << " " << pnum << " " << qnum
                << " " << hex_bytes(p.str()) << " " << hex_bytes(q.str()) << "\n";
    } else if (t[0] == "pid3" && t.size() == 4) {
      // transitivity needs three identifiers: all six ordered pairs of (a, b, c)
      string a, b, c;
      if (!unhex_bytes(t[1], a) || !unhex_bytes(t[2], b) || !unhex_bytes(t[3], c)) { std::cout << "bad-op\n"; continue; }
      PointID p(a), q(b), r(c);
      std::cout << "ok " << (p < q) << " " << (q < p) << " " << (q < r) << " " << (r < q) << " " << (p < r) << " " << (r < p) << "\n";
    } else if (t[0] == "pmap" && t.size() >= 2) {
      // what the library does with the order: a std::map<PointID,int> (PointData is one) filled in the given order;
      // prints its size, how many of the inserted identifiers find() finds again, whether iteration is ascending
      std::map<PointID, int> m;
      std::vector<PointID> ids;
      bool bad = false;
      for (size_t k = 1; k < t.size(); k++) {
        string a;
        if (!unhex_bytes(t[k], a)) { bad = true; break; }
        ids.push_back(PointID(a));
      }
      if (bad) { std::cout << "bad-op\n"; continue; }
      for (size_t k = 0; k < ids.size(); k++) m[ids[k]] = int(k);
      size_t found = 0;
      for (size_t k = 0; k < ids.size(); k++) if (m.find(ids[k]) != m.end()) found++;
      bool asc = true;
      for (std::map<PointID, int>::const_iterator i = m.begin(); i != m.end(); ++i) {
        std::map<PointID, int>::const_iterator j = i; ++j;
        if (j != m.end() && !(i->first < j->first)) asc = false;
      }
      std::cout << "ok " << m.size() << " " << found << " " << asc << "\n";
    } else if (t[0] == "dms" && t.size() == 2) {
      string a;
      if (!unhex_bytes(t[1], a)) { std::cout << "bad-op\n"; continue; }
      double g = 0;
      if (GNU_gama::deg2gon(a, g)) std::cout << "ok 1 " << vp::hex(g) << "\n";
      else std::cout << "ok 0\n";
    } else if (t[0] == "ang" && t.size() == 4) {
      string v, sd;
      if (!unhex_bytes(t[2], v) || !unhex_bytes(t[3], sd)) { std::cout << "bad-op\n"; continue; }
      string el;
      if (t[1] == "direction") el = "<direction to=\"B\"";
      else if (t[1] == "angle") el = "<angle bs=\"B\" fs=\"C\"";
      else if (t[1] == "z-angle") el = "<z-angle to=\"B\"";
      else if (t[1] == "azimuth") el = "<azimuth to=\"B\"";
      else { std::cout << "bad-op\n"; continue; }
      string text = "<?xml version=\"1.0\" ?>\n<gama-local><network><description>x</description>"
                    "<points-observations><point id=\"A\" x=\"0\" y=\"0\" z=\"0\" fix=\"xyz\"/>"
                    "<point id=\"B\" x=\"100\" y=\"50\" z=\"3\" adj=\"xyz\"/><point id=\"C\" x=\"10\" y=\"80\" z=\"1\" fix=\"xyz\"/>"
                    "<obs from=\"A\">" + el + " val=\"" + xml_attr(v) + "\" stdev=\"" + xml_attr(sd) + "\"/></obs>"
                    "</points-observations></network></gama-local>";
      std::unique_ptr<LocalNetwork> IS(new LocalNetwork);
      bool ok = parse_text(*IS, text);
      if (!ok || IS->OD.clusters.empty() || IS->OD.clusters.front()->observation_list.empty()) { std::cout << "none\n"; continue; }
      auto* cl = IS->OD.clusters.front();
      Observation* o = cl->observation_list.front();
      double g;
      bool deg = GNU_gama::deg2gon(v, g);
      std::cout << "ok " << vp::hex(o->value()) << " " << vp::hex(cl->covariance_matrix(1, 1)) << " " << deg << "\n";
    } else if (t[0] == "axes" && t.size() == 3) {
      string text = "<?xml version=\"1.0\" ?>\n<gama-local><network axes-xy=\"" + t[1] + "\" angles=\"" + t[2] + "\">"
                    "<description>x</description><points-observations><point id=\"A\" x=\"0\" y=\"0\" fix=\"xy\"/>"
                    "</points-observations></network></gama-local>";
      std::unique_ptr<LocalNetwork> IS(new LocalNetwork);
      bool ok = parse_text(*IS, text);
      if (!ok || IS->PD.empty()) { std::cout << "error\n"; continue; }
      std::cout << "ok " << IS->consistent() << " " << vp::hex(IS->y_sign()) << " " << IS->PD.right_handed_coordinates()
                << " " << IS->PD.left_handed_coordinates() << "\n";
    } else if (t[0] == "wrap" && t.size() == 10) {
      try {
        PointData PD;
        ObservationData OD;
        PD.local_coordinate_system = LocalCoordinateSystem::CS(std::stoi(t[2]));
        if (t[3] == "1") PD.setAngularObservations_Righthanded();
        else             PD.setAngularObservations_Lefthanded();
        const char* ids[3] = {"S", "T", "F"};
        double xs[3] = {0.0, vp::unhex(t[6]), vp::unhex(t[8])};
        double ys[3] = {0.0, vp::unhex(t[7]), vp::unhex(t[9])};
        for (int k = 0; k < 3; k++) {
          LocalPoint& p = PD[PointID(ids[k])];
          p.set_xy(xs[k], ys[k]);
          p.set_fixed_xy();
        }
        StandPoint sp(&OD);
        sp.station = PointID("S");
        sp.set_orientation(vp::unhex(t[5]));
        LocalLinearization lin(PD, 10);
        std::unique_ptr<Observation> o;
        double val = vp::unhex(t[4]);
        if      (t[1] == "Direction") o.reset(new Direction(PointID("S"), PointID("T"), val));
        else if (t[1] == "Angle")     o.reset(new Angle(PointID("S"), PointID("T"), PointID("F"), val));
        else if (t[1] == "Azimuth")   o.reset(new Azimuth(PointID("S"), PointID("T"), val));
        else { std::cout << "bad-op\n"; continue; }
        o->set_cluster(&sp);
        o->accept(&lin);
        std::cout << "lin " << vp::hex(o->value()) << " " << vp::hex(lin.rhs) << " " << vp::hex(PD.xNorthAngle()) << "\n";
        sp.observation_list.clear();
      } catch (...) {
        std::cout << "throw\n";
      }
    } else if (t[0] == "flip" && t.size() >= 2) {
      std::unique_ptr<LocalNetwork> IS(new LocalNetwork);
      std::ifstream inp(t[1]);
      std::stringstream ss;
      ss << inp.rdbuf();
      if (!parse_text(*IS, ss.str())) { std::cout << "error\n"; continue; }
      IS->remove_inconsistency();
      string s1 = show_net(*IS);
      IS->remove_inconsistency();
      string s2 = show_net(*IS);
      IS->return_inconsistency();
      string s3 = show_net(*IS);
      std::cout << "ok " << s1 << " # " << s2 << " # " << s3 << "\n";
    } else {
      std::cout << "bad-op\n";
    }
    std::cout.flush();
  }
  return 0;
}
