// Line-protocol helpers shared by the correspondence harnesses.
//  * doubles cross the protocol as 0x + 16 hex digits (IEEE bits), never as decimals
//  * a line "case <i>" is echoed verbatim (the runner splits outputs per case)
#ifndef GAMA_VERIF_PROTO_H
#define GAMA_VERIF_PROTO_H
#include <cstdint>
#include <cstdio>
#include <cstring>
#include <iostream>
#include <sstream>
#include <string>
#include <vector>

namespace vp {

inline std::string hex(double x) {
  std::uint64_t b; std::memcpy(&b, &x, 8);
  char buf[32]; std::snprintf(buf, sizeof buf, "0x%016llx", (unsigned long long)b);
  return buf;
}
inline double unhex(const std::string& s) {
  std::uint64_t b = std::stoull(s.substr(2), nullptr, 16);
  double x; std::memcpy(&x, &b, 8); return x;
}
inline std::vector<std::string> tokens(const std::string& line) {
  std::istringstream in(line); std::vector<std::string> t; std::string w;
  while (in >> w) t.push_back(w);
  return t;
}
// reads the next line; echoes and reports "case" lines through is_case
inline bool next(std::string& line, bool& is_case) {
  if (!std::getline(std::cin, line)) return false;
  is_case = line.compare(0, 5, "case ") == 0;
  if (is_case) { std::cout << line << "\n"; std::cout.flush(); }
  return true;
}
}  // namespace vp
#endif
