// Correspondence harness for C05: the real GNU_gama::local::LocalLinearization visitor on
// PointData / clusters / observations built in memory.
//
// protocol (stdin, one op per line; doubles as 0x<16 hex>):
//   cs <0..7> <rh 0|1>                          local_coordinate_system, right-handed angles
//   pt <id> <x> <y> <z> <sxy> <sz>              status letters: u unused, f fixed, a adjusted(free), c constrained
//   sp <k> <station id> <ori>                   StandPoint cluster k with orientation
//   obs <Class> <k|-> <from> <to> <fs|-> <val>  build the observation, accept(&loclin)
//   xnorth                                      PD.xNorthAngle()
//   idx <id> | idxo <k>                         index_x index_y index_z of a point | index_orientation
// output:
//   ok | ok <hex>
//   lin <value> <rhs> <size> (<index> <coeff>)* <maxn>   |  throw <kind>
#include <cstdio>
#include <iostream>
#include <map>
#include <memory>
#include <sstream>
#include <string>
#include <vector>
#include <gnu_gama/local/local_linearization.h>
#include <gnu_gama/local/gamadata.h>
#include <gnu_gama/local/cluster.h>
#include <gnu_gama/local/language.h>
#include "proto.h"

using namespace GNU_gama::local;

struct World {
  PointData PD;
  ObservationData OD;
  std::map<int, StandPoint*> sps;
  std::vector<std::unique_ptr<Observation>> keep;
  std::unique_ptr<LocalLinearization> lin;
  World() { lin.reset(new LocalLinearization(PD, 10)); }
  ~World() { for (auto& p : sps) { p.second->observation_list.clear(); delete p.second; } }
};

static void set_status(LocalPoint& p, char sxy, char sz)
{
  switch (sxy) { case 'f': p.set_fixed_xy(); break; case 'a': p.set_free_xy(); break;
                 case 'c': p.set_constrained_xy(); break; default: p.set_unused_xy(); }
  switch (sz)  { case 'f': p.set_fixed_z(); break; case 'a': p.set_free_z(); break;
                 case 'c': p.set_constrained_z(); break; default: p.set_unused_z(); }
}

static const char* kind_of(const std::string& what)
{
  if (what == T_POBS_zero_or_negative_slope_distance) return "zeroSlopeDistance";
  if (what == T_POBS_zero_or_negative_zenith_angle)   return "zeroZenithAngle";
  if (what == T_POBS_zero_or_negative_distance)       return "ctorNonPositive";
  if (what == T_GaMa_from_equals_to)                  return "ctorFromEqualsTo";
  if (what == T_POBS_bad_data)                        return "badData";
  return "other";
}

int main()
{
  set_gama_language(en);
  std::unique_ptr<World> w(new World);
  std::string line;
  bool is_case;
  while (vp::next(line, is_case)) {
    if (is_case) { w.reset(new World); continue; }
    std::vector<std::string> t = vp::tokens(line);
    if (t.empty()) continue;
    try {
      if (t[0] == "cs" && t.size() == 3) {
        w->PD.local_coordinate_system = LocalCoordinateSystem::CS(std::stoi(t[1]));
        if (t[2] == "1") w->PD.setAngularObservations_Righthanded();
        else             w->PD.setAngularObservations_Lefthanded();
        std::cout << "ok\n";
      } else if (t[0] == "xnorth") {
        std::cout << "ok " << vp::hex(w->PD.xNorthAngle()) << "\n";
      } else if (t[0] == "idx" && t.size() == 2) {
        auto it = w->PD.find(PointID(t[1]));
        if (it == w->PD.end()) std::cout << "int 0 0 0\n";
        else std::cout << "int " << it->second.index_x() << " " << it->second.index_y() << " "
                       << it->second.index_z() << "\n";
      } else if (t[0] == "idxo" && t.size() == 2) {
        auto it = w->sps.find(std::stoi(t[1]));
        if (it == w->sps.end()) std::cout << "bad-op\n";
        else std::cout << "int " << it->second->index_orientation() << "\n";
      } else if (t[0] == "pt" && t.size() == 7) {
        LocalPoint& p = w->PD[PointID(t[1])];
        p.set_xy(vp::unhex(t[2]), vp::unhex(t[3]));
        p.set_z(vp::unhex(t[4]));
        set_status(p, t[5][0], t[6][0]);
        std::cout << "ok\n";
      } else if (t[0] == "sp" && t.size() == 4) {
        int k = std::stoi(t[1]);
        StandPoint*& sp = w->sps[k];
        if (!sp) sp = new StandPoint(&w->OD);
        sp->station = PointID(t[2]);
        sp->set_orientation(vp::unhex(t[3]));
        std::cout << "ok\n";
      } else if (t[0] == "obs" && t.size() == 7) {
        const std::string& c = t[1];
        PointID from(t[3]), to(t[4]);
        double val = vp::unhex(t[6]);
        Observation* o = nullptr;
        if      (c == "Direction")  o = new Direction(from, to, val);
        else if (c == "Distance")   o = new Distance(from, to, val);
        else if (c == "Angle")      o = new Angle(from, to, PointID(t[5]), val);
        else if (c == "Azimuth")    o = new Azimuth(from, to, val);
        else if (c == "S_Distance") o = new S_Distance(from, to, val);
        else if (c == "Z_Angle")    o = new Z_Angle(from, to, val);
        else if (c == "H_Diff")     o = new H_Diff(from, to, val);
        else if (c == "X")          o = new X(from, val);
        else if (c == "Y")          o = new Y(from, val);
        else if (c == "Z")          o = new Z(from, val);
        else if (c == "Xdiff")      o = new Xdiff(from, to, val);
        else if (c == "Ydiff")      o = new Ydiff(from, to, val);
        else if (c == "Zdiff")      o = new Zdiff(from, to, val);
        else { std::cout << "bad-op\n"; continue; }
        w->keep.emplace_back(o);
        if (t[2] != "-") {
          auto it = w->sps.find(std::stoi(t[2]));
          if (it == w->sps.end()) { std::cout << "bad-op\n"; continue; }
          o->set_cluster(it->second);
        }
        o->accept(w->lin.get());
        const LocalLinearization& L = *w->lin;
        std::cout << "lin " << vp::hex(o->value()) << " " << vp::hex(L.rhs) << " " << L.size;
        for (long i = 0; i < L.size; i++) std::cout << " " << L.index[i] << " " << vp::hex(L.coeff[i]);
        std::cout << " " << L.unknowns() << "\n";
      } else std::cout << "bad-op\n";
    }
    catch (const GNU_gama::local::Exception& e) { std::cout << "throw " << kind_of(e.what()) << "\n"; }
    catch (const std::exception& e)             { std::cout << "throw std\n"; }
  }
  return 0;
}
