// C13 correspondence harness: the real GKFparser followed by the real LocalNetwork::export_xml, in-process
// (no adjustment in between: what is exported is exactly what the parser stored).
//
//   obs <hex of a complete gkf document> <model operands…>   -> ok <hex of the exported document> | throw <kind> <hex text>
//   net <hex of a complete gkf document> <model operands…>   -> the same after LocalNetwork::remove_inconsistency(),
//                                                                 which gama-local calls after reading its input
//
// The model operands (cluster station and the attribute lists) are for the Lean driver; the harness parses the document.
#include "proto.h"
#include <gnu_gama/local/network.h>
#include <gnu_gama/xml/gkfparser.h>

static std::string hexs(const std::string& s) {
  if (s.empty()) return "-";
  static const char* d = "0123456789abcdef";
  std::string r;
  for (unsigned char c : s) { r += d[c >> 4]; r += d[c & 15]; }
  return r;
}
static std::string unhexs(const std::string& h) {
  if (h == "-") return "";
  std::string r;
  for (size_t i = 0; i + 1 < h.size(); i += 2) r += char(std::stoi(h.substr(i, 2), nullptr, 16));
  return r;
}

int main() {
  std::string line; bool is_case;
  while (vp::next(line, is_case)) {
    if (is_case) continue;
    auto t = vp::tokens(line);
    if (t.empty()) continue;
    if ((t[0] == "obs" || t[0] == "dh" || t[0] == "net") && t.size() >= 2) {
      const std::string doc = unhexs(t[1]);
      try {
        GNU_gama::local::LocalNetwork lnet;
        GNU_gama::local::GKFparser gkf(lnet);
        gkf.xml_parse(doc.c_str(), int(doc.size()), 1);
        if (t[0] == "net") lnet.remove_inconsistency();
        std::cout << "ok " << hexs(lnet.export_xml()) << "\n";
      } catch (const GNU_gama::local::ParserException& e) {
        std::cout << "throw Parser " << hexs(e.what()) << "\n";
      } catch (const GNU_gama::local::Exception& e) {
        std::cout << "throw Exception " << hexs(e.what()) << "\n";
      } catch (const std::exception& e) {
        std::cout << "throw std " << hexs(e.what()) << "\n";
      } catch (...) {
        std::cout << "throw unknown -\n";
      }
    } else {
      std::cout << "bad-op\n";
    }
    std::cout.flush();
  }
  return 0;
}
