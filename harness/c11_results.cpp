// C11 sanitizer harness for the other XML readers inside the property's statement:
//   LocalNetworkAdjustmentResults::read_xml / read_html   (adjustment-result readers)
//   GNU_gama::DataParser                                  (gama-g3 input and adjustment-input data), fed line by
//                                                          line exactly as src/gama-g3.cpp does
// protocol:  xml <hex> | html <hex> | g3 <hex>
// output  :  O ok [summary] | O parser <line> <code> <hexmsg> | O exc <kind> | O timeout
#include <cstdio>
#include <cstring>
#include <cstdlib>
#include <csignal>
#include <unistd.h>
#include <sys/time.h>
#include <cstring>
#include <iostream>
#include <sstream>
#include <string>
#include <list>
#include <gnu_gama/xml/localnetwork_adjustment_results.h>
#include <gnu_gama/xml/dataparser.h>
#include <gnu_gama/exception.h>
#include "proto.h"

static std::string tohex(const std::string& s) {
  static const char* d = "0123456789abcdef";
  std::string r;
  for (unsigned char c : s) { r += d[c >> 4]; r += d[c & 15]; }
  return r.empty() ? "-" : r;
}
static std::string unhexs(const std::string& h) {
  std::string r;
  if (h == "-") return r;
  for (size_t i = 0; i + 1 < h.size(); i += 2) r += char(std::stoi(h.substr(i, 2), nullptr, 16));
  return r;
}

// termination is judged by CPU time, not wall time (a loaded machine must not look like a hang):
// ITIMER_PROF counts the user+system CPU time of this process and raises SIGPROF when it is used up
static void cpu_limit(int seconds) {
  struct itimerval t;
  std::memset(&t, 0, sizeof t);
  t.it_value.tv_sec = seconds;
  setitimer(ITIMER_PROF, &t, nullptr);
}
static void on_alarm(int) {
  static const char m[] = "O timeout\n";
  ssize_t r = write(1, m, sizeof m - 1); (void)r;
  _exit(88);
}

template <typename F> static void guarded(F f) {
  try { f(); }
  catch (const GNU_gama::Exception::parser& e) {
    std::cout << "O parser " << e.line << " " << e.error_code << " " << tohex(e.str) << "\n";
  }
  catch (const GNU_gama::Exception::string& e) { std::cout << "O exc gama::Exception::string " << tohex(e.str) << "\n"; }
  catch (const GNU_gama::Exception::matvec& e) { std::cout << "O exc gama::Exception::matvec\n"; }
  catch (const std::bad_alloc&) { std::cout << "O exc bad_alloc\n"; }
  catch (const std::exception& e) { std::cout << "O exc std::exception " << tohex(e.what()) << "\n"; }
  catch (...) { std::cout << "O exc unknown\n"; }
}

int main()
{
  std::signal(SIGPROF, on_alarm);
  std::string line;
  bool is_case;
  while (vp::next(line, is_case)) {
    if (is_case) continue;
    std::vector<std::string> t = vp::tokens(line);
    if (t.size() != 2) { std::cout << "bad-op\n"; continue; }
    std::string doc = unhexs(t[1]);
    std::cout.flush();
    cpu_limit(10);
    if (t[0] == "xml" || t[0] == "html") {
      const bool html = t[0] == "html";
      guarded([&] {
        GNU_gama::LocalNetworkAdjustmentResults res;
        std::istringstream in(doc);
        if (html) res.read_html(in); else res.read_xml(in);
        // touch what the consumers read, so that a wrongly sized buffer is noticed by the sanitizer
        double s = 0;
        for (const auto& p : res.adjusted_points) s += p.x + p.y + p.z + p.indx + p.indy + p.indz;
        const int d = res.cov.dim();
        for (int i = 1; i <= d; i++) for (int j = i; j <= d && j <= i + res.cov.bandWidth(); j++) s += res.cov(i, j);
        for (const auto& o : res.obslist) s += o.obs + o.adj;
        std::cout << "O ok points=" << res.adjusted_points.size() << " dim=" << d << " obs=" << res.obslist.size()
                  << (s == s ? "" : " nan") << "\n";
      });
    } else if (t[0] == "g3") {
      guarded([&] {
        std::list<GNU_gama::DataObject::Base*> objects;
        {
          GNU_gama::DataParser parser(objects);
          std::istringstream in(doc);
          std::string text;
          try {
            while (std::getline(in, text)) {
              parser.xml_parse(text.c_str(), (int)text.length(), 0);
              parser.xml_parse("\n", 1, 0);
            }
            parser.xml_parse("", 0, 1);
          } catch (...) { for (auto* o : objects) delete o; throw; }
        }
        std::cout << "O ok objects=" << objects.size() << "\n";
        for (auto* o : objects) delete o;
      });
    } else std::cout << "bad-op\n";
    cpu_limit(0);
    std::cout.flush();
  }
  return 0;
}
