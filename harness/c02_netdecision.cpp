// Correspondence harness for the decision layer (C02/C20): the REAL LocalNetwork::vyrovnani_ /
// null_space / GeneralParameters run on a network parsed from a .gkf, with the solver object
// replaced by a scripted one (test double deriving from AdjBaseSparse) whose answers are looked up
// by the current configuration of the network.  Lean side: lean/Driver/NetDecision.lean runs
// Gama.NetDecision.decide on the same script.
//
// stdin (one op per line)
//   point <id> <xy> <z>     declared status (u|f|a|c); echoed check against the parsed PD at `run`
//   m0 <hex>                ignored here (the .gkf carries sigma-apr)
//   gkf <path>              parse the network
//   state <key> <unknowns> nobs=<k> npts=<k> defect=<d> flags=<i,i,…|-> qxx=<hex,…|-> q=<ok|K> r=<ok|K>
//                           scripted answers on the configuration <key> (= ';'-joined "id:xy z" of PD);
//                           <unknowns>, nobs, npts are the generator's PREDICTION of the project
//                           equations; the harness prints what the real project_equations() produced
//                           q / r: throw kind K of q_xx / of residuals(), sum_of_squares(), q_bb()
//   run                     GeneralParameters(IS, out) as gama-local calls it
//   sc <k> {<id> <xy> <ix> <iy>}*k <rows> <cols> <hex>*(rows*cols)
//                           the REAL (private) LocalNetwork::singular_coords(A) on a fresh network whose PD holds
//                           the k points (ids in ascending order) with the given xy status and index_x/index_y,
//                           and the dense matrix A (row major); prints
//                           `sing <0|1> <id:xy> … | <removed ids | ->`
// stdout
//   view <key> <unknowns T:id,…> nobs=<k> npts=<k> minn=<k>     at every reset of the solver (= every project_equations)
//   removed <id>:<code> …
//   verdict adjusted <d> | cannot <d> <0|1> <i:T:id,…> | exception <text>
#include <cstdio>
#include <cstdlib>
#include <fstream>
#include <iostream>
#include <map>
#include <memory>
#include <set>
#include <sstream>
#include <string>
#include <vector>
#include <gnu_gama/local/network.h>
#include <gnu_gama/local/language.h>
#include <gnu_gama/local/results/text/general_parameters.h>
#include <gnu_gama/xml/gkfparser.h>
#include "proto.h"

using namespace GNU_gama::local;
typedef GNU_gama::Exception::matvec MVE;
typedef GNU_gama::AdjBaseSparse<double, int, MVE, GNU_gama::AdjInputData> SparseBase;

struct Answers {
  int defect = 0;
  std::set<int> flags;
  std::vector<double> qxx;
  int qthrow = 0, rthrow = 0;     // 0 = answers, else GNU_gama::Exception code
};

static std::map<std::string, Answers> table;
static std::unique_ptr<LocalNetwork> IS;
static std::vector<std::string> views;
static int resets = 0;             // project_equations() calls of the current case (divergence guard)

static int kind_code(const std::string& k) {
  if (k == "ok") return 0;
  if (k == "BadRegularization") return GNU_gama::Exception::BadRegularization;
  if (k == "Singular") return GNU_gama::Exception::Singular;
  if (k == "BadRank") return GNU_gama::Exception::BadRank;
  if (k == "NoConvergence") return GNU_gama::Exception::NoConvergence;
  return GNU_gama::Exception::ZeroDivision;
}
static const char* kind_name(int e) {
  switch (e) {
    case GNU_gama::Exception::BadRegularization: return "BadRegularization";
    case GNU_gama::Exception::Singular: return "Singular";
    case GNU_gama::Exception::BadRank: return "BadRank";
    case GNU_gama::Exception::NoConvergence: return "NoConvergence";
    case GNU_gama::Exception::ZeroDivision: return "ZeroDivision";
  }
  return "Other";
}

static char st_xy(const LocalPoint& p) { return p.fixed_xy() ? 'f' : p.constrained_xy() ? 'c' : p.free_xy() ? 'a' : 'u'; }
static char st_z(const LocalPoint& p) { return p.fixed_z() ? 'f' : p.constrained_z() ? 'c' : p.free_z() ? 'a' : 'u'; }

static std::string key_of() {
  std::string k;
  for (PointData::const_iterator i = IS->PD.begin(); i != IS->PD.end(); ++i) {
    // points without any active coordinate do not take part (this also skips the default point with an
    // empty identifier that test_abs_term() inserts through PD[m->to()] for coordinate observations)
    if (st_xy(i->second) == 'u' && st_z(i->second) == 'u') continue;
    if (!k.empty()) k += ";";
    k += i->first.str() + ":" + st_xy(i->second) + st_z(i->second);
  }
  return k.empty() ? "-" : k;
}

struct GamaVerifProbe {
  static void set_solver(LocalNetwork& n, LocalNetwork::AdjBase* s) { delete n.least_squares; n.least_squares = s; }
  static int unknowns(LocalNetwork& n) { return n.pocet_neznamych_; }
  static int nobs(LocalNetwork& n) { return n.pocmer_; }
  static int npts(LocalNetwork& n) { return n.pocbod_; }
  static int minn(LocalNetwork& n) { return n.min_n_; }
  static bool singular(LocalNetwork& n, const GNU_gama::local::Mat& A) { return n.singular_coords(A); }
  static std::string unknown_list(LocalNetwork& n) {
    std::string s;
    for (size_t i = 0; i < n.unknowns_.size(); i++) {
      if (i) s += ",";
      s += std::string(1, n.unknowns_[i].type) + ":" + n.unknowns_[i].pid.str();
    }
    return s.empty() ? "-" : s;
  }
};

class Scripted : public SparseBase {
  GNU_gama::Vec<double, int, MVE> x_, r_;
  const Answers* cur = nullptr;
  Answers none;
  std::string key;
  bool logged = false;
  // min_x() is the last statement of project_equations() that touches the solver: log the view there
  void log() {
    if (logged) return;
    logged = true;
    std::ostringstream o;
    o << "view " << key << " " << GamaVerifProbe::unknown_list(*IS) << " nobs=" << GamaVerifProbe::nobs(*IS)
      << " npts=" << GamaVerifProbe::npts(*IS);
    views.push_back(o.str());
  }
  void thr(int code) const { if (code) throw MVE(code, "scripted"); }
public:
  void reset(const GNU_gama::AdjInputData* data) override {
    // a removal loop that does not terminate (C20_removal_terminates: at most actives+1 rounds, <= 9 here) must
    // not hang the check: report and leave
    if (++resets > 500) {
      std::cout << "diverged project_equations() called more than 500 times on " << key_of() << "\n";
      std::cout.flush();
      std::_Exit(3);
    }
    SparseBase::reset(data);
    key = key_of();
    auto it = table.find(key);
    cur = it == table.end() ? &none : &it->second;
    if (it == table.end()) views.push_back("unscripted " + key);
    logged = false;
    int m = data->mat() ? data->mat()->rows() : 0;
    int n = data->mat() ? data->mat()->columns() : 0;
    x_.reset(n); x_.set_zero(); r_.reset(m); r_.set_zero();
  }
  const GNU_gama::Vec<double, int, MVE>& unknowns() override { thr(cur->qthrow); return x_; }
  const GNU_gama::Vec<double, int, MVE>& residuals() override { thr(cur->rthrow); return r_; }
  double sum_of_squares() override { thr(cur->rthrow); return 0; }
  int defect() override { return cur->defect; }
  double q_xx(int i, int j) override {
    thr(cur->qthrow);
    if (i == j && i >= 1 && i <= (int)cur->qxx.size()) return cur->qxx[i - 1];
    return 0;
  }
  double q_bb(int, int) override { thr(cur->rthrow); return 0.5; }
  double q_bx(int, int) override { return 0; }
  bool lindep(int i) override { return cur->flags.count(i) != 0; }
  void min_x() override { log(); }
  void min_x(int, int[]) override { log(); }
};

static const char* rm_name(LocalNetwork::rm_points c) {
  switch (c) {
    case LocalNetwork::rm_missing_xyz: return "missing_xyz";
    case LocalNetwork::rm_missing_xy: return "missing_xy";
    case LocalNetwork::rm_missing_z: return "missing_z";
    case LocalNetwork::rm_singular_xy: return "singular_xy";
    case LocalNetwork::rm_singular_z: return "singular_z";
    case LocalNetwork::rm_huge_cov_xyz: return "huge_cov_xyz";
    case LocalNetwork::rm_huge_cov_xy: return "huge_cov_xy";
    case LocalNetwork::rm_huge_cov_z: return "huge_cov_z";
  }
  return "?";
}

static void run() {
  std::string verdict;
  std::ostringstream out;
  try {
    bool ok = GeneralParameters(IS.get(), out);
    if (ok) {
      verdict = "verdict adjusted " + std::to_string(IS->null_space());
    } else {
      std::string text = out.str();
      int d = 0;
      size_t p = text.find(T_GaMa_Free_network_defect_is);
      if (p != std::string::npos) d = std::atoi(text.c_str() + p + std::string(T_GaMa_Free_network_defect_is).size());
      bool ne = text.find(std::string(T_GaMa_not_enough_constrained_points) + ".") != std::string::npos;
      std::string lst;
      for (int i = 1; i <= IS->unknowns_count(); i++)
        if (IS->lindep(i)) {
          if (!lst.empty()) lst += ",";
          lst += std::to_string(i) + ":" + std::string(1, IS->unknown_type(i)) + ":" + IS->unknown_pointid(i).str();
        }
      verdict = "verdict cannot " + std::to_string(d) + " " + (ne ? "1" : "0") + " " + (lst.empty() ? "-" : lst);
    }
  } catch (const MVE& e) {
    verdict = std::string("verdict exception matvec:") + kind_name(e.error());
  } catch (const GNU_gama::local::Exception& e) {
    std::string w = e.what();
    if (w == T_GaMa_No_unknowns_defined) w = "noUnknowns";
    else if (w == T_GaMa_No_observations_available) w = "noObs";
    else if (w == T_GaMa_No_points_available) w = "noPoints";
    verdict = "verdict exception " + w;
  }
  for (auto& v : views) std::cout << v << "\n";
  std::cout << "removed";
  auto c = IS->removed_code.begin();
  for (auto i = IS->removed_points.begin(); i != IS->removed_points.end(); ++i, ++c)
    std::cout << " " << i->str() << ":" << rm_name(*c);
  if (IS->removed_points.empty()) std::cout << " -";
  std::cout << "\n" << verdict << "\n";
}

int main() {
  set_gama_language(en);
  std::string line; bool is_case;
  while (vp::next(line, is_case)) {
    if (is_case) { IS.reset(); table.clear(); views.clear(); resets = 0; continue; }
    std::vector<std::string> t = vp::tokens(line);
    if (t.empty()) continue;
    try {
      if (t[0] == "point" || t[0] == "m0") continue;
      if (t[0] == "gkf") {
        IS.reset(new LocalNetwork);
        std::ifstream in(t.at(1));
        std::stringstream ss; ss << in.rdbuf();
        std::string text = ss.str();
        GKFparser gkf(*IS);
        gkf.xml_parse(text.c_str(), int(text.size()), 1);
        GamaVerifProbe::set_solver(*IS, new Scripted);
        IS->update_points();
        continue;
      }
      if (t[0] == "state") {
        Answers a;
        for (size_t k = 3; k < t.size(); k++) {
          size_t e = t[k].find('=');
          if (e == std::string::npos) continue;
          std::string name = t[k].substr(0, e), val = t[k].substr(e + 1);
          if (name == "defect") a.defect = std::stoi(val);
          else if (name == "flags") { if (val != "-") { std::stringstream s(val); std::string w; while (std::getline(s, w, ',')) a.flags.insert(std::stoi(w)); } }
          else if (name == "qxx") { if (val != "-") { std::stringstream s(val); std::string w; while (std::getline(s, w, ',')) a.qxx.push_back(vp::unhex(w)); } }
          else if (name == "q") a.qthrow = kind_code(val);
          else if (name == "r") a.rthrow = kind_code(val);
        }
        table[t.at(1)] = a;
        continue;
      }
      if (t[0] == "sc") {
        size_t k = std::stoul(t.at(1)), pos = 2;
        LocalNetwork net;
        for (size_t i = 0; i < k; i++) {
          std::string id = t.at(pos++);
          char st = t.at(pos++).at(0);
          int ix = std::stoi(t.at(pos++)), iy = std::stoi(t.at(pos++));
          LocalPoint p;
          p.set_xy(0, 0);
          switch (st) {
            case 'f': p.set_fixed_xy(); break;
            case 'a': p.set_free_xy(); break;
            case 'c': p.set_constrained_xy(); break;
            default:  p.set_unused_xy();
          }
          p.index_x() = ix; p.index_y() = iy;
          net.PD[PointID(id)] = p;
        }
        int rows = std::stoi(t.at(pos++)), cols = std::stoi(t.at(pos++));
        GNU_gama::local::Mat A(rows, cols);
        for (int r = 1; r <= rows; r++) for (int c = 1; c <= cols; c++) A(r, c) = vp::unhex(t.at(pos++));
        bool res = GamaVerifProbe::singular(net, A);
        std::cout << "sing " << (res ? 1 : 0);
        for (PointData::const_iterator i = net.PD.begin(); i != net.PD.end(); ++i)
          std::cout << " " << i->first.str() << ":" << st_xy(i->second);
        std::cout << " |";
        for (auto i = net.removed_points.begin(); i != net.removed_points.end(); ++i) std::cout << " " << i->str();
        if (net.removed_points.empty()) std::cout << " -";
        std::cout << "\n";
        std::cout.flush();
        continue;
      }
      if (t[0] == "run") { if (!IS) { std::cout << "bad-op\n"; continue; } run(); std::cout.flush(); continue; }
      std::cout << "bad-op\n";
    } catch (const std::exception& e) { std::cout << "bad-op " << e.what() << "\n"; }
    catch (...) { std::cout << "bad-op\n"; }
    std::cout.flush();
  }
  return 0;
}
