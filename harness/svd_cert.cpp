// Per-run CERTIFICATE of the singular value decomposition used by the svd solver.
//
// The Lean theorems about the svd solver (Props/C01|C03|C20/Svd.lean) take the factorisation
// A = U diag(W) V', V'V = I, orthonormal non-null columns of U as a HYPOTHESIS: convergence and
// accuracy of the Golub-Reinsch iteration (SVD::svd) are not proved.  This harness dumps the
// factors the REAL code computed so that tools/props/svd_cert.py can check that hypothesis
// numerically on every case.
//
// protocol (doubles as 0x+16 hex; problem definition as in adj_harness.cpp):
//   problem <m> <n> / row … / cov … / rhs … / minx none|all|<k> <i…> / end
//   factors     fresh GNU_gama::SVD<>(A): public accessors SVD_U / SVD_W / SVD_V, nullity, lindep
//               -> "U <m*n hex, row-major>", "W <n hex>", "V <n*n hex>", "int <nullity>",
//                  "flags <lindep(1..n)>"
//   adj         fresh AdjSVD configured like adj_harness ("new svd solver"), after solve(), read
//               through the GAMA_VERIF friend probe: the factors the solver really used
//               -> "W <…>", "invW <…>", "V <n*n hex>" (after min_subset_x), "int <defect>", "tol <hex>"
//               or "throw <kind>"
#include <cmath>
#include <memory>
#include <vector>
#include <string>
#include <iostream>
#include <matvec/matvec.h>
#include <matvec/svd.h>
#include <gnu_gama/adj/adj_svd.h>
#include "proto.h"

using namespace GNU_gama;
typedef GNU_gama::Exception::matvec MVE;

struct GamaVerifProbe {
  typedef SVD<double, int, MVE> S;
  typedef AdjSVD<double, int, MVE> A;
  static S& svd(A& a) { return a.svd; }
  static const Mat<double, int, MVE>& U(S& s) { return s.U_; }
  static const Vec<double, int, MVE>& W(S& s) { return s.W_; }
  static const Mat<double, int, MVE>& V(S& s) { return s.V_; }
  static const Vec<double, int, MVE>& invW(S& s) { return s.inv_W_; }
  static int defect(S& s) { return s.defect; }
  static double tol(S& s) { return s.W_tol; }
};

static const char* kind(int e) {
  switch (e) {
    case GNU_gama::Exception::BadRank: return "BadRank";
    case GNU_gama::Exception::BadIndex: return "BadIndex";
    case GNU_gama::Exception::Singular: return "Singular";
    case GNU_gama::Exception::BadRegularization: return "BadRegularization";
    case GNU_gama::Exception::NoConvergence: return "NoConvergence";
    case GNU_gama::Exception::ZeroDivision: return "ZeroDivision";
    case GNU_gama::Exception::NonPositiveDefinite: return "NonPositiveDefinite";
    case GNU_gama::Exception::NotImplemented: return "NotImplemented";
    case GNU_gama::Exception::StreamError: return "StreamError";
  }
  return "Other";
}

struct Problem {
  int m = 0, n = 0;
  std::vector<std::vector<std::pair<int, double>>> rows;
  std::vector<double> rhs;
  int minx_mode = 0;
  std::vector<int> minx;
};

static void out_mat(const char* tag, const Mat<double, int, MVE>& M) {
  std::cout << tag;
  for (int i = 1; i <= M.rows(); i++) for (int j = 1; j <= M.cols(); j++) std::cout << " " << vp::hex(M(i, j));
  std::cout << "\n";
}
static void out_vec(const char* tag, const Vec<double, int, MVE>& v) {
  std::cout << tag;
  for (int i = 1; i <= v.dim(); i++) std::cout << " " << vp::hex(v(i));
  std::cout << "\n";
}

int main() {
  std::unique_ptr<Problem> P;
  bool defining = false;
  std::string line; bool is_case;
  while (vp::next(line, is_case)) {
    if (is_case) { P.reset(); defining = false; continue; }
    std::vector<std::string> t = vp::tokens(line);
    if (t.empty()) continue;
    try {
      if (t[0] == "problem") { P.reset(new Problem); P->m = std::stoi(t.at(1)); P->n = std::stoi(t.at(2)); defining = true; continue; }
      if (defining) {
        if (t[0] == "row") { int k = std::stoi(t.at(1)); std::vector<std::pair<int, double>> r; for (int i = 0; i < k; i++) r.push_back({std::stoi(t.at(2 + 2 * i)), vp::unhex(t.at(3 + 2 * i))}); P->rows.push_back(r); }
        else if (t[0] == "cov") { /* unit covariance expected; ignored */ }
        else if (t[0] == "rhs") { for (size_t i = 1; i < t.size(); i++) P->rhs.push_back(vp::unhex(t[i])); }
        else if (t[0] == "minx") { if (t.at(1) == "none") P->minx_mode = 0; else if (t[1] == "all") P->minx_mode = 1; else { P->minx_mode = 2; for (int k = 0; k < std::stoi(t[1]); k++) P->minx.push_back(std::stoi(t.at(2 + k))); } }
        else if (t[0] == "end") {
          defining = false;
          bool good = (int)P->rows.size() == P->m && (int)P->rhs.size() == P->m;
          std::cout << (good ? "ok\n" : "bad-op\n"); if (!good) P.reset();
        }
        else std::cout << "bad-op\n";
        continue;
      }
      if (!P) { std::cout << "bad-op\n"; continue; }
      Mat<> A(P->m, P->n); A.set_zero();
      Vec<> b(P->m);
      for (int i = 1; i <= P->m; i++) { b(i) = P->rhs[i - 1]; for (auto& e : P->rows[i - 1]) A(i, e.first) = e.second; }
      if (t[0] == "factors") {
        try {
          SVD<double, int, MVE> s(A);
          s.decompose();
          out_mat("U", s.SVD_U()); out_vec("W", s.SVD_W()); out_mat("V", s.SVD_V());
          std::cout << "int " << s.nullity() << "\n";
          std::cout << "flags";
          for (int i = 1; i <= P->n; i++) std::cout << " " << (s.lindep(i) ? 1 : 0);
          std::cout << "\n";
        } catch (const MVE& e) { std::cout << "throw " << kind(e.error()) << "\n"; }
      } else if (t[0] == "adj") {
        try {
          AdjSVD<double, int, MVE> a;
          if (P->minx_mode == 1) a.min_x();
          else if (P->minx_mode == 2) a.min_x((int)P->minx.size(), P->minx.data());
          a.reset(A, b);
          a.solve();
          auto& s = GamaVerifProbe::svd(a);
          out_vec("W", GamaVerifProbe::W(s)); out_vec("invW", GamaVerifProbe::invW(s));
          out_mat("V", GamaVerifProbe::V(s));
          std::cout << "int " << GamaVerifProbe::defect(s) << "\n";
          std::cout << "tol " << vp::hex(GamaVerifProbe::tol(s)) << "\n";
        } catch (const MVE& e) { std::cout << "throw " << kind(e.error()) << "\n"; }
      } else std::cout << "bad-op\n";
    } catch (const std::exception& e) { std::cout << "bad-op\n"; }
    std::cout.flush();
  }
  return 0;
}
