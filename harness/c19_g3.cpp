// Correspondence harness for C19: builds a g3::Model from a g3 XML document (one line),
// runs Model::update_linearization() and prints what the Lean model recomputes:
//   data ...   the inputs as the real parser / Point::set_xyz stored them (points, observations,
//              cluster covariances, apriori sd, tol_abs)
//   res ...    NEU frames, Parameter::index(), dm_rows/dm_cols/dm_floats, par_list, minx,
//              the project equations (sparse rows, rhs), the cofactor blocks
// further ops:
//   adjrt      AdjInputData::write_xml (precision 17) -> DataParser (adj-input-data) -> structural
//              comparison with the original; prints the SAX events of the written text (ev ...),
//              and the AdjInputData the real reader produced (rd ...)
//   homog            (after xml) a fresh Adj (gso) on a bit-exact copy of the model's adj_input_data: prints the
//              homogenised system A_dot, b_dot of Adj::init_least_squares (`hom …` lines) — the cluster
//              cofactors through CovMat::cholDec + Adj::choldec + Adj::forwardSubstitution
//   adjfile <path>   reads an <adj-input-data> file (gama-g3 --project-equations) and adjusts it
//              with class Adj, all four algorithms: prints defect and x
//   gpt <role> xyz|blh a b c geoid dB dL sN sE sU iN iE iU corX corY corZ
//              a point for the next `lin` (role = frm | to | left | right | pt); states 0 unused 1 fixed 2 free
//              3 constr are set on the Parameter objects directly (no update_parameters), `ind` members as given
//   lin <type> v1 v2 v3 from_dh to_dh left_dh right_dh tol_abs
//              calls the real Model::linearization(T*) once on a fresh sparse matrix; prints what the
//              linearisation reads from the points (data gpt ...) and what it produced (res row / rhs / rej)
//   parse <document on one line>
//              DataParser only: prints the observations it built, record by record (data ob ...)
//   adjust[!] <algorithm>   (after xml; `!` = without the guard against finding G8) Model::update_adjustment() with that algorithm, then
//              Model::write_xml_adjustment_results_points(); prints what they read from class Adj
//              (data adj / data qxx / data ref) and what they computed: redundancy, aposteriori_sd, std_deviation,
//              std_variance (res stat) and per written <point>, in the order written: dn de du, X/Y/Z correction,
//              adjusted X Y Z, cnn..cuu, cxx..czz (res pt)
//   adjrt also: the dump written with precision(16) (what gama-g3 --project-equations uses), read back, written
//              again: `res adjrt16 stable|UNSTABLE <numbers> <changed by the round trip> <max relative change>`
// protocol:   xml <document on one line>  |  adjrt  |  adjust <alg>  |  adjfile <path>  |  gpt ...  |  lin ...  |  parse ...
#include <cstdio>
#include <cstring>
#include <cstdlib>
#include <cmath>
#include <iostream>
#include <fstream>
#include <sstream>
#include <string>
#include <memory>
#include <list>
#include <map>
#include <vector>
#include <algorithm>
#include <iomanip>
#include <gnu_gama/xml_expat.h>
#include <matvec/matvec.h>
#include <matvec/covmat.h>
#include <gnu_gama/exception.h>
#include <gnu_gama/sparse/smatrix.h>
#include <gnu_gama/sparse/sbdiagonal.h>
#include <gnu_gama/sparse/intlist.h>
#include <gnu_gama/adj/adj_input_data.h>
#include <gnu_gama/adj/adj.h>
#include <gnu_gama/e3.h>
#include <gnu_gama/ellipsoids.h>
#include <gnu_gama/model.h>
#include <gnu_gama/pointbase.h>
#include <gnu_gama/obsdata.h>
// harness only: the frame, dm_* and par_list are private members of g3::Point / g3::Model
#define private public
#include <gnu_gama/g3/g3_parameter.h>
#include <gnu_gama/g3/g3_point.h>
#include <gnu_gama/g3/g3_model.h>
#undef private
#include <gnu_gama/g3/g3_cluster.h>
#include <gnu_gama/xml/dataparser.h>
#include "proto.h"

using namespace GNU_gama;
using vp::hex;

static int st(const g3::Parameter& p)
{
  if (p.unused()) return 0;
  if (p.fixed())  return 1;
  if (p.constr()) return 3;
  return 2;   // free
}

static g3::Model* parse_model(const std::string& text, std::string& err)
{
  std::list<DataObject::Base*> objects;
  g3::Model* model = nullptr;
  try {
    DataParser parser(objects);
    parser.xml_parse(text.c_str(), int(text.length()), 0);
    parser.xml_parse("", 0, 1);
  }
  catch (const Exception::parser& p) { err = "parser " + p.str; }
  catch (const Exception::string& s) { err = "string " + s.str; }
  catch (...) { err = "unknown"; }
  for (auto o : objects) {
    if (auto m = dynamic_cast<DataObject::g3_model*>(o)) { if (!model) model = m->model; }
    delete o;
  }
  if (!err.empty()) { delete model; model = nullptr; }
  return model;
}

static void set_state(g3::Parameter& p, int s)
{
  switch (s) {
  case 0: p.set_unused(); break;
  case 1: p.set_fixed();  break;
  case 2: p.set_free();   break;
  default: p.set_constr(); break;
  }
}

static void print_obs(const g3::Observation* o)
{
  std::cout << "data ob " << (o->active() ? 1 : 0) << " ";
  if (auto v = dynamic_cast<const g3::Vector*>(o))
    std::cout << "vector " << v->from << " " << v->to << " " << hex(v->dx()) << " " << hex(v->dy()) << " "
              << hex(v->dz()) << " " << hex(v->from_dh) << " " << hex(v->to_dh);
  else if (auto x = dynamic_cast<const g3::XYZ*>(o))
    std::cout << "xyz " << x->id << " " << hex(x->x()) << " " << hex(x->y()) << " " << hex(x->z());
  else if (auto d = dynamic_cast<const g3::Distance*>(o))
    std::cout << "distance " << d->from << " " << d->to << " " << hex(d->obs()) << " " << hex(d->from_dh) << " " << hex(d->to_dh);
  else if (auto h = dynamic_cast<const g3::Height*>(o))
    std::cout << "height " << h->id << " " << hex(h->obs());
  else if (auto hd = dynamic_cast<const g3::HeightDiff*>(o))
    std::cout << "hdiff " << hd->from << " " << hd->to << " " << hex(hd->obs()) << " " << hex(hd->from_dh) << " " << hex(hd->to_dh);
  else if (auto a = dynamic_cast<const g3::Angle*>(o))
    std::cout << "angle " << a->from << " " << a->left << " " << a->right << " " << hex(a->obs()) << " "
              << hex(a->from_dh) << " " << hex(a->left_dh) << " " << hex(a->right_dh);
  else if (auto z = dynamic_cast<const g3::ZenithAngle*>(o))
    std::cout << "zenith " << z->from << " " << z->to << " " << hex(z->obs()) << " " << hex(z->from_dh) << " " << hex(z->to_dh);
  else if (auto az = dynamic_cast<const g3::Azimuth*>(o))
    std::cout << "azimuth " << az->from << " " << az->to << " " << hex(az->obs()) << " " << hex(az->from_dh) << " " << hex(az->to_dh);
  else std::cout << "other";
  std::cout << "\n";
}

// one direct call of Model::linearization(T*) on points built from `gpt` lines
static void run_lin(const std::vector<std::vector<std::string>>& gpts, const std::vector<std::string>& t)
{
  if (t.size() != 10) { std::cout << "bad-op\n"; return; }
  g3::Model m;
  for (const auto& g : gpts) {
    if (g.size() != 19) { std::cout << "bad-op\n"; return; }
    g3::Point* p = m.get_point(g[1]);
    double a = vp::unhex(g[3]), b = vp::unhex(g[4]), c = vp::unhex(g[5]);
    if (g[2] == "xyz") p->set_xyz(a, b, c); else p->set_blh(a, b, c);
    p->set_geoid(vp::unhex(g[6]));
    p->dB.set_init_value(vp::unhex(g[7]));
    p->dL.set_init_value(vp::unhex(g[8]));
    set_state(p->N, std::atoi(g[9].c_str()));
    set_state(p->E, std::atoi(g[10].c_str()));
    set_state(p->U, std::atoi(g[11].c_str()));
    p->N.set_index(std::size_t(std::atoi(g[12].c_str())));
    p->E.set_index(std::size_t(std::atoi(g[13].c_str())));
    p->U.set_index(std::size_t(std::atoi(g[14].c_str())));
    p->X_.set_correction(vp::unhex(g[15]));
    p->Y_.set_correction(vp::unhex(g[16]));
    p->Z_.set_correction(vp::unhex(g[17]));
    // g[18] reserved
  }
  for (auto i = m.points->begin(); i != m.points->end(); ++i) {
    g3::Point* p = *i;
    std::cout << "data gpt " << p->name << " " << hex(p->X()) << " " << hex(p->Y()) << " " << hex(p->Z()) << " "
              << hex(p->X.init_value()) << " " << hex(p->Y.init_value()) << " " << hex(p->Z.init_value()) << " "
              << hex(p->B()) << " " << hex(p->L()) << " " << hex(p->H()) << " " << hex(p->geoid()) << " "
              << hex(p->dB()) << " " << hex(p->dL()) << " "
              << hex(p->r11) << " " << hex(p->r12) << " " << hex(p->r13) << " "
              << hex(p->r21) << " " << hex(p->r22) << " " << hex(p->r23) << " "
              << hex(p->r31) << " " << hex(p->r32) << " " << hex(p->r33) << " "
              << st(p->N) << " " << st(p->E) << " " << st(p->U) << " "
              << p->N.ind << " " << p->E.ind << " " << p->U.ind << "\n";
  }
  double v[7];
  for (int k = 0; k < 7; k++) v[k] = vp::unhex(t[2 + k]);
  m.set_tol_abs(vp::unhex(t[9]));
  std::cout << "data lin " << t[1];
  for (int k = 0; k < 7; k++) std::cout << " " << hex(v[k]);
  std::cout << " " << hex(m.get_tol_abs()) << "\n";
  const std::string& ty = t[1];
  const int rows = (ty == "vector" || ty == "xyz") ? 3 : 1;
  m.A = new SparseMatrix<>(64, rows, 64);
  m.rhs.reset(rows);
  m.rhs_ind = 0;
  g3::Observation* obs = nullptr;
  bool need_ft = false, need_pt = false, need_lr = false;
  if (ty == "distance")     { auto o = new g3::Distance;    o->from = "frm"; o->to = "to"; o->set(v[0]); o->from_dh = v[3]; o->to_dh = v[4]; obs = o; need_ft = true; }
  else if (ty == "zenith")  { auto o = new g3::ZenithAngle; o->from = "frm"; o->to = "to"; o->set(v[0]); o->from_dh = v[3]; o->to_dh = v[4]; obs = o; need_ft = true; }
  else if (ty == "azimuth") { auto o = new g3::Azimuth;     o->from = "frm"; o->to = "to"; o->set(v[0]); o->from_dh = v[3]; o->to_dh = v[4]; obs = o; need_ft = true; }
  else if (ty == "hdiff")   { auto o = new g3::HeightDiff;  o->from = "frm"; o->to = "to"; o->set(v[0]); o->from_dh = v[3]; o->to_dh = v[4]; obs = o; need_ft = true; }
  else if (ty == "vector")  { auto o = new g3::Vector;      o->from = "frm"; o->to = "to"; o->set_dxyz(v[0], v[1], v[2]); o->from_dh = v[3]; o->to_dh = v[4]; obs = o; need_ft = true; }
  else if (ty == "xyz")     { auto o = new g3::XYZ;         o->id = "pt"; o->set_xyz(v[0], v[1], v[2]); obs = o; need_pt = true; }
  else if (ty == "height")  { auto o = new g3::Height;      o->id = "pt"; o->set(v[0]); obs = o; need_pt = true; }
  else if (ty == "angle")   { auto o = new g3::Angle;       o->from = "frm"; o->left = "left"; o->right = "right"; o->set(v[0]);
                              o->from_dh = v[3]; o->left_dh = v[5]; o->right_dh = v[6]; obs = o; need_lr = true; }
  else { std::cout << "bad-op\n"; return; }
  std::unique_ptr<g3::Observation> hold(obs);
  auto has = [&](const char* n) { return m.points->find(n) != nullptr; };
  if ((need_ft && !(has("frm") && has("to"))) || (need_pt && !has("pt")) || (need_lr && !(has("frm") && has("left") && has("right"))))
    { std::cout << "bad-op\n"; return; }
  if (auto o = dynamic_cast<g3::Distance*>(obs))         m.linearization(o);
  else if (auto o = dynamic_cast<g3::ZenithAngle*>(obs)) m.linearization(o);
  else if (auto o = dynamic_cast<g3::Azimuth*>(obs))     m.linearization(o);
  else if (auto o = dynamic_cast<g3::HeightDiff*>(obs))  m.linearization(o);
  else if (auto o = dynamic_cast<g3::Vector*>(obs))      m.linearization(o);
  else if (auto o = dynamic_cast<g3::XYZ*>(obs))         m.linearization(o);
  else if (auto o = dynamic_cast<g3::Height*>(obs))      m.linearization(o);
  else if (auto o = dynamic_cast<g3::Angle*>(obs))       m.linearization(o);
  for (int k = 1; k <= rows; k++) {
    double* n = m.A->begin(k); double* e = m.A->end(k);
    std::cout << "res row " << k << " " << (e - n);
    for (int* i = m.A->ibegin(k); n != e; n++, i++) std::cout << " " << *i << " " << hex(*n);
    std::cout << "\n";
  }
  std::cout << "res rhs " << rows;
  for (int k = 1; k <= rows; k++) std::cout << " " << hex(m.rhs(k));
  std::cout << "\n";
  std::cout << "res rej " << (obs->active() ? 0 : 1) << " " << m.rejected_obs.size() << "\n";
  m.rejected_obs.clear();      // holds a pointer to the observation deleted below
}

static void print_sparse(const char* pfx, const SparseMatrix<>* A)
{
  std::cout << pfx << " mat " << A->rows() << " " << A->columns() << " " << A->nonzeroes() << "\n";
  for (int k = 1; k <= A->rows(); k++) {
    double* n = A->begin(k); double* e = A->end(k);
    std::cout << pfx << " row " << k << " " << (e - n);
    for (int* i = A->ibegin(k); n != e; n++, i++) std::cout << " " << *i << " " << hex(*n);
    std::cout << "\n";
  }
}

static void print_adj(const char* pfx, const AdjInputData* d)
{
  if (d->mat()) print_sparse(pfx, d->mat()); else std::cout << pfx << " nomat\n";
  if (const BlockDiagonal<>* c = d->cov()) {
    std::cout << pfx << " cov " << c->blocks() << " " << c->nonzeroes() << "\n";
    for (int b = 1; b <= c->blocks(); b++) {
      std::cout << pfx << " blk " << c->dim(b) << " " << c->width(b);
      for (const double* m = c->begin(b); m != c->end(b); ++m) std::cout << " " << hex(*m);
      std::cout << "\n";
    }
  } else std::cout << pfx << " nocov\n";
  std::cout << pfx << " rhs " << d->rhs().dim();
  for (int i = 1; i <= int(d->rhs().dim()); i++) std::cout << " " << hex(d->rhs()(i));
  std::cout << "\n";
  if (const IntegerList<>* m = d->minx()) {
    std::cout << pfx << " minx " << m->dim();
    for (auto i = m->begin(); i != m->end(); ++i) std::cout << " " << *i;
    std::cout << "\n";
  } else std::cout << pfx << " nominx\n";
}

// SAX events of a text, numbers re-encoded: inside <flt> as hex doubles, elsewhere verbatim tokens
struct EvDump {
  std::vector<std::string> tags;
  static void start(void* u, const char* name, const char** atts)
  {
    EvDump* d = static_cast<EvDump*>(u);
    d->flush();
    std::cout << "ev S " << name << (atts && *atts ? " +atts" : "") << "\n";
    d->tags.push_back(name);
  }
  static void end(void* u, const char* name)
  {
    EvDump* d = static_cast<EvDump*>(u);
    d->flush();
    std::cout << "ev E " << name << "\n";
    d->tags.pop_back();
  }
  static void chars(void* u, const char* s, int len) { static_cast<EvDump*>(u)->buf.append(s, size_t(len)); }
  std::string buf;
  void flush()
  {
    if (buf.empty()) return;
    std::istringstream in(buf);
    std::string w; std::vector<std::string> ws;
    while (in >> w) ws.push_back(w);
    if (ws.empty()) std::cout << "ev W\n";
    else {
      std::cout << "ev T";
      for (auto& t : ws) {
        if (!tags.empty() && tags.back() == "flt") {
          std::istringstream n(t); double x;
          if (n >> x && n.eof()) std::cout << " " << hex(x); else std::cout << " ?" << t;
        }
        else std::cout << " " << t;
      }
      std::cout << "\n";
    }
    buf.clear();
  }
};

static void dump_events(const std::string& text)
{
  EvDump d;
  XML_Parser p = XML_ParserCreate(nullptr);
  XML_SetUserData(p, &d);
  XML_SetElementHandler(p, EvDump::start, EvDump::end);
  XML_SetCharacterDataHandler(p, EvDump::chars);
  if (!XML_Parse(p, text.c_str(), int(text.size()), 1)) std::cout << "ev ERROR\n";
  XML_ParserFree(p);
}

static bool same_adj(const AdjInputData* a, const AdjInputData* b, std::string& why)
{
  auto bits = [](double x, double y) { return std::memcmp(&x, &y, 8) == 0; };
  if (!a->mat() != !b->mat()) { why = "mat presence"; return false; }
  if (a->mat()) {
    const SparseMatrix<>*A = a->mat(), *B = b->mat();
    if (A->rows() != B->rows() || A->columns() != B->columns() || A->nonzeroes() != B->nonzeroes())
      { why = "mat header"; return false; }
    for (int k = 1; k <= A->rows(); k++) {
      if (A->size(k) != B->size(k)) { why = "row size " + std::to_string(k); return false; }
      for (int j = 0; j < A->size(k); j++)
        if (A->ibegin(k)[j] != B->ibegin(k)[j] || !bits(A->begin(k)[j], B->begin(k)[j]))
          { why = "row element " + std::to_string(k); return false; }
    }
  }
  if (!a->cov() != !b->cov()) { why = "cov presence"; return false; }
  if (a->cov()) {
    const BlockDiagonal<>*A = a->cov(), *B = b->cov();
    if (A->blocks() != B->blocks() || A->nonzeroes() != B->nonzeroes()) { why = "cov header"; return false; }
    for (int k = 1; k <= A->blocks(); k++) {
      if (A->dim(k) != B->dim(k) || A->width(k) != B->width(k)) { why = "block header"; return false; }
      for (long j = 0; j < A->end(k) - A->begin(k); j++)
        if (!bits(A->begin(k)[j], B->begin(k)[j])) { why = "block element"; return false; }
    }
  }
  if (a->rhs().dim() != b->rhs().dim()) { why = "rhs dim"; return false; }
  for (int i = 1; i <= int(a->rhs().dim()); i++) if (!bits(a->rhs()(i), b->rhs()(i))) { why = "rhs element"; return false; }
  if (!a->minx() != !b->minx()) { why = "minx presence"; return false; }
  if (a->minx()) {
    if (a->minx()->dim() != b->minx()->dim()) { why = "minx dim"; return false; }
    for (int i = 0; i < a->minx()->dim(); i++) if ((*a->minx())(i) != (*b->minx())(i)) { why = "minx element"; return false; }
  }
  return true;
}

static AdjInputData* read_adj(const std::string& text, std::list<DataObject::Base*>& objects, std::string& err)
{
  AdjInputData* res = nullptr;
  try {
    DataParser parser(objects);
    parser.xml_parse(text.c_str(), int(text.length()), 0);
    parser.xml_parse("", 0, 1);
  }
  catch (const Exception::parser& p) { err = "parser " + p.str; }
  catch (...) { err = "unknown"; }
  for (auto o : objects)
    if (auto a = dynamic_cast<DataObject::AdjInput*>(o)) { if (!res) res = a->data; }
  return res;
}

// every double of an adjustment input, in the order of the dump
static void adj_numbers(const AdjInputData* d, std::vector<double>& v)
{
  if (const SparseMatrix<>* A = d->mat())
    for (int k = 1; k <= A->rows(); k++) for (double* n = A->begin(k); n != A->end(k); ++n) v.push_back(*n);
  if (const BlockDiagonal<>* c = d->cov())
    for (int b = 1; b <= c->blocks(); b++) for (const double* m = c->begin(b); m != c->end(b); ++m) v.push_back(*m);
  for (int i = 1; i <= int(d->rhs().dim()); i++) v.push_back(d->rhs()(i));
}

static std::string dump_text(const AdjInputData* d, int prec)
{
  std::ostringstream out;
  out.precision(prec);
  out << DataObject::Base::xml_begin();
  d->write_xml(out);
  out << DataObject::Base::xml_end();
  return out.str();
}

// precision(16): rd (fmt x) = q x, fmt (q x) = fmt x, q (q x) = q x  — tested on every number of the dump
static void roundtrip16(const AdjInputData* d)
{
  std::string t1 = dump_text(d, 16);
  std::list<DataObject::Base*> o1, o2;
  std::string e1, e2;
  AdjInputData* q1 = read_adj(t1, o1, e1);
  if (!q1 || !e1.empty()) { std::cout << "res adjrt16 UNSTABLE 0 0 0x0000000000000000 read-failed\n"; for (auto o : o1) delete o; return; }
  std::string t2 = dump_text(q1, 16);
  AdjInputData* q2 = read_adj(t2, o2, e2);
  std::vector<double> a, b, c;
  adj_numbers(d, a); adj_numbers(q1, b);
  if (q2) adj_numbers(q2, c);
  bool stable = (t1 == t2) && q2 && e2.empty() && b.size() == a.size() && c.size() == b.size();
  long changed = 0; double rel = 0;
  for (size_t i = 0; i < a.size() && i < b.size(); i++) {
    if (std::memcmp(&a[i], &b[i], 8) != 0) { changed++; if (a[i] != 0) rel = std::max(rel, std::fabs((b[i] - a[i]) / a[i])); }
    if (i < c.size() && std::memcmp(&b[i], &c[i], 8) != 0) stable = false;
  }
  std::cout << "res adjrt16 " << (stable ? "stable" : "UNSTABLE") << " " << a.size() << " " << changed << " " << hex(rel) << "\n";
  for (auto o : o1) delete o;
  for (auto o : o2) delete o;
}


// read-only access to the homogenised system of class Adj (friend under -DGAMA_VERIF, adj.h)
struct GamaVerifProbe {
  static const GNU_gama::Mat<>& A_dot(const GNU_gama::Adj& a) { return a.A_dot; }
  static const GNU_gama::Vec<>& b_dot(const GNU_gama::Adj& a) { return a.b_dot; }
  static bool has_solver(const GNU_gama::Adj& a) { return a.least_squares != nullptr; }
};

static const char* mv_kind(int e) {
  switch (e) {
    case GNU_gama::Exception::BadRank: return "BadRank";
    case GNU_gama::Exception::BadIndex: return "BadIndex";
    case GNU_gama::Exception::Singular: return "Singular";
    case GNU_gama::Exception::BadRegularization: return "BadRegularization";
    case GNU_gama::Exception::NoConvergence: return "NoConvergence";
    case GNU_gama::Exception::ZeroDivision: return "ZeroDivision";
    case GNU_gama::Exception::NonPositiveDefinite: return "NonPositiveDefinite";
    case GNU_gama::Exception::NotImplemented: return "NotImplemented";
    case GNU_gama::Exception::StreamError: return "StreamError";
  }
  return "Other";
}

// the homogenised system class Adj builds from the model's own adjustment input (full solvers)
static void run_homog(g3::Model* m)
{
  std::string text = dump_text(m->adj_input_data, 17);      // bit-exact copy (`res adjrt same`)
  std::list<DataObject::Base*> objects;
  std::string err;
  AdjInputData* copy = read_adj(text, objects, err);
  if (!copy || !err.empty()) { std::cout << "hom throw copy-failed\n"; for (auto o : objects) delete o; return; }
  // the DataObject keeps owning the copy: ~Adj does not delete its data
  try {
    Adj adj;
    adj.set_algorithm(Adj::gso);
    adj.set(copy);
    bool solver_threw = false;
    try { adj.x(); }
    catch (const Exception::matvec& e) {
      // homogenisation precedes the solver: an exception with A_dot incomplete is the block Cholesky's
      if (int(GamaVerifProbe::b_dot(adj).dim()) != copy->mat()->rows() || !GamaVerifProbe::has_solver(adj)) { std::cout << "hom throw " << mv_kind(e.error()) << "\n"; throw 0; }
      solver_threw = true;
    }
    (void)solver_threw;
    const Mat<>& Ad = GamaVerifProbe::A_dot(adj); const Vec<>& bd = GamaVerifProbe::b_dot(adj);
    const int M = Ad.rows(), N = Ad.cols();
    std::cout << "hom dim " << M << " " << N << "\n";
    for (int i = 1; i <= M; i++) {
      std::cout << "hom row " << i;
      for (int j = 1; j <= N; j++) std::cout << " " << hex(Ad(i, j));
      std::cout << "\n";
    }
    std::cout << "hom rhs";
    for (int i = 1; i <= M; i++) std::cout << " " << hex(bd(i));
    std::cout << "\n";
  }
  catch (int) {}
  catch (const Exception::matvec& e) { std::cout << "hom throw " << mv_kind(e.error()) << "\n"; }
  catch (...) { std::cout << "hom throw unknown\n"; }
  for (auto o : objects) delete o;
}

// `guard`: do not enter update_adjustment when it would read adj->x()(0) (a point whose free height U has no
// column: finding G8, notes/proposed/C19-height-index-zero.diff) — the sanitizer would abort the harness; the check
// re-runs these cases one by one with `adjust!` (no guard), which shows the defect or, on a repaired tree, the result
static void run_adjust(g3::Model* m, const std::string& alg, bool guard)
{
  if (guard)
    for (auto i = m->points->begin(); i != m->points->end(); ++i)
      if ((*i)->U.free() && (*i)->U.index() == 0) {
        std::cout << "res adjust-skipped height-index-zero " << (*i)->name << "\n";
        return;
      }
  if      (alg == "envelope") m->set_algorithm(Adj::envelope);
  else if (alg == "gso")      m->set_algorithm(Adj::gso);
  else if (alg == "svd")      m->set_algorithm(Adj::svd);
  else if (alg == "cholesky") m->set_algorithm(Adj::cholesky);
  else { std::cout << "bad-op\n"; return; }
  std::ostringstream xml;
  try {
    m->update_adjustment();
    m->write_xml_adjustment_results_points(xml);
  }
  catch (const Exception::string& s) { std::cout << "throw string " << s.str << "\n"; return; }
  catch (const Exception::matvec& e) { std::cout << "throw matvec " << e.what() << "\n"; return; }
  catch (...) { std::cout << "throw unknown\n"; return; }
  const int n = m->dm_cols;
  const Vec<>& x = m->adj->x();
  std::cout << "data adj " << alg << " " << m->adj->defect() << " " << hex(m->adj->rtr()) << " " << n;
  for (int i = 1; i <= n; i++) std::cout << " " << hex(x(i));
  std::cout << "\n";
  std::cout << "data qxx " << n;
  for (int i = 1; i <= n; i++) for (int j = i; j <= n; j++) std::cout << " " << hex(m->adj->q_xx(i, j));
  std::cout << "\n";
  std::cout << "data ref " << (m->ref_stdev_apriori() ? 1 : 0) << "\n";
  std::cout << "res stat " << m->redundancy << " " << hex(m->aposteriori_sd) << " " << hex(m->std_deviation) << " "
            << hex(m->std_variance) << "\n";
  // the points in the order they were written
  std::string t = xml.str();
  size_t pos = 0;
  while ((pos = t.find("<id>", pos)) != std::string::npos) {
    size_t e = t.find("</id>", pos);
    if (e == std::string::npos) break;
    std::istringstream in(t.substr(pos + 4, e - pos - 4));
    std::string name; in >> name;
    pos = e;
    g3::Point* p = m->points->find(name);
    if (!p) { std::cout << "res pt " << name << " missing\n"; continue; }
    std::cout << "res pt " << name << " " << hex(p->N() * 1000) << " " << hex(p->E() * 1000) << " " << hex(p->U() * 1000) << " "
              << hex(p->X.correction()) << " " << hex(p->Y.correction()) << " " << hex(p->Z.correction()) << " "
              << hex(p->X()) << " " << hex(p->Y()) << " " << hex(p->Z()) << " " << hex(p->height.correction());
    if (!p->fixed_position())
      std::cout << " " << hex(p->cnn) << " " << hex(p->cne) << " " << hex(p->cnu) << " " << hex(p->cee) << " " << hex(p->ceu) << " "
                << hex(p->cuu) << " " << hex(p->cxx) << " " << hex(p->cxy) << " " << hex(p->cxz) << " " << hex(p->cyy) << " "
                << hex(p->cyz) << " " << hex(p->czz);
    else std::cout << " fixed";
    std::cout << "\n";
  }
}

int main()
{
  std::unique_ptr<g3::Model> model;
  std::vector<std::vector<std::string>> gpts;
  std::string line;
  bool is_case;
  while (vp::next(line, is_case)) {
    if (is_case) { model.reset(); gpts.clear(); continue; }
    std::string op = line.substr(0, line.find(' '));
    std::string arg = line.size() > op.size() ? line.substr(op.size() + 1) : "";
    if (op == "xml") {
      std::string err;
      model.reset(parse_model(arg, err));
      if (!model) { std::cout << "throw " << (err.empty() ? "no-model" : err) << "\n"; continue; }
      g3::Model* m = model.get();
      // ---- inputs as stored by the parser
      std::cout << "data sd " << hex(m->get_apriori_sd()) << " " << hex(m->get_tol_abs()) << "\n";
      try {
        m->update_linearization();
      }
      catch (const Exception::string& s) { std::cout << "throw string " << s.str << "\n"; model.reset(); continue; }
      catch (const Exception::matvec& e) { std::cout << "throw matvec " << e.what() << "\n"; model.reset(); continue; }
      catch (...) { std::cout << "throw unknown\n"; model.reset(); continue; }
      // points: after update_init (approximate coordinates of points given only through observations)
      for (auto i = m->points->begin(); i != m->points->end(); ++i) {
        g3::Point* p = *i;
        std::cout << "data pt " << p->name << " " << hex(p->B()) << " " << hex(p->L()) << " "
                  << hex(p->X()) << " " << hex(p->Y()) << " " << hex(p->Z()) << " " << hex(p->H()) << " "
                  << hex(p->has_geoid() ? p->geoid() : 0.0) << " " << p->has_xyz() << " " << p->has_blh() << " " << p->has_geoid()
                  << " " << st(p->N) << " " << st(p->E) << " " << st(p->U)
                  << " " << hex(p->dB()) << " " << hex(p->dL()) << "\n";
      }
      int ci = 0;
      for (auto c = m->obsdata.clusters.begin(); c != m->obsdata.clusters.end(); ++c, ++ci) {
        int nobs = 0, nact = 0;
        for (auto o : (*c)->observation_list) { nobs++; if (o->active()) nact++; }
        const CovMat<>& C = (*c)->covariance_matrix;
        std::cout << "data cl " << nobs << " " << nact << " " << C.dim() << " " << C.bandWidth();
        for (auto q = C.begin(); q != C.end(); ++q) std::cout << " " << hex(*q);
        std::cout << "\n";
        for (auto o : (*c)->observation_list) print_obs(o);
      }
      // ---- results
      for (auto i = m->points->begin(); i != m->points->end(); ++i) {
        g3::Point* p = *i;
        if (p->has_position())
          std::cout << "res frame " << p->name << " " << hex(p->r11) << " " << hex(p->r12) << " " << hex(p->r13) << " "
                    << hex(p->r21) << " " << hex(p->r22) << " " << hex(p->r23) << " "
                    << hex(p->r31) << " " << hex(p->r32) << " " << hex(p->r33) << "\n";
        std::cout << "res idx " << p->name << " " << p->N.index() << " " << p->E.index() << " " << p->U.index() << "\n";
      }
      std::cout << "res dm " << m->dm_rows << " " << m->dm_cols << " " << m->dm_floats << "\n";
      std::cout << "res par";
      for (auto q : *m->par_list) {
        for (auto i = m->points->begin(); i != m->points->end(); ++i) {
          g3::Point* p = *i;
          if (q == &p->N) std::cout << " " << p->name << ".N";
          if (q == &p->E) std::cout << " " << p->name << ".E";
          if (q == &p->U) std::cout << " " << p->name << ".U";
        }
      }
      std::cout << "\n";
      std::cout << "res act";
      for (auto c = m->obsdata.clusters.begin(); c != m->obsdata.clusters.end(); ++c)
        for (auto o : (*c)->observation_list) std::cout << " " << (o->active() ? 1 : 0);
      std::cout << "\n";
      print_adj("res", m->adj_input_data);
    }
    else if (op == "adjrt" && model) {
      std::ostringstream out;
      out.precision(17);
      out << DataObject::Base::xml_begin();
      model->write_xml_adjustment_input_data(out);
      out << DataObject::Base::xml_end();
      std::string text = out.str();
      dump_events(text);
      std::list<DataObject::Base*> objects;
      std::string err, why;
      AdjInputData* back = read_adj(text, objects, err);
      if (!err.empty() || !back) std::cout << "rd throw " << err << "\n";
      else {
        print_adj("rd", back);
        std::cout << "res adjrt " << (same_adj(model->adj_input_data, back, why) ? "same" : "DIFFERENT " + why) << "\n";
      }
      for (auto o : objects) delete o;
      roundtrip16(model->adj_input_data);
    }
    else if (op == "homog" && model) run_homog(model.get());
    else if (op == "adjust" && model) run_adjust(model.get(), arg, true);
    else if (op == "adjust!" && model) run_adjust(model.get(), arg, false);
    else if (op == "adjfile") {
      std::ifstream f(arg);
      std::string text((std::istreambuf_iterator<char>(f)), std::istreambuf_iterator<char>());
      std::list<DataObject::Base*> objects;
      std::string err;
      AdjInputData* d = read_adj(text, objects, err);
      if (!err.empty() || !d) { std::cout << "throw " << err << "\n"; }
      else {
        const Adj::algorithm algs[] = {Adj::envelope, Adj::gso, Adj::svd, Adj::cholesky};
        const char* names[] = {"envelope", "gso", "svd", "cholesky"};
        for (int a = 0; a < 4; a++) {
          // Adj::init deletes the data it held before: give every Adj its own copy
          std::list<DataObject::Base*> obj2;
          std::string e2;
          AdjInputData* copy = read_adj(text, obj2, e2);
          try {
            Adj adj;
            adj.set_algorithm(algs[a]);
            adj.set(copy);
            const Vec<>& x = adj.x();
            std::cout << "adj " << names[a] << " " << adj.defect() << " " << x.dim();
            for (int i = 1; i <= int(x.dim()); i++) std::cout << " " << hex(x(i));
            std::cout << "\n";
            adj.set(nullptr);     // Adj::init: delete data  (the copy)
            for (auto o : obj2) if (auto ai = dynamic_cast<DataObject::AdjInput*>(o)) ai->data = nullptr;
          }
          catch (const Exception::matvec& e) { std::cout << "adj " << names[a] << " throw matvec " << e.what() << "\n"; }
          catch (const Exception::string& s) { std::cout << "adj " << names[a] << " throw string " << s.str << "\n"; }
          catch (...) { std::cout << "adj " << names[a] << " throw unknown\n"; }
          for (auto o : obj2) delete o;
        }
      }
      for (auto o : objects) delete o;
    }
    else if (op == "gpt") gpts.push_back(vp::tokens(line));
    else if (op == "lin") {
      try { run_lin(gpts, vp::tokens(line)); }
      catch (const Exception::matvec& e) { std::cout << "throw matvec " << e.what() << "\n"; }
      catch (...) { std::cout << "throw unknown\n"; }
    }
    else if (op == "parse") {
      std::string err;
      std::unique_ptr<g3::Model> pm(parse_model(arg, err));
      if (!pm) { std::cout << "throw " << (err.empty() ? "no-model" : err) << "\n"; continue; }
      for (auto c = pm->obsdata.clusters.begin(); c != pm->obsdata.clusters.end(); ++c)
        for (auto o : (*c)->observation_list) print_obs(o);
    }
    else std::cout << "bad-op\n";
  }
  return 0;
}
