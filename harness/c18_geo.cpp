// Correspondence harness C18: GNU_gama::Ellipsoid / set(Ellipsoid*, gama_ellipsoid) /
// gon2deg, rad2deg_str, deg2gon, dms2rad, rad2dms / latitude / bearing_distance, distance /
// IsInteger, IsFloat.
// Links lib/gnu_gama/{ellipsoid,ellipsoids,gon2deg,latlong}.cpp and local/bearing.cpp.
//
// protocol (one op per line; doubles as 0x + 16 hex digits; strings: in = hex bytes,
// out = text with ' ' shown as '_'):
//   ell <id> | ellnum <k> | default | setab a b | setaf a f | setaf1 a f1   -> ok a b f | unknown
//   mnwvf b            -> ok M N W V F
//   blh2xyz b l h      -> ok x y z
//   xyz2blh x y z      -> ok b l h
//   rt b l h           -> ok x y z b' l' h'      (blh2xyz then xyz2blh)
//   gdg g sign prec    -> str <text> ; ok g' | false   (gon2deg_str then deg2gon)
//   dr x -> ok dms2rad(x) rad2dms(that) ;  rd r -> ok rad2dms(r) dms2rad(that)
//   gon2deg g sign prec | rad2deg r sign prec | latlong r prec   -> str <text>
//   deg2gon <hex>      -> ok g | false
//   dms2rad x | rad2dms x -> ok y
//   bd ya xa yb xb     -> ok bearing distance ;  dist ya xa yb xb -> ok d
//   isint <hex> | isfloat <hex>  -> flag 0|1
#include <cmath>
#include <string>
#include <gnu_gama/ellipsoid.h>
#include <gnu_gama/ellipsoids.h>
#include <gnu_gama/gon2deg.h>
#include <gnu_gama/latlong.h>
#include <gnu_gama/intfloat.h>
#include <gnu_gama/local/bearing.h>
#include "proto.h"

using namespace GNU_gama;

static std::string show(const std::string& s) {
  std::string r = s;
  for (char& c : r) if (c == ' ') c = '_';
  return r;
}
static std::string unhexstr(const std::string& h) {
  std::string r;
  for (size_t i = 0; i + 1 < h.size(); i += 2) r.push_back(char(std::stoi(h.substr(i, 2), nullptr, 16)));
  return r;
}

int main()
{
  Ellipsoid E;
  std::string line; bool is_case;
  while (vp::next(line, is_case)) {
    if (is_case) { E = Ellipsoid(); continue; }
    std::vector<std::string> t = vp::tokens(line);
    if (t.empty()) continue;
    const std::string& op = t[0];
    auto D = [&](size_t i) { return vp::unhex(t.at(i)); };
    auto abf = [&]() { std::cout << "ok " << vp::hex(E.a()) << " " << vp::hex(E.b()) << " " << vp::hex(E.f()) << "\n"; };
    if (op == "ell" && t.size() == 2) {
      gama_ellipsoid T = ellipsoid(t[1].c_str());
      if (set(&E, T)) std::cout << "unknown\n"; else abf();
    } else if (op == "ellnum" && t.size() == 2) {
      int k = std::stoi(t[1]);
      if (k < 0 || k > 1000 || set(&E, gama_ellipsoid(k))) std::cout << "unknown\n";
      else { std::cout << "id " << gama_ellipsoid_id[k] << "\n"; abf(); }
    } else if (op == "default" && t.size() == 1) { E = Ellipsoid(); abf(); }
    else if (op == "setab"  && t.size() == 3) { E.set_ab (D(1), D(2)); abf(); }
    else if (op == "setaf"  && t.size() == 3) { E.set_af (D(1), D(2)); abf(); }
    else if (op == "setaf1" && t.size() == 3) { E.set_af1(D(1), D(2)); abf(); }
    else if (op == "mnwvf" && t.size() == 2) {
      double b = D(1);
      std::cout << "ok " << vp::hex(E.M(b)) << " " << vp::hex(E.N(b)) << " " << vp::hex(E.W(b)) << " "
                << vp::hex(E.V(b)) << " " << vp::hex(E.F(b)) << "\n";
    } else if (op == "blh2xyz" && t.size() == 4) {
      double x, y, z; E.blh2xyz(D(1), D(2), D(3), x, y, z);
      std::cout << "ok " << vp::hex(x) << " " << vp::hex(y) << " " << vp::hex(z) << "\n";
    } else if (op == "xyz2blh" && t.size() == 4) {
      double b, l, h; E.xyz2blh(D(1), D(2), D(3), b, l, h);
      std::cout << "ok " << vp::hex(b) << " " << vp::hex(l) << " " << vp::hex(h) << "\n";
    } else if (op == "rt" && t.size() == 4) {
      double x, y, z, b, l, h; E.blh2xyz(D(1), D(2), D(3), x, y, z); E.xyz2blh(x, y, z, b, l, h);
      std::cout << "ok " << vp::hex(x) << " " << vp::hex(y) << " " << vp::hex(z) << " "
                << vp::hex(b) << " " << vp::hex(l) << " " << vp::hex(h) << "\n";
    } else if (op == "gdg" && t.size() == 4) {
      std::string s = gon2deg_str(D(1), std::stoi(t[2]), std::stoi(t[3]));
      double g = 0; bool ok = deg2gon(s, g);
      std::cout << "str " << show(s) << "\n";
      if (ok) std::cout << "ok " << vp::hex(g) << "\n"; else std::cout << "false\n";
    } else if (op == "dr" && t.size() == 2) {
      double r = dms2rad(D(1)); std::cout << "ok " << vp::hex(r) << " " << vp::hex(rad2dms(r)) << "\n";
    } else if (op == "rd" && t.size() == 2) {
      double x = rad2dms(D(1)); std::cout << "ok " << vp::hex(x) << " " << vp::hex(dms2rad(x)) << "\n";
    } else if (op == "gon2deg" && t.size() == 4) {
      std::cout << "str " << show(gon2deg(D(1), std::stoi(t[2]), std::stoi(t[3]))) << "\n";
    } else if (op == "rad2deg" && t.size() == 4) {
      std::cout << "str " << show(rad2deg_str(D(1), std::stoi(t[2]), std::stoi(t[3]))) << "\n";
    } else if (op == "latlong" && t.size() == 3) {
      std::string a = latitude(D(1), std::stoi(t[2])), b = longitude(D(1), std::stoi(t[2]));
      std::cout << "str " << show(a) << (a == b ? "" : " !longitude-differs") << "\n";
    } else if (op == "deg2gon" && t.size() <= 2) {
      double g = 0; bool ok = deg2gon(t.size() == 2 ? unhexstr(t[1]) : std::string(), g);
      if (ok) std::cout << "ok " << vp::hex(g) << "\n"; else std::cout << "false\n";
    } else if (op == "dms2rad" && t.size() == 2) { std::cout << "ok " << vp::hex(dms2rad(D(1))) << "\n"; }
    else if (op == "rad2dms" && t.size() == 2) { std::cout << "ok " << vp::hex(rad2dms(D(1))) << "\n"; }
    else if (op == "bd" && t.size() == 5) {
      double b, d; GNU_gama::local::bearing_distance(D(1), D(2), D(3), D(4), b, d);
      double b2 = GNU_gama::local::bearing(D(1), D(2), D(3), D(4));
      std::cout << "ok " << vp::hex(b) << " " << vp::hex(d) << (b2 == b ? "" : " !bearing-differs") << "\n";
    } else if (op == "dist" && t.size() == 5) {
      GNU_gama::local::LocalPoint a(D(2), D(1)), b(D(4), D(3));   // LocalPoint(x, y)
      std::cout << "ok " << vp::hex(GNU_gama::local::distance(a, b)) << "\n";
    } else if (op == "isint" && t.size() <= 2) {
      std::cout << "flag " << (IsInteger(t.size() == 2 ? unhexstr(t[1]) : std::string()) ? 1 : 0) << "\n";
    } else if (op == "isfloat" && t.size() <= 2) {
      std::cout << "flag " << (IsFloat(t.size() == 2 ? unhexstr(t[1]) : std::string()) ? 1 : 0) << "\n";
    } else std::cout << "bad-op\n";
  }
  return 0;
}
