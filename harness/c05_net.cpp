// C05 network-level harness: LocalNetwork::project_equations() on a network parsed from a .gkf,
// run several times on the SAME object (linearisation iteration, point removal), dumping the design
// matrix rows exactly as LocalLinearization produced them (sparse rows incl. repeated columns), the
// right-hand side and the unknown table, plus the state the linearisation read, in the vocabulary
// of the per-observation protocol (harness/c05_lin.cpp) so that the Lean driver can redo the pass.
//
// ops (stdin):
//   load <path.gkf>            parse, set_algorithm, remove_inconsistency, Acord2 (orientations)
//   pass                       project_equations(); dump (lines "P …" = inputs, "R …" = results;
//                              "R row" = sparse row as pushed, "R dense" = the same row of the dense matrix A)
//   rhs                        project_equations(); right-hand sides only
//   touch                      update_points()
//   refine                     refine_approx_coordinates()       (gama-local's linearisation iteration)
//   drop <id> xy|z|xyz         set the point unused in xy / z, removed(), as singular_coords does
//   bump <id> x|y|z <hex h>    move a coordinate by h metres, update_points()
//   bumpo <k> <hex h>          move the orientation of stand-point cluster k by h radians
// output: every line starts with P (model input), R (result) or E (echo/ok/throw)
#include <cmath>
#include <cstdio>
#include <fstream>
#include <iostream>
#include <map>
#include <memory>
#include <sstream>
#include <string>
#include <vector>
#include <gnu_gama/local/network.h>
#include <gnu_gama/local/acord/acord2.h>
#include <gnu_gama/local/language.h>
#include <gnu_gama/xml/gkfparser.h>
#include <gnu_gama/sparse/smatrix.h>
#include "proto.h"

using namespace GNU_gama::local;

struct GamaVerifProbe {
  static const GNU_gama::SparseMatrix<double, int>* Asp(const LocalNetwork& n)
  { return n.Asp ? n.Asp : n.input.mat(); }   // sparse solvers take the matrix over into AdjInputData
  static int cols(const LocalNetwork& n) { return n.pocet_neznamych_; }
  static int rows(const LocalNetwork& n) { return n.pocmer_; }
  static const Mat& dense(const LocalNetwork& n) { return n.A; }   // the dense design matrix (gso, svd, cholesky)
};

static std::unique_ptr<LocalNetwork> IS;

static const char* cls_of(const Observation* o)
{
  if (dynamic_cast<const Direction*>(o))  return "Direction";
  if (dynamic_cast<const Distance*>(o))   return "Distance";
  if (dynamic_cast<const Angle*>(o))      return "Angle";
  if (dynamic_cast<const H_Diff*>(o))     return "H_Diff";
  if (dynamic_cast<const S_Distance*>(o)) return "S_Distance";
  if (dynamic_cast<const Z_Angle*>(o))    return "Z_Angle";
  if (dynamic_cast<const X*>(o))          return "X";
  if (dynamic_cast<const Y*>(o))          return "Y";
  if (dynamic_cast<const Z*>(o))          return "Z";
  if (dynamic_cast<const Xdiff*>(o))      return "Xdiff";
  if (dynamic_cast<const Ydiff*>(o))      return "Ydiff";
  if (dynamic_cast<const Zdiff*>(o))      return "Zdiff";
  if (dynamic_cast<const Azimuth*>(o))    return "Azimuth";
  return "?";
}
static char st_xy(const LocalPoint& p)
{ return p.fixed_xy() ? 'f' : p.constrained_xy() ? 'c' : p.free_xy() ? 'a' : 'u'; }
static char st_z(const LocalPoint& p)
{ return p.fixed_z() ? 'f' : p.constrained_z() ? 'c' : p.free_z() ? 'a' : 'u'; }

static std::map<const void*, int> cluster_no()
{
  std::map<const void*, int> m;
  int k = 0;
  for (auto* cl : IS->OD.clusters)
    if (dynamic_cast<StandPoint*>(cl)) m[cl] = ++k;
  return m;
}

static void dump_pass()
{
  IS->project_equations();
  const LocalNetwork& N = *IS;
  std::cout << "P cs " << int(IS->PD.local_coordinate_system) << " " << (IS->PD.right_handed_angles() ? 1 : 0) << "\n";
  for (auto& kv : IS->PD) {
    const LocalPoint& p = kv.second;
    std::cout << "P pt " << kv.first.str() << " " << vp::hex(p.x()) << " " << vp::hex(p.y()) << " " << vp::hex(p.z())
              << " " << st_xy(p) << " " << st_z(p) << "\n";
  }
  std::map<const void*, int> cn = cluster_no();
  for (auto* cl : IS->OD.clusters)
    if (StandPoint* sp = dynamic_cast<StandPoint*>(cl))
      if (sp->test_orientation())
        std::cout << "P sp " << cn[cl] << " " << sp->station.str() << " " << vp::hex(sp->orientation()) << "\n";
  const int rows = GamaVerifProbe::rows(N), cols = GamaVerifProbe::cols(N);
  const GNU_gama::SparseMatrix<double, int>* A = GamaVerifProbe::Asp(N);
  for (int i = 1; i <= rows; i++) {
    Observation* o = IS->ptr_obs(i);
    std::string fs = "-";
    if (const Angle* a = dynamic_cast<const Angle*>(o)) fs = a->fs().str();
    std::string k = "-";
    if (dynamic_cast<const Direction*>(o)) k = std::to_string(cn[o->ptr_cluster()]);
    std::string to = o->to().str();
    if (to.empty()) to = "-";
    std::cout << "P obs " << cls_of(o) << " " << k << " " << o->from().str() << " " << to << " " << fs << " "
              << vp::hex(o->value()) << "\n";
    std::cout << "R row " << vp::hex(N.rhs(i)) << " " << A->size(i);
    const int* ib = const_cast<GNU_gama::SparseMatrix<double, int>*>(A)->ibegin(i);
    const double* nb = const_cast<GNU_gama::SparseMatrix<double, int>*>(A)->begin(i);
    const double* ne = const_cast<GNU_gama::SparseMatrix<double, int>*>(A)->end(i);
    for (; nb != ne; ++nb, ++ib) std::cout << " " << *ib << " " << vp::hex(*nb);
    std::cout << "\n";
    // the same row of the dense matrix A (after prepareProjectEquations: for an uncorrelated cluster
    // the row is the assembled row times w = m0 / stdev; w = nan marks a correlated cluster): the
    // entries in the distinct columns of the sparse row, in order of first appearance
    {
      const Mat& D = GamaVerifProbe::dense(N);
      double w = std::nan("");
      if (o->ptr_cluster() && o->ptr_cluster()->covariance_matrix.bandWidth() == 0 && o->stdDev() > 0)
        w = IS->apriori_m_0() / o->stdDev();
      std::vector<int> seen;
      for (const int* q = const_cast<GNU_gama::SparseMatrix<double, int>*>(A)->ibegin(i), *e = q + A->size(i); q != e; ++q) {
        bool dup = false;
        for (int c : seen) if (c == *q) dup = true;
        if (!dup) seen.push_back(*q);
      }
      std::cout << "R dense " << vp::hex(w) << " " << seen.size();
      for (int c : seen)
        if (i <= D.rows() && c >= 1 && c <= D.cols()) std::cout << " " << c << " " << vp::hex(D(i, c));
        else std::cout << " " << c << " out-of-range";
      std::cout << "\n";
    }
  }
  for (int j = 1; j <= cols; j++) {
    char t = N.unknown_type(j);
    std::cout << "R unk " << j << " " << (t ? t : '?') << " ";
    if (t == 'R') std::cout << N.unknown_pointid(j).str() << " " << cn[N.unknown_standpoint(j)];
    else if (t)   std::cout << N.unknown_pointid(j).str();
    else          std::cout << "?";
    std::cout << "\n";
  }
  std::cout << "R n " << cols << " " << rows << "\n";
}

int main()
{
  set_gama_language(en);
  std::string line;
  bool is_case;
  while (vp::next(line, is_case)) {
    if (is_case) { IS.reset(); continue; }
    std::vector<std::string> t = vp::tokens(line);
    if (t.empty()) continue;
    try {
      if (t[0] == "load" && t.size() == 2) {
        IS.reset(new LocalNetwork);
        std::ifstream in(t[1]);
        std::stringstream ss; ss << in.rdbuf();
        std::string text = ss.str();
        {
          GNU_gama::local::GKFparser gkf(*IS);
          gkf.xml_parse(text.c_str(), int(text.size()), 1);
        }
        if (!IS->has_algorithm()) IS->set_algorithm();
        IS->remove_inconsistency();
        Acord2 acord2(IS->PD, IS->OD);
        acord2.execute();
        std::cout << "E loaded " << IS->PD.size() << "\n";
      }
      else if (!IS) std::cout << "E bad-op\n";
      else if (t[0] == "pass") { dump_pass(); }
      else if (t[0] == "rhs") {
        IS->project_equations();
        const LocalNetwork& N = *IS;
        std::cout << "R rhs";
        for (int i = 1; i <= GamaVerifProbe::rows(N); i++) std::cout << " " << vp::hex(N.rhs(i));
        std::cout << "\n";
      }
      else if (t[0] == "touch") { IS->update_points(); std::cout << "E ok\n"; }
      else if (t[0] == "refine") { IS->refine_approx_coordinates(); std::cout << "E ok\n"; }
      else if (t[0] == "drop" && t.size() == 3) {
        auto it = IS->PD.find(PointID(t[1]));
        if (it == IS->PD.end()) { std::cout << "E bad-op\n"; continue; }
        if (t[2] == "xy" || t[2] == "xyz") { it->second.set_unused_xy(); IS->removed(it->first, LocalNetwork::rm_singular_xy); }
        if (t[2] == "z"  || t[2] == "xyz") { it->second.set_unused_z();  IS->removed(it->first, LocalNetwork::rm_singular_z); }
        std::cout << "E ok\n";
      }
      else if (t[0] == "bump" && t.size() == 4) {
        auto it = IS->PD.find(PointID(t[1]));
        if (it == IS->PD.end()) { std::cout << "E bad-op\n"; continue; }
        LocalPoint& p = it->second;
        const double h = vp::unhex(t[3]);
        if      (t[2] == "x") p.set_xy(p.x() + h, p.y());
        else if (t[2] == "y") p.set_xy(p.x(), p.y() + h);
        else                  p.set_z(p.z() + h);
        IS->update_points();
        std::cout << "E ok " << vp::hex(t[2] == "x" ? p.x() : t[2] == "y" ? p.y() : p.z()) << "\n";
      }
      else if (t[0] == "bumpo" && t.size() == 3) {
        int k = std::stoi(t[1]), j = 0;
        bool done = false;
        for (auto* cl : IS->OD.clusters)
          if (StandPoint* sp = dynamic_cast<StandPoint*>(cl))
            if (++j == k && sp->test_orientation()) {
              sp->set_orientation(sp->orientation() + vp::unhex(t[2]));
              IS->update_points();
              std::cout << "E ok " << vp::hex(sp->orientation()) << "\n";
              done = true;
            }
        if (!done) std::cout << "E bad-op\n";
      }
      else std::cout << "E bad-op\n";
    }
    catch (const GNU_gama::local::Exception& e) { std::cout << "E throw " << e.what() << "\n"; }
    catch (const GNU_gama::Exception::matvec& e) { std::cout << "E throw matvec " << e.error() << "\n"; }
    catch (const std::exception& e) { std::cout << "E throw std " << e.what() << "\n"; }
    catch (...) { std::cout << "E throw unknown\n"; }
  }
  return 0;
}
