// C04 (full solvers, Adj): copy of harness/adj_harness.cpp (same protocol) extended with the
// friend probe for AdjCholDec, AdjGSO (+ICGS), AdjSVD (+SVD) and Adj:
//   state   solver entry chol:  st <is_solved> <minx_t==ALL> list <null | k i1..ik>
//           solver entry gso :  st <is_solved> <min_x_use_all> list <k sorted set> err <error_icgs2_defect != 0>
//           solver entry svd :  st <is_solved> <decomposed> <minx==subset> list <null | k i…>
//                                  defect <- | d> veq <- | 0|1> minV <0|1>
//                               (defect, veq only when decomposed: `defect` is uninitialised before;
//                                veq: V_ equals minV bitwise)
//           solver entry env :  as adj_harness (GamaVerifProbe::env_state)
//           adj entry        :  adj <solved> <algorithm_> adot <rows> <cols> ls <null|env|gso|svd|chol> | <state of *least_squares>
//                               (adot: shape of the dense work matrix A_dot, which outlives solver objects and data sets)
//   info <alg>   facts for the Lean driver, computed on a separate fresh object: info <alg> <n> <nullity>
//                (round 6, solver entry chol/gso/svd: <n> = columns of the matrix the REAL object holds (AdjBaseFull::pA),
//                <nullity> = its defect(); the driver computes both from the numeric model and refuses the line otherwise)
//   rows    adj entry: rows <m> {<k> c1..ck}   (sparse rows of A: Adj::q_bb walks them)
// Real code in-process, under ASan/UBSan.
//
// protocol (one op per line; doubles as 0x+16 hex):
//   problem <m> <n>
//   row <k> <c1> <v1> ... <ck> <vk>       m times, in row order (1-based column indices)
//   cov <dim> <width> <v…>                blocks, packed as BlockDiagonal stores them
//                                         (row r: diagonal, then min(width, dim-r) off-diagonals)
//   rhs <v1> … <vm>
//   minx none | all | <k> <i1> … <ik>     regularisation list stored in AdjInputData
//   end
//   new <env|chol|gso|svd> <solver|adj>   object under test ("solver" with chol/gso/svd requires
//                                         unit covariance: the harness passes dense A, b)
//   x | r | rtr | defect | qxx i j | q0xx i j | qbb i j | qbx i j | lindep i | cond
//   min_x_all | min_x <k> <i…>            solver entry only
//   reset                                 same input again (solver entry: reset(...); adj: set(copy))
//   set_alg <alg>                         adj entry only
//   select <k>                            (before `new`) problem #k of this case (definition order, 1-based)
//                                         becomes the one `new` uses; default: the problem defined last
//   reset_new <k>                         ANOTHER input: solver entry reset(data of problem k) — the regularisation
//                                         configured through min_x…() stays as it is; adj entry set(data of problem k);
//                                         fresh / info / envinfo / rows refer to the object's current problem afterwards
//   state | envinfo                       env solver entry: private state / input facts through GamaVerifProbe
//   fresh <query…>                        the query on a brand-new object with the same configuration
//                                         (current algorithm and current regularisation list)
// output: vec <hex…> | val <hex> | int <n> | flag <0|1> | ok | throw <kind> | bad-op
#include <cmath>
#include <cstring>
#include <memory>
#include <vector>
#include <string>
#include <iostream>
#include <matvec/matvec.h>
#include <matvec/covmat.h>
#include <gnu_gama/adj/adj.h>
#include <gnu_gama/adj/adj_input_data.h>
#include "proto.h"

using namespace GNU_gama;
typedef GNU_gama::Exception::matvec MVE;

// read-only access to private state (friend under -DGAMA_VERIF, see /verif/hooks.json)
struct GamaVerifProbe {
  typedef AdjEnvelope<double, int, MVE> Env;
  typedef AdjCholDec<double, int, MVE> Chol;
  typedef AdjGSO<double, int, MVE> Gso;
  typedef AdjSVD<double, int, MVE> Svd;
  typedef AdjBase<double, int, MVE> Base;
  // "st <stage> <iqbb> <ires> <iq0> <ix> minx <none | k i1..ik> keys <key:buf ...>"
  static void env_state(const Env& e, std::ostream& out) {
    out << "st " << e.stage << " " << e.init_q_bb << " " << e.init_residuals << " " << e.init_q0 << " " << e.init_x
        << " minx";
    if (e.min_x_list == nullptr) out << " none";
    else { out << " " << e.min_x_size; for (int i = 0; i < e.min_x_size; i++) out << " " << e.min_x_list[i]; }
    out << " keys";
    for (size_t i = 0; i < e.indbuf.active; i++) out << " " << e.indbuf.key_[i] << ":" << e.indbuf.buf_[i];
  }
  static void chol_state(const Chol& c, std::ostream& out) {
    out << "st " << (c.is_solved ? 1 : 0) << " " << (c.minx_t == Chol::ALL ? 1 : 0) << " list";
    if (c.minx_i == nullptr) out << " null";
    else { out << " " << c.minx_n; for (int i = 0; i < c.minx_n; i++) out << " " << c.minx_i[i]; }
  }
  static void gso_state(const Gso& g, std::ostream& out) {
    out << "st " << (g.is_solved ? 1 : 0) << " " << (g.icgs.min_x_use_all ? 1 : 0) << " list " << g.icgs.minx.size();
    for (int i : g.icgs.minx) out << " " << i;
    // round 5: the second-stage error counter ICGS::error_icgs2_defect (state of the long-lived ICGS object;
    // only its sign is read, by AdjGSO::solve through icgs.error())
    out << " err " << (g.icgs.error_icgs2_defect != 0 ? 1 : 0);
  }
  static void svd_state(const Svd& a, std::ostream& out) {
    const SVD<double, int, MVE>& s = a.svd;
    out << "st " << (a.is_solved ? 1 : 0) << " " << (s.decomposed ? 1 : 0) << " " << (s.minx == s.subset ? 1 : 0) << " list";
    if (s.list_min == nullptr) out << " null";
    else { out << " " << s.n_min; for (int i = 0; i < s.n_min; i++) out << " " << s.list_min[i]; }
    out << " defect";
    if (s.decomposed) out << " " << s.defect; else out << " -";
    out << " veq";
    if (s.decomposed) {
      bool eq = s.V_.rows() == s.minV.rows() && s.V_.cols() == s.minV.cols();
      if (eq) {
        auto p = s.V_.begin(); auto q = s.minV.begin();
        for (; p != s.V_.end(); ++p, ++q) if (std::memcmp(&*p, &*q, sizeof(double)) != 0) { eq = false; break; }
      }
      out << " " << (eq ? 1 : 0);
    } else out << " -";
    out << " minV " << (s.minV.rows() > 0 ? 1 : 0);
  }
  // number of unknowns as the real full-matrix solver object sees it
  static int full_unknowns(const Base* b, int dflt) {
    if (auto* f = dynamic_cast<const AdjBaseFull<double, int, MVE>*>(b)) return f->pA ? int(f->pA->cols()) : -1;
    return dflt;
  }
  static bool solver_state(const Base* b, std::ostream& out) {
    if (auto* e = dynamic_cast<const Env*>(b)) { env_state(*e, out); return true; }
    if (auto* c = dynamic_cast<const Chol*>(b)) { chol_state(*c, out); return true; }
    if (auto* g = dynamic_cast<const Gso*>(b)) { gso_state(*g, out); return true; }
    if (auto* s = dynamic_cast<const Svd*>(b)) { svd_state(*s, out); return true; }
    return false;
  }
  static const char* dyn_type(const Base* b) {
    if (!b) return "null";
    if (dynamic_cast<const Env*>(b)) return "env";
    if (dynamic_cast<const Chol*>(b)) return "chol";
    if (dynamic_cast<const Gso*>(b)) return "gso";
    if (dynamic_cast<const Svd*>(b)) return "svd";
    return "other";
  }
  static const char* alg_name(Adj::algorithm a) {
    switch (a) { case Adj::envelope: return "env"; case Adj::gso: return "gso"; case Adj::svd: return "svd"; case Adj::cholesky: return "chol"; }
    return "other";
  }
  static void adj_state(const Adj& a, std::ostream& out) {
    out << "adj " << (a.solved ? 1 : 0) << " " << alg_name(a.algorithm_)
        << " adot " << a.A_dot.rows() << " " << a.A_dot.cols() << " ls " << dyn_type(a.least_squares);
    if (a.least_squares) { out << " | "; solver_state(a.least_squares, out); }
  }
  // "envinfo <n> <nullity> invp <n ints> width <n ints> rows <m> {<k> c1..ck}"  (after solve_x0)
  static void env_info(Env& e, std::ostream& out) {
    e.defect();    // forces solve_x0
    const int n = e.parameters;
    out << "envinfo " << n << " " << e.nullity << " invp";
    for (int i = 1; i <= n; i++) out << " " << e.ordering.invp(i);
    out << " width";
    for (int i = 1; i <= n; i++) out << " " << int(e.envelope.end(i) - e.envelope.begin(i));
    const SparseMatrix<>* dm = e.design_matrix;
    out << " rows " << dm->rows();
    for (int r = 1; r <= dm->rows(); r++) {
      out << " " << dm->size(r);
      for (int* c = dm->ibegin(r); c != dm->iend(r); ++c) out << " " << *c;
    }
    out << "\n";
  }
};
typedef AdjBase<double, int, MVE> Base;
typedef AdjBaseFull<double, int, MVE> Full;
typedef AdjBaseSparse<double, int, MVE, AdjInputData> Sparse;

static const char* kind(int e) {
  switch (e) {
    case GNU_gama::Exception::BadRank: return "BadRank";
    case GNU_gama::Exception::BadIndex: return "BadIndex";
    case GNU_gama::Exception::Singular: return "Singular";
    case GNU_gama::Exception::BadRegularization: return "BadRegularization";
    case GNU_gama::Exception::NoConvergence: return "NoConvergence";
    case GNU_gama::Exception::ZeroDivision: return "ZeroDivision";
    case GNU_gama::Exception::NonPositiveDefinite: return "NonPositiveDefinite";
    case GNU_gama::Exception::NotImplemented: return "NotImplemented";
    case GNU_gama::Exception::StreamError: return "StreamError";
  }
  return "Other";
}

struct Problem {
  int m = 0, n = 0;
  std::vector<std::vector<std::pair<int, double>>> rows;
  struct Blk { int dim, width; std::vector<double> v; };
  std::vector<Blk> cov;
  std::vector<double> rhs;
  int minx_mode = 0;  // 0 none, 1 all, 2 list
  std::vector<int> minx;
  bool unit_cov() const {
    for (auto& b : cov) {
      if (b.width != 0) return false;
      for (double x : b.v) if (x != 1.0) return false;
    }
    return true;
  }
  AdjInputData* make(bool with_minx = true) const {
    AdjInputData* d = new AdjInputData;
    int nz = 0; for (auto& r : rows) nz += (int)r.size();
    SparseMatrix<>* A = new SparseMatrix<>(nz ? nz : 1, m, n);
    for (auto& r : rows) { A->new_row(); for (auto& e : r) A->add_element(e.second, e.first); }
    d->set_mat(A);
    int floats = 0; for (auto& b : cov) floats += (int)b.v.size();
    BlockDiagonal<>* bd = new BlockDiagonal<>((int)cov.size(), floats ? floats : 1);
    for (auto& b : cov) bd->add_block(b.dim, b.width, b.v.data());
    d->set_cov(bd);
    Vec<> v(m); for (int i = 1; i <= m; i++) v(i) = rhs[i - 1];
    d->set_rhs(v);
    if (with_minx && minx_mode == 2) {
      IntegerList<>* l = new IntegerList<>((int)minx.size());
      int k = 0; for (auto it = l->begin(); it != l->end(); ++it) *it = minx[k++];
      d->set_minx(l);
    }
    return d;
  }
};

// object under test + what is needed to rebuild an identical fresh one
struct Obj {
  std::string alg, entry;
  const Problem* P = nullptr;
  const Problem* other = nullptr;      // argument of the pending `reset_new`
  // regularisation currently configured through the API (solver entry)
  int rmode = 0; std::vector<int> rlist;
  // solver entry
  std::unique_ptr<Base> ls;
  std::unique_ptr<AdjInputData> data;  // sparse solver input
  Mat<> A; Vec<> b;                    // full solver input
  // adj entry
  std::unique_ptr<Adj> adj;            // owns its AdjInputData

  static Base* make_solver(const std::string& a) {
    if (a == "env") return new AdjEnvelope<double, int, MVE>;
    if (a == "chol") return new AdjCholDec<double, int, MVE>;
    if (a == "gso") return new AdjGSO<double, int, MVE>;
    if (a == "svd") return new AdjSVD<double, int, MVE>;
    return nullptr;
  }
  static bool alg_enum(const std::string& a, Adj::algorithm& e) {
    if (a == "env") e = Adj::envelope; else if (a == "chol") e = Adj::cholesky;
    else if (a == "gso") e = Adj::gso; else if (a == "svd") e = Adj::svd; else return false;
    return true;
  }
  void feed() {   // give the solver its input (first time or reset)
    if (Sparse* s = dynamic_cast<Sparse*>(ls.get())) {
      data.reset(P->make(false));
      s->reset(data.get());
    } else if (Full* f = dynamic_cast<Full*>(ls.get())) {
      A.reset(P->m, P->n); A.set_zero(); b.reset(P->m);
      for (int i = 1; i <= P->m; i++) { b(i) = P->rhs[i - 1]; for (auto& e : P->rows[i - 1]) A(i, e.first) = e.second; }
      f->reset(A, b);
    }
  }
  void apply_reg() {
    if (rmode == 1) ls->min_x();
    else if (rmode == 2) ls->min_x((int)rlist.size(), rlist.data());
  }
  bool create(const Problem* p, const std::string& a, const std::string& e) {
    P = p; alg = a; entry = e;
    if (e == "solver") {
      ls.reset(make_solver(a));
      if (!ls) return false;
      if (a != "env" && !p->unit_cov()) return false;
      rmode = p->minx_mode; rlist = p->minx;
      apply_reg();           // same order as Adj::init_least_squares: min_x, then reset(data)
      feed();
      return true;
    }
    if (e == "adj") {
      Adj::algorithm en; if (!alg_enum(a, en)) return false;
      adj.reset(new Adj);
      adj->set_algorithm(en);
      adj->set(p->make(true));     // Adj takes ownership
      return true;
    }
    return false;
  }
};

static void out_vec(const Vec<>& v) { std::cout << "vec"; for (int i = 1; i <= v.dim(); i++) std::cout << " " << vp::hex(v(i)); std::cout << "\n"; }
static void out_val(double x) { std::cout << "val " << vp::hex(x) << "\n"; }

static bool query(Obj& o, const std::vector<std::string>& t) {
  const std::string& q = t[0];
  auto I = [&](size_t k) { return std::stoi(t.at(k)); };
  try {
    if (o.entry == "solver") {
      Base* s = o.ls.get();
      if (q == "x") out_vec(s->unknowns());
      else if (q == "r") out_vec(s->residuals());
      else if (q == "rtr") out_val(s->sum_of_squares());
      else if (q == "defect") { int d = s->defect(); std::cout << "int " << d << "\n"; }
      else if (q == "qxx") out_val(s->q_xx(I(1), I(2)));
      else if (q == "q0xx") out_val(s->q0_xx(I(1), I(2)));
      else if (q == "qbb") out_val(s->q_bb(I(1), I(2)));
      else if (q == "qbx") out_val(s->q_bx(I(1), I(2)));
      else if (q == "lindep") { bool f = s->lindep(I(1)); std::cout << "flag " << (f ? 1 : 0) << "\n"; }
      else if (q == "cond") out_val(s->cond());
      else if (q == "min_x_all") { o.rmode = 1; o.rlist.clear(); s->min_x(); std::cout << "ok\n"; }
      else if (q == "min_x") {
        o.rmode = 2; o.rlist.clear();
        for (int k = 0; k < I(1); k++) o.rlist.push_back(I(2 + k));
        s->min_x((int)o.rlist.size(), o.rlist.data()); std::cout << "ok\n";
      }
      else if (q == "reset") { o.feed(); std::cout << "ok\n"; }
      else if (q == "reset_new") { if (!o.other) return false; o.P = o.other; o.other = nullptr; o.feed(); std::cout << "ok\n"; }
      else return false;
    } else {
      Adj* a = o.adj.get();
      if (q == "x") out_vec(a->x());
      else if (q == "r") out_vec(a->r());
      else if (q == "rtr") out_val(a->rtr());
      else if (q == "defect") { int d = a->defect(); std::cout << "int " << d << "\n"; }
      else if (q == "qxx") out_val(a->q_xx(I(1), I(2)));
      else if (q == "qbb") out_val(a->q_bb(I(1), I(2)));
      else if (q == "set_alg") { Adj::algorithm en; if (!Obj::alg_enum(t.at(1), en)) return false; o.alg = t[1]; a->set_algorithm(en); std::cout << "ok\n"; }
      else if (q == "reset") { a->set(o.P->make(true)); std::cout << "ok\n"; }
      else if (q == "reset_new") { if (!o.other) return false; o.P = o.other; o.other = nullptr; a->set(o.P->make(true)); std::cout << "ok\n"; }
      else return false;
    }
  } catch (const MVE& e) { std::cout << "throw " << kind(e.error()) << "\n"; }
  catch (const GNU_gama::Exception::adjustment& e) { std::cout << "throw adjustment\n"; }
  catch (const std::out_of_range&) { return false; }
  catch (const std::invalid_argument&) { return false; }
  return true;
}

int main() {
  std::vector<std::unique_ptr<Problem>> Ps;   // all problems of the case, in definition order
  Problem* P = nullptr;                       // the one `new` uses
  std::unique_ptr<Problem> D;                 // being defined
  std::unique_ptr<Obj> O;
  bool defining = false;
  std::string line; bool is_case;
  while (vp::next(line, is_case)) {
    if (is_case) { O.reset(); Ps.clear(); P = nullptr; D.reset(); defining = false; continue; }
    std::vector<std::string> t = vp::tokens(line);
    if (t.empty()) continue;
    try {
      if (t[0] == "problem") { O.reset(); D.reset(new Problem); D->m = std::stoi(t.at(1)); D->n = std::stoi(t.at(2)); defining = true; continue; }
      if (defining) {
        if (t[0] == "row") { int k = std::stoi(t.at(1)); std::vector<std::pair<int, double>> r; for (int i = 0; i < k; i++) r.push_back({std::stoi(t.at(2 + 2 * i)), vp::unhex(t.at(3 + 2 * i))}); D->rows.push_back(r); }
        else if (t[0] == "cov") { Problem::Blk b; b.dim = std::stoi(t.at(1)); b.width = std::stoi(t.at(2)); for (size_t i = 3; i < t.size(); i++) b.v.push_back(vp::unhex(t[i])); D->cov.push_back(b); }
        else if (t[0] == "rhs") { for (size_t i = 1; i < t.size(); i++) D->rhs.push_back(vp::unhex(t[i])); }
        else if (t[0] == "minx") { if (t.at(1) == "none") D->minx_mode = 0; else if (t[1] == "all") D->minx_mode = 1; else { D->minx_mode = 2; for (int k = 0; k < std::stoi(t[1]); k++) D->minx.push_back(std::stoi(t.at(2 + k))); } }
        else if (t[0] == "end") {
          defining = false;
          bool good = (int)D->rows.size() == D->m && (int)D->rhs.size() == D->m;
          int cd = 0; for (auto& b : D->cov) { cd += b.dim; if ((int)b.v.size() != b.dim * (b.width + 1) - b.width * (b.width + 1) / 2) good = false; }
          if (cd != D->m) good = false;
          std::cout << (good ? "ok\n" : "bad-op\n"); if (good) { Ps.push_back(std::move(D)); P = Ps.back().get(); } else D.reset();
        }
        else std::cout << "bad-op\n";
        continue;
      }
      if (!P) { std::cout << "bad-op\n"; continue; }
      if (t[0] == "select") { size_t k = std::stoul(t.at(1)); if (k >= 1 && k <= Ps.size()) { P = Ps[k - 1].get(); O.reset(); std::cout << "ok\n"; } else std::cout << "bad-op\n"; continue; }
      if (t[0] == "new") { O.reset(new Obj); if (O->create(P, t.at(1), t.at(2))) std::cout << "ok\n"; else { O.reset(); std::cout << "bad-op\n"; } continue; }
      if (!O) { std::cout << "bad-op\n"; continue; }
      if (t[0] == "fresh") {
        Obj F; Problem Pc = *O->P;
        if (O->entry == "solver") { Pc.minx_mode = O->rmode; Pc.minx = O->rlist; }
        if (!F.create(&Pc, O->alg, O->entry)) { std::cout << "bad-op\n"; continue; }
        std::vector<std::string> q(t.begin() + 1, t.end());
        if (q.empty() || !query(F, q)) std::cout << "bad-op\n";
        continue;
      }
      if (t[0] == "state") {
        if (O->entry == "solver") { if (!GamaVerifProbe::solver_state(O->ls.get(), std::cout)) std::cout << "bad-op"; }
        else GamaVerifProbe::adj_state(*O->adj, std::cout);
        std::cout << "\n";
        continue;
      }
      if (t[0] == "info") {          // info <alg>: on a separate fresh object (must not disturb the object under test)
        Obj F; Problem Pc = *O->P; Pc.minx_mode = 1; Pc.minx.clear();
        std::string a = t.size() > 1 ? t[1] : O->alg;
        const std::string e = (O->entry == "adj" || (a != "env" && !O->P->unit_cov())) ? "adj" : "solver";
        if (!F.create(&Pc, a, e)) { std::cout << "bad-op\n"; continue; }
        try {
          int d = e == "adj" ? F.adj->defect() : F.ls->defect();
          int nn = e == "adj" ? O->P->n : GamaVerifProbe::full_unknowns(F.ls.get(), O->P->n);
          std::cout << "info " << a << " " << nn << " " << d << "\n";
        }
        catch (const MVE& ex) { std::cout << "throw " << kind(ex.error()) << "\n"; }
        catch (const GNU_gama::Exception::adjustment& ex) { std::cout << "throw adjustment\n"; }
        continue;
      }
      if (t[0] == "rows") {
        std::cout << "rows " << O->P->m;
        for (auto& r : O->P->rows) { std::cout << " " << r.size(); for (auto& e : r) std::cout << " " << e.first; }
        std::cout << "\n";
        continue;
      }
      if (t[0] == "envinfo") {       // facts of the envelope solver for the current configuration (fresh object)
        Obj F; Problem Pc = *O->P;
        if (O->entry == "solver") { Pc.minx_mode = O->rmode; Pc.minx = O->rlist; }
        if (!F.create(&Pc, "env", "solver")) { std::cout << "bad-op\n"; continue; }
        try { GamaVerifProbe::env_info(*dynamic_cast<GamaVerifProbe::Env*>(F.ls.get()), std::cout); }
        catch (const MVE& e) { std::cout << "throw " << kind(e.error()) << "\n"; }
        continue;
      }
      if (t[0] == "reset_new") {
        size_t k = std::stoul(t.at(1));
        if (k < 1 || k > Ps.size()) { std::cout << "bad-op\n"; continue; }
        if (O->entry == "solver" && O->alg != "env" && !Ps[k - 1]->unit_cov()) { std::cout << "bad-op\n"; continue; }
        O->other = Ps[k - 1].get();
      }
      if (!query(*O, t)) std::cout << "bad-op\n";
    } catch (const std::exception& e) { std::cout << "bad-op\n"; }
    std::cout.flush();
  }
  return 0;
}
