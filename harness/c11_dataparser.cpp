// C11 correspondence harness: the real GNU_gama::DataParser (gama-g3 / adjustment input XML reader).
//
// protocol (stdin, one op per line):
//   doc <hex bytes> <k>      parse the document; k = -1 whole, k >= 0: first chunk = first k bytes
//
// output for `doc`:
//   E start <hexname> <line> <ae> <k>   the SAX event as seen by the handler; ae = 1: no attributes;
//   E stop <line> <k>                   k = kind of the error first recorded during this event, or -
//   E text <line> <hex> <k>               (unknown_tag context end_tag attributes text data)
//   R <state> <k>                       DataParser::state after the handler, same k
//   M <first 60 characters of errString>   information for the comparator (not produced by the model)
//   X <exception kind>                  an exception left a handler (through expat)
//   O ok | O parser <line> <code> | O exc <kind>
// The Lean driver (lean/Driver/DataParser.lean) consumes the E lines and must produce the same R and O lines.
#include <cstdio>
#include <cstring>
#include <cstdlib>
#include <iostream>
#include <sstream>
#include <string>
#include <vector>
#include <list>
#include <csignal>
#include <unistd.h>
#include <sys/time.h>
#include <cstring>
// pure_data is a private member: access only (no behaviour changes)
#define private public
#include <gnu_gama/xml/dataparser.h>
#undef private
#include <gnu_gama/xml/dataobject.h>
#include "proto.h"

static std::string tohex(const char* s, size_t n) {
  static const char* d = "0123456789abcdef";
  std::string r;
  for (size_t i = 0; i < n; i++) { unsigned char c = s[i]; r += d[c >> 4]; r += d[c & 15]; }
  return r.empty() ? "-" : r;
}
static std::string unhexs(const std::string& h) {
  std::string r;
  if (h == "-") return r;
  for (size_t i = 0; i + 1 < h.size(); i += 2) r += char(std::stoi(h.substr(i, 2), nullptr, 16));
  return r;
}
static bool starts(const std::string& s, const char* p) { return s.compare(0, std::strlen(p), p) == 0; }
static bool ends(const std::string& s, const char* p) {
  size_t n = std::strlen(p);
  return s.size() >= n && s.compare(s.size() - n, n, p) == 0;
}

// who called error(): by the message texts (the translator checks that the sources still contain them)
static const char* classify(const std::string& s) {
  if (starts(s, "### unknown tag <")) return "unknown_tag";
  if (starts(s, "### tag <") && ends(s, "> cannot be used in this context")) return "context";
  if (starts(s, "### tag <") && ends(s, "> cannot have any attributes")) return "attributes";
  if (starts(s, "### unexpected end tag </")) return "end_tag";
  if (s == "### illegal text") return "text";
  return "data";
}

class Probe : public GNU_gama::DataParser {
public:
  Probe(std::list<GNU_gama::DataObject::Base*>& l) : GNU_gama::DataParser(l) {}

  std::string after() {
    std::string kind = "-";
    if (!had_err && errCode != 0) {
      had_err = true;
      kind = classify(errString);
      msg = errString.substr(0, 60);
      for (char& c : msg) if (c == '\n' || c == '\r') c = ' ';
    }
    return kind;
  }
  int startElement(const char* cname, const char** atts) override {
    int line = XML_GetCurrentLineNumber(parser);
    int ae = *atts ? 0 : 1;
    try { GNU_gama::DataParser::startElement(cname, atts); }
    catch (...) {
      std::cout << "E start " << tohex(cname, std::strlen(cname)) << " " << line << " " << ae << " x\n";
      throw;
    }
    std::string k = after();
    std::cout << "E start " << tohex(cname, std::strlen(cname)) << " " << line << " " << ae << " " << k << "\n";
    result(k);
    return 0;
  }
  int endElement(const char* cname) override {
    int line = XML_GetCurrentLineNumber(parser);
    try { GNU_gama::DataParser::endElement(cname); }
    catch (...) { std::cout << "E stop " << line << " x\n"; throw; }
    std::string k = after();
    std::cout << "E stop " << line << " " << k << "\n";
    result(k);
    return 0;
  }
  int characterDataHandler(const char* s, int len) override {
    int line = XML_GetCurrentLineNumber(parser);
    try { GNU_gama::DataParser::characterDataHandler(s, len); }
    catch (...) { std::cout << "E text " << line << " " << tohex(s, len) << " x\n"; throw; }
    std::string k = after();
    std::cout << "E text " << line << " " << tohex(s, len) << " " << k << "\n";
    result(k);
    return 0;
  }
  void result(const std::string& k) {
    std::cout << "R " << state << " " << k << "\n";
    if (!msg.empty()) { std::cout << "M " << msg << "\n"; msg.clear(); }
  }
  bool had_err = false;
  std::string msg;
};

// termination is judged by CPU time, not wall time (a loaded machine must not look like a hang):
// ITIMER_PROF counts the user+system CPU time of this process and raises SIGPROF when it is used up
static void cpu_limit(int seconds) {
  struct itimerval t;
  std::memset(&t, 0, sizeof t);
  t.it_value.tv_sec = seconds;
  setitimer(ITIMER_PROF, &t, nullptr);
}
static void on_alarm(int) {
  static const char m[] = "O timeout\n";
  ssize_t r = write(1, m, sizeof m - 1); (void)r;
  _exit(88);
}

static void parse_doc(const std::string& doc, long k) {
  std::list<GNU_gama::DataObject::Base*> objects;
  {
    Probe p(objects);
    try {
      if (k < 0 || k > (long)doc.size()) p.xml_parse(doc.c_str(), (int)doc.size(), 1);
      else {
        p.xml_parse(doc.c_str(), (int)k, 0);
        p.xml_parse(doc.c_str() + k, (int)(doc.size() - k), 1);
      }
      std::cout << "O ok\n";
    }
    catch (const GNU_gama::Exception::parser& e) { std::cout << "O parser " << e.line << " " << e.error_code << "\n"; }
    catch (const std::bad_alloc&) { std::cout << "X bad_alloc\nO exc bad_alloc\n"; }
    catch (const std::exception& e) { std::cout << "X std::exception\nO exc std::exception\n"; }
    catch (...) { std::cout << "X unknown\nO exc unknown\n"; }
  }
  for (GNU_gama::DataObject::Base* o : objects) delete o;
}

int main()
{
  std::signal(SIGPROF, on_alarm);
  std::string line;
  bool is_case;
  while (vp::next(line, is_case)) {
    if (is_case) continue;
    std::vector<std::string> t = vp::tokens(line);
    if (t.size() == 3 && t[0] == "doc") {
      std::cout.flush();
      cpu_limit(10);
      parse_doc(unhexs(t[1]), std::atol(t[2].c_str()));
      cpu_limit(0);
    } else if (t.size() == 3 && t[0] == "pd") {
      // the real extractions (libstdc++) and the real DataParser::pure_data on the text: `pd <failbit><eofbit> <result>`
      std::list<GNU_gama::DataObject::Base*> objects;
      Probe p(objects);
      std::stringstream istr(unhexs(t[2]));
      double f; std::string w; int n; std::size_t u;
      for (char c : t[1]) { if (c == 'd') istr >> f; else if (c == 'w') istr >> w; else if (c == 'i') istr >> n; else if (c == 'u') istr >> u; }
      bool fb = istr.fail(), eb = istr.eof();
      bool r = p.pure_data(istr);
      std::cout << "pd " << (fb ? 1 : 0) << (eb ? 1 : 0) << " " << (r ? 1 : 0) << "\n";
    } else std::cout << "bad-op\n";
    std::cout.flush();
  }
  return 0;
}
