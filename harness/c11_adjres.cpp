// C11 correspondence harness for the adjustment-results reader: the real
// LocalNetworkAdjustmentResults::Parser, probed after every expat callback.
//
// The class is a PRIVATE nested class whose callbacks are `final`; the probe therefore (1) includes the header
// with `private` re-defined (access only, the layout is unchanged) and (2) derives from Parser and re-registers
// its own expat trampolines, which print the event, call the real (final) member function and print the state.
//
// protocol (stdin, one op per line):
//   doc <hex bytes> <k>     k = -1: one chunk; k >= 0: two chunks, the first has k bytes;
//                           k = -2: line by line exactly as LocalNetworkAdjustmentResults::read_xml feeds expat
// output:
//   E start <hexname> <line> [<hexattr>=<hexval>]...
//   E stop <line>
//   E text <line> <hex>
//   R <state> <hexmsg|-> <stack size> <tmp_i offset|-> <tmp_e offset|-> <writes so far>
//                           hexmsg = errString when error() was first recorded during this callback
//   O ok | O parser <line> <code> | O exc <kind>
// The Lean driver (Driver/AdjRes.lean) consumes the E lines and must print the same R and O lines (message: prefix).
#include <cstdio>
#include <cstring>
#include <cstdlib>
#include <csignal>
#include <unistd.h>
#include <sys/time.h>
#include <cstring>
#include <iostream>
#include <sstream>
#include <string>
#include <stack>
#include <memory>
#include <vector>
#include <list>
#include <limits>
#include <algorithm>
#include <matvec/covmat.h>
#include <gnu_gama/xml/baseparser.h>
#include <gnu_gama/exception.h>
#define private public
#include <gnu_gama/xml/localnetwork_adjustment_results.h>
#undef private
#include "proto.h"

using GNU_gama::LocalNetworkAdjustmentResults;

static std::string tohex(const char* s, size_t n) {
  static const char* d = "0123456789abcdef";
  std::string r;
  for (size_t i = 0; i < n; i++) { unsigned char c = s[i]; r += d[c >> 4]; r += d[c & 15]; }
  return r.empty() ? "-" : r;
}
static std::string tohex(const std::string& s) { return tohex(s.data(), s.size()); }
static std::string unhexs(const std::string& h) {
  std::string r;
  if (h == "-") return r;
  for (size_t i = 0; i + 1 < h.size(); i += 2) r += char(std::stoi(h.substr(i, 2), nullptr, 16));
  return r;
}

static double unassigned[1];     // stands for "never assigned" (both iterators equal, as the model assumes)

struct Probe : public LocalNetworkAdjustmentResults::Parser {
  bool had_err = false;
  long writes = 0;
  double* last_i = unassigned;

  explicit Probe(LocalNetworkAdjustmentResults* a) : LocalNetworkAdjustmentResults::Parser(a) {
    // members the constructor leaves unassigned: preset to the values the model starts with
    coordinates_summary_stage = 0;
    tmp_i = tmp_e = unassigned;
    tmp_dim = tmp_band = 0;
    tmp_adj_index = 0;
    pointlist = nullptr;
    point_has_x = point_has_y = point_has_z = point_con_x = point_con_y = point_con_z = false;
    tmp_point_adjusted = false;
    XML_SetUserData(parser, this);
    XML_SetElementHandler(parser, s_start, s_end);
    XML_SetCharacterDataHandler(parser, s_text);
  }
  void result() {
    std::string m = "-";
    if (!had_err && errCode != 0) { had_err = true; m = tohex(errString); }
    double* b = adj->cov.begin();
    if (tmp_i != unassigned && last_i != unassigned && tmp_i == last_i + 1) writes++;   // one element was stored during this callback
    last_i = tmp_i;
    std::cout << "R " << state << " " << m << " " << stack.size() << " ";
    if (tmp_i != unassigned) std::cout << (tmp_i - b); else std::cout << "-";
    std::cout << " ";
    if (tmp_e != unassigned) std::cout << (tmp_e - b); else std::cout << "-";
    // what band(false) counts: orientations + non-zero adjustment indexes of the adjusted points read so far
    long long unknowns = adj->orientations.size();
    for (const auto& q : adj->adjusted_points) unknowns += (q.indx != 0) + (q.indy != 0) + (q.indz != 0);
    std::cout << " " << writes << " " << unknowns << "\n";
  }
  static void s_start(void* u, const char* name, const char** atts) {
    Probe* p = static_cast<Probe*>(u);
    std::cout << "E start " << tohex(name, std::strlen(name)) << " " << XML_GetCurrentLineNumber(p->parser);
    for (const char** a = atts; *a; a += 2) std::cout << " " << tohex(a[0], std::strlen(a[0])) << "=" << tohex(a[1], std::strlen(a[1]));
    std::cout << "\n";
    p->startElement(name, atts);
    p->result();
  }
  static void s_end(void* u, const char* name) {
    Probe* p = static_cast<Probe*>(u);
    std::cout << "E stop " << XML_GetCurrentLineNumber(p->parser) << "\n";
    p->endElement(name);
    p->result();
  }
  static void s_text(void* u, const char* s, int len) {
    Probe* p = static_cast<Probe*>(u);
    std::cout << "E text " << XML_GetCurrentLineNumber(p->parser) << " " << tohex(s, len) << "\n";
    p->characterDataHandler(s, len);
    p->result();
  }
};

// termination is judged by CPU time, not wall time (a loaded machine must not look like a hang):
// ITIMER_PROF counts the user+system CPU time of this process and raises SIGPROF when it is used up
static void cpu_limit(int seconds) {
  struct itimerval t;
  std::memset(&t, 0, sizeof t);
  t.it_value.tv_sec = seconds;
  setitimer(ITIMER_PROF, &t, nullptr);
}
static void on_alarm(int) {
  static const char m[] = "O timeout\n";
  ssize_t r = write(1, m, sizeof m - 1); (void)r;
  _exit(88);
}

static void parse_doc(const std::string& doc, long k) {
  LocalNetworkAdjustmentResults res;
  try {
    Probe p(&res);
    if (k == -2) {
      std::istringstream xml(doc);
      std::string text;
      while (std::getline(xml, text)) {
        p.xml_parse(text.c_str(), static_cast<int>(text.length()), 0);
        p.xml_parse("\n", 1, 0);
      }
      p.xml_parse("", 0, 1);
    }
    else if (k < 0 || k > (long)doc.size()) p.xml_parse(doc.c_str(), (int)doc.size(), 1);
    else {
      p.xml_parse(doc.c_str(), (int)k, 0);
      p.xml_parse(doc.c_str() + k, (int)(doc.size() - k), 1);
    }
    std::cout << "O ok\n";
  }
  catch (const GNU_gama::Exception::parser& e) { std::cout << "O parser " << e.line << " " << e.error_code << "\n"; }
  catch (const GNU_gama::Exception::matvec&) { std::cout << "O exc matvec\n"; }
  catch (const std::bad_alloc&) { std::cout << "O exc bad_alloc\n"; }
  catch (const std::exception&) { std::cout << "O exc std::exception\n"; }
  catch (...) { std::cout << "O exc unknown\n"; }
}

int main()
{
  std::signal(SIGPROF, on_alarm);
  std::string line;
  bool is_case;
  while (vp::next(line, is_case)) {
    if (is_case) continue;
    std::vector<std::string> t = vp::tokens(line);
    if (t.size() == 3 && t[0] == "doc") {
      std::cout.flush();
      cpu_limit(10);
      parse_doc(unhexs(t[1]), std::atol(t[2].c_str()));
      cpu_limit(0);
    } else std::cout << "bad-op\n";
    std::cout.flush();
  }
  return 0;
}
