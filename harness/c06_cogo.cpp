// C06 correspondence harness: the real g2d_cogo classes, bearing_distance, AcordPolar::calculate_polar,
// SimilarityTr2D, Acord2::median / get_medians_z, Orientation::orientation, and (through the GKF parser
// and LocalNetwork) refine_approx_coordinates + TestLinearizationVisitor.
// Doubles cross the protocol as 0x + 16 hex digits.  See lean/Driver/Cogo.lean for the model side.
//
// Private members are reached by re-declaring access for the two headers concerned only
// (no change in /repo); class layout is unaffected by access specifiers with g++.
#include <cmath>
#include <fstream>
#include <map>
#include <memory>
#include <set>
#include <sstream>
#define private public
#define protected public
#include <gnu_gama/local/acord/acord2.h>
#include <gnu_gama/local/acord/acordpolar.h>
#include <gnu_gama/local/acord/acordazimuth.h>
#include <gnu_gama/local/acord/acordhdiff.h>
#include <gnu_gama/local/acord/acordvector.h>
#include <gnu_gama/local/acord/acordzderived.h>
#include <gnu_gama/local/acord/acordintersection.h>
#undef private
#undef protected
#include <gnu_gama/local/median/g2d_cogo.h>
#include <gnu_gama/local/median/g2d_helper.h>
#include <gnu_gama/local/median/g2d_coordinates.h>
#include <gnu_gama/local/orientation.h>
#include <gnu_gama/local/bearing.h>
#include <gnu_gama/local/network.h>
#include <gnu_gama/local/acord/acord2.h>
#include <gnu_gama/local/test_linearization_visitor.h>
#include <gnu_gama/xml/gkfparser.h>
#include "proto.h"

using namespace GNU_gama::local;
using std::string;
using std::vector;

static LocalPoint P(double x, double y) { LocalPoint p; p.set_xy(x, y); return p; }

struct World {                 // a point list, an observation store and the small-angle limit
  PointData PD;
  ObservationData OD;
  ApproximateCoordinates* ac;
  explicit World(double sal) { ac = new ApproximateCoordinates(PD, OD); ac->set_small_angle_limit(sal); }
  ~World() { delete ac; }
};

static void print_sol(CoordinateGeometry2D& g, World& w) {
  int n = g.number_of_solutions();
  std::cout << "sol " << n << " " << (w.ac->small_angle_detected() ? 1 : 0);
  if (n >= 1) std::cout << " " << vp::hex(g.solution_1().x()) << " " << vp::hex(g.solution_1().y());
  if (n >= 2) std::cout << " " << vp::hex(g.solution_2().x()) << " " << vp::hex(g.solution_2().y());
  std::cout << "\n";
}

static int run_net(const vector<string>& t);
static int run_obsdh(const vector<string>& t);
static int run_acord(const vector<string>& t);
static int run_acord2(const vector<string>& t);

int main()
{
  string line;
  bool is_case;
  while (vp::next(line, is_case)) {
    if (is_case) continue;
    vector<string> t = vp::tokens(line);
    if (t.empty()) continue;
    vector<double> a;
    for (size_t i = 1; i < t.size(); i++)
      if (t[i].compare(0, 2, "0x") == 0) a.push_back(vp::unhex(t[i])); else a.push_back(atof(t[i].c_str()));
    const string& op = t[0];
    try {
      if (op == "acord") {
        run_acord(t);
      } else if (op == "acord2") {
        run_acord2(t);
      } else if (op == "bd" && a.size() == 4) {              // ya xa yb xb
        double b, d; bearing_distance(a[0], a[1], a[2], a[3], b, d);
        std::cout << "ok " << vp::hex(b) << " " << vp::hex(d) << "\n";
      } else if (op == "dd" && a.size() == 7) {
        World w(a[6]);
        double r1 = a[4], r2 = a[5];
        Distance_distance g(r1, r2, P(a[0], a[1]), P(a[2], a[3]), &w.PD);
        g.calculation(); print_sol(g, w);
      } else if (op == "dirdir" && a.size() == 7) {
        World w(a[6]);
        w.PD["B1"] = P(a[0], a[1]); w.PD["B2"] = P(a[3], a[4]);
        Direction d1("B1", "X", a[2]), d2("B2", "X", a[5]);
        Direction_direction g(&d1, &d2, &w.PD);
        g.calculation(); print_sol(g, w);
      } else if (op == "dirdist" && a.size() == 7) {
        World w(a[6]);
        w.PD["B1"] = P(a[0], a[1]); w.PD["B2"] = P(a[3], a[4]);
        Direction d1("B1", "X", a[2]);
        if (a[5] <= 0) {      // Distance's constructor refuses it; use the (Direction*, double, LocalPoint) form
          Direction_distance g(&d1, a[5], P(a[3], a[4]), &w.PD);
          g.calculation(); print_sol(g, w);
        } else {
          Distance d2("B2", "X", a[5]);
          Direction_distance g(&d1, &d2, &w.PD);
          g.calculation(); print_sol(g, w);
        }
      } else if (op == "circle" && a.size() == 6) {
        World w(a[5]);
        w.PD["B1"] = P(a[0], a[1]); w.PD["B2"] = P(a[2], a[3]);
        Angle u("X", "B1", "B2", a[4]);
        Circle g(&u, &w.PD);
        g.calculation();
        int n = g.number_of_solutions();
        std::cout << "circ " << n << " " << (w.ac->small_angle_detected() ? 1 : 0);
        if (n >= 1) std::cout << " " << vp::hex(g.solution_1().x()) << " " << vp::hex(g.solution_1().y()) << " " << vp::hex(g.radius());
        std::cout << "\n";
      } else if (op == "dirang" && a.size() == 9) {    // sx sy h1 b1x b1y b2x b2y u sal
        World w(a[8]);
        w.PD["S"] = P(a[0], a[1]); w.PD["B1"] = P(a[3], a[4]); w.PD["B2"] = P(a[5], a[6]);
        Direction d1("S", "X", a[2]);
        Angle u("X", "B1", "B2", a[7]);
        Direction_angle g(&d1, &u, &w.PD);
        g.calculation(); print_sol(g, w);
      } else if (op == "distang" && a.size() == 9) {   // bbx bby d b1x b1y b2x b2y u sal
        World w(a[8]);
        w.PD["BB"] = P(a[0], a[1]); w.PD["B1"] = P(a[3], a[4]); w.PD["B2"] = P(a[5], a[6]);
        Distance d1("X", "BB", a[2]);
        Angle u("X", "B1", "B2", a[7]);
        Distance_angle g(&d1, &u, &w.PD);
        g.calculation(); print_sol(g, w);
      } else if (op == "angang" && a.size() == 11) {   // b1x b1y b2x b2y u1 b3x b3y b4x b4y u2 sal
        World w(a[10]);
        w.PD["B1"] = P(a[0], a[1]); w.PD["B2"] = P(a[2], a[3]); w.PD["B3"] = P(a[5], a[6]); w.PD["B4"] = P(a[7], a[8]);
        Angle u1("X", "B1", "B2", a[4]), u2("X", "B3", "B4", a[9]);
        Angle_angle g(&u1, &u2, &w.PD);
        g.calculation(); print_sol(g, w);
      } else if (op == "polar" && a.size() == 5) {     // sx sy orientation dir dist
        World w(0.15);
        w.PD["S"] = P(a[0], a[1]);
        StandPoint* sp = new StandPoint(&w.OD);
        sp->station = "S";
        sp->set_orientation(a[2]);
        w.OD.clusters.push_back(sp);
        Acord2 ac(w.PD, w.OD);
        AcordPolar ap(&ac);
        AcordPolar::Measurement m("S", "T", a[3], a[4], sp);
        LocalPoint r = ap.calculate_polar(m);
        std::cout << "ok " << vp::hex(r.x()) << " " << vp::hex(r.y()) << "\n";
      } else if (op == "simtr" && a.size() == 10) {    // f1 f2 (local) t1 t2 (target) p (local)
        PointData SB, local; PointIDList computed;
        local["A"] = P(a[0], a[1]); local["B"] = P(a[2], a[3]);
        SB["A"] = P(a[4], a[5]); SB["B"] = P(a[6], a[7]);
        local["Q"] = P(a[8], a[9]); computed.push_back("Q");
        SimilarityTr2D tr(SB, local, computed);
        tr.calculation();
        if (tr.state() < unique_solution) std::cout << "none\n";
        else {
          PointData r = tr.transf_points();
          std::cout << "ok " << vp::hex(r["Q"].x()) << " " << vp::hex(r["Q"].y()) << "\n";
        }
      } else if (op == "median" && a.size() >= 2) {    // n v1..vn  (n >= 1)
        PointData PD; ObservationData OD;
        Acord2 ac(PD, OD);
        vector<double> v(a.begin() + 1, a.end());
        std::cout << "ok " << vp::hex(ac.median(v)) << "\n";
      } else if (op == "median2" && a.size() >= 2) {
        PointData PD; ObservationData OD;
        LocalPoint q; q.set_free_z(); PD["Q"] = q;
        Acord2 ac(PD, OD);
        for (size_t i = 1; i < a.size(); i++) ac.candidate_z_.insert({PointID("Q"), a[i]});
        ac.get_medians_z();
        std::cout << "ok " << vp::hex(PD["Q"].z()) << "\n";
      } else if (op == "orient" && a.size() >= 3) {    // sx sy k (tx ty val)*k
        PointData PD; ObservationData OD;
        PD["S"] = P(a[0], a[1]);
        StandPoint* sp = new StandPoint(&OD);
        sp->station = "S";
        int k = int(a[2]);
        for (int i = 0; i < k; i++) {
          std::ostringstream id; id << "T" << i;
          PD[id.str()] = P(a[3 + 3 * i], a[4 + 3 * i]);
          sp->observation_list.push_back(new Direction("S", id.str(), a[5 + 3 * i]));
        }
        sp->update();
        OD.clusters.push_back(sp);
        Orientation ori(PD, sp->observation_list);
        double z = 0; int n = 0;
        ori.orientation(sp, z, n);
        std::cout << "ori " << vp::hex(z) << " " << n << "\n";
      } else if (op == "net" && t.size() == 2) {
        run_net(t);
      } else if (op == "obsdh" && t.size() == 3) {
        run_obsdh(t);
      } else if (op == "acorddbg" && t.size() == 2) {
        // investigation aid: the rounds of Acord2::execute unrolled, the point list after every strategy
        std::unique_ptr<LocalNetwork> IS(new LocalNetwork);
        {
          std::ifstream inp(t[1]);
          GNU_gama::local::GKFparser gkf(*IS);
          string l;
          while (std::getline(inp, l)) { l += "\n"; gkf.xml_parse(l.c_str(), l.length(), 0); }
          gkf.xml_parse("", 0, 1);
        }
        IS->remove_inconsistency();
        Acord2 ac(IS->PD, IS->OD);
        for (int round = 1; round <= 3 && !(ac.missing_xy_.empty() && ac.missing_z_.empty()); round++) {
          for (const auto& a : ac.algorithms_) {
            std::set<PointID> before = ac.missing_xy_;
            a->execute();
            std::cout << "round " << round << " " << a->className() << " cand_xy " << ac.candidate_xy_.size();
            for (auto& id : before) {
              const LocalPoint& p = IS->PD[id];
              if (p.test_xy()) std::cout << " " << id << "=(" << p.x() << "," << p.y() << ")";
            }
            std::cout << "\n";
          }
          for (auto& c : ac.candidate_xy_) std::cout << "  candidate " << c.first << " (" << c.second.x() << "," << c.second.y() << ")\n";
          ac.get_medians(); ac.candidate_xy_.clear(); ac.get_medians_z(); ac.candidate_z_.clear(); ac.traverses.clear();
        }
      } else if (op == "acordnet" && t.size() == 2) {
        // parse a .gkf, run Acord2::execute once, report which points have approximate xy / z afterwards
        std::unique_ptr<LocalNetwork> IS(new LocalNetwork);
        {
          std::ifstream inp(t[1]);
          GNU_gama::local::GKFparser gkf(*IS);
          string l;
          while (std::getline(inp, l)) { l += "\n"; gkf.xml_parse(l.c_str(), l.length(), 0); }
          gkf.xml_parse("", 0, 1);
        }
        IS->remove_inconsistency();
        Acord2 acord2(IS->PD, IS->OD);
        acord2.execute();
        for (auto& q : IS->PD)
          std::cout << "apt " << q.first << " " << (q.second.active_xy() ? 1 : 0) << " " << (q.second.test_xy() ? 1 : 0)
                    << " " << (q.second.active_z() ? 1 : 0) << " " << (q.second.test_z() ? 1 : 0) << "\n";
        std::cout << "missing " << acord2.missing_xy_.size() << " " << acord2.missing_z_.size() << "\n";
      } else std::cout << "bad-op\n";
    } catch (const GNU_gama::local::Exception& e) {
      std::cout << "throw local\n";
    } catch (const g2d_exc& e) {
      std::cout << "throw g2d\n";
    }
    std::cout.flush();
  }
  return 0;
}

// `net <file.gkf>`: parse, approximate coordinates, one adjustment; print what the model needs to redo
// refine_approx_coordinates and the stopping test, followed by what the implementation computed.
static int run_net(const vector<string>& t)
{
  std::unique_ptr<LocalNetwork> IS(new LocalNetwork);
  {
    std::ifstream inp(t[1]);
    GNU_gama::local::GKFparser gkf(*IS);
    string line;
    while (std::getline(inp, line)) { line += "\n"; gkf.xml_parse(line.c_str(), line.length(), 0); }
    gkf.xml_parse("", 0, 1);
  }
  IS->set_algorithm("gso");
  IS->remove_inconsistency();
  Acord2 acord2(IS->PD, IS->OD);
  acord2.execute();
  refine_obsdh_reductions(IS.get());
  if (IS->huge_abs_terms()) IS->remove_huge_abs_terms();
  const Vec& x0 = IS->solve();
  Vec x = x0;
  Vec v = IS->residuals();
  const int n = IS->unknowns_count();
  // unknowns before
  std::cout << "unknowns " << n << "\n";
  for (int i = 1; i <= n; i++) {
    char ty = IS->unknown_type(i);
    std::cout << "unk " << i << " " << ty << " ";
    if (ty == 'R') {
      StandPoint* sp = IS->unknown_standpoint(i);
      std::cout << sp->station << " " << vp::hex(x(i)) << " " << vp::hex(sp->orientation()) << "\n";
    } else {
      const LocalPoint& p = IS->PD[IS->unknown_pointid(i)];
      std::cout << IS->unknown_pointid(i) << " " << vp::hex(x(i)) << " "
                << vp::hex(p.test_xy() ? p.x() : 0) << " " << vp::hex(p.test_xy() ? p.y() : 0) << " "
                << vp::hex(p.test_z() ? p.z() : 0) << "\n";
    }
  }
  // stopping test, per observation
  TestLinearizationVisitor tv(IS.get(), v, x);
  const int M = IS->observations_count();
  for (int i = 1; i <= M; i++) {
    Observation* pm = IS->ptr_obs(i);
    tv.setObservationIndex(i);
    pm->accept(&tv);
    double pol = tv.getPol();
    if (dynamic_cast<const Coordinates*>(pm->ptr_cluster())) pol = 0;
    auto pt = [&](const PointID& id) {
      const LocalPoint& p = IS->PD[id];
      std::ostringstream s;
      s << (p.free_xy() ? 1 : 0) << " " << vp::hex(p.test_xy() ? p.x() : 0) << " " << vp::hex(p.test_xy() ? p.y() : 0) << " "
        << vp::hex(p.free_xy() ? x(p.index_x()) : 0) << " " << vp::hex(p.free_xy() ? x(p.index_y()) : 0) << " "
        << (p.free_z() ? 1 : 0) << " " << vp::hex(p.test_z() ? p.z() : 0) << " " << vp::hex(p.free_z() ? x(p.index_z()) : 0);
      return s.str();
    };
    string kind = "other";
    std::ostringstream extra;
    if (dynamic_cast<Distance*>(pm)) kind = "distance";
    else if (Direction* d = dynamic_cast<Direction*>(pm)) {
      kind = "direction";
      extra << " " << vp::hex(d->orientation()) << " " << vp::hex(x(d->index_orientation()));
    }
    else if (Angle* an = dynamic_cast<Angle*>(pm)) { kind = "angle"; extra << " " << pt(an->fs()); }
    else if (dynamic_cast<S_Distance*>(pm)) kind = "sdistance";
    else if (dynamic_cast<Z_Angle*>(pm)) kind = "zangle";
    if (dynamic_cast<const Coordinates*>(pm->ptr_cluster())) kind = "other";
    std::cout << "obs " << i << " " << kind << " " << vp::hex(pm->value()) << " " << vp::hex(v(i));
    if (kind != "other") std::cout << " " << pt(pm->from()) << " " << pt(pm->to()) << extra.str();
    std::cout << " pol " << vp::hex(pol) << "\n";
  }
  std::cout << "testlin " << (TestLinearization(IS.get()) ? 1 : 0) << "\n";
  // the update
  IS->refine_approx_coordinates();
  for (int i = 1; i <= n; i++) {
    char ty = IS->unknown_type(i);
    std::cout << "new " << i << " " << ty << " ";
    if (ty == 'R') std::cout << vp::hex(IS->unknown_standpoint(i)->orientation()) << "\n";
    else {
      const LocalPoint& p = IS->PD[IS->unknown_pointid(i)];
      std::cout << vp::hex(p.test_xy() ? p.x() : 0) << " " << vp::hex(p.test_xy() ? p.y() : 0) << " "
                << vp::hex(p.test_z() ? p.z() : 0) << "\n";
    }
  }
  return 0;
}


// `obsdh <file.gkf> <maxiter>`: parse, approximate coordinates, then the real refine_obsdh_reductions in both modes at
// four places (before the adjustment from zero reductions; adjusted mode after the adjustment; after one
// refine_approx_coordinates with non-zero reductions stored; adjusted mode on the state refine_adjustment() leaves).
// Before every call the state the function reads is dumped as the argument list of the model op (`dh …`), after it
// the returned status and the stored reductions (`res …`).  `iters n max` reports the real refine_adjustment().
static void dump_dh(LocalNetwork* IS, bool adjusted)
{
  Vec x;
  if (adjusted) x = IS->solve();
  const int nx = adjusted ? int(x.dim()) : 0;
  std::cout << "dh " << (adjusted ? 1 : 0) << " " << nx;
  for (int i = 1; i <= nx; i++) std::cout << " " << vp::hex(x(i));
  auto pt = [&](const PointID& id) {
    const LocalPoint& p = IS->PD[id];
    std::cout << " " << vp::hex(p.test_xy() ? p.x() : 0) << " " << vp::hex(p.test_xy() ? p.y() : 0) << " "
              << vp::hex(p.test_z() ? p.z() : 0) << " " << (p.free_xy() ? 1 : 0) << " " << (p.free_z() ? 1 : 0) << " "
              << (adjusted ? p.index_x() : 0) << " " << (adjusted ? p.index_y() : 0) << " " << (adjusted ? p.index_z() : 0)
              << " " << (p.test_xyz() ? 1 : 0);
  };
  for (auto o = IS->OD.begin(); o != IS->OD.end(); ++o) {
    Observation* pm = *o;
    int k = dynamic_cast<S_Distance*>(pm) ? 0 : dynamic_cast<Z_Angle*>(pm) ? 1 : 2;
    if (k == 2) continue;        // other classes are not read at all (the model leaves them untouched: kind 2)
    std::cout << " " << k << " " << vp::hex(pm->value() - pm->reduction()) << " " << vp::hex(pm->from_dh()) << " "
              << vp::hex(pm->to_dh()) << " " << vp::hex(pm->reduction());
    pt(pm->from());
    pt(pm->to());
  }
  std::cout << "\n";
}

static void dump_res(LocalNetwork* IS, bool status)
{
  std::cout << "res " << (status ? 1 : 0);
  for (auto o = IS->OD.begin(); o != IS->OD.end(); ++o) {
    Observation* pm = *o;
    if (dynamic_cast<S_Distance*>(pm) || dynamic_cast<Z_Angle*>(pm)) std::cout << " " << vp::hex(pm->reduction());
  }
  std::cout << "\n";
}

static int run_obsdh(const vector<string>& t)
{
  std::unique_ptr<LocalNetwork> IS(new LocalNetwork);
  {
    std::ifstream inp(t[1]);
    GNU_gama::local::GKFparser gkf(*IS);
    string line;
    while (std::getline(inp, line)) { line += "\n"; gkf.xml_parse(line.c_str(), line.length(), 0); }
    gkf.xml_parse("", 0, 1);
  }
  const int maxiter = atoi(t[2].c_str());
  IS->set_algorithm("envelope");
  IS->remove_inconsistency();
  Acord2 acord2(IS->PD, IS->OD);
  acord2.execute();
  dump_dh(IS.get(), false);
  dump_res(IS.get(), refine_obsdh_reductions(IS.get()));
  if (IS->huge_abs_terms()) IS->remove_huge_abs_terms();
  IS->solve();
  dump_dh(IS.get(), true);
  dump_res(IS.get(), refine_obsdh_reductions(IS.get(), true));
  IS->refine_approx_coordinates();
  dump_dh(IS.get(), false);
  dump_res(IS.get(), refine_obsdh_reductions(IS.get()));
  IS->set_max_linearization_iterations(maxiter);
  IS->refine_adjustment();
  std::cout << "iters " << IS->linearization_iterations() << " " << IS->max_linearization_iterations() << "\n";
  dump_dh(IS.get(), true);
  dump_res(IS.get(), refine_obsdh_reductions(IS.get(), true));
  return 0;
}

// `acord <strategy> <reps> <cs 0..7> <rh 0|1> records…`: a small in-memory network built through the real
// classes (PointData, ObservationData, StandPoint / HeightDifferences / Vectors clusters, observation
// constructors), the real Acord2 constructor, and ONE strategy object whose execute() is run <reps> times
// (zderived: each followed by Acord2::get_medians_z and candidate_z_.clear(), as in Acord2::execute).
// Records:  P id bxy x y bz z active_xy active_z | S station | az f t v | d f t v | sd f t v fdh tdh |
//           za f t v fdh tdh | dir f t v | H | hd f t v | V | dx f t v | dy f t v | dz f t v
// Output:   (zderived) `cand id h…` per id with candidates before each get_medians_z; then for every id of
//           the case in order of first appearance `pt id bxy x y bz z missing_xy missing_z`; `completed c`.
// the records of an `acord` / `acord2` line from token `i` on, built through the real classes.
// `N id z` (hdiff step stream only): a height another strategy publishes BETWEEN two executions of the strategy
// (`PD[id].set_z(z); missing_z_.erase(id)`), collected in `later`.
static bool parse_records(const vector<string>& t, size_t i, PointData& PD, ObservationData& OD, vector<string>& ids,
                          vector<std::pair<string, double>>& later)
{
  auto note = [&](const string& id) { for (auto& s : ids) if (s == id) return; ids.push_back(id); };
  auto num = [&](const string& s) { return s.compare(0, 2, "0x") == 0 ? vp::unhex(s) : atof(s.c_str()); };
  GNU_gama::Cluster<Observation>* cl = nullptr;
  auto add = [&](Observation* o) { o->set_cluster(cl); cl->observation_list.push_back(o); };
  bool bad = false;
  while (i < t.size() && !bad) {
    const string& r = t[i];
    if (r == "P" && i + 8 < t.size()) {
      LocalPoint p;
      if (atoi(t[i + 2].c_str())) p.set_xy(num(t[i + 3]), num(t[i + 4]));
      if (atoi(t[i + 5].c_str())) p.set_z(num(t[i + 6]));
      if (atoi(t[i + 7].c_str())) p.set_free_xy();
      if (atoi(t[i + 8].c_str())) p.set_free_z();
      PD[t[i + 1]] = p; note(t[i + 1]);
      i += 9;
    } else if (r == "N" && i + 2 < t.size()) {
      later.push_back({t[i + 1], num(t[i + 2])}); note(t[i + 1]);
      i += 3;
    } else if (r == "S" && i + 1 < t.size()) {
      StandPoint* sp = new StandPoint(&OD); sp->station = t[i + 1]; note(t[i + 1]);
      OD.clusters.push_back(sp); cl = sp; i += 2;
    } else if (r == "H") {
      cl = new HeightDifferences(&OD); OD.clusters.push_back(cl); i += 1;
    } else if (r == "V") {
      cl = new Vectors(&OD); OD.clusters.push_back(cl); i += 1;
    } else if (cl && (r == "az" || r == "d" || r == "dir" || r == "hd" || r == "dx" || r == "dy" || r == "dz") && i + 3 < t.size()) {
      const string &f = t[i + 1], &to = t[i + 2]; double v = num(t[i + 3]);
      note(f); note(to);
      if (r == "az") add(new Azimuth(f, to, v));
      else if (r == "d") add(new Distance(f, to, v));
      else if (r == "dir") add(new Direction(f, to, v));
      else if (r == "hd") add(new H_Diff(f, to, v));
      else if (r == "dx") add(new Xdiff(f, to, v));
      else if (r == "dy") add(new Ydiff(f, to, v));
      else add(new Zdiff(f, to, v));
      i += 4;
    } else if (cl && r == "ang" && i + 4 < t.size()) {
      const string &f = t[i + 1], &bs = t[i + 2], &fs = t[i + 3]; double v = num(t[i + 4]);
      note(f); note(bs); note(fs);
      add(new Angle(f, bs, fs, v));
      i += 5;
    } else if (cl && (r == "sd" || r == "za") && i + 5 < t.size()) {
      const string &f = t[i + 1], &to = t[i + 2]; double v = num(t[i + 3]);
      note(f); note(to);
      Observation* o = (r == "sd") ? static_cast<Observation*>(new S_Distance(f, to, v)) : static_cast<Observation*>(new Z_Angle(f, to, v));
      o->set_from_dh(num(t[i + 4])); o->set_to_dh(num(t[i + 5]));
      add(o); i += 6;
    } else bad = true;
  }
  return !bad;
}

static void print_points(const vector<string>& ids, PointData& PD, Acord2& ac)
{
  for (auto& id : ids) {
    auto f = PD.find(PointID(id));
    LocalPoint p; if (f != PD.end()) p = f->second;
    std::cout << "pt " << id << " " << (p.test_xy() ? 1 : 0) << " " << vp::hex(p.test_xy() ? p.x() : 0) << " "
              << vp::hex(p.test_xy() ? p.y() : 0) << " " << (p.test_z() ? 1 : 0) << " " << vp::hex(p.test_z() ? p.z() : 0)
              << " " << ac.missing_xy_.count(PointID(id)) << " " << ac.missing_z_.count(PointID(id)) << "\n";
  }
}

static int run_acord(const vector<string>& t)
{
  if (t.size() < 5) { std::cout << "bad-op\n"; return 0; }
  const string alg = t[1];
  const int reps = atoi(t[2].c_str());
  PointData PD; ObservationData OD;
  PD.local_coordinate_system = LocalCoordinateSystem::CS(atoi(t[3].c_str()));
  if (atoi(t[4].c_str())) PD.setAngularObservations_Righthanded(); else PD.setAngularObservations_Lefthanded();
  vector<string> ids;
  vector<std::pair<string, double>> later;
  bool bad = !parse_records(t, 5, PD, OD, ids, later);
  if (bad) { std::cout << "bad-op\n"; return 0; }
  Acord2 ac(PD, OD);
  std::unique_ptr<AcordAlgorithm> a;
  if (alg == "azimuth") a.reset(new AcordAzimuth(&ac));
  else if (alg == "hdiff") a.reset(new AcordHdiff(&ac));
  else if (alg == "vector") a.reset(new AcordVector(&ac));
  else if (alg == "zderived") a.reset(new AcordZderived(&ac));
  // the constructor of AcordIntersection builds its member ApproximateCoordinates with the public constructor,
  // which resets the static small-angle limit to 0.15: every case starts from the same static state
  else if (alg == "intersection") a.reset(new AcordIntersection(&ac));
  else { std::cout << "bad-op\n"; return 0; }
  for (int k = 0; k < reps; k++) {
    a->execute();
    if (alg == "hdiff") {
      // the flag Acord2::execute looks at after every round (a completed strategy is erased from the list)
      std::cout << "completed " << (a->completed() ? 1 : 0) << "\n";
      if (k == 0)
        for (auto& nz : later) { PD[PointID(nz.first)].set_z(nz.second); ac.missing_z_.erase(PointID(nz.first)); }
    }
    if (alg == "zderived") {
      for (auto& id : ids) {
        auto rg = ac.candidate_z_.equal_range(PointID(id));
        if (rg.first == rg.second) continue;
        std::cout << "cand " << id;
        for (auto c = rg.first; c != rg.second; ++c) std::cout << " " << vp::hex(c->second);
        std::cout << "\n";
      }
      ac.get_medians_z();
      ac.candidate_z_.clear();
    }
  }
  print_points(ids, PD, ac);
  if (alg == "intersection") {
    // Orientation::add_all (run by every ApproxPoint::reset) writes the orientation of the real stand-points
    int k = 0;
    for (auto c : OD.clusters) {
      if (auto sp = dynamic_cast<StandPoint*>(c))
        std::cout << "ori " << k << " " << (sp->test_orientation() ? 1 : 0) << " "
                  << vp::hex(sp->test_orientation() ? sp->orientation() : 0) << "\n";
      k++;
    }
  }
  std::cout << "completed " << (a->completed() ? 1 : 0) << "\n";
  return 0;
}

// `acord2 <cs 0..7> <rh 0|1> records…`: the same in-memory network, the real Acord2 constructor and the REAL
// Acord2::execute().  Observer objects are put into `algorithms_` (access re-declared above; the class is not changed):
// a `Probe` at the head of the list, whose execute() records |missing_xy_|, |missing_z_| at the start of every turn of
// the do-while (it never completes, so it is called once per turn), and a `Watch` around every strategy: it forwards
// execute()/completed(), notes which strategy's execute() gave a point its xy, and for the strategies that have no model
// (AcordPolar, AcordTraverse, AcordWeakChecks) whether the strategy changed a point, a candidate list, `missing_*` or
// `traverses` (stand-points oriented by AcordPolar::points_from_SPCluster are counted separately, `oriset n`).
// Output: `acted <className>`* (strategies without a model that did something; the case is then outside the model),
//         `oriset n`, `by id className`* (the harness' own bookkeeping), `r k mxy mz` per turn, `rounds n`, the point
//         lines as for `acord`.
namespace {
struct Probe : AcordAlgorithm {
  Acord2& ac; vector<std::pair<size_t, size_t>>& log;
  Probe(Acord2& a, vector<std::pair<size_t, size_t>>& l) : ac(a), log(l) {}
  void prepare() override {}
  void execute() override { log.push_back({ac.missing_xy_.size(), ac.missing_z_.size()}); }
  const char* className() const override { return "Probe"; }
};
struct Watch : AcordAlgorithm {
  std::shared_ptr<AcordAlgorithm> in; Acord2& ac; PointData& PD; std::set<string>& acted; int& oriset;
  std::map<string, string>& by;          // point id -> class name of the strategy whose execute() first gave it xy
  bool modelled;
  Watch(std::shared_ptr<AcordAlgorithm> i, Acord2& a, PointData& pd, std::set<string>& s, int& o,
        std::map<string, string>& b, bool m)
    : in(i), ac(a), PD(pd), acted(s), oriset(o), by(b), modelled(m) {}
  int oriented() const { int n = 0; for (auto sp : ac.SPClusters_) if (sp && sp->test_orientation()) n++; return n; }
  string snapshot() const {
    std::ostringstream o;
    for (auto& q : PD)
      o << q.first << ":" << q.second.test_xy() << vp::hex(q.second.test_xy() ? q.second.x() : 0)
        << vp::hex(q.second.test_xy() ? q.second.y() : 0) << q.second.test_z() << vp::hex(q.second.test_z() ? q.second.z() : 0) << ";";
    o << ac.candidate_xy_.size() << "," << ac.candidate_z_.size() << "," << ac.missing_xy_.size() << ","
      << ac.missing_z_.size() << "," << ac.traverses.size();
    return o.str();
  }
  void prepare() override { in->prepare(); }
  void execute() override {
    string b = modelled ? string() : snapshot();
    int o = oriented();
    std::set<string> had;
    for (auto& q : PD) if (q.second.test_xy()) had.insert(q.first.str());
    in->execute();
    completed_ = in->completed();
    for (auto& q : PD) if (q.second.test_xy() && !had.count(q.first.str())) by[q.first.str()] = in->className();
    if (!modelled) {
      if (snapshot() != b) acted.insert(in->className());
      oriset += oriented() - o;
    }
  }
  const char* className() const override { return in->className(); }
};
}

static int run_acord2(const vector<string>& t)
{
  if (t.size() < 3) { std::cout << "bad-op\n"; return 0; }
  PointData PD; ObservationData OD;
  PD.local_coordinate_system = LocalCoordinateSystem::CS(atoi(t[1].c_str()));
  if (atoi(t[2].c_str())) PD.setAngularObservations_Righthanded(); else PD.setAngularObservations_Lefthanded();
  vector<string> ids;
  vector<std::pair<string, double>> later;
  if (!parse_records(t, 3, PD, OD, ids, later) || !later.empty()) { std::cout << "bad-op\n"; return 0; }
  Acord2 ac(PD, OD);
  vector<std::pair<size_t, size_t>> log;
  std::set<string> acted;
  int oriset = 0;
  std::map<string, string> by;
  for (auto& a : ac.algorithms_) {
    const string cn = a->className();
    const bool unmodelled = cn == "AcordPolar" || cn == "AcordTraverse" || cn == "AcordWeakChecks";
    a = std::make_shared<Watch>(a, ac, PD, acted, oriset, by, !unmodelled);
  }
  ac.algorithms_.insert(ac.algorithms_.begin(), std::make_shared<Probe>(ac, log));
  ac.execute();
  for (auto& s : acted) std::cout << "acted " << s << "\n";
  std::cout << "oriset " << oriset << "\n";
  for (auto& q : by) std::cout << "by " << q.first << " " << q.second << "\n";
  for (size_t k = 0; k < log.size(); k++) std::cout << "r " << k + 1 << " " << log[k].first << " " << log[k].second << "\n";
  std::cout << "rounds " << log.size() << "\n";
  print_points(ids, PD, ac);
  return 0;
}
