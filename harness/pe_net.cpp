// project_equations() as ONE function: the real LocalNetwork against lean/Gama/Model/ProjectEquations.lean
// (driver lean/Driver/ProjectEquations.lean, stream tools/gen/pe_stream.py).
//
// ops (stdin):
//   load <path.gkf> <env|chol|gso|svd> [raw]   parse, set_algorithm, remove_inconsistency, Acord2 (not with `raw`:
//                                        the stand-points stay without orientation)
//   pass                                 see below
//   touch                                update_points()
//   refine                               refine_approx_coordinates()   (gama-local's linearisation iteration)
//   drop <id> xy|z|xyz                   set the point unused in xy / z + removed(), as singular_coords does
//   rm_obs <k>                           k-th observation of OD (0-based) set passive; update_observations()
//
// pass:
//   1. `if (!tst_redmer_) revision_observations();` — the very call project_equations() starts with, made here so
//      that the state can be read between the revision and the rest of the function (the numeric tests of
//      LocalRevision / revision_points are not part of the model; the structural part of the revision is, and is
//      idempotent, so the model re-runs it on this state and must leave it unchanged)
//      (before that call the state is written as "O …" lines: a third model input, usable when the revision did
//      nothing the model does not cover, i.e. when the point lines of O and P are the same)
//   2. the state as "P …" lines = definition lines of the driver (points in PD order with statuses and the index
//      fields earlier calls left, clusters of OD.clusters in order with covariance matrix and observations)
//   3. project_equations()  (recursion through singular_coords included)
//   4. the results as "R …" lines (or a single "R throw <kind>")
//   5. the state after the call as "Q …" lines (same shape as the P lines): a second model input on which the
//      model must reproduce every R line except "R rm" (the call is a fixpoint)
// Points are named by their position in PD at step 2; a point project_equations() inserts into PD (test_abs_term
// evaluates PD[obs->to()] with the empty id of X / Y / Z observations) is reported on an "E inserted" line and left
// out of the R and Q lines.  An empty point id is written <empty>.
// output: every line starts with O / P / Q (model input), R (result) or E (echo/ok/throw of the harness itself)
#include <cmath>
#include <cstdio>
#include <fstream>
#include <iostream>
#include <map>
#include <memory>
#include <sstream>
#include <string>
#include <vector>
#include <gnu_gama/local/network.h>
#include <gnu_gama/local/acord/acord2.h>
#include <gnu_gama/local/language.h>
#include <gnu_gama/xml/gkfparser.h>
#include <gnu_gama/sparse/smatrix.h>
#include "proto.h"

using namespace GNU_gama::local;

struct GamaVerifProbe {
  static const GNU_gama::SparseMatrix<double, int>* Asp(const LocalNetwork& n)
  { return n.Asp ? n.Asp : n.input.mat(); }   // sparse solvers take the matrix over into AdjInputData
  static int cols(const LocalNetwork& n) { return n.pocet_neznamych_; }
  static int rows(const LocalNetwork& n) { return n.pocmer_; }
  static int rhs_dim(const LocalNetwork& n) { return n.rhs_.dim(); }
  static int min_n(const LocalNetwork& n) { return n.min_n_; }
  static const int* min_x(const LocalNetwork& n) { return n.min_x_; }
  static bool revised(const LocalNetwork& n) { return n.tst_redmer_; }
  static size_t unknowns_size(const LocalNetwork& n) { return n.unknowns_.size(); }
};

static std::unique_ptr<LocalNetwork> IS;

static const char* cls_of(const Observation* o)
{
  if (dynamic_cast<const Direction*>(o))  return "Direction";
  if (dynamic_cast<const Distance*>(o))   return "Distance";
  if (dynamic_cast<const Angle*>(o))      return "Angle";
  if (dynamic_cast<const H_Diff*>(o))     return "H_Diff";
  if (dynamic_cast<const S_Distance*>(o)) return "S_Distance";
  if (dynamic_cast<const Z_Angle*>(o))    return "Z_Angle";
  if (dynamic_cast<const X*>(o))          return "X";
  if (dynamic_cast<const Y*>(o))          return "Y";
  if (dynamic_cast<const Z*>(o))          return "Z";
  if (dynamic_cast<const Xdiff*>(o))      return "Xdiff";
  if (dynamic_cast<const Ydiff*>(o))      return "Ydiff";
  if (dynamic_cast<const Zdiff*>(o))      return "Zdiff";
  if (dynamic_cast<const Azimuth*>(o))    return "Azimuth";
  return "?";
}
static char stc(bool active, bool fixed, bool constrained, bool adjusted)
{ return !active ? 'u' : fixed ? 'f' : constrained ? 'c' : adjusted ? 'a' : 'u'; }
static char st_xy(const LocalPoint& p) { return stc(p.active_xy(), p.fixed_xy(), p.constrained_xy(), p.free_xy()); }
static char st_z(const LocalPoint& p)  { return stc(p.active_z(),  p.fixed_z(),  p.constrained_z(),  p.free_z()); }
static std::string idtok(const PointID& id) { return id.str().empty() ? std::string("<empty>") : id.str(); }

static const char* mv_kind(int e)
{
  switch (e) {
    case GNU_gama::Exception::BadRank: return "BadRank";
    case GNU_gama::Exception::BadIndex: return "BadIndex";
    case GNU_gama::Exception::Singular: return "Singular";
    case GNU_gama::Exception::BadRegularization: return "BadRegularization";
    case GNU_gama::Exception::NoConvergence: return "NoConvergence";
    case GNU_gama::Exception::ZeroDivision: return "ZeroDivision";
    case GNU_gama::Exception::NonPositiveDefinite: return "NonPositiveDefinite";
    case GNU_gama::Exception::NotImplemented: return "NotImplemented";
    case GNU_gama::Exception::StreamError: return "StreamError";
  }
  return "Other";
}
static std::string local_kind(const std::string& what)
{
  if (what == T_POBS_zero_or_negative_slope_distance) return "zeroSlopeDistance";
  if (what == T_POBS_zero_or_negative_zenith_angle)   return "zeroZenithAngle";
  if (what == T_POBS_bad_data)                        return "badData";
  std::cout << "E local-exception " << what << "\n";
  return "other";
}

// the points as named in this pass: PD order at the time of the P lines
static std::vector<PointID> IDS;
static std::map<PointID, int> POS;

static int pos_of(const PointID& id)
{
  auto f = POS.find(id);
  return f == POS.end() ? int(IDS.size()) : f->second;
}

static void dump_cov(const CovMat& C)
{
  std::cout << " " << C.rows() << " " << C.bandWidth();
  for (const double* p = C.begin(), *e = C.end(); p != e; ++p) std::cout << " " << vp::hex(*p);
}

// the state as model input (prefix "P" before the call, "Q" after it)
static void dump_state(const char* pre)
{
  const LocalNetwork& N = *IS;
  std::cout << pre << " net " << vp::hex(N.apriori_m_0()) << " " << vp::hex(IS->PD.xNorthAngle()) << "\n";
  for (const PointID& id : IDS) {
    const LocalPoint& p = IS->PD.find(id)->second;
    const bool xy = p.test_xy(), z = p.test_z();
    std::cout << pre << " pt " << idtok(id) << " " << vp::hex(xy ? p.x() : 0.0) << " " << vp::hex(xy ? p.y() : 0.0) << " "
              << vp::hex(z ? p.z() : 0.0) << " " << st_xy(p) << " " << st_z(p) << " "
              << p.index_x() << " " << p.index_y() << " " << p.index_z() << "\n";
  }
  for (const auto* cl : IS->OD.clusters) {
    if (const StandPoint* sp = dynamic_cast<const StandPoint*>(cl)) {
      std::cout << pre << " cl S " << pos_of(sp->station) << " " << (sp->test_orientation() ? 1 : 0) << " "
                << vp::hex(sp->test_orientation() ? sp->orientation() : 0.0);
    }
    else std::cout << pre << " cl O";
    dump_cov(cl->covariance_matrix);
    std::cout << "\n";
    for (const Observation* o : cl->observation_list) {
      const std::string k = cls_of(o);
      int from = pos_of(o->from()), to = pos_of(o->to()), fs = 0;
      if (k == "X" || k == "Y" || k == "Z") to = from;
      if (const Angle* a = dynamic_cast<const Angle*>(o)) fs = pos_of(a->fs());
      std::cout << pre << " ob " << (o->active() ? 1 : 0) << " " << k << " " << from << " " << to << " " << fs << " "
                << vp::hex(o->value()) << "\n";
    }
  }
}

static void dump_results(size_t nrm)
{
  LocalNetwork& N = *IS;
  const int rows = GamaVerifProbe::rows(N), cols = GamaVerifProbe::cols(N);
  std::cout << "R n " << rows << " " << cols << "\n";
  GNU_gama::SparseMatrix<double, int>* A = const_cast<GNU_gama::SparseMatrix<double, int>*>(GamaVerifProbe::Asp(N));
  if (A == nullptr || A->rows() != rows || GamaVerifProbe::rhs_dim(N) != rows) std::cout << "R no-system\n";
  else
    for (int i = 1; i <= rows; i++) {
      std::cout << "R row " << vp::hex(N.rhs(i)) << " " << A->size(i);
      const int* ib = A->ibegin(i);
      for (const double* nb = A->begin(i), *ne = A->end(i); nb != ne; ++nb, ++ib) std::cout << " " << *ib << " " << vp::hex(*nb);
      std::cout << "\n";
    }
  std::map<const void*, int> clpos;
  { int k = 0; for (const auto* cl : IS->OD.clusters) clpos[cl] = k++; }
  for (int j = 1; j <= cols && size_t(j) <= GamaVerifProbe::unknowns_size(N); j++) {
    const char t = N.unknown_type(j);
    std::cout << "R unk " << j << " ";
    if (t == 'X' || t == 'Y' || t == 'Z' || t == 'R') {
      std::cout << t << " " << idtok(N.unknown_pointid(j)) << " ";
      const StandPoint* sp = N.unknown_standpoint(j);
      if (sp && clpos.count(sp)) std::cout << clpos[sp]; else std::cout << "-";
    }
    else std::cout << "? ? -";
    std::cout << "\n";
  }
  for (size_t p = 0; p < IDS.size(); p++) {
    const LocalPoint& q = IS->PD.find(IDS[p])->second;
    std::cout << "R idx " << p << " " << q.index_x() << " " << q.index_y() << " " << q.index_z() << "\n";
  }
  { int k = 0;
    for (const auto* cl : IS->OD.clusters) {
      if (const StandPoint* sp = dynamic_cast<const StandPoint*>(cl)) std::cout << "R ori " << k << " " << sp->index_orientation() << "\n";
      k++;
    } }
  { const int* mx = GamaVerifProbe::min_x(N);
    const int k = mx ? GamaVerifProbe::min_n(N) : 0;
    std::cout << "R minx " << k;
    for (int i = 0; i < k; i++) std::cout << " " << mx[i];
    std::cout << "\n"; }
  { int ind_0 = 0;
    for (const auto* cl : IS->OD.clusters)
      if (const int n = cl->activeObs()) {
        std::cout << "R range " << ind_0 << " " << n << "\n";
        std::cout << "R cov";
        dump_cov(cl->activeCov());
        std::cout << "\n";
        ind_0 += n;
      } }
  std::cout << "R st";
  for (const PointID& id : IDS) { const LocalPoint& p = IS->PD.find(id)->second; std::cout << " " << st_xy(p) << st_z(p); }
  std::cout << "\nR rm";
  { size_t k = 0; for (const auto& id : IS->removed_points) if (k++ >= nrm) std::cout << " " << idtok(id); }
  std::cout << "\n";
}

static void pass()
{
  IDS.clear(); POS.clear();
  for (auto& kv : IS->PD) { POS[kv.first] = int(IDS.size()); IDS.push_back(kv.first); }
  if (!GamaVerifProbe::revised(*IS)) {
    dump_state("O");
    IS->revision_observations();
  }
  dump_state("P");
  std::cout.flush();
  const size_t nrm = IS->removed_points.size();
  std::string thrown;
  try { IS->project_equations(); }
  catch (const GNU_gama::local::Exception& e) { thrown = local_kind(e.what()); }
  catch (const GNU_gama::Exception::matvec& e) { thrown = mv_kind(e.error()); }
  catch (const GNU_gama::Exception::base& e) { thrown = std::string("gama ") + e.what(); }
  catch (const std::exception& e) { thrown = std::string("std ") + e.what(); }
  if (IS->PD.size() != IDS.size()) {
    std::cout << "E inserted";
    for (auto& kv : IS->PD) if (!POS.count(kv.first)) std::cout << " " << idtok(kv.first);
    std::cout << "\n";
  }
  if (!thrown.empty()) { std::cout << "R throw " << thrown << "\n"; return; }
  dump_results(nrm);
  dump_state("Q");
}

int main()
{
  set_gama_language(en);
  std::string line;
  bool is_case;
  while (vp::next(line, is_case)) {
    if (is_case) { IS.reset(); continue; }
    std::vector<std::string> t = vp::tokens(line);
    if (t.empty()) continue;
    try {
      if (t[0] == "load" && (t.size() == 3 || (t.size() == 4 && t[3] == "raw"))) {
        std::string alg;
        if      (t[2] == "env")  alg = "envelope";
        else if (t[2] == "chol") alg = "cholesky";
        else if (t[2] == "gso")  alg = "gso";
        else if (t[2] == "svd")  alg = "svd";
        else { std::cout << "E bad-op\n"; continue; }
        IS.reset(new LocalNetwork);
        std::ifstream in(t[1]);
        if (!in) { IS.reset(); std::cout << "E bad-op\n"; continue; }
        std::stringstream ss; ss << in.rdbuf();
        std::string text = ss.str();
        try {
          {
            GNU_gama::local::GKFparser gkf(*IS);
            gkf.xml_parse(text.c_str(), int(text.size()), 1);
          }
          IS->set_algorithm(alg);
          IS->remove_inconsistency();
          if (t.size() == 3) {
            Acord2 acord2(IS->PD, IS->OD);
            acord2.execute();
          }
        }
        catch (...) { IS.reset(); throw; }      // a network the parser rejects is not a network
        std::cout << "E loaded " << IS->PD.size() << "\n";
      }
      else if (!IS) std::cout << "E bad-op\n";
      else if (t[0] == "pass" && t.size() == 1) pass();
      else if (t[0] == "touch") { IS->update_points(); std::cout << "E ok\n"; }
      else if (t[0] == "refine") { IS->refine_approx_coordinates(); std::cout << "E ok\n"; }
      else if (t[0] == "drop" && t.size() == 3) {
        auto it = IS->PD.find(PointID(t[1]));
        if (it == IS->PD.end()) { std::cout << "E bad-op\n"; continue; }
        if (t[2] == "xy" || t[2] == "xyz") { it->second.set_unused_xy(); IS->removed(it->first, LocalNetwork::rm_singular_xy); }
        if (t[2] == "z"  || t[2] == "xyz") { it->second.set_unused_z();  IS->removed(it->first, LocalNetwork::rm_singular_z); }
        std::cout << "E ok\n";
      }
      else if (t[0] == "rm_obs" && t.size() == 2) {
        const int k = std::stoi(t[1]);
        int j = 0;
        bool done = false;
        for (auto i = IS->OD.begin(), e = IS->OD.end(); i != e; ++i, ++j)
          if (j == k) { (*i)->set_passive(); done = true; break; }
        if (done) { IS->update_observations(); std::cout << "E ok\n"; }
        else std::cout << "E bad-op\n";
      }
      else std::cout << "E bad-op\n";
    }
    catch (const GNU_gama::local::Exception& e) { std::cout << "E throw local " << e.what() << "\n"; }
    catch (const GNU_gama::Exception::matvec& e) { std::cout << "E throw matvec " << mv_kind(e.error()) << "\n"; }
    catch (const GNU_gama::Exception::base& e) { std::cout << "E throw gama " << e.what() << "\n"; }
    catch (const std::exception& e) { std::cout << "E throw std " << e.what() << "\n"; }
    catch (...) { std::cout << "E throw unknown\n"; }
    std::cout.flush();
  }
  return 0;
}
