// C12 correspondence harness: the real str2xml, and the real adjustment-results reader
// (LocalNetworkAdjustmentResults::read_xml / read_html) on files written by gama-local.
//
//   esc <hex|->                         -> ok <hex|->                 GNU_gama::str2xml
//   band <path> <dim> <band> <Q…>       -> hdr <dim> <band> / flt <tokens as printed> / mat <hex doubles, dim*dim>
//                                          (Q operands are for the model; the harness reads <path>)
//   index <path> <model operands…>      -> reader <indexes handed out> / orig <original-index list>
//   points <path> <fixed|approximate|adjusted> <model operands…>
//                                       -> pt <idhex> hxy hz cxy cz <x y z hex> indx indy indz  per point / end
//   read <path>   | readhtml <path>     -> field-by-field dump of LocalNetworkAdjustmentResultsData
//
// strings cross the protocol hex-encoded (`-` = empty), doubles as 0x + 16 hex digits.
#include "proto.h"
#include <fstream>
#include <gnu_gama/xml/str2xml.h>
#include <gnu_gama/xml/localnetwork_adjustment_results.h>

using GNU_gama::LocalNetworkAdjustmentResults;

static std::string hexs(const std::string& s) {
  if (s.empty()) return "-";
  static const char* d = "0123456789abcdef";
  std::string r;
  for (unsigned char c : s) { r += d[c >> 4]; r += d[c & 15]; }
  return r;
}
static std::string unhexs(const std::string& h) {
  if (h == "-") return "";
  std::string r;
  for (size_t i = 0; i + 1 < h.size(); i += 2) r += char(std::stoi(h.substr(i, 2), nullptr, 16));
  return r;
}
static std::string slurp(const std::string& path) {
  std::ifstream f(path); std::stringstream ss; ss << f.rdbuf(); return ss.str();
}

static bool load(const std::string& path, LocalNetworkAdjustmentResults& adj, bool html = false) {
  std::ifstream f(path);
  if (!f) { std::cout << "throw NoFile\n"; return false; }
  try {
    if (html) adj.read_html(f); else adj.read_xml(f);
  } catch (const GNU_gama::Exception::parser& e) {
    std::cout << "throw Parser " << e.line << " " << hexs(e.str) << "\n"; return false;
  } catch (const GNU_gama::Exception::base& e) {
    std::cout << "throw Exception " << hexs(e.what()) << "\n"; return false;
  } catch (const std::exception& e) {
    std::cout << "throw std " << hexs(e.what()) << "\n"; return false;
  } catch (...) {
    std::cout << "throw unknown\n"; return false;
  }
  return true;
}

static void dump_points(const char* name, const LocalNetworkAdjustmentResults::PointList& pl) {
  for (const auto& p : pl)
    std::cout << name << " " << hexs(p.id) << " " << p.hxy << " " << p.hz << " " << p.cxy << " " << p.cz << " "
              << vp::hex(p.x) << " " << vp::hex(p.y) << " " << vp::hex(p.z) << " "
              << p.indx << " " << p.indy << " " << p.indz << "\n";
}

int main() {
  std::string line; bool is_case;
  while (vp::next(line, is_case)) {
    if (is_case) continue;
    auto t = vp::tokens(line);
    if (t.empty()) continue;
    if (t[0] == "esc" && t.size() == 2) {
      std::cout << "ok " << hexs(GNU_gama::str2xml(unhexs(t[1]))) << "\n";
    } else if (t[0] == "band" && t.size() >= 4) {
      LocalNetworkAdjustmentResults adj;
      if (!load(t[1], adj)) continue;
      const int d = adj.cov.dim();
      std::cout << "hdr " << d << " " << adj.cov.bandWidth() << "\n";
      std::string txt = slurp(t[1]);
      std::cout << "flt";
      size_t c0 = txt.find("<cov-mat>"), c1 = txt.find("</cov-mat>");
      for (size_t p = c0; p != std::string::npos && p < c1;) {
        p = txt.find("<flt>", p);
        if (p == std::string::npos || p > c1) break;
        size_t q = txt.find("</flt>", p);
        std::cout << " " << txt.substr(p + 5, q - p - 5);
        p = q;
      }
      std::cout << "\nmat";
      const LocalNetworkAdjustmentResults& cadj = adj;     // the const operator() returns 0 outside the band
      for (int i = 1; i <= d; i++)
        for (int j = 1; j <= d; j++) std::cout << " " << vp::hex(cadj.cov(i, j));
      std::cout << "\n";
    } else if (t[0] == "index" && t.size() >= 2) {
      LocalNetworkAdjustmentResults adj;
      if (!load(t[1], adj)) continue;
      std::cout << "reader";
      for (const auto& p : adj.adjusted_points) {
        if (p.hxy) std::cout << " " << p.indx << " " << p.indy;
        if (p.hz) std::cout << " " << p.indz;
      }
      for (const auto& o : adj.orientations) std::cout << " " << o.index;
      std::cout << "\norig";
      for (size_t i = 1; i < adj.original_index.size(); i++) std::cout << " " << adj.original_index[i];
      std::cout << "\n";
    } else if (t[0] == "points" && t.size() >= 3) {
      LocalNetworkAdjustmentResults adj;
      if (!load(t[1], adj)) continue;
      const auto& pl = t[2] == "fixed" ? adj.fixed_points : t[2] == "adjusted" ? adj.adjusted_points : adj.approximate_points;
      for (const auto& p : pl)
        std::cout << "pt " << hexs(p.id) << " " << p.hxy << " " << p.hz << " " << p.cxy << " " << p.cz << " "
                  << vp::hex(p.x) << " " << vp::hex(p.y) << " " << vp::hex(p.z) << " "
                  << p.indx << " " << p.indy << " " << p.indz << "\n";
      std::cout << "end\n";
    } else if ((t[0] == "read" || t[0] == "readhtml") && t.size() == 2) {
      LocalNetworkAdjustmentResults adj;
      if (!load(t[1], adj, t[0] == "readhtml")) continue;
      std::cout << "description " << hexs(adj.description) << "\n";
      const auto& g = adj.network_general_parameters;
      std::cout << "general " << hexs(g.gama_local_algorithm) << " " << hexs(g.axes_xy) << " " << hexs(g.angles) << " "
                << hexs(g.epoch) << " " << hexs(g.latitude) << " " << hexs(g.ellipsoid) << " " << adj.gons << "\n";
      const auto& cs = adj.coordinates_summary;
      std::cout << "csum " << cs.adjusted.xyz << " " << cs.adjusted.xy << " " << cs.adjusted.z << " "
                << cs.constrained.xyz << " " << cs.constrained.xy << " " << cs.constrained.z << " "
                << cs.fixed.xyz << " " << cs.fixed.xy << " " << cs.fixed.z << "\n";
      const auto& os = adj.observations_summary;
      std::cout << "osum " << os.distances << " " << os.directions << " " << os.angles << " " << os.xyz_coords << " "
                << os.h_diffs << " " << os.z_angles << " " << os.s_dists << " " << os.vectors << " " << os.azimuths << "\n";
      const auto& pe = adj.project_equations;
      std::cout << "peq " << pe.equations << " " << pe.unknowns << " " << pe.degrees_of_freedom << " " << pe.defect << " "
                << vp::hex(pe.sum_of_squares) << " " << pe.connected_network << " " << pe.linearization_iterations << "\n";
      const auto& sd = adj.standard_deviation;
      std::cout << "sdev " << vp::hex(sd.apriori) << " " << vp::hex(sd.aposteriori) << " " << sd.using_aposteriori << " "
                << vp::hex(sd.probability) << " " << vp::hex(sd.ratio) << " " << vp::hex(sd.lower) << " "
                << vp::hex(sd.upper) << " " << int(sd.status) << " " << vp::hex(sd.confidence_scale) << "\n";
      dump_points("fixed", adj.fixed_points);
      dump_points("approx", adj.approximate_points);
      dump_points("adjusted", adj.adjusted_points);
      for (const auto& e : adj.ellipses)
        std::cout << "ellipse " << hexs(e.id) << " " << vp::hex(e.major) << " " << vp::hex(e.minor) << " " << vp::hex(e.alpha) << "\n";
      for (const auto& o : adj.orientations)
        std::cout << "orientation " << hexs(o.id) << " " << vp::hex(o.approx) << " " << vp::hex(o.adj) << " " << o.index << "\n";
      std::cout << "cov " << adj.cov.dim() << " " << adj.cov.bandWidth() << "\n";
      for (const auto& o : adj.obslist)
        std::cout << "obs " << hexs(o.xml_tag) << " " << hexs(o.from) << " " << hexs(o.to) << " " << hexs(o.left) << " "
                  << hexs(o.right) << " " << vp::hex(o.obs) << " " << vp::hex(o.adj) << " " << vp::hex(o.stdev) << " "
                  << vp::hex(o.qrr) << " " << vp::hex(o.f) << " " << vp::hex(o.std_residual) << " "
                  << hexs(o.err_obs) << " " << hexs(o.err_adj) << "\n";
      std::cout << "end\n";
    } else {
      std::cout << "bad-op\n";
    }
    std::cout.flush();
  }
  return 0;
}
