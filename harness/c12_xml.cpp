// C12 correspondence harness: the real str2xml, and the real adjustment-results reader
// (LocalNetworkAdjustmentResults::read_xml / read_html) on files written by gama-local.
//
//   esc <hex|->                         -> ok <hex|->                 GNU_gama::str2xml
//   band <path> <dim> <band> <Q…>       -> hdr <dim> <band> / flt <tokens as printed> / mat <hex doubles, dim*dim>
//                                          (Q operands are for the model; the harness reads <path>)
//   index <path> <model operands…>      -> reader <indexes handed out> / orig <original-index list>
//   points <path> <fixed|approximate|adjusted> <model operands…>
//                                       -> pt <idhex> hxy hz cxy cz <x y z hex> indx indy indz  per point / end
//   read <path>   | readhtml <path>     -> field-by-field dump of LocalNetworkAdjustmentResultsData
//   wnet <hex gkf> <band>               -> the network adjusted in-process as gama-local does, then what
//                                          LocalNetworkXML reads of it (frame / pt / ori / obs / qxx lines) and the
//                                          document LocalNetworkXML::write produces (xml <hex>); the model's writer
//                                          (Model/XmlRecords, CovBand) is run on the dumped quantities
//
// strings cross the protocol hex-encoded (`-` = empty), doubles as 0x + 16 hex digits.
#include "proto.h"
#include <fstream>
#include <gnu_gama/xml/str2xml.h>
#include <gnu_gama/xml/localnetwork_adjustment_results.h>
#include <gnu_gama/xml/localnetworkxml.h>
#include <gnu_gama/xml/gkfparser.h>
#include <gnu_gama/local/network.h>
#include <gnu_gama/local/acord/acord2.h>
#include <gnu_gama/local/test_linearization_visitor.h>
#include <cmath>

using GNU_gama::LocalNetworkAdjustmentResults;

static std::string hexs(const std::string& s) {
  if (s.empty()) return "-";
  static const char* d = "0123456789abcdef";
  std::string r;
  for (unsigned char c : s) { r += d[c >> 4]; r += d[c & 15]; }
  return r;
}
static std::string unhexs(const std::string& h) {
  if (h == "-") return "";
  std::string r;
  for (size_t i = 0; i + 1 < h.size(); i += 2) r += char(std::stoi(h.substr(i, 2), nullptr, 16));
  return r;
}
static std::string slurp(const std::string& path) {
  std::ifstream f(path); std::stringstream ss; ss << f.rdbuf(); return ss.str();
}

static bool load(const std::string& path, LocalNetworkAdjustmentResults& adj, bool html = false) {
  std::ifstream f(path);
  if (!f) { std::cout << "throw NoFile\n"; return false; }
  try {
    if (html) adj.read_html(f); else adj.read_xml(f);
  } catch (const GNU_gama::Exception::parser& e) {
    std::cout << "throw Parser " << e.line << " " << hexs(e.str) << "\n"; return false;
  } catch (const GNU_gama::Exception::base& e) {
    std::cout << "throw Exception " << hexs(e.what()) << "\n"; return false;
  } catch (const std::exception& e) {
    std::cout << "throw std " << hexs(e.what()) << "\n"; return false;
  } catch (...) {
    std::cout << "throw unknown\n"; return false;
  }
  return true;
}

static void dump_points(const char* name, const LocalNetworkAdjustmentResults::PointList& pl) {
  for (const auto& p : pl)
    std::cout << name << " " << hexs(p.id) << " " << p.hxy << " " << p.hz << " " << p.cxy << " " << p.cz << " "
              << vp::hex(p.x) << " " << vp::hex(p.y) << " " << vp::hex(p.z) << " "
              << p.indx << " " << p.indy << " " << p.indz << "\n";
}

static const char* kind_of(GNU_gama::local::Observation* o) {
  using namespace GNU_gama::local;
  if (dynamic_cast<Distance*>(o)) return "distance";
  if (dynamic_cast<Direction*>(o)) return "direction";
  if (dynamic_cast<Angle*>(o)) return "angle";
  if (dynamic_cast<H_Diff*>(o)) return "height-diff";
  if (dynamic_cast<S_Distance*>(o)) return "slope-distance";
  if (dynamic_cast<Z_Angle*>(o)) return "zenith-angle";
  if (dynamic_cast<X*>(o)) return "coordinate-x";
  if (dynamic_cast<Y*>(o)) return "coordinate-y";
  if (dynamic_cast<Z*>(o)) return "coordinate-z";
  if (dynamic_cast<Xdiff*>(o)) return "dx";
  if (dynamic_cast<Ydiff*>(o)) return "dy";
  if (dynamic_cast<Zdiff*>(o)) return "dz";
  if (dynamic_cast<Azimuth*>(o)) return "azimuth";
  return "?";
}

// the steps of src/gama-local.cpp between reading the input and writing the XML
static void wnet(const std::string& doc, int band) {
  using namespace GNU_gama::local;
  LocalNetwork lnet;
  {
    GKFparser gkf(lnet);
    gkf.xml_parse(doc.c_str(), int(doc.size()), 1);
  }
  if (!lnet.has_algorithm()) lnet.set_algorithm();
  lnet.set_adj_covband(band);
  lnet.remove_inconsistency();
  {
    Acord2 acord2(lnet.PD, lnet.OD);
    acord2.execute();
    refine_obsdh_reductions(&lnet);
  }
  if (lnet.points_count() == 0 || lnet.unknowns_count() == 0) { std::cout << "throw NoUnknowns\n"; return; }
  if (lnet.huge_abs_terms()) lnet.remove_huge_abs_terms();
  {
    const int d = lnet.null_space();   // triggers the adjustment (GeneralParameters)
    if (lnet.min_n() < d) { std::cout << "throw NotAdjustable\n"; return; }
    lnet.trans_VWV();
  }
  lnet.refine_adjustment();
  lnet.set_gons();
  std::ostringstream xml;
  GNU_gama::LocalNetworkXML w(&lnet);
  w.write(xml);
  const Vec& X = lnet.solve();
  const Vec& v = lnet.residuals();
  const int n = lnet.unknowns_count();
  std::cout << "frame " << vp::hex(lnet.y_sign()) << " " << vp::hex(R2G) << " " << vp::hex(lnet.gons() ? 1.0 : 0.324) << " "
            << vp::hex(lnet.conf_int_coef()) << " " << vp::hex(lnet.m_0()) << " " << n << " " << lnet.adj_covband() << "\n";
  for (PointData::const_iterator i = lnet.PD.begin(); i != lnet.PD.end(); ++i) {
    const LocalPoint& p = (*i).second;
    auto cor = [&](int k) { return k ? X(k) : 0.0; };
    std::cout << "pt " << hexs((*i).first.str()) << " " << p.active_xy() << " " << p.active_z() << " "
              << p.index_x() << " " << p.index_y() << " " << p.index_z() << " "
              << p.constrained_xy() << " " << p.constrained_z() << " "
              << vp::hex(p.test_xy() ? p.x() : 0.0) << " " << vp::hex(p.test_xy() ? p.y() : 0.0) << " "
              << vp::hex(p.test_z() ? p.z() : 0.0) << " "
              << vp::hex(cor(p.index_x())) << " " << vp::hex(cor(p.index_y())) << " " << vp::hex(cor(p.index_z())) << "\n";
  }
  for (int i = 1; i <= n; i++)
    if (lnet.unknown_type(i) == 'R') {
      StandPoint* k = lnet.unknown_standpoint(i);
      std::cout << "ori " << hexs(lnet.unknown_pointid(i).str()) << " " << i << " " << k->index_orientation() << " "
                << vp::hex(k->orientation()) << " " << vp::hex(X(i)) << "\n";
    }
  for (int i = 1; i <= lnet.observations_count(); i++) {
    Observation* o = lnet.ptr_obs(i);
    Angle* a = dynamic_cast<Angle*>(o);
    std::cout << "obs " << kind_of(o) << " " << hexs(o->from().str()) << " " << hexs(o->to().str()) << " "
              << hexs(a ? a->bs().str() : std::string()) << " " << hexs(a ? a->fs().str() : std::string()) << " "
              << vp::hex(o->value()) << " " << vp::hex(v(i)) << " " << vp::hex(lnet.stdev_obs(i)) << " "
              << vp::hex(lnet.wcoef_res(i)) << " " << vp::hex(lnet.obs_control(i)) << " "
              << vp::hex(std::fabs(lnet.studentized_residual(i))) << " " << vp::hex(lnet.weight_obs(i)) << " "
              << (o->ptr_cluster()->covariance_matrix.bandWidth() == 0) << "\n";
  }
  std::cout << "qxx";
  for (int i = 1; i <= n; i++)
    for (int j = i; j <= n; j++) std::cout << " " << vp::hex(lnet.qxx(i, j));
  std::cout << "\nxml " << hexs(xml.str()) << "\nend\n";
}

int main() {
  std::string line; bool is_case;
  while (vp::next(line, is_case)) {
    if (is_case) continue;
    auto t = vp::tokens(line);
    if (t.empty()) continue;
    if (t[0] == "esc" && t.size() == 2) {
      std::cout << "ok " << hexs(GNU_gama::str2xml(unhexs(t[1]))) << "\n";
    } else if (t[0] == "band" && t.size() >= 4) {
      LocalNetworkAdjustmentResults adj;
      if (!load(t[1], adj)) continue;
      const int d = adj.cov.dim();
      std::cout << "hdr " << d << " " << adj.cov.bandWidth() << "\n";
      std::string txt = slurp(t[1]);
      std::cout << "flt";
      size_t c0 = txt.find("<cov-mat>"), c1 = txt.find("</cov-mat>");
      for (size_t p = c0; p != std::string::npos && p < c1;) {
        p = txt.find("<flt>", p);
        if (p == std::string::npos || p > c1) break;
        size_t q = txt.find("</flt>", p);
        std::cout << " " << txt.substr(p + 5, q - p - 5);
        p = q;
      }
      std::cout << "\nmat";
      const LocalNetworkAdjustmentResults& cadj = adj;     // the const operator() returns 0 outside the band
      for (int i = 1; i <= d; i++)
        for (int j = 1; j <= d; j++) std::cout << " " << vp::hex(cadj.cov(i, j));
      std::cout << "\n";
    } else if (t[0] == "index" && t.size() >= 2) {
      LocalNetworkAdjustmentResults adj;
      if (!load(t[1], adj)) continue;
      std::cout << "reader";
      for (const auto& p : adj.adjusted_points) {
        if (p.hxy) std::cout << " " << p.indx << " " << p.indy;
        if (p.hz) std::cout << " " << p.indz;
      }
      for (const auto& o : adj.orientations) std::cout << " " << o.index;
      std::cout << "\norig";
      for (size_t i = 1; i < adj.original_index.size(); i++) std::cout << " " << adj.original_index[i];
      std::cout << "\n";
    } else if (t[0] == "points" && t.size() >= 3) {
      LocalNetworkAdjustmentResults adj;
      if (!load(t[1], adj)) continue;
      const auto& pl = t[2] == "fixed" ? adj.fixed_points : t[2] == "adjusted" ? adj.adjusted_points : adj.approximate_points;
      for (const auto& p : pl)
        std::cout << "pt " << hexs(p.id) << " " << p.hxy << " " << p.hz << " " << p.cxy << " " << p.cz << " "
                  << vp::hex(p.x) << " " << vp::hex(p.y) << " " << vp::hex(p.z) << " "
                  << p.indx << " " << p.indy << " " << p.indz << "\n";
      std::cout << "end\n";
    } else if (t[0] == "wnet" && t.size() == 3) {
      try {
        wnet(unhexs(t[1]), std::stoi(t[2]));
      } catch (const GNU_gama::local::ParserException& e) {
        std::cout << "throw Parser " << hexs(e.what()) << "\n";
      } catch (const GNU_gama::local::Exception& e) {
        std::cout << "throw Exception " << hexs(e.what()) << "\n";
      } catch (const GNU_gama::Exception::base& e) {
        std::cout << "throw Base " << hexs(e.what()) << "\n";
      } catch (const std::exception& e) {
        std::cout << "throw std " << hexs(e.what()) << "\n";
      } catch (...) {
        std::cout << "throw unknown\n";
      }
    } else if ((t[0] == "read" || t[0] == "readhtml") && t.size() == 2) {
      LocalNetworkAdjustmentResults adj;
      if (!load(t[1], adj, t[0] == "readhtml")) continue;
      std::cout << "description " << hexs(adj.description) << "\n";
      const auto& g = adj.network_general_parameters;
      std::cout << "general " << hexs(g.gama_local_algorithm) << " " << hexs(g.axes_xy) << " " << hexs(g.angles) << " "
                << hexs(g.epoch) << " " << hexs(g.latitude) << " " << hexs(g.ellipsoid) << " " << adj.gons << "\n";
      const auto& cs = adj.coordinates_summary;
      std::cout << "csum " << cs.adjusted.xyz << " " << cs.adjusted.xy << " " << cs.adjusted.z << " "
                << cs.constrained.xyz << " " << cs.constrained.xy << " " << cs.constrained.z << " "
                << cs.fixed.xyz << " " << cs.fixed.xy << " " << cs.fixed.z << "\n";
      const auto& os = adj.observations_summary;
      std::cout << "osum " << os.distances << " " << os.directions << " " << os.angles << " " << os.xyz_coords << " "
                << os.h_diffs << " " << os.z_angles << " " << os.s_dists << " " << os.vectors << " " << os.azimuths << "\n";
      const auto& pe = adj.project_equations;
      std::cout << "peq " << pe.equations << " " << pe.unknowns << " " << pe.degrees_of_freedom << " " << pe.defect << " "
                << vp::hex(pe.sum_of_squares) << " " << pe.connected_network << " " << pe.linearization_iterations << "\n";
      const auto& sd = adj.standard_deviation;
      std::cout << "sdev " << vp::hex(sd.apriori) << " " << vp::hex(sd.aposteriori) << " " << sd.using_aposteriori << " "
                << vp::hex(sd.probability) << " " << vp::hex(sd.ratio) << " " << vp::hex(sd.lower) << " "
                << vp::hex(sd.upper) << " " << int(sd.status) << " " << vp::hex(sd.confidence_scale) << "\n";
      dump_points("fixed", adj.fixed_points);
      dump_points("approx", adj.approximate_points);
      dump_points("adjusted", adj.adjusted_points);
      for (const auto& e : adj.ellipses)
        std::cout << "ellipse " << hexs(e.id) << " " << vp::hex(e.major) << " " << vp::hex(e.minor) << " " << vp::hex(e.alpha) << "\n";
      for (const auto& o : adj.orientations)
        std::cout << "orientation " << hexs(o.id) << " " << vp::hex(o.approx) << " " << vp::hex(o.adj) << " " << o.index << "\n";
      std::cout << "cov " << adj.cov.dim() << " " << adj.cov.bandWidth() << "\n";
      for (const auto& o : adj.obslist)
        std::cout << "obs " << hexs(o.xml_tag) << " " << hexs(o.from) << " " << hexs(o.to) << " " << hexs(o.left) << " "
                  << hexs(o.right) << " " << vp::hex(o.obs) << " " << vp::hex(o.adj) << " " << vp::hex(o.stdev) << " "
                  << vp::hex(o.qrr) << " " << vp::hex(o.f) << " " << vp::hex(o.std_residual) << " "
                  << hexs(o.err_obs) << " " << hexs(o.err_adj) << "\n";
      std::cout << "end\n";
    } else {
      std::cout << "bad-op\n";
    }
    std::cout.flush();
  }
  return 0;
}
