// C08 (construction of the regularisation list): the real LocalNetwork in-process, built from a .gkf by
// GKFparser; numbering of the unknowns and `min_x_` / `min_n_` read through the friend probe (struct
// GamaVerifProbe is a friend of LocalNetwork under -DGAMA_VERIF).  Counterpart: lean/Driver/MinX.lean.
//
// protocol (one op per line)
//   pt … | ob …                   description of the network for the model driver: ignored here
//   load <path.gkf>               ok
//   dump                          sp <number of StandPoint clusters>
//                                 pt <id> <xy><z>            one line per point of PD, in PD order (statuses u f a c)
//                                 ob <0|1> <Kind> <sp> <from> <to> <fs>   one line per observation of OD, in OD order
//                                 (positions in PD, 0-based; sp = number of the StandPoint cluster, 0-based)
//   pass                          project_equations() on a network that is not up to date:
//                                 out <unknowns> <min_n_> : <min_x_[0..min_n_)>
//                                 idx <p> <ix> <iy> <iz>     for every point with an active group
//                                 ori <k> <index>            for every stand-point
//                                 st <xy><z> …               statuses of all points after the call
//                                 rm <id> …                  points removed during the call
//                                 act <bitmap>               observations in revised_obs_
//   rm_obs <k>                    k-th observation of OD (0-based) set passive; update_observations()      ok
//   outlier <k> …                 remove_huge_abs_terms(); ok if exactly the listed observations are passive now,
//                                 else `unexpected <list of passive observations>`
//   rm_pt <p> xy|z                set_unused_xy()/set_unused_z() of the p-th point; update_points()         ok
//   relin                         new approximate coordinates (all adjusted points shifted by 1 mm); update_residuals()   ok
#include <cmath>
#include <fstream>
#include <iostream>
#include <map>
#include <memory>
#include <sstream>
#include <string>
#include <vector>
#include <gnu_gama/local/network.h>
#include <gnu_gama/local/language.h>
#include <gnu_gama/local/acord/acord2.h>
#include <gnu_gama/xml/gkfparser.h>
#include "proto.h"

using namespace GNU_gama::local;

struct GamaVerifProbe {
  static int min_n(const LocalNetwork& n) { return n.min_n_; }
  static const int* min_x(const LocalNetwork& n) { return n.min_x_; }
  static int unknowns(const LocalNetwork& n) { return n.pocet_neznamych_; }
  static const std::vector<Observation*>& revised(const LocalNetwork& n) { return n.revised_obs_; }
};

static char stc(bool active, bool fixed, bool constrained)
{ return !active ? 'u' : fixed ? 'f' : constrained ? 'c' : 'a'; }
static std::string status(const LocalPoint& p)
{
  std::string s;
  s += stc(p.active_xy(), p.fixed_xy(), p.constrained_xy());
  s += stc(p.active_z(), p.fixed_z(), p.constrained_z());
  return s;
}

static const char* kind_of(const Observation* o)
{
  if (dynamic_cast<const Direction*>(o)) return "Direction";
  if (dynamic_cast<const Distance*>(o)) return "Distance";
  if (dynamic_cast<const Angle*>(o)) return "Angle";
  if (dynamic_cast<const H_Diff*>(o)) return "H_Diff";
  if (dynamic_cast<const S_Distance*>(o)) return "S_Distance";
  if (dynamic_cast<const Z_Angle*>(o)) return "Z_Angle";
  if (dynamic_cast<const X*>(o)) return "X";
  if (dynamic_cast<const Y*>(o)) return "Y";
  if (dynamic_cast<const Z*>(o)) return "Z";
  if (dynamic_cast<const Xdiff*>(o)) return "Xdiff";
  if (dynamic_cast<const Ydiff*>(o)) return "Ydiff";
  if (dynamic_cast<const Zdiff*>(o)) return "Zdiff";
  if (dynamic_cast<const Azimuth*>(o)) return "Azimuth";
  return "Unknown";
}

int main()
{
  set_gama_language(en);
  std::unique_ptr<LocalNetwork> IS;
  std::string line; bool is_case;
  while (vp::next(line, is_case)) {
    if (is_case) { IS.reset(); continue; }
    std::vector<std::string> t = vp::tokens(line);
    if (t.empty() || t[0] == "pt" || t[0] == "ob" || t[0] == "sp") continue;
    try {
      if (t[0] == "load") {
        std::ifstream in(t.at(1)); std::stringstream ss; ss << in.rdbuf(); std::string text = ss.str();
        IS.reset(new LocalNetwork);
        { GKFparser gkf(*IS); gkf.xml_parse(text.c_str(), int(text.size()), 1); }
        if (!IS->has_algorithm()) IS->set_algorithm();
        IS->remove_inconsistency();
        { Acord2 acord2(IS->PD, IS->OD); acord2.execute(); }
        std::cout << "ok\n"; std::cout.flush(); continue;
      }
      if (!IS) { std::cout << "bad-op\n"; continue; }
      LocalNetwork& n = *IS;
      std::map<PointID, int> pos; { int k = 0; for (auto& kv : n.PD) pos[kv.first] = k++; }
      std::map<const void*, int> spno; std::vector<StandPoint*> sps;
      for (auto c = n.OD.clusters.begin(); c != n.OD.clusters.end(); ++c)
        if (StandPoint* sp = dynamic_cast<StandPoint*>(*c)) { spno[sp] = int(sps.size()); sps.push_back(sp); }
      std::vector<Observation*> all; for (auto i = n.OD.begin(), e = n.OD.end(); i != e; ++i) all.push_back(*i);
      const std::string& q = t[0];
      if (q == "dump") {
        std::cout << "sp " << sps.size() << "\n";
        for (auto& kv : n.PD) std::cout << "pt " << kv.first << " " << status(kv.second) << "\n";
        for (Observation* o : all) {
          int sp = 0; auto f = spno.find(o->ptr_cluster()); if (f != spno.end()) sp = f->second;
          int fs = 0; if (const Angle* a = dynamic_cast<const Angle*>(o)) fs = pos.count(a->fs()) ? pos[a->fs()] : -1;
          int from = pos.count(o->from()) ? pos[o->from()] : -1, to = pos.count(o->to()) ? pos[o->to()] : -1;
          const char* k = kind_of(o);
          if (std::string(k) == "X" || std::string(k) == "Y" || std::string(k) == "Z") to = from;
          std::cout << "ob " << (o->active() ? 1 : 0) << " " << k << " " << sp << " " << from << " " << to << " " << fs << "\n";
        }
      }
      else if (q == "pass") {
        size_t nrm = n.removed_points.size();
        n.project_equations();
        std::cout << "out " << GamaVerifProbe::unknowns(n) << " " << GamaVerifProbe::min_n(n) << " :";
        for (int i = 0; i < GamaVerifProbe::min_n(n); i++) std::cout << " " << GamaVerifProbe::min_x(n)[i];
        std::cout << "\n";
        { int k = 0; for (auto& kv : n.PD) { const LocalPoint& p = kv.second;
            if (p.active_xy() || p.active_z()) std::cout << "idx " << k << " " << p.index_x() << " " << p.index_y() << " " << p.index_z() << "\n";
            k++; } }
        for (size_t k = 0; k < sps.size(); k++) std::cout << "ori " << k << " " << sps[k]->index_orientation() << "\n";
        std::cout << "st"; for (auto& kv : n.PD) std::cout << " " << status(kv.second); std::cout << "\n";
        std::cout << "rm"; { size_t k = 0; for (auto& id : n.removed_points) if (k++ >= nrm) std::cout << " " << id; } std::cout << "\n";
        std::cout << "act ";
        { const auto& rev = GamaVerifProbe::revised(n);
          for (Observation* o : all) { bool in = false; for (Observation* r : rev) if (r == o) in = true; std::cout << (in ? 1 : 0); } }
        std::cout << "\n";
      }
      else if (q == "rm_obs") { all.at(std::stoi(t.at(1)))->set_passive(); n.update_observations(); std::cout << "ok\n"; }
      else if (q == "outlier") {
        n.remove_huge_abs_terms();
        std::vector<int> want; for (size_t i = 1; i < t.size(); i++) want.push_back(std::stoi(t[i]));
        std::vector<int> got; for (size_t k = 0; k < all.size(); k++) if (!all[k]->active()) got.push_back(int(k));
        bool same = true;
        for (int w : want) { bool in = false; for (int g : got) if (g == w) in = true; if (!in) same = false; }
        // observations switched off earlier (rm_obs) are passive too: the listed ones must be among the passive ones
        // and the number of passive observations must have grown by exactly the listed ones
        if (same) std::cout << "ok " << got.size() << "\n";
        else { std::cout << "unexpected"; for (int g : got) std::cout << " " << g; std::cout << "\n"; }
      }
      else if (q == "rm_pt") {
        int p = std::stoi(t.at(1)), k = 0;
        for (auto& kv : n.PD) if (k++ == p) { if (t.at(2) == "xy") kv.second.set_unused_xy(); else kv.second.set_unused_z(); }
        n.update_points(); std::cout << "ok\n";
      }
      else if (q == "relin") {
        for (auto& kv : n.PD) { LocalPoint& p = kv.second;
          if (p.free_xy() && p.test_xy()) p.set_xy(p.x() + 0.001, p.y() - 0.001);
          if (p.free_z() && p.test_z()) p.set_z(p.z() + 0.001); }
        n.update_residuals(); std::cout << "ok\n";
      }
      else std::cout << "bad-op\n";
    }
    catch (const GNU_gama::local::Exception& e) { std::cout << "throw local " << e.what() << "\n"; }
    catch (const GNU_gama::Exception::matvec& e) { std::cout << "throw matvec " << e.error() << "\n"; }
    catch (const GNU_gama::Exception::base& e) { std::cout << "throw gama " << e.what() << "\n"; }
    catch (const std::exception& e) { std::cout << "bad-op\n"; }
    std::cout.flush();
  }
  return 0;
}
