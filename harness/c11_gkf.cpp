// C11 correspondence harness: the real GKFparser / CoreParser / IsFloat / IsInteger / deg2gon.
//
// protocol (stdin, one op per line):
//   doc <hex bytes> <k>      parse the document; k = -1 whole, k >= 0: first chunk = first k bytes
//   lit <hex bytes>          IsFloat / IsInteger / CoreParser::toIndex / deg2gon on the string
//   enum <hex alphabet> <n>  the same on ALL strings of length n over the alphabet (base-|A| counting order)
//
// output for `doc`:
//   E start <hexname> <line> <d> [<hexattr>[!]]...   the SAX event as seen by the handler (! = value non-empty)
//   E stop <line> <d>                                d = 1 unless a non-structural error() was recorded here
//   E text <line> <hex>
//   C start <hexname> <line> [<hexattr>=<hexvalue>]...   the same event with the REAL attribute strings (for the value model)
//   C stop <line> <pd>                                   pd = 0 iff the error recorded here is "covariance matrix is not positive definite"
//   C text <line> <hex>
//   R <state> <kind|->        GKFparser::state after the handler; kind when error() was first recorded here
//   M <message id>            symbolic id of errString (information for the comparator, not produced by the model)
//   X <exception kind>        an exception left a handler (through expat)
//   O ok | O parser <line> <code> | O exc <kind>
// The Lean driver consumes the E lines and must produce the same R and O lines.
#include <cstdio>
#include <cstring>
#include <cstdlib>
#include <iostream>
#include <sstream>
#include <string>
#include <vector>
#include <memory>
#include <gnu_gama/xml/gkfparser.h>
#include <gnu_gama/local/network.h>
#include <gnu_gama/local/language.h>
#include <gnu_gama/intfloat.h>
#include <gnu_gama/gon2deg.h>
#include <csignal>
#include <unistd.h>
#include <sys/time.h>
#include <cstring>
#include "proto.h"

using namespace GNU_gama::local;

static std::string tohex(const char* s, size_t n) {
  static const char* d = "0123456789abcdef";
  std::string r;
  for (size_t i = 0; i < n; i++) { unsigned char c = s[i]; r += d[c >> 4]; r += d[c & 15]; }
  return r.empty() ? "-" : r;
}
static std::string tohex(const std::string& s) { return tohex(s.data(), s.size()); }
static std::string unhexs(const std::string& h) {
  std::string r;
  if (h == "-") return r;
  for (size_t i = 0; i + 1 < h.size(); i += 2) r += char(std::stoi(h.substr(i, 2), nullptr, 16));
  return r;
}

struct MsgId { const char* const* text; const char* id; bool prefix; bool structural; };
static const MsgId msgids[] = {
  { &T_GKF_must_start_with_gama_xml,        "must_start_with_gama_xml",      false, true },
  { &T_GKF_missing_tag_network,             "missing_tag_network",           false, true },
  { &T_GKF_e01a_illegal_tag,                "e01a_illegal_tag",              true,  true },
  { &T_GKF_no_observations_after_cov_mat,   "no_observations_after_cov_mat", false, true },
  { &T_GKF_illegal_text,                    "illegal_text",                  false, true },
  { &T_GKF_cov_mat_bad_dim_not_enough_elements, "cov_not_enough",            false, false },
  { &T_GKF_cov_mat_bad_dim_too_many_elements,   "cov_too_many",              false, false },
  { &T_GKF_cov_mat_bad_element,             "cov_bad_element",               true,  false },
  { &T_GKF_cov_mat_missing_dim,             "cov_missing_dim",               false, false },
  { &T_GKF_cov_mat_missing_band_width,      "cov_missing_band",              false, false },
  { &T_GKF_cov_mat_bad_dim,                 "cov_bad_dim",                   true,  false },
  { &T_GKF_cov_mat_bad_band_width,          "cov_bad_band",                  true,  false },
  { &T_GKF_covariance_matrix_is_not_positive_definite, "cov_not_posdef",     false, false },
  { &T_GKF_coordinates_without_covariance_matrix, "coords_without_cov",      false, false },
  { &T_GKF_vectors_without_covariance_matrix,     "vectors_without_cov",     false, false },
};
static const MsgId* classify(const std::string& s) {
  for (const MsgId& m : msgids) if (!m.prefix && s == *m.text) return &m;
  const MsgId* best = nullptr; size_t bl = 0;
  for (const MsgId& m : msgids)
    if (m.prefix) { size_t l = std::strlen(*m.text); if (l > bl && s.compare(0, l, *m.text) == 0) { best = &m; bl = l; } }
  return best;
}

class Probe : public GKFparser {
public:
  Probe(LocalNetwork& ln) : GKFparser(ln) {}

  std::string after(const char* evkind) {        // -> kind token of the R line, sets d
    std::string kind = "-";
    d = 1;
    pd = 1;
    if (!had_err && errCode != 0) {
      had_err = true;
      const MsgId* m = classify(errString);
      if (m && std::strcmp(m->id, "cov_not_posdef") == 0) pd = 0;
      if (m && m->structural) kind = m->id;
      else { kind = evkind; d = 0; }
      msg = m ? m->id : (errString.compare(0, 26, "T_GKF_cov_dim_differs_from") == 0 ? "cov_dim_differs" : "other");
    }
    return kind;
  }
  int startElement(const char* cname, const char** atts) override {
    int line = XML_GetCurrentLineNumber(parser);
    std::ostringstream a, c;
    for (const char** p = atts; *p; p += 2) a << " " << tohex(p[0], std::strlen(p[0])) << (p[1][0] ? "!" : "");
    for (const char** p = atts; *p; p += 2) c << " " << tohex(p[0], std::strlen(p[0])) << "=" << tohex(p[1], std::strlen(p[1]));
    try { GKFparser::startElement(cname, atts); }
    catch (...) {
      std::cout << "E start " << tohex(cname, std::strlen(cname)) << " " << line << " x" << a.str() << "\n";
      throw;
    }
    std::string k = after("handler");
    std::cout << "E start " << tohex(cname, std::strlen(cname)) << " " << line << " " << d << a.str() << "\n";
    std::cout << "C start " << tohex(cname, std::strlen(cname)) << " " << line << c.str() << "\n";
    result(k);
    return 0;
  }
  int endElement(const char* cname) override {
    int line = XML_GetCurrentLineNumber(parser);
    try { GKFparser::endElement(cname); }
    catch (...) { std::cout << "E stop " << line << " x\n"; throw; }
    std::string k = after("finish");
    std::cout << "E stop " << line << " " << d << "\n";
    std::cout << "C stop " << line << " " << pd << "\n";
    result(k);
    return 0;
  }
  int characterDataHandler(const char* s, int len) override {
    int line = XML_GetCurrentLineNumber(parser);
    GKFparser::characterDataHandler(s, len);
    std::string k = after("handler");
    std::cout << "E text " << line << " " << tohex(s, len) << "\n";
    std::cout << "C text " << line << " " << tohex(s, len) << "\n";
    result(k);
    return 0;
  }
  void result(const std::string& k) {
    std::cout << "R " << state << " " << k << "\n";
    if (!msg.empty()) { std::cout << "M " << msg << "\n"; msg.clear(); }
  }
  bool index(const std::string& s, int& i) const { return toIndex(s, i); }
  bool dbl(const std::string& s, double& v) const { return toDouble(s, v); }
  bool integer_ok(const std::string& s) const { return GNU_gama::IsInteger(s); }
  bool had_err = false;
  int d = 1;
  int pd = 1;
  std::string msg;
};

// a document on which the parser does not come back within the limit: report and leave with status 88
// (the runner restarts the harness after the offending case)
// termination is judged by CPU time, not wall time (a loaded machine must not look like a hang):
// ITIMER_PROF counts the user+system CPU time of this process and raises SIGPROF when it is used up
static void cpu_limit(int seconds) {
  struct itimerval t;
  std::memset(&t, 0, sizeof t);
  t.it_value.tv_sec = seconds;
  setitimer(ITIMER_PROF, &t, nullptr);
}
static void on_alarm(int) {
  static const char m[] = "O timeout\n";
  ssize_t r = write(1, m, sizeof m - 1); (void)r;
  _exit(88);
}

static void parse_doc(const std::string& doc, long k) {
  LocalNetwork ln;
  Probe p(ln);
  try {
    if (k < 0 || k > (long)doc.size()) p.xml_parse(doc.c_str(), (int)doc.size(), 1);
    else {
      p.xml_parse(doc.c_str(), (int)k, 0);
      p.xml_parse(doc.c_str() + k, (int)(doc.size() - k), 1);
    }
    std::cout << "O ok\n";
  }
  catch (const ParserException& e) { std::cout << "O parser " << e.line << " " << e.error_code << "\n"; }
  catch (const GNU_gama::local::Exception& e) { std::cout << "X local::Exception\nO exc local::Exception\n"; }
  catch (const std::bad_alloc&) { std::cout << "X bad_alloc\nO exc bad_alloc\n"; }
  catch (const std::exception& e) { std::cout << "X std::exception\nO exc std::exception\n"; }
  catch (...) { std::cout << "X unknown\nO exc unknown\n"; }
}

// mask = IsFloat + 2*IsInteger + 4*deg2gon + 8*CoreParser::toDouble ; then ':' and the value of CoreParser::toIndex ('-' = rejected,
// 'big' = accepted by the recogniser but >= 2^31, where toIndex's static_cast<int> is undefined and not called)
static std::string lit_result(Probe& p, const std::string& s) {
  bool f = GNU_gama::IsFloat(s);
  bool i = GNU_gama::IsInteger(s);
  bool allsd = true;
  for (char c : s) if (!isspace(c) && !isdigit(c)) allsd = false;   // same filter as toIndex
  std::string x = "-";
  double v = 0;
  if (allsd && p.dbl(s, v) && v >= 2147483648.0) x = "big";    // the cast in toIndex would be undefined
  else { int idx = 0; if (p.index(s, idx)) x = std::to_string(idx); }
  double g = 0;
  bool dg = GNU_gama::deg2gon(s, g);
  std::ostringstream o;
  double tv = 0;
  bool td = p.dbl(s, tv);
  o << (f ? 1 : 0) + (i ? 2 : 0) + (dg ? 4 : 0) + (td ? 8 : 0) << ":" << x;
  return o.str();
}

int main()
{
  set_gama_language(en);
  std::signal(SIGPROF, on_alarm);
  std::string line;
  bool is_case;
  LocalNetwork ln0;
  Probe lp(ln0);
  while (vp::next(line, is_case)) {
    if (is_case) continue;
    std::vector<std::string> t = vp::tokens(line);
    if (t.size() == 3 && t[0] == "doc") {
      std::cout.flush();
      cpu_limit(10);
      parse_doc(unhexs(t[1]), std::atol(t[2].c_str()));
      cpu_limit(0);
    } else if (t.size() == 2 && t[0] == "lit") {
      std::cout << "lit " << lit_result(lp, unhexs(t[1])) << "\n";
    } else if (t.size() == 3 && t[0] == "enum") {
      std::string A = unhexs(t[1]);
      int n = std::atoi(t[2].c_str());
      if (A.empty() || n < 0 || n > 8) { std::cout << "bad-op\n"; continue; }
      std::vector<int> ix(n, 0);
      std::string s(n, A[0]);
      long cnt = 0;
      std::ostringstream o;
      for (;;) {
        for (int j = 0; j < n; j++) s[j] = A[ix[j]];
        o << lit_result(lp, s);
        if (++cnt % 64 == 0) { std::cout << o.str() << "\n"; o.str(""); } else o << " ";
        int j = n - 1;
        while (j >= 0 && ++ix[j] == (int)A.size()) ix[j--] = 0;
        if (j < 0) break;
      }
      if (cnt % 64 != 0) std::cout << o.str() << "\n";
      std::cout << "count " << cnt << "\n";
    } else std::cout << "bad-op\n";
    std::cout.flush();
  }
  return 0;
}
