// Correspondence harness C17: GNU_gama::Normal, Student, Chi_square, NormalDistribution, KSprob
// (lib/gnu_gama/statan.cpp).  Protocol (doubles as 0x + 16 hex digits):
//   normal a | student a N | chi p n | ks x   -> ok v
//   nd x                                      -> ok D f
#include <gnu_gama/statan.h>
#include "proto.h"
using namespace GNU_gama;
int main()
{
  std::string line; bool is_case;
  while (vp::next(line, is_case)) {
    if (is_case) continue;
    std::vector<std::string> t = vp::tokens(line);
    if (t.empty()) continue;
    const std::string& op = t[0];
    if      (op == "normal"  && t.size() == 2) std::cout << "ok " << vp::hex(Normal(vp::unhex(t[1]))) << "\n";
    else if (op == "student" && t.size() == 3) std::cout << "ok " << vp::hex(Student(vp::unhex(t[1]), std::stoi(t[2]))) << "\n";
    else if (op == "chi"     && t.size() == 3) std::cout << "ok " << vp::hex(Chi_square(vp::unhex(t[1]), std::stoi(t[2]))) << "\n";
    else if (op == "ks"      && t.size() == 2) std::cout << "ok " << vp::hex(KSprob(vp::unhex(t[1]))) << "\n";
    else if (op == "nd"      && t.size() == 2) { double D, f; NormalDistribution(vp::unhex(t[1]), D, f);
                                                 std::cout << "ok " << vp::hex(D) << " " << vp::hex(f) << "\n"; }
    else std::cout << "bad-op\n";
  }
  return 0;
}
