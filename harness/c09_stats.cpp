// Correspondence harness for C09: an in-process GNU_gama::local::LocalNetwork built by GKFparser from a
// generated .gkf, adjusted the way src/gama-local.cpp does it, then every statistic accessor is printed
// next to the inputs of its formula (all doubles as hex bit patterns).
//
// protocol (stdin):   load <path.gkf> <algorithm|->     |     accept <hex double>   (conf_pr setter guard)
// output, one line per reported quantity,   <kind> <inputs...> => <reported values...>
//   dof   rows cols defect                                  => dof
//   m0    act sigmaApr phi dof                              => m_0() m_0_aposteriori_value()
//   conf  act confPr dof p normal(p) student(p,dof)         => conf_int_coef()
//   unk   m0 qxx                                            => unknown_stdev(i)
//   obs   m0 sigmaApr qbb stdev r                           => weight_obs stdev_obs wcoef_res stdev_res studentized obs_control
//         (stdev = sqrt of the observation's OWN variance: entry (k+1,k+1) of its cluster's covariance matrix, k its position
//          in the cluster's observation_list found by pointer search over ALL observations -- independent of cluster_index
//          and of Observation::stdDev())
//   cidx  k flags d_1..d_n                                  => cluster_index stdDev()
//         (k as above; flags = active() of every observation of the cluster as 0/1, in list order; d = diagonal of the
//          cluster's covariance matrix; reported: the observation's cluster_index and what Observation::stdDev() returns)
//   ell   cyy cyx cxx m0                                    => a b alfa
//   cov   m0 q                                              => what LocalNetworkXML prints in <cov-mat> (recomputed the same way)
// or   fail <reason>   when the network cannot be adjusted.
#include <cmath>
#include <cstdio>
#include <fstream>
#include <iostream>
#include <list>
#include <sstream>
#include <string>
#include <gnu_gama/xml/gkfparser.h>
#include <gnu_gama/local/network.h>
#include <gnu_gama/local/acord/acord2.h>
#include <gnu_gama/local/results/text/general_parameters.h>
#include <gnu_gama/local/test_linearization_visitor.h>
#include <gnu_gama/statan.h>
#include "proto.h"

using namespace GNU_gama::local;
using vp::hex;

// read access to the protected member Observation::cluster_index (explicit instantiation may name it)
namespace {
  template <typename Tag, typename Tag::type M> struct Rob { friend typename Tag::type peek(Tag) { return M; } };
  struct ClusterIndexTag { typedef int Observation::*type; friend type peek(ClusterIndexTag); };
  template struct Rob<ClusterIndexTag, &Observation::cluster_index>;
}

static void run(const std::string& path, const std::string& alg)
{
  LocalNetwork net;
  LocalNetwork* IS = &net;
  {
    std::ifstream in(path);
    if (!in) { std::cout << "fail cannot-open\n"; return; }
    std::stringstream ss; ss << in.rdbuf();
    std::string text = ss.str();
    GKFparser gkf(*IS);
    gkf.xml_parse(text.c_str(), int(text.size()), 1);
  }
  if (alg != "-") IS->set_algorithm(alg);
  if (!IS->has_algorithm()) IS->set_algorithm();
  if (IS->PD.empty() || IS->OD.clusters.empty()) { std::cout << "fail empty\n"; return; }

  IS->remove_inconsistency();
  Acord2 acord2(IS->PD, IS->OD);
  acord2.execute();
  refine_obsdh_reductions(IS);

  if (IS->points_count() == 0 || IS->unknowns_count() == 0) { std::cout << "fail no-unknowns\n"; return; }
  if (IS->huge_abs_terms()) IS->remove_huge_abs_terms();
  {
    std::ostringstream tmp;
    if (!GeneralParameters(IS, tmp)) { std::cout << "fail cannot-adjust\n"; return; }
  }
  IS->refine_adjustment();
  IS->set_gons();

  const int rows = IS->observations_count();
  const int cols = IS->unknowns_count();
  const int defect = IS->null_space();
  const int dof = IS->degrees_of_freedom();
  std::cout << "dof " << rows << " " << cols << " " << defect << " => " << dof << "\n";

  const char* act = IS->m_0_apriori() ? "apriori" : "aposteriori";
  const double m0 = IS->m_0();
  std::cout << "m0 " << act << " " << hex(IS->apriori_m_0()) << " " << hex(IS->trans_VWV()) << " " << dof
            << " => " << hex(m0) << " " << hex(IS->m_0_aposteriori_value()) << "\n";

  {
    const double p = (1 - IS->conf_pr())/2;
    const double nv = GNU_gama::Normal(p);
    const double sv = dof > 0 ? GNU_gama::Student(p, dof) : std::nan("");
    std::cout << "conf " << act << " " << hex(IS->conf_pr()) << " " << dof << " " << hex(p) << " " << hex(nv) << " "
              << hex(sv) << " => " << hex(IS->conf_int_coef()) << "\n";
  }

  for (int i = 1; i <= cols; i++)
    std::cout << "unk " << hex(m0) << " " << hex(IS->qxx(i, i)) << " => " << hex(IS->unknown_stdev(i)) << "\n";

  const Vec& r = IS->residuals();
  for (int i = 1; i <= rows; i++)
    {
      Observation* o = IS->ptr_obs(i);
      const GNU_gama::Cluster<Observation>* cl = o->ptr_cluster();
      const int band = cl->covariance_matrix.bandWidth();
      const int cdim = int(cl->covariance_matrix.dim());
      int k = -1, pos = 0;
      std::string flags;
      for (std::list<Observation*>::const_iterator it = cl->observation_list.begin(); it != cl->observation_list.end(); ++it, ++pos)
        {
          if (*it == o) k = pos;
          flags += (*it)->active() ? '1' : '0';
        }
      const double own_var = (k >= 0 && k < cdim) ? cl->covariance_matrix(k + 1, k + 1) : std::nan("");
      std::cout << "obs " << hex(m0) << " " << hex(IS->apriori_m_0()) << " " << hex(IS->qbb(i, i)) << " "
                << hex(std::sqrt(own_var)) << " " << hex(r(i))
                << " => " << hex(IS->weight_obs(i)) << " " << hex(IS->stdev_obs(i)) << " " << hex(IS->wcoef_res(i))
                << " " << hex(IS->stdev_res(i)) << " " << hex(IS->studentized_residual(i)) << " "
                << hex(IS->obs_control(i)) << " # band=" << band << "\n";
      std::cout << "cidx " << k << " " << flags;
      for (int q = 1; q <= cdim; q++) std::cout << " " << hex(cl->covariance_matrix(q, q));
      std::cout << " => " << o->*peek(ClusterIndexTag()) << " " << hex(o->stdDev()) << "\n";
    }

  for (PointData::const_iterator i = IS->PD.begin(); i != IS->PD.end(); ++i)
    {
      const LocalPoint& p = (*i).second;
      if (!p.active_xy() || !p.free_xy() || !p.index_x()) continue;
      const int ix = p.index_x(), iy = p.index_y();
      double a, b, alfa;
      IS->std_error_ellipse((*i).first, a, b, alfa);
      std::cout << "ell " << hex(IS->qxx(iy, iy)) << " " << hex(IS->qxx(iy, ix)) << " " << hex(IS->qxx(ix, ix)) << " "
                << hex(m0) << " => " << hex(a) << " " << hex(b) << " " << hex(alfa) << "\n";
    }
}

int main()
{
  std::string line;
  bool is_case;
  while (vp::next(line, is_case))
    {
      if (is_case) continue;
      std::vector<std::string> t = vp::tokens(line);
      if (t.size() >= 3 && t[0] == "load")
        {
          try { run(t[1], t[2]); }
          catch (const GNU_gama::local::ParserException& e) { std::cout << "fail parser " << e.line << "\n"; }
          catch (const GNU_gama::local::Exception& e) { std::cout << "fail local-exception\n"; }
          catch (const GNU_gama::Exception::matvec& e) { std::cout << "fail matvec " << e.error() << "\n"; }
          catch (const std::exception& e) { std::cout << "fail std-exception\n"; }
          catch (...) { std::cout << "fail unknown-exception\n"; }
        }
      else if (t.size() == 2 && t[0] == "accept")     // LocalNetwork::conf_pr(double): stored or thrown?
        {
          LocalNetwork net;
          const double before = net.conf_pr();
          const double p = vp::unhex(t[1]);
          bool ok = true;
          try { net.conf_pr(p); } catch (const GNU_gama::local::Exception&) { ok = false; }
          const bool stored = ok ? (net.conf_pr() == p || (p != p)) : (net.conf_pr() == before);
          std::cout << "flag " << (ok ? 1 : 0) << (stored ? "" : " inconsistent-state") << "\n";
        }
      else std::cout << "bad-op\n";
      std::cout.flush();
    }
  return 0;
}
