// Correspondence harness for C15: the header-only matvec library (lib/matvec/*.h).
//
// Three families of lines (see lean/Driver/MatVec.lean for the model side):
//
//  1. object scripts on the raw owning buffer MemRep<double,int> (slots 0..7)
//       r.ctor i n | r.copy i j | r.move i j | r.assign i j | r.massign i j
//       r.resize i n | r.write i k x | r.fill i x | r.dtor i | r.dump
//  2. object scripts on Vec / Mat / SymMat (slots 0..7 each)
//       v.ctor i n | v.copy i j | v.move i j | v.assign i j | v.massign i j | v.reset i n
//       v.set i k x | v.fill i x | v.dtor i | v.dump
//       m.ctor i r c | m.copy | m.move | m.assign | m.massign | m.reset i r c | m.set i r c x
//       m.fill i x | m.scale i f | m.transpose i | m.invert i tol | m.dtor i | m.dump
//                                                           (same for s. with one dimension; no scale/invert)
//  3. stateless algebra:  op <name> <operand>...   operands:
//       M r c x..   Mat (row major)        T r c x..  trans(Mat r x c)     V n x..  Vec
//       S n x..     SymMat (packed lower)  W n x..    trans(Vec)           K x      scalar
//
// Observations beyond values:
//   live  = number of live `new[]` blocks (global operator new[]/delete[] are counted here), so
//           the leak in MemRep::operator= is visible and compared with the model's heap;
//   ub    = number of std::memcpy calls inside matvec that received a null pointer
//           (memcpy is routed through a counting wrapper; the wrapper never forwards a null
//           pointer, so UBSan does not abort the run and the event is *reported*, not hidden).
#include <cstdio>
#include <cstdlib>
#include <cstring>
#include <cmath>
#include <iostream>
#include <sstream>
#include <string>
#include <vector>
#include <memory>
#include <new>
#include <algorithm>
#include <initializer_list>
#include <limits>
#include <exception>
#include "proto.h"

static long g_live = 0;        // live new[] blocks
static long g_base = 0;        // blocks leaked by earlier cases (the count restarts per case)
static long g_ub_null = 0;     // memcpy calls with a null argument

void* operator new[](std::size_t n) { void* p = std::malloc(n ? n : 1); if (!p) throw std::bad_alloc(); ++g_live; return p; }
void operator delete[](void* p) noexcept { if (p) { --g_live; std::free(p); } }
void operator delete[](void* p, std::size_t) noexcept { if (p) { --g_live; std::free(p); } }

namespace std {
inline void* c15_memcpy(void* d, const void* s, size_t n) {
  if (d == nullptr || s == nullptr) { ++g_ub_null; if (n == 0) return d; }
  return ::memcpy(d, s, n);
}
}
#define memcpy c15_memcpy
#include <matvec/matvec.h>
#include <matvec/symmat.h>
#include <matvec/svd.h>
#include <matvec/pinv.h>
#include <matvec/sortvec.h>
#undef memcpy

using namespace GNU_gama;
typedef Exception::matvec Exc;
typedef Mat<double,int,Exc> M;
typedef Vec<double,int,Exc> V;
typedef SymMat<double,int,Exc> S;
typedef TransMat<double,int,Exc> T;
typedef TransVec<double,int,Exc> W;
typedef MatBase<double,int,Exc> MB;

// MemRep's special members are protected: expose them unchanged
struct Rep : MemRep<double,int,Exc> {
  typedef MemRep<double,int,Exc> B;
  Rep(int n) : B(n) {}
  Rep(const Rep& x) : B(x) {}
  Rep(Rep&& x) noexcept : B(std::move(x)) {}
  Rep& operator=(const Rep& x) { B::operator=(x); return *this; }
  Rep& operator=(Rep&& x) noexcept { B::operator=(std::move(x)); return *this; }
  using B::resize;
  using B::size;
};

static const char* errname(int e) {
  switch (e) {
    case Exception::BadRank: return "BadRank";
    case Exception::BadIndex: return "BadIndex";
    case Exception::Singular: return "Singular";
    case Exception::BadRegularization: return "BadRegularization";
    case Exception::NoConvergence: return "NoConvergence";
    case Exception::ZeroDivision: return "ZeroDivision";
    case Exception::NonPositiveDefinite: return "NonPositiveDefinite";
    case Exception::NotImplemented: return "NotImplemented";
    case Exception::StreamError: return "StreamError";
  }
  return "Unknown";
}

static const int NS = 8;
static std::unique_ptr<Rep> R[NS];
static std::unique_ptr<V> VV[NS];
static std::unique_ptr<M> MM[NS];
static std::unique_ptr<S> SS[NS];

static void reset_all() {
  for (int i = 0; i < NS; i++) { R[i].reset(); VV[i].reset(); MM[i].reset(); SS[i].reset(); }
}

template <class X> static std::string raw(const X& x) {       // [begin(), end())
  std::string s;
  for (auto p = x.begin(); p != x.end(); ++p) { s += " "; s += vp::hex(*p); }
  return s;
}

// ---------------------------------------------------------------- operands
struct Operand { char kind; int r, c; std::vector<double> x; };

static bool parse_operands(const std::vector<std::string>& t, size_t pos, std::vector<Operand>& out) {
  while (pos < t.size()) {
    Operand o; o.kind = t[pos][0]; o.r = o.c = 0;
    size_t n = 0;
    if (t[pos].size() != 1) return false;
    switch (o.kind) {
      case 'M': case 'T': if (pos + 2 >= t.size()) return false;
        o.r = std::stoi(t[pos+1]); o.c = std::stoi(t[pos+2]); n = size_t(o.r) * o.c; pos += 3; break;
      case 'V': case 'W': if (pos + 1 >= t.size()) return false;
        o.r = std::stoi(t[pos+1]); n = o.r; pos += 2; break;
      case 'S': if (pos + 1 >= t.size()) return false;
        o.r = std::stoi(t[pos+1]); n = size_t(o.r) * (o.r + 1) / 2; pos += 2; break;
      case 'K': n = 1; pos += 1; break;
      default: return false;
    }
    if (pos + n > t.size()) return false;
    for (size_t k = 0; k < n; k++) o.x.push_back(vp::unhex(t[pos + k]));
    pos += n;
    out.push_back(o);
  }
  return true;
}
static M mkM(const Operand& o) { M a(o.r, o.c); std::copy(o.x.begin(), o.x.end(), a.begin()); return a; }
static V mkV(const Operand& o) { V a(o.r); std::copy(o.x.begin(), o.x.end(), a.begin()); return a; }
static S mkS(const Operand& o) { S a(o.r); std::copy(o.x.begin(), o.x.end(), a.begin()); return a; }

static std::string outM(const MB& a) {      // through the public accessor: rows, cols, a(i,j) row by row
  std::string s = "ok M " + std::to_string(a.rows()) + " " + std::to_string(a.cols());
  for (int i = 1; i <= a.rows(); i++) for (int j = 1; j <= a.cols(); j++) { s += " "; s += vp::hex(a(i,j)); }
  return s;
}
static std::string outV(const VecBase<double,int,Exc>& a, const char* k = "V") {
  return std::string("ok ") + k + " " + std::to_string(a.dim()) + raw(a);
}
static std::string outS(const S& a) { return "ok S " + std::to_string(a.dim()) + raw(a); }
static std::string outK(double x) { return "ok K " + vp::hex(x); }

static std::string sig(const std::vector<Operand>& a) { std::string s; for (auto& o : a) s += o.kind; return s; }

// certificate numbers for SVD / pinv (explored, not proved): max-norm residuals
static double maxabs(const M& a) { double m = 0; for (auto p = a.begin(); p != a.end(); ++p) m = std::max(m, std::fabs(*p)); return m; }

static std::string algebra(const std::string& name, const std::vector<Operand>& a) {
  const std::string g = sig(a);
  // ---- sums, differences, scalar multiples
  if (name == "add"  && g == "MM") return outM(mkM(a[0]) + mkM(a[1]));
  if (name == "sub"  && g == "MM") return outM(mkM(a[0]) - mkM(a[1]));
  if (name == "addg" && g == "MM") { M x = mkM(a[0]), y = mkM(a[1]); return outM(GNU_gama::operator+<double,int,Exc>((const MB&)x, (const MB&)y)); }
  if (name == "subg" && g == "MM") { M x = mkM(a[0]), y = mkM(a[1]); return outM(GNU_gama::operator-<double,int,Exc>((const MB&)x, (const MB&)y)); }
  if (name == "add"  && g == "VV") return outV(mkV(a[0]) + mkV(a[1]));
  if (name == "sub"  && g == "VV") return outV(mkV(a[0]) - mkV(a[1]));
  if (name == "addeq" && g == "VV") { V x = mkV(a[0]); x += mkV(a[1]); return outV(x); }
  if (name == "subeq" && g == "VV") { V x = mkV(a[0]); x -= mkV(a[1]); return outV(x); }
  if (name == "add"  && g == "WW") return outV(trans(mkV(a[0])) + trans(mkV(a[1])), "W");
  if (name == "sub"  && g == "WW") return outV(trans(mkV(a[0])) - trans(mkV(a[1])), "W");
  if (name == "add"  && g == "SS") return outS(mkS(a[0]) + mkS(a[1]));
  if (name == "sub"  && g == "SS") return outS(mkS(a[0]) - mkS(a[1]));
  if (name == "addf" && g == "SS") { S x = mkS(a[0]), y = mkS(a[1]); return outS(GNU_gama::operator+<double,int,Exc>(x, y)); }
  if (name == "subf" && g == "SS") { S x = mkS(a[0]), y = mkS(a[1]); return outS(GNU_gama::operator-<double,int,Exc>(x, y)); }
  if (name == "addeq" && g == "SS") { S x = mkS(a[0]); x += mkS(a[1]); return outS(x); }
  if (name == "subeq" && g == "SS") { S x = mkS(a[0]); x -= mkS(a[1]); return outS(x); }
  if (name == "scale" && g == "MK") return outM(mkM(a[0]) * a[1].x[0]);
  if (name == "scale" && g == "KM") return outM(a[0].x[0] * mkM(a[1]));
  if (name == "scale" && g == "VK") return outV(mkV(a[0]) * a[1].x[0]);
  if (name == "scale" && g == "KV") return outV(a[0].x[0] * mkV(a[1]));
  if (name == "scale" && g == "SK") return outS(mkS(a[0]) * a[1].x[0]);
  if (name == "scaleeq" && g == "VK") { V x = mkV(a[0]); x *= a[1].x[0]; return outV(x); }
  if (name == "scaleeq" && g == "MK") { M x = mkM(a[0]); x *= a[1].x[0]; return outM(x); }
  if (name == "add"  && g == "MT") return outM(mkM(a[0]) + trans(mkM(a[1])));
  if (name == "sub"  && g == "MT") return outM(mkM(a[0]) - trans(mkM(a[1])));
  if (name == "add"  && g == "TM") return outM(trans(mkM(a[0])) + mkM(a[1]));
  if (name == "sub"  && g == "TM") return outM(trans(mkM(a[0])) - mkM(a[1]));
  if (name == "add"  && g == "TT") return outM(trans(mkM(a[0])) + trans(mkM(a[1])));
  if (name == "sub"  && g == "TT") return outM(trans(mkM(a[0])) - trans(mkM(a[1])));
  // ---- products
  if (name == "mul"  && g == "MM") return outM(mkM(a[0]) * mkM(a[1]));
  if (name == "mulg" && g == "MM") { M x = mkM(a[0]), y = mkM(a[1]); return outM(GNU_gama::operator*<double,int,Exc>((const MB&)x, (const MB&)y)); }
  if (name == "mul"  && g == "MV") return outV(mkM(a[0]) * mkV(a[1]));
  if (name == "mulg" && g == "MV") { M x = mkM(a[0]); V y = mkV(a[1]); return outV(GNU_gama::operator*<double,int,Exc>((const MB&)x, y)); }
  if (name == "mul"  && g == "TM") return outM(trans(mkM(a[0])) * mkM(a[1]));
  if (name == "mul"  && g == "MT") return outM(mkM(a[0]) * trans(mkM(a[1])));
  if (name == "mul"  && g == "TT") return outM(trans(mkM(a[0])) * trans(mkM(a[1])));
  if (name == "mul"  && g == "TV") return outV(trans(mkM(a[0])) * mkV(a[1]));
  if (name == "mul"  && g == "MS") return outM(mkM(a[0]) * mkS(a[1]));
  if (name == "mul"  && g == "SS") return outS(mkS(a[0]) * mkS(a[1]));
  if (name == "mul"  && g == "WM") return outV(trans(mkV(a[0])) * mkM(a[1]), "W");
  if (name == "mulg" && g == "WM") { W x = trans(mkV(a[0])); M y = mkM(a[1]); return outV(GNU_gama::operator*<double,int,Exc>(x, (const MB&)y), "W"); }
  if (name == "mulg" && g == "WT") return outV(trans(mkV(a[0])) * trans(mkM(a[1])), "W");   // MatBase overload
  if (name == "mulg" && g == "WS") return outV(trans(mkV(a[0])) * mkS(a[1]), "W");          // MatBase overload
  if (name == "mul"  && g == "VT") return outV(mkV(a[0]) * trans(mkM(a[1])), "W");
  if (name == "mul"  && g == "WV") return outK(trans(mkV(a[0])) * mkV(a[1]));
  if (name == "dot"  && g == "VV") return outK(mkV(a[0]).dot(mkV(a[1])));
  if (name == "normL1" && g == "V") return outK(mkV(a[0]).norm_L1());
  if (name == "normLinf" && g == "V") return outK(mkV(a[0]).norm_Linf());
  if (name == "normL2" && g == "V") return outK(mkV(a[0]).norm_L2());
  // ---- transposes and conversions
  if (name == "trans" && g == "M") return outM(trans(mkM(a[0])));                 // TransMat through its accessor
  if (name == "transM" && g == "M") return outM(M(trans(mkM(a[0]))));             // Mat(const TransMat&)
  if (name == "transT" && g == "M") return outM(trans(trans(mkM(a[0]))));         // trans(TransMat) -> Mat
  if (name == "transpose" && g == "M") { M x = mkM(a[0]); x.transpose(); return outM(x); }
  if (name == "trans" && g == "V") return outV(trans(mkV(a[0])), "W");
  if (name == "trans" && g == "W") return outV(trans(trans(mkV(a[0]))));
  if (name == "square" && g == "S") return outM(Square(mkS(a[0])));
  if (name == "lower" && g == "S") return outM(Lower(mkS(a[0])));
  if (name == "upper" && g == "S") return outM(Upper(mkS(a[0])));
  if (name == "lower" && g == "M") return outS(Lower(mkM(a[0])));
  if (name == "upper" && g == "M") return outS(Upper(mkM(a[0])));
  if (name == "full" && g == "S") return outM(mkS(a[0]));                         // S(i,j) for all i,j
  if (name == "identity" && g == "M") { M x = mkM(a[0]); x.set_identity(); return outM(x); }
  if (name == "sort" && g == "V") { V x = mkV(a[0]); sort(x); return outV(x); }
  // ---- inverses and factorisations
  if (name == "inv" && g == "MK") { M x = mkM(a[0]); x.invert(a[1].x[0]); return outM(x); }
  if (name == "inv" && g == "M") { M x = mkM(a[0]); x.invert(); return outM(x); }
  if (name == "chol" && g == "SK") { S x = mkS(a[0]); x.cholTol(a[1].x[0]); x.cholDec(); return outS(x) + " " + std::to_string(x.nullity()); }
  if (name == "chol" && g == "S") { S x = mkS(a[0]); x.cholDec(); return outS(x) + " " + std::to_string(x.nullity()); }
  if (name == "solve" && g == "SV") { S x = mkS(a[0]); V b = mkV(a[1]); x.solve(b); return outV(b); }   // x already factorised
  if (name == "sinv" && g == "S") { S x = mkS(a[0]); x.invert(); return outS(x); }
  if (name == "pinv" && g == "M") return outM(pinv(mkM(a[0])));
  if (name == "svd" && g == "M") {
    M x = mkM(a[0]); SVD<double,int,Exc> svd(x); svd.decompose();
    const M& U = svd.SVD_U(); const V& w = svd.SVD_W(); const M& Vm = svd.SVD_V();
    // "ok" + U (m x n), W (n), V (n x n) flattened: the certificate is evaluated by the checker
    std::string s = "ok U " + std::to_string(U.rows()) + " " + std::to_string(U.cols()) + raw(U);
    s += " W " + std::to_string(w.dim()) + raw(w);
    s += " V " + std::to_string(Vm.rows()) + " " + std::to_string(Vm.cols()) + raw(Vm);
    s += " K " + vp::hex(svd.tol());      // W_tol as set_inv_W left it (1000 * the bisected machine epsilon)
    return s;
  }
  return "bad-op";
}

// ---------------------------------------------------------------- main loop
static std::string dumpR() {
  std::string s = "dump live=" + std::to_string(g_live - g_base) + " ub=" + std::to_string(g_ub_null);
  for (int i = 0; i < NS; i++) { s += " |"; if (!R[i]) s += " -"; else s += " " + std::to_string(R[i]->size()) + raw(*R[i]); }
  return s;
}
static std::string dumpV() {
  std::string s = "dump live=" + std::to_string(g_live - g_base) + " ub=" + std::to_string(g_ub_null);
  for (int i = 0; i < NS; i++) { s += " |"; if (!VV[i]) s += " -"; else s += " " + std::to_string(VV[i]->dim()) + raw(*VV[i]); }
  return s;
}
template <class X> static std::string dumpMat(std::unique_ptr<X>* a) {
  std::string s = "dump live=" + std::to_string(g_live - g_base) + " ub=" + std::to_string(g_ub_null);
  for (int i = 0; i < NS; i++) {
    s += " |";
    if (!a[i]) s += " -"; else s += " " + std::to_string(a[i]->rows()) + " " + std::to_string(a[i]->cols()) + raw(*a[i]);
  }
  return s;
}

template <class X> static void fill(X& x, double v) { for (auto p = x.begin(); p != x.end(); ++p) *p = v; }

static bool slot(const std::string& s, int& i) { i = std::atoi(s.c_str()); return 0 <= i && i < NS; }

static std::string dispatch(const std::vector<std::string>& t) {
  if (t.empty()) return "bad-op";
  const std::string& op = t[0];
  int i = 0, j = 0;
  if (op == "op") {
    if (t.size() < 2) return "bad-op";
    std::vector<Operand> a;
    if (!parse_operands(t, 2, a)) return "bad-op";
    return algebra(t[1], a);
  }
  if (op == "r.dump") return dumpR();
  if (op == "v.dump") return dumpV();
  if (op == "m.dump") return dumpMat(MM);
  if (op == "s.dump") return dumpMat(SS);
  if (op == "s.xdump") {      // every member: dim_ row_ col_ idf_ tol_ and the packed elements
    std::string s = "dump live=" + std::to_string(g_live - g_base) + " ub=" + std::to_string(g_ub_null);
    for (int k = 0; k < NS; k++) {
      s += " |";
      if (!SS[k]) s += " -";
      else s += " " + std::to_string(SS[k]->dim()) + " " + std::to_string(SS[k]->rows()) + " " + std::to_string(SS[k]->cols())
              + " " + std::to_string(SS[k]->nullity()) + " " + vp::hex(SS[k]->cholTol()) + raw(*SS[k]);
    }
    return s;
  }
  if (t.size() < 2 || !slot(t[1], i)) return "bad-op";
  if (t.size() >= 3 && (op.find("copy") != std::string::npos || op.find("move") != std::string::npos ||
                        op.find("assign") != std::string::npos) && !slot(t[2], j)) return "bad-op";
  // ---- MemRep
  if (op == "r.ctor"    && t.size() == 3 && !R[i]) { R[i].reset(new Rep(std::atoi(t[2].c_str()))); return "ok"; }
  if (op == "r.copy"    && t.size() == 3 && !R[i] && R[j]) { R[i].reset(new Rep(*R[j])); return "ok"; }
  if (op == "r.move"    && t.size() == 3 && !R[i] && R[j]) { R[i].reset(new Rep(std::move(*R[j]))); return "ok"; }
  if (op == "r.assign"  && t.size() == 3 && R[i] && R[j]) { *R[i] = *R[j]; return "ok"; }
  if (op == "r.massign" && t.size() == 3 && R[i] && R[j]) { *R[i] = std::move(*R[j]); return "ok"; }
  if (op == "r.resize"  && t.size() == 3 && R[i]) { R[i]->resize(std::atoi(t[2].c_str())); return "ok"; }
  if (op == "r.write"   && t.size() == 4 && R[i]) { int k = std::atoi(t[2].c_str()); if (k < 0 || k >= R[i]->size()) return "bad-op"; R[i]->begin()[k] = vp::unhex(t[3]); return "ok"; }
  if (op == "r.fill"    && t.size() == 3 && R[i]) { fill(*R[i], vp::unhex(t[2])); return "ok"; }
  if (op == "r.dtor"    && t.size() == 2 && R[i]) { R[i].reset(); return "ok"; }
  // ---- Vec
  if (op == "v.ctor"    && t.size() == 3 && !VV[i]) { VV[i].reset(new V(std::atoi(t[2].c_str()))); return "ok"; }
  if (op == "v.copy"    && t.size() == 3 && !VV[i] && VV[j]) { VV[i].reset(new V(*VV[j])); return "ok"; }
  if (op == "v.move"    && t.size() == 3 && !VV[i] && VV[j]) { VV[i].reset(new V(std::move(*VV[j]))); return "ok"; }
  if (op == "v.assign"  && t.size() == 3 && VV[i] && VV[j]) { *VV[i] = *VV[j]; return "ok"; }
  if (op == "v.massign" && t.size() == 3 && VV[i] && VV[j]) { *VV[i] = std::move(*VV[j]); return "ok"; }
  if (op == "v.reset"   && t.size() == 3 && VV[i]) { VV[i]->reset(std::atoi(t[2].c_str())); return "ok"; }
  if (op == "v.set"     && t.size() == 4 && VV[i]) { int k = std::atoi(t[2].c_str()); if (k < 1 || k > VV[i]->dim()) return "bad-op"; (*VV[i])(k) = vp::unhex(t[3]); return "ok"; }
  if (op == "v.fill"    && t.size() == 3 && VV[i]) { VV[i]->set_all(vp::unhex(t[2])); return "ok"; }
  if (op == "v.dtor"    && t.size() == 2 && VV[i]) { VV[i].reset(); return "ok"; }
  // object histories of Vec (Model/VecObj.lean): every line runs under try/catch in main, objects persist
  if (op == "v.scale"   && t.size() == 3 && VV[i]) { *VV[i] *= vp::unhex(t[2]); return "ok"; }
  if ((op == "v.add" || op == "v.sub") && t.size() == 3 && slot(t[2], j) && VV[i] && VV[j]) {
    if (op == "v.add") *VV[i] += *VV[j]; else *VV[i] -= *VV[j]; return "ok"; }
  if ((op == "v.plus" || op == "v.minus") && t.size() == 4) { int k = 0;
    if (!slot(t[2], j) || !slot(t[3], k) || VV[i] || !VV[j] || !VV[k]) return "bad-op";
    if (op == "v.plus") VV[i].reset(new V(*VV[j] + *VV[k])); else VV[i].reset(new V(*VV[j] - *VV[k]));
    return "ok"; }
  // ---- Mat
  if (op == "m.ctor"    && t.size() == 4 && !MM[i]) { MM[i].reset(new M(std::atoi(t[2].c_str()), std::atoi(t[3].c_str()))); return "ok"; }
  if (op == "m.copy"    && t.size() == 3 && !MM[i] && MM[j]) { MM[i].reset(new M(*MM[j])); return "ok"; }
  if (op == "m.move"    && t.size() == 3 && !MM[i] && MM[j]) { MM[i].reset(new M(std::move(*MM[j]))); return "ok"; }
  if (op == "m.assign"  && t.size() == 3 && MM[i] && MM[j]) { *MM[i] = *MM[j]; return "ok"; }
  if (op == "m.massign" && t.size() == 3 && MM[i] && MM[j]) { *MM[i] = std::move(*MM[j]); return "ok"; }
  if (op == "m.reset"   && t.size() == 4 && MM[i]) { MM[i]->reset(std::atoi(t[2].c_str()), std::atoi(t[3].c_str())); return "ok"; }
  if (op == "m.set"     && t.size() == 5 && MM[i]) { int r = std::atoi(t[2].c_str()), c = std::atoi(t[3].c_str());
    if (r < 1 || r > MM[i]->rows() || c < 1 || c > MM[i]->cols()) return "bad-op"; (*MM[i])(r, c) = vp::unhex(t[4]); return "ok"; }
  if (op == "m.fill"    && t.size() == 3 && MM[i]) { MM[i]->set_all(vp::unhex(t[2])); return "ok"; }
  if (op == "m.transpose" && t.size() == 2 && MM[i]) { MM[i]->transpose(); return "ok"; }
  if (op == "m.invert"  && t.size() == 3 && MM[i]) { MM[i]->invert(vp::unhex(t[2])); return "ok"; }   // in place, on the object's history
  if (op == "m.scale"   && t.size() == 3 && MM[i]) { *MM[i] *= vp::unhex(t[2]); return "ok"; }
  if (op == "m.dtor"    && t.size() == 2 && MM[i]) { MM[i].reset(); return "ok"; }
  // ---- SymMat
  if (op == "s.ctor"    && t.size() == 3 && !SS[i]) { if (std::atoi(t[2].c_str()) < 0) return "bad-op"; SS[i].reset(new S(std::atoi(t[2].c_str()))); return "ok"; }
  // object histories of SymMat (Model/SymObj.lean)
  if (op == "s.ctor2"   && t.size() == 4 && !SS[i]) { int r = std::atoi(t[2].c_str()), c = std::atoi(t[3].c_str());
    if (r < 0 || c < 0) return "bad-op"; SS[i].reset(new S(r, c)); return "ok"; }
  if (op == "s.reset2"  && t.size() == 4 && SS[i]) { SS[i]->reset(std::atoi(t[2].c_str()), std::atoi(t[3].c_str())); return "ok"; }
  if (op == "s.scale"   && t.size() == 3 && SS[i]) { *SS[i] *= vp::unhex(t[2]); return "ok"; }
  if (op == "s.tol"     && t.size() == 3 && SS[i]) { SS[i]->cholTol(vp::unhex(t[2])); return "ok"; }
  if ((op == "s.add" || op == "s.sub") && t.size() == 3 && slot(t[2], j) && SS[i] && SS[j]) {
    if (op == "s.add") *SS[i] += *SS[j]; else *SS[i] -= *SS[j]; return "ok"; }
  if (op == "s.chol"    && t.size() == 2 && SS[i]) { SS[i]->cholDec(); return "ok"; }
  if (op == "s.invert"  && t.size() == 2 && SS[i]) { SS[i]->invert(); return "ok"; }
  if (op == "s.copy"    && t.size() == 3 && !SS[i] && SS[j]) { SS[i].reset(new S(*SS[j])); return "ok"; }
  if (op == "s.move"    && t.size() == 3 && !SS[i] && SS[j]) { SS[i].reset(new S(std::move(*SS[j]))); return "ok"; }
  if (op == "s.assign"  && t.size() == 3 && SS[i] && SS[j]) { *SS[i] = *SS[j]; return "ok"; }
  if (op == "s.massign" && t.size() == 3 && SS[i] && SS[j]) { *SS[i] = std::move(*SS[j]); return "ok"; }
  if (op == "s.reset"   && t.size() == 3 && SS[i]) { SS[i]->reset(std::atoi(t[2].c_str())); return "ok"; }
  if (op == "s.set"     && t.size() == 5 && SS[i]) { int r = std::atoi(t[2].c_str()), c = std::atoi(t[3].c_str());
    if (r < 1 || r > SS[i]->dim() || c < 1 || c > SS[i]->dim()) return "bad-op"; (*SS[i])(r, c) = vp::unhex(t[4]); return "ok"; }
  if (op == "s.fill"    && t.size() == 3 && SS[i]) { SS[i]->set_all(vp::unhex(t[2])); return "ok"; }
  if (op == "s.dtor"    && t.size() == 2 && SS[i]) { SS[i].reset(); return "ok"; }
  return "bad-op";
}

int main()
{
  std::string line;
  bool is_case;
  while (vp::next(line, is_case)) {
    if (is_case) { reset_all(); g_ub_null = 0; g_base = g_live; continue; }
    std::vector<std::string> t = vp::tokens(line);
    std::string out;
    try { out = dispatch(t); }
    catch (const Exc& e) { out = std::string("throw ") + errname(e.error()); }
    catch (const std::exception& e) { out = std::string("throw std::") + e.what(); }
    std::cout << out << "\n";
  }
  std::cout.flush();
  reset_all();
  return 0;
}
