// Codec probe: how the C++ runtime that gama is built with writes and reads decimal numbers.
// Shared by the C12 / C13 / C19 checks (tools/gen/codec_probe.py::check_codec).  Needs no gama
// object files; the only gama code used is the header-only recogniser GNU_gama::IsFloat
// (lib/gnu_gama/intfloat.h).
//
// protocol (one op per line, one output line per op):
//   fmt <k> <p> <0xbits>   k = f | e | g,  p = precision 0..40,  bits = IEEE binary64 pattern
//        the double is written to a fresh std::ostringstream (classic locale) exactly the way
//        gama does it:  k=f  out.setf(ios_base::fixed, ios_base::floatfield); out.precision(p); out << x
//                       k=e  out << std::scientific << std::setprecision(p) << x
//                       k=g  out << std::setprecision(p) << std::defaultfloat << x
//        -> ok <text> <0xbits of strtod(text)> [MISMATCH-READERS]
//        MISMATCH-READERS is appended when atof(text), (istringstream(text) >> d) and
//        strtod(text) do not give bit-identical doubles (or a reader fails / leaves input unread).
//        One documented exception counts as agreement: when the text overflows (a finite double
//        rounded up at a small precision, e.g. DBL_MAX -> 2e+308) strtod and atof return +-inf while
//        operator>> sets failbit and stores +-DBL_MAX (C++11 [facet.num.get.virtuals]); the line
//        then carries the inf bits and no marker.
//   rd <text>              one blank-free token
//        -> ok <0|1> <0xbits of atof(text)>        flag = GNU_gama::IsFloat(text)
//   anything else -> bad-op
#include <cctype>
#include <cmath>
#include <cstdlib>
#include <iomanip>
#include <ios>
#include <limits>
#include <locale>
#include <sstream>
#include <string>
#include <gnu_gama/intfloat.h>
#include "proto.h"

static std::uint64_t bits(double x) { std::uint64_t b; std::memcpy(&b, &x, 8); return b; }

static bool is_hex_double(const std::string& s)
{
  if (s.size() != 18 || s[0] != '0' || s[1] != 'x') return false;
  for (size_t i = 2; i < s.size(); i++) if (!std::isxdigit((unsigned char)s[i])) return false;
  return true;
}

static bool parse_prec(const std::string& s, int& p)
{
  if (s.empty() || s.size() > 2) return false;
  p = 0;
  for (char c : s) { if (c < '0' || c > '9') return false; p = 10 * p + (c - '0'); }
  return p <= 40;
}

int main()
{
  std::string line; bool is_case;
  while (vp::next(line, is_case)) {
    if (is_case) continue;
    std::vector<std::string> t = vp::tokens(line);
    if (t.empty()) continue;
    const std::string& op = t[0];
    int p = 0;
    if (op == "fmt" && t.size() == 4 && t[1].size() == 1 && (t[1] == "f" || t[1] == "e" || t[1] == "g")
        && parse_prec(t[2], p) && is_hex_double(t[3])) {
      const double x = vp::unhex(t[3]);
      std::ostringstream out;
      out.imbue(std::locale::classic());
      switch (t[1][0]) {
      case 'f':
        out.setf(std::ios_base::fixed, std::ios_base::floatfield);
        out.precision(p);
        out << x;
        break;
      case 'e':
        out << std::scientific << std::setprecision(p) << x;
        break;
      default:
        out << std::setprecision(p) << std::defaultfloat << x;
      }
      const std::string text = out.str();

      char* end = nullptr;
      const double a = std::strtod(text.c_str(), &end);
      const bool all = end != nullptr && *end == '\0' && !text.empty();
      const double b = std::atof(text.c_str());
      std::istringstream in(text);
      in.imbue(std::locale::classic());
      double c = 0;
      const bool cok = bool(in >> c);
      const bool eof = cok && (in.eof() || in.peek() == std::char_traits<char>::eof());
      bool same = all && cok && eof && bits(a) == bits(b) && bits(a) == bits(c);
      if (std::isinf(a))   // overflow: strtod/atof -> +-inf, operator>> -> failbit and +-DBL_MAX
        same = all && bits(a) == bits(b) && !cok
               && c == (a > 0 ? std::numeric_limits<double>::max() : -std::numeric_limits<double>::max());

      std::cout << "ok " << text << " " << vp::hex(a) << (same ? "" : " MISMATCH-READERS") << "\n";
    }
    else if (op == "rd" && t.size() == 2) {
      const std::string& text = t[1];
      const bool f = GNU_gama::IsFloat(text);
      std::cout << "ok " << (f ? 1 : 0) << " " << vp::hex(std::atof(text.c_str())) << "\n";
    }
    else std::cout << "bad-op\n";
  }
  return 0;
}
