// C03 over solver-object HISTORIES: the shared adjustment-core harness (harness/adj_harness.cpp — same objects,
// same queries, same output format; included, not copied) with a `main` that keeps SEVERAL problems per case, so
// that ONE long-lived solver object / one long-lived `Adj` can be given another input after it answered queries:
//
//   problem … end                 any number of times; problems are numbered 1, 2, … in definition order
//   select <k>                    (before `new`) problem k is the one `new` uses; default: the problem defined last
//   new <alg> <solver|adj>        as adj_harness
//   reset_new <k>                 ANOTHER input for the SAME object: solver entry reset(data_k) resp. reset(A_k, b_k)
//                                 (the regularisation configured through min_x…() stays as it is);
//                                 adj entry: Adj::set(data_k) (with the minx list of problem k)
//   <every op of adj_harness>     x | r | rtr | defect | qxx i j | q0xx i j | qbb i j | qbx i j | lindep i | cond |
//                                 min_x_all | min_x k i… | reset | set_alg a | fresh <query>
// `fresh` refers to the problem the object CURRENTLY holds.  Real code in-process, under ASan/UBSan.
#define main adj_harness_single_problem_main
#include "adj_harness.cpp"
#undef main

int main() {
  std::vector<std::unique_ptr<Problem>> Ps;   // all problems of the case, in definition order
  Problem* P = nullptr;                       // the one `new` uses
  std::unique_ptr<Problem> D;                 // being defined
  std::unique_ptr<Obj> O;
  std::string line; bool is_case;
  while (vp::next(line, is_case)) {
    if (is_case) { O.reset(); Ps.clear(); P = nullptr; D.reset(); continue; }
    std::vector<std::string> t = vp::tokens(line);
    if (t.empty()) continue;
    try {
      if (t[0] == "problem") { D.reset(new Problem); D->m = std::stoi(t.at(1)); D->n = std::stoi(t.at(2)); continue; }
      if (D) {
        if (t[0] == "row") { int k = std::stoi(t.at(1)); std::vector<std::pair<int, double>> r; for (int i = 0; i < k; i++) r.push_back({std::stoi(t.at(2 + 2 * i)), vp::unhex(t.at(3 + 2 * i))}); D->rows.push_back(r); }
        else if (t[0] == "cov") { Problem::Blk b; b.dim = std::stoi(t.at(1)); b.width = std::stoi(t.at(2)); for (size_t i = 3; i < t.size(); i++) b.v.push_back(vp::unhex(t[i])); D->cov.push_back(b); }
        else if (t[0] == "rhs") { for (size_t i = 1; i < t.size(); i++) D->rhs.push_back(vp::unhex(t[i])); }
        else if (t[0] == "minx") { if (t.at(1) == "none") D->minx_mode = 0; else if (t[1] == "all") D->minx_mode = 1; else { D->minx_mode = 2; for (int k = 0; k < std::stoi(t[1]); k++) D->minx.push_back(std::stoi(t.at(2 + k))); } }
        else if (t[0] == "end") {
          bool good = (int)D->rows.size() == D->m && (int)D->rhs.size() == D->m;
          int cd = 0; for (auto& b : D->cov) { cd += b.dim; if ((int)b.v.size() != b.dim * (b.width + 1) - b.width * (b.width + 1) / 2) good = false; }
          if (cd != D->m) good = false;
          std::cout << (good ? "ok\n" : "bad-op\n");
          if (good) { Ps.push_back(std::move(D)); P = Ps.back().get(); }
          D.reset();
        }
        else std::cout << "bad-op\n";
        continue;
      }
      if (!P) { std::cout << "bad-op\n"; continue; }
      if (t[0] == "select") {
        size_t k = std::stoul(t.at(1));
        if (k >= 1 && k <= Ps.size()) { P = Ps[k - 1].get(); O.reset(); std::cout << "ok\n"; } else std::cout << "bad-op\n";
        continue;
      }
      if (t[0] == "new") { O.reset(new Obj); if (O->create(P, t.at(1), t.at(2))) std::cout << "ok\n"; else { O.reset(); std::cout << "bad-op\n"; } continue; }
      if (!O) { std::cout << "bad-op\n"; continue; }
      if (t[0] == "fresh") {
        Obj F; Problem Pc = *O->P;
        if (O->entry == "solver") { Pc.minx_mode = O->rmode; Pc.minx = O->rlist; }
        if (!F.create(&Pc, O->alg, O->entry)) { std::cout << "bad-op\n"; continue; }
        std::vector<std::string> q(t.begin() + 1, t.end());
        if (q.empty() || !query(F, q)) std::cout << "bad-op\n";
        continue;
      }
      if (t[0] == "reset_new") {
        size_t k = std::stoul(t.at(1));
        if (k < 1 || k > Ps.size()) { std::cout << "bad-op\n"; continue; }
        const Problem* Q = Ps[k - 1].get();
        if (O->entry == "solver" && O->alg != "env" && !Q->unit_cov()) { std::cout << "bad-op\n"; continue; }
        try {
          O->P = Q;
          if (O->entry == "solver") O->feed(); else O->adj->set(Q->make(true));
          std::cout << "ok\n";
        }
        catch (const MVE& e) { std::cout << "throw " << kind(e.error()) << "\n"; }
        catch (const GNU_gama::Exception::adjustment&) { std::cout << "throw adjustment\n"; }
        continue;
      }
      if (!query(*O, t)) std::cout << "bad-op\n";
    } catch (const std::exception& e) { std::cout << "bad-op\n"; }
    std::cout.flush();
  }
  return 0;
}
