import sys, random
sys.path.insert(0, '/verif/tools')
from lib.core import *
from lib import gen_ls as g
import importlib
c01 = importlib.import_module('props.c01')
ctx = Ctx("C01", "quick", 1)
exe = c01.harness(ctx)
rng = random.Random(7)
cases = []; meta = []
for _ in range(400):
    p = g.gen_problem(rng, correlated=False)
    if p["defect"] == 0: continue
    lines = g.problem_lines(p, "all") + ["new env solver", "defect"] + [f"lindep {i}" for i in range(1, p["n"]+1)]
    cases.append(lines); meta.append(p)
impl, crashes = run_cases(exe, cases)
best = None
for i, p in enumerate(meta):
    flags = [k+1 for k, l in enumerate(impl[i][3:]) if l == "flag 1"]
    A = g.dense(p)
    keep = [j for j in range(p["n"]) if (j+1) not in flags]
    B = [[r[j] for j in keep] for r in A]
    rk = g.rank(B) if keep else 0
    good = len(flags) == p["defect"] and rk == len(keep)
    if not good:
        size = p["m"] * p["n"]
        if best is None or size < best[0]:
            best = (size, p, flags, impl[i], cases[i])
print("singular cases", len(meta), "first bad:", None if best is None else (best[1]["m"], best[1]["n"], best[1]["family"], "flags", best[2], "defect", best[1]["defect"]))
if best:
    print("\n".join(best[4])); print(best[3])
    print("A =", [[str(x) for x in r] for r in g.dense(best[1])])
