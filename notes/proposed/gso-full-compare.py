import sys, random, os
sys.path.insert(0, '/verif/tools')
from lib.core import *
from lib import gen_ls as g
seed = int(sys.argv[1]) if len(sys.argv) > 1 else 1
nprob = int(sys.argv[2]) if len(sys.argv) > 2 else 200
exe = sys.argv[3] if len(sys.argv) > 3 else sorted(Path('/verif/build').glob('adj_harness-*'))[0]
drv = '/verif/lean/.lake/build/bin/drv_ls'
rng = random.Random(seed)
cases, meta = [], []
for _ in range(nprob):
    p = g.gen_problem(rng, correlated=False)
    for S, ok in g.gen_subsets(rng, p, 3):
        reg = "all" if len(S) == p["n"] and rng.random() < .5 else S
        q = ["x", "r", "rtr", "defect"]
        for i in range(1, p["n"]+1):
            q.append(f"lindep {i}")
            for j in range(1, p["n"]+1): q.append(f"qxx {i} {j}")
        for i in range(1, p["m"]+1):
            for j in range(1, p["m"]+1): q.append(f"qbb {i} {j}")
            for j in range(1, p["n"]+1): q.append(f"qbx {i} {j}")
        if not ok: q = ["fresh " + t for t in q]
        cases.append(g.problem_lines(p, reg) + ["new gso solver"] + q)
        meta.append((p, S, ok))
impl, crashes = run_cases(str(exe), cases)
model, _ = run_cases(drv, cases)
nl = bit = 0; dis = 0; maxdev = 0.0; nonres = 0; sing = 0
for i, (p, S, ok) in enumerate(meta):
    if i in crashes: print("crash", i, crashes[i][1][:300]); continue
    if p["defect"]: sing += 1
    if not ok: nonres += 1
    if len(impl[i]) != len(model[i]): print("len", i, len(impl[i]), len(model[i])); dis += 1; continue
    for a, b in zip(impl[i], model[i]):
        nl += 1
        if a.startswith(('int throw','flag throw')): a = a.split(' ',1)[1]   # harness prints the tag before the call throws
        if a == b: bit += 1; continue
        if not lines_equal(a, b, rtol=1e-9, atol=1e-9):
            dis += 1
            if dis <= 4: print("DISAGREE case", i, "defect", p["defect"], "resolves", ok, "S", S, "\n impl ", a[:200], "\n model", b[:200]); break
        ta, tb = a.split(), b.split()
        for x, y in zip(ta[1:], tb[1:]):
            if x.startswith('0x') and y.startswith('0x'):
                maxdev = max(maxdev, abs(hex2float(x) - hex2float(y)))
print(f"cases {len(cases)} singular {sing} nonresolving {nonres} lines {nl} bit-identical {bit} ({100*bit/max(nl,1):.2f}%) disagreements {dis} maxdev {maxdev:.3g}")
