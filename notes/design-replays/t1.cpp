#include <gnu_gama/adj/adj.h>
#include <gnu_gama/adj/adj_input_data.h>
#include <iostream>
#include <cstdio>
using namespace GNU_gama;
// levelling-like free network: 5 points, observations h_j - h_i, defect 1
static AdjInputData* make(int npts, std::vector<std::pair<int,int>> obs, std::vector<int> minx) {
  auto* d = new AdjInputData;
  auto* A = new SparseMatrix<>(obs.size()*2, obs.size(), npts);
  for (auto& o : obs) { A->new_row(); A->add_element(-1.0, o.first); A->add_element(1.0, o.second); }
  d->set_mat(A);
  auto* C = new BlockDiagonal<>(1, obs.size());
  std::vector<double> c(obs.size(), 1.0);
  C->add_block(obs.size(), 0, c.data());
  d->set_cov(C);
  Vec<> b(obs.size()); for (int i=1;i<=(int)obs.size();i++) b(i) = 0.1*i*((i%2)?1:-1);
  d->set_rhs(b);
  if (!minx.empty()) { auto* L = new IntegerList<>(minx.size()); int k=0; for (int m: minx) (*L)(k++) = m; d->set_minx(L); }
  return d;
}
int main(int argc, char** argv) {
  std::vector<std::pair<int,int>> obs = {{1,2},{2,3},{3,4},{4,5},{5,6},{6,7},{7,8},{1,2},{3,4},{7,8}};
  int n = 8;
  for (int alg=0; alg<4; alg++) {
    Adj::algorithm a = (Adj::algorithm)alg;
    // fresh q_xx
    Adj f; f.set(make(n,obs,{})); f.set_algorithm(a); f.x();
    double fresh[9][9];
    for (int i=1;i<=n;i++) for(int j=1;j<=n;j++){ Adj g; g.set(make(n,obs,{})); g.set_algorithm(a); g.x(); fresh[i][j]=g.q_xx(i,j);}    
    // history: q_bb for all pairs first, then q_xx
    Adj h; h.set(make(n,obs,{})); h.set_algorithm(a); h.x();
    double maxd=0;
    int M = obs.size();
    for (int r=0;r<3;r++)
    for (int i=1;i<=M;i++) for (int j=1;j<=M;j++) { h.q_bb(i,j);
       for (int k=1;k<=n;k++) for (int l=1;l<=n;l++) { double d = std::abs(h.q_xx(k,l)-fresh[k][l]); if (d>maxd) {maxd=d; } } }
    printf("alg %d defect %d  max |q_xx(after q_bb history) - fresh| = %g\n", alg, h.defect(), maxd);
  }
}
