#include <gnu_gama/adj/adj.h>
#include <gnu_gama/adj/adj_input_data.h>
#include <iostream>
#include <cstdio>
using namespace GNU_gama;
static AdjInputData* make(int npts, std::vector<std::pair<int,int>> obs, std::vector<int> minx) {
  auto* d = new AdjInputData;
  auto* A = new SparseMatrix<>(obs.size()*2, obs.size(), npts);
  for (auto& o : obs) { A->new_row(); A->add_element(-1.0, o.first); A->add_element(1.0, o.second); }
  d->set_mat(A);
  auto* C = new BlockDiagonal<>(1, obs.size());
  std::vector<double> c(obs.size(), 1.0);
  C->add_block(obs.size(), 0, c.data());
  d->set_cov(C);
  Vec<> b(obs.size()); for (int i=1;i<=(int)obs.size();i++) b(i) = 0.1*i*((i%2)?1:-1);
  d->set_rhs(b);
  if (!minx.empty()) { auto* L = new IntegerList<>(minx.size()); int k=0; for (int m: minx) (*L)(k++) = m; d->set_minx(L); }
  return d;
}
int main() { setvbuf(stdout,0,_IONBF,0);
  std::vector<std::pair<int,int>> obs = {{1,2},{2,3},{3,4},{4,5},{5,6},{6,7},{7,8},{1,2},{3,4},{7,8}};
  int n=8;
  // 1. AdjEnvelope directly
  {
    AdjInputData* d = make(n,obs,{});
    AdjEnvelope<double,int,Exception::matvec> e; e.reset(d);
    AdjEnvelope<double,int,Exception::matvec> f; f.reset(d);
    printf("fresh q_xx(1,1)=%.6f q_xx(1,8)=%.6f\n", f.q_xx(1,1), f.q_xx(1,8));
    for (int i=1;i<=n;i++) for (int j=1;j<=n;j++) e.q0_xx(i,j);
    printf("after q0_xx sweep: q_xx(1,1)=%.6f q_xx(1,8)=%.6f\n", e.q_xx(1,1), e.q_xx(1,8));
    // min_x change after solve
    int idx[2] = {1,2};
    AdjEnvelope<double,int,Exception::matvec> g; g.reset(d); g.min_x(2, idx);
    printf("fresh subset{1,2}: x1=%.6f q_xx(3,3)=%.6f\n", g.unknowns()(1), g.q_xx(3,3));
    f.min_x(2, idx);
    printf("hist  subset{1,2}: x1=%.6f q_xx(3,3)=%.6f (after all-regularised q_xx(1,1),(1,8) cached; 3 not cached)\n", f.unknowns()(1), f.q_xx(3,3));
    printf("hist  subset{1,2}: q_xx(1,1)=%.6f vs fresh %.6f\n", f.q_xx(1,1), g.q_xx(1,1));
    delete d;
  }
  // 2. chol / gso / svd: min_x after solve
  for (int alg=1; alg<4; alg++) {
    int idx[2] = {1,2};
    Mat<> A(obs.size(), n); A.set_zero(); Vec<> b(obs.size());
    for (int i=1;i<=(int)obs.size();i++){ A(i,obs[i-1].first)=-1; A(i,obs[i-1].second)=1; b(i)=0.1*i*((i%2)?1:-1);}    
    AdjBaseFull<double,int,Exception::matvec>* f; AdjBaseFull<double,int,Exception::matvec>* h;
    if (alg==1) { f = new AdjGSO<double,int,Exception::matvec>; h = new AdjGSO<double,int,Exception::matvec>; }
    else if (alg==2) { f = new AdjSVD<double,int,Exception::matvec>; h = new AdjSVD<double,int,Exception::matvec>; }
    else { f = new AdjCholDec<double,int,Exception::matvec>; h = new AdjCholDec<double,int,Exception::matvec>; }
    f->reset(A,b); f->min_x(2,idx);
    printf("alg %d fresh subset: x1=%.6f x8=%.6f qxx33=%.6f\n", alg, f->unknowns()(1), f->unknowns()(8), f->q_xx(3,3));
    h->reset(A,b); h->unknowns(); h->q_xx(3,3); h->min_x(2,idx);
    printf("alg %d hist  subset: x1=%.6f x8=%.6f qxx33=%.6f\n", alg, h->unknowns()(1), h->unknowns()(8), h->q_xx(3,3));
    h->min_x();
    printf("alg %d hist  back to all: x1=%.6f qxx33=%.6f\n", alg, h->unknowns()(1), h->q_xx(3,3));
    delete f; delete h;
  }
}
