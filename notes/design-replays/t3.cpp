#include <gnu_gama/gon2deg.h>
#include <gnu_gama/latlong.h>
#include <iostream>
#include <cmath>
using namespace GNU_gama;
int main(){
  double gon = (10 + 20/60.0 + 59.9996/3600.0)/0.9;
  std::cout << "[" << gon2deg(gon,0,2) << "]\n";
  std::cout << "[" << gon2deg(gon,3,2) << "]\n";
  double g2; bool ok = deg2gon(gon2deg(gon,3,2), g2); std::cout << ok << " " << g2-gon << "\n";
  std::cout << "[" << gon2deg(-0.00001,1,2) << "] [" << gon2deg(-0.00001,2,2) << "] [" << gon2deg(-0.00001,3,2) << "]\n";
  std::cout << "[" << latitude(M_PI/2*(1-1e-12),4) << "]\n";
  std::cout << "[" << gon2deg(399.99999999,0,2) << "]\n";
  double r = dms2rad(rad2dms(1.0)); std::cout << r-1.0 << "\n";
  std::cout.precision(17);
  std::cout << rad2dms(10.0/180*M_PI) << " " << rad2dms((29+59/60.0+59.99999999/3600)/180*M_PI) << "\n";
}
