#!/usr/bin/env python3
"""Regenerate /verif/MANIFEST.json from the plugins in tools/props (single source of truth)."""
import importlib
import json
import sys
from pathlib import Path

sys.path.insert(0, str(Path(__file__).resolve().parent))
VERIF = Path(__file__).resolve().parents[1]
from lib import core  # noqa: E402
props = [json.loads(l) for l in (VERIF / "properties.jsonl").read_text().splitlines() if l.strip()]
checks, na = [], []
for p in props:
    pid = p["id"]
    f = VERIF / "tools" / "props" / f"{pid.lower()}.py"
    if not f.exists():
        na.append({"property_id": pid, "reason": "no check built yet (model and theorems planned in DESIGN.md section 6)"})
        continue
    try:
        m = core.load_plugin(pid)
        for a in ("LEVEL_TEXT", "LEVEL_NOTE", "TECHNIQUE", "correspond"):
            getattr(m, a)
    except Exception as e:  # plugin under construction
        na.append({"property_id": pid, "reason": f"check under construction ({type(e).__name__})"})
        continue
    if getattr(m, "NOT_APPLICABLE", None):
        na.append({"property_id": pid, "reason": m.NOT_APPLICABLE})
        continue
    checks.append({
        "property_id": pid,
        "quick_cmd": f"python3 tools/check.py {pid} --tier quick",
        "thorough_cmd": f"python3 tools/check.py {pid} --tier thorough",
        "evidence_file": f"/verif/evidence/{pid}.json",
        "replay_cmd_template": f"python3 tools/check.py {pid} --replay {{path}}",
        "engine": "lean4-proof+correspondence",
        "level_claimed": {"category": getattr(m, "LEVEL", "proof"), "text": m.LEVEL_TEXT,
                          "design_ref": f"DESIGN.md section 6, {pid}"},
        "level_note": m.LEVEL_NOTE,
        "technique": m.TECHNIQUE,
    })
hooks_file = VERIF / "hooks.json"
hooks = json.loads(hooks_file.read_text()) if hooks_file.exists() else {"source_commits": []}
man = {
    "version": 1,
    "setup_cmd": "bash tools/setup.sh",
    "hooks": {
        "guard": "GAMA_VERIF",
        "enable": "harnesses: g++ -DGAMA_VERIF -I/repo/lib …; executables: cmake -DCMAKE_CXX_FLAGS=-DGAMA_VERIF (tools/lib/core.py build_cpp / build_gama)",
        "baseline_off_cmd": "cmake --build /repo/_build -j16 && ctest --test-dir /repo/_build -j8 --timeout 900",
        "source_commits": hooks.get("source_commits", []),
        "add_only": True,
    },
    "engines": [{"name": "lean4-proof+correspondence", "path": "tools/check.py",
                 "serves_properties": [c["property_id"] for c in checks],
                 "kind_free_text": "Lean 4 theorems about executable models (lean/Gama), models tied to /repo by "
                                   "source translators (lean/Gama/Gen regenerated every run) and by differential "
                                   "correspondence harnesses (harness/*.cpp, ASan+UBSan) over a line protocol"}],
    "checks": checks,
    "not_applicable": na,
    "notes": "See DESIGN.md. Every check: translate -> lake build + axiom audit -> harness build from /repo working "
             "tree -> correspondence + property oracle -> decide -> evidence. Known findings: known_findings.jsonl.",
}
(VERIF / "MANIFEST.json").write_text(json.dumps(man, indent=1) + "\n")
print("checks:", [c["property_id"] for c in checks], "not_applicable:", len(na))
