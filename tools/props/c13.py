"""C13 — exported input reproduces the adjustment and is a fixed point."""
import glob as _glob
import importlib.util
import shutil
import tempfile
import xml.etree.ElementTree as ET
from lib.core import *
from lib import gen_net

ID = "C13"
PROPS_FILES = ["Gama/Props/C13.lean", "Gama/Props/C13Rerun.lean", "Gama/Props/C13Removed.lean"]
LEAN_TARGETS = ["Gama.Props.C13", "Gama.Props.C13Rerun", "Gama.Props.C13Removed"]
DRIVERS = ["drv_export"]
RULE = ("net: generated 1D/2D/3D networks (every observation and cluster type, axes/angle conventions, sexagesimal input, "
        "gross errors that get observations removed) through 3 export/adjust rounds; doc: generated whole documents (8 axes x 2 angle "
        "conventions, fix/adj codes in both cases, unused points, every cluster kind with banded covariance, sexagesimal input, "
        "output in degrees, non-default parameters) through GKFparser + remove_inconsistency + export_xml, twice")
LEVEL_TEXT = ("Lean 4 theorems, for all networks (any number of points and clusters of the four kinds, all axes/angle conventions), "
              "that GKFparser followed by remove_inconsistency inverts LocalNetwork::export_xml on points with their status, "
              "parameters, the network tag, observations with all attributes, vectors, coordinates and the covariance matrices "
              "including the y_sign conjugation, and that exporting is a fixed point; stated for numbers the printer gives back "
              "exactly and, for a printer with finitely many digits (projection law), for the quantised network. The parser's "
              "attribute/code tables and the writer's sites, status letters, y_sign sites and cov-mat call flags are regenerated from "
              "gkfparser.cpp / network.cpp / observation.cpp / lcoords.h on every run; the model is run against the real parser + "
              "export writer on generated whole documents (two rounds). Output in degrees (sexagesimal values, standard deviations and "
              "covariance rows in seconds) is proved like gons; the hypothesis Net.WF is decidable and evaluated by the driver on every "
              "document; what the parser establishes of it is proved (parameter guards, point ids, covariance shape); a <point> inside <coordinates> keeps the "
              "coordinates the point already has, so the re-import keeps the exported coordinates (C13_reimport_keeps_adjusted_coordinates; "
              "finding C13 coords-point FIXED by /repo 6848bc2a, guards regenerated). Adjustment clauses: "
              "theorems on the regenerated refine_approx_coordinates / refine_adjustment sites (the exported coordinates are those of "
              "the last linearisation = adjusted coordinates of the pass before; a converged run re-adjusts with zero iterations and "
              "the same results, for every adjustment that is a function of the network). Round 9 (Props/C13Rerun.lean): the same with the "
              "REAL models - the loop is RA.refineAdjustment over the regenerated tests of refine_adjustment (refine_obsdh_reductions, "
              "TestLinearization over the regenerated visitor, refine_obsdh_reductions(adjusted)), the adjustment is "
              "PE.projectEquations + netSolve: a run that stopped normally, re-started from its exported coordinates and its "
              "observations without reductions, is after gama-local's first refine_obsdh_reductions in the state it stopped in, does "
              "zero iterations and reports the same adjustment, for k rounds; (parse o export)^k = parse o export. "
              "Round 13: a concrete loader (PD order, ids -> positions, OD order with classes and from_dh/to_dh; value / covariance / "
              "orientation conversions as parameters) for which 'the exported network describes the state' is proved, so the "
              "document-level theorem has no Loader/Describes hypothesis; Obs.WF of every accepted <obs> element; an evaluated "
              "non-degenerate instance (levelling network, envelope/cholesky/gso). "
              "Props/C13Removed.lean: finding F29 characterised (the abs-term stage of the re-run reproduces the active flags iff "
              "the test's verdict at the exported coordinates equals the one at the given coordinates; NEG witness = the corpus "
              "reproducer's observation with C14's regenerated test over Q; F29 stays a KNOWN finding, F30 is fixed by /repo 281bcf7). "
              "The re-adjustment under the real (lossy) printer and the hand-over document -> PD/OD are explored end-to-end only.")
LEVEL_NOTE = ("Numbers are abstract in Props/C13.lean: exact law on the representable numbers, or Codec.PrinterOn D (rd (fmt x) = q x, "
              "fmt (q x) = fmt x, sign symmetric, non-zero never printed as zero; the same for the <cov-mat> elements with their own "
              "printer fmtCov / quantisation qc; the two laws of the sexagesimal text on a domain D of angular values) with a "
              "fixed-digits decimal printer as witness; Props/C13Codec.lean proves the law over Q for the real printers "
              "%.{p}g (to_xmlstr; p = 8 / 16 / 17 by site, one p in the network model) / %.16e (updated_xml_covmat) / IsFloat+atof and "
              "gon2deg(.,0,4) / deg2gon (C18's models; D: 0 <= g, g*0.9 < 2^31-1) and instantiates round trip and fixed point for "
              "angles=400 and angles=360; the format at every number-printing site of the writer is regenerated "
              "(Gen/GkfFmtSites.lean) and compared with the instantiated ones (C13_number_sites_formats). Trusted: Lean kernel, statements in Props/C13*.lean, tools/gen/c13_attrs.py, "
              "tools/gen/c13_doc.py, harness, generators; hand models: Model/ExportRemoved.lean (abs-term stage / export / re-run, tied "
              "by four regenerated call-site constants), the concrete loader Rerun.docLoader with its conversions Conv and SameShape of Props/C13Rerun.lean (hand definitions; Describes is a theorem since round 13).")
TECHNIQUE = "Lean 4 proof (case analysis over record types, induction over lists) + translators for the parser tables and the writer sites + correspondence + end-to-end oracle"
TRUSTED = ["tools/gen/c13_attrs.py (regex translator: attribute name -> local variable -> toDouble target -> setter/ctor argument "
           "for every GKFparser::process_*)",
           "tools/gen/c13_doc.py (regex translator: process_point/parameters/network tables, export_xml writer sites, status chains, "
           "y_sign sites, updated_xml_covmat call flags, the ostream format at every number-printing site; the process_point guards of 6848bc2a; round 9: the order of "
           "the stages in src/gama-local.cpp - Acord2, one refine_obsdh_reductions, one remove_huge_abs_terms, one refine_adjustment, "
           "one export_xml - and whether export_xml / the parser consult an observation's active flag, as Booleans; deviations "
           "from the modelled shape raise TieBroken)",
           "translators of other properties run by translate(): c18_ellipsoids.py (gon2deg variant), c05_linearization.py, "
           "c06_testlin.py (tests of refine_adjustment, TestLinearizationVisitor, refine_obsdh_reductions), c14_revision.py "
           "(test_abs_term) - see C18 / C05 / C06 / C14"]
MODELLED = ["number formatting/parsing (to_xmlstr, setprecision, updated_xml_covmat's scientific/precision(16), toDouble): Codec "
            "hypotheses, instantiated over Q (Props/C13Codec.lean); explored end-to-end",
            "PointData order (std::map) : the model keeps insertion order; <cov-mat> inside <obs>/<height-differences> replacing the "
            "stdev attributes: the model keeps the attribute (equal for consistent documents)",
            "between parse and export: the loop of refine_adjustment, project_equations and the solver are the models of C06 / C05 / "
            "C01 (Props/C13Rerun.lean, exact codec); Acord2; how the parsed document becomes PD / OD is the hand definition Rerun.docLoader (round 13, not regenerated), "
            "refine_approx_coordinates inside the loop (parameter ra) and the whole chain under the real printer: explored "
            "end-to-end only",
            "text layout of the exported file, expat, str2xml escaping (C12)"]
ASSUMPTIONS = ["Codec.LawfulOn R / Codec.PrinterOn D q qc qd for the numbers written by export_xml: proved over Q for the real printers "
               "(Props/C13Codec.lean: C13_real_codec_printer; <cov-mat> elements %.16e, all to_xmlstr sites one %.{p}g with p a "
               "parameter although the sites use 8, 16 and 17 digits: C13_number_sites_formats lists them); doubles: the decimal -> double rounding of the reader, *0.324 / *(1/0.324) "
               "and the latitude unit conversion are exact over Q only",
               "angular values of a document in degrees lie in the domain of gon2deg(., 0, 4): 0 <= g, g*0.9 < 2^31-1 (Net.AngIn; "
               "gama normalises observed angles to [0, 400) gon; outside, no sign is printed / int(gon*0.9) overflows)",
               "C13_readjustment_identical: the adjustment is a function of the network (what C01/C04/C05/C09 prove of its parts) and "
               "the exported run had converged",
               "Props/C13Rerun.lean: exact codec (with a printer of finitely many digits the re-import starts from quantNet, a state "
               "near the one the run stopped in; the margins of the stopping tests are not bounded against the quantisation: "
               "oracle); C13_readjustment_identical_concrete: the conversions Conv (stored value from the document's number, covariance "
               "matrix of a cluster, orientation the program computes for a document, xNorthAngle) are parameters; SameShape "
               "(the loop changes coordinates, orientations, reductions only) is a hypothesis, not proved as a loop invariant; "
               "orientations are not exported: for networks with directions the equality of the re-run's orientations with the "
               "first run's final ones is a hypothesis (zero iterations there: oracle); hred: an observation no branch of "
               "refine_obsdh_reductions applies to carries reduction 0; evaluated instance: a levelling network (no reductions, "
               "no orientations)",
               "Props/C13Removed.lean: the abs-term test is a function of PD and the observation (parameter `test`; the real one for "
               "coordinate differences is C14's regenerated test on C05's right-hand side, used in the witness)"]

_spec2 = importlib.util.spec_from_file_location("c13_nets", str(VERIF / "tools" / "gen" / "c13_nets.py"))
N = importlib.util.module_from_spec(_spec2)
_spec2.loader.exec_module(N)
_spec3 = importlib.util.spec_from_file_location("c13_attrs", str(VERIF / "tools" / "gen" / "c13_attrs.py"))
_tr = importlib.util.module_from_spec(_spec3)
_spec3.loader.exec_module(_tr)
_spec4 = importlib.util.spec_from_file_location("c13_doc", str(VERIF / "tools" / "gen" / "c13_doc.py"))
_trd = importlib.util.module_from_spec(_spec4)
_spec4.loader.exec_module(_trd)


def translate(ctx):
    try:
        txt = _tr.generate(ctx.repo)
    except _tr.AttrsError as e:
        raise TieBroken("c13_attrs", str(e))
    except OSError as e:
        raise TieBroken("c13_attrs", f"source not readable: {e}")
    out = LEAN / "Gama" / "Gen" / "GkfAttrs.lean"
    if not out.exists() or out.read_text() != txt:
        out.write_text(txt)
    try:
        txt = _trd.generate(ctx.repo)
    except _trd.DocError as e:
        raise TieBroken("c13_doc", str(e))
    except OSError as e:
        raise TieBroken("c13_doc", f"source not readable: {e}")
    out = LEAN / "Gama" / "Gen" / "GkfDoc.lean"
    if not out.exists() or out.read_text() != txt:
        out.write_text(txt)
    # round 8: the ostream format in force at every site of the export writer that prints a floating value
    # (Gen/GkfFmtSites.lean; `C13_number_sites_formats` compares it with the formats the round trip is instantiated for)
    try:
        txt = _trd.generate_fmt(ctx.repo)
    except _trd.DocError as e:
        raise TieBroken("c13_doc(fmt_sites)", str(e))
    except OSError as e:
        raise TieBroken("c13_doc(fmt_sites)", f"source not readable: {e}")
    out = LEAN / "Gama" / "Gen" / "GkfFmtSites.lean"
    if not out.exists() or out.read_text() != txt:
        out.write_text(txt)
    # round 6: the degrees branch of the printer theorems is instantiated with C18's model of gon2deg / deg2gon
    # (Lemmas/ExportDegrees.lean, DecimalCodecC13.lean); which formatter variant the tree contains (carry of seconds that
    # round to 60, fabs) is a regenerated constant of C18 (Gen/GeoVariants.lean) the proofs unfold: regenerate it here too,
    # so that a C13 run does not depend on C18 having been run on the same tree
    sys.path.insert(0, str(ctx.verif / "tools"))
    from gen import c18_ellipsoids as _g18
    try:
        _g18.run(ctx.repo, ctx.lean)
    except _g18.Unparsable as e:
        raise TieBroken("c18_ellipsoids", str(e))
    # round 9: Props/C13Rerun.lean is about RA.refineAdjustment over the REGENERATED tests (Gen/RefineObsdh.lean,
    # Gen/TestLinVisitor.lean: C06's translator) and PE.projectEquations over C05's Gen/Linearization.lean;
    # Props/C13Removed.lean's witness runs C14's regenerated test_abs_term (Gen/Revision.lean): regenerate them from THIS
    # tree, so that a C13 run does not depend on C05 / C06 / C14 having been run on it (their own TieBroken propagates)
    from gen import c05_linearization as _g05, c06_testlin as _g06, c14_revision as _g14
    _g05.translate(ctx.repo, ctx.lean)
    _g06.translate(ctx.repo, ctx.lean)
    try:
        _g14.run(ctx.repo, ctx.lean / "Gama" / "Gen" / "Revision.lean")
    except _g14.Unparsable as e:
        raise TieBroken("tools/gen/c14_revision.py", str(e))


# ---------------------------------------------------------------- reading gkf files (independent reader)

def local(tag):
    return tag.split("}")[-1]


OBS_TAGS = {"direction", "distance", "angle", "s-distance", "z-angle", "azimuth", "dh", "vec"}


def read_gkf(text):
    """ElementTree view of a gama-local input: parameters, points, clusters with observations and cov-mat"""
    root = ET.fromstring(text.encode("utf-8"))
    res = {"params": {}, "network": {}, "points": {}, "clusters": [], "description": None}
    for e in root.iter():
        t = local(e.tag)
        if t == "network":
            res["network"] = dict(e.attrib)
        elif t == "parameters":
            res["params"] = dict(e.attrib)
        elif t == "description":
            res["description"] = e.text or ""
        elif t == "points-observations":
            res["po"] = dict(e.attrib)
            for c in e:
                ct = local(c.tag)
                if ct == "point":
                    res["points"][N.pid_norm(c.get("id"))] = dict(c.attrib)
                elif ct in ("obs", "height-differences", "vectors", "coordinates"):
                    cl = {"kind": ct, "attrs": dict(c.attrib), "items": [], "cov": None}
                    for o in c:
                        ot = local(o.tag)
                        if ot == "cov-mat":
                            cl["cov"] = (int(o.get("dim")), int(o.get("band")), [float(v) for v in (o.text or "").split()])
                        else:
                            cl["items"].append((ot, dict(o.attrib)))
                    res["clusters"].append(cl)
    return res


def dms2gon(s):
    """GNU_gama::deg2gon for 'd-m-s' strings; None if not sexagesimal"""
    m = re.fullmatch(r"\s*(-?)(\d+)-(\d+)-(\d+(?:\.\d*)?)\s*", s)
    if not m:
        return None
    v = (int(m.group(2)) + int(m.group(3)) / 60.0 + float(m.group(4)) / 3600.0) / 0.9
    return -v if m.group(1) else v


def num(s):
    g = dms2gon(s)
    return g if g is not None else float(s)


def obs_key(kind, cl_from, tag, a):
    frm = N.pid_norm(a.get("from", cl_from or ""))
    if tag == "angle":
        return (tag, frm, N.pid_norm(a.get("bs", a.get("to", ""))), N.pid_norm(a.get("fs", a.get("rs", ""))))
    return (tag, frm, N.pid_norm(a.get("to", "")), "")


def survey(g, y_sign=1.0):
    """canonical description of the survey in a gkf: list of observation records in document order"""
    recs = []
    for cl in g["clusters"]:
        cfrom = cl["attrs"].get("from")
        cdh = float(cl["attrs"].get("from_dh", 0) or 0)
        for tag, a in cl["items"]:
            if cl["kind"] == "coordinates":
                recs.append({"key": ("coord", N.pid_norm(a["id"]), "", ""), "vals": [float(a[k]) for k in ("x", "y", "z") if k in a],
                             "has": [k for k in ("x", "y", "z") if k in a], "extern": cl["attrs"].get("extern", "")})
                continue
            r = {"key": obs_key(cl["kind"], cfrom, tag, a), "extern": " ".join(a.get("extern", "").split())}
            if tag == "vec":
                r["vals"] = [float(a["dx"]), float(a["dy"]), float(a["dz"])]
            else:
                r["vals"] = [num(a["val"])]
                r["deg"] = dms2gon(a["val"]) is not None
            if tag == "dh":
                r["dist"] = float(a.get("dist", 0) or 0)
            r["stdev"] = float(a["stdev"]) if "stdev" in a else None
            r["from_dh"] = float(a.get("from_dh", cdh) or 0) if tag not in ("dh",) else 0.0
            r["to_dh"] = float(a.get("to_dh", a.get("bs_dh", 0)) or 0)
            r["fs_dh"] = float(a.get("fs_dh", 0) or 0)
            recs.append(r)
        unit = [(0.324 if (r.get("deg") and r["key"][0] in ("direction", "angle", "z-angle", "azimuth")) else 1.0)
                for r in recs[len(recs) - len(cl["items"]):]] if cl["kind"] == "obs" else None
        recs.append({"key": ("cov", cl["kind"], "", ""), "cov": cl["cov"], "unit": unit})
        for i, r in enumerate(recs[len(recs) - 1 - len(cl["items"]):-1]):
            r["unit"] = unit[i] if unit else 1.0
            r["has_cov"] = cl["cov"] is not None
    return recs


def close(a, b, rtol=1e-9, atol=1e-9):
    return abs(a - b) <= atol + rtol * max(abs(a), abs(b))


def same_survey(ga, gb, what, strict_stdev=True):
    """differences between two gkf documents as descriptions of the same survey"""
    diffs = []
    sa, sb = survey(ga), survey(gb)
    if [r["key"] for r in sa] != [r["key"] for r in sb]:
        ka, kb = [r["key"] for r in sa], [r["key"] for r in sb]
        return [f"{what}: observation lists differ: {len(ka)} vs {len(kb)}; first difference "
                f"{next(((x, y) for x, y in zip(ka, kb) if x != y), (None, None))}"]
    for a, b in zip(sa, sb):
        k = a["key"]
        if k[0] == "cov":
            ca, cb = a["cov"], b["cov"]
            if ca is None and cb is None:
                continue
            if ca is None or cb is None:
                # a diagonal cov-mat may be written out / replaced by stdev attributes
                c = ca or cb
                if c[1] != 0:
                    diffs.append(f"{what}: cov-mat of <{k[1]}> with band {c[1]} missing on one side")
                continue
            def cells(c, unit):
                d_, b_, v = c
                out, k = [], 0
                for i in range(d_):
                    for j in range(i, min(d_, i + b_ + 1)):
                        if k < len(v):
                            u = (unit[i] * unit[j]) if unit and len(unit) == d_ else 1.0
                            out.append(v[k] / u)
                        k += 1
                return out
            if ca[0] != cb[0] or ca[1] != cb[1] or len(ca[2]) != len(cb[2]) or \
                    any(not close(x, y, 1e-9, 0) for x, y in zip(cells(ca, a.get("unit")), cells(cb, b.get("unit")))):
                diffs.append(f"{what}: cov-mat of <{k[1]}> differs (dim/band {ca[0]}/{ca[1]} vs {cb[0]}/{cb[1]})")
            continue
        if len(a["vals"]) != len(b["vals"]) or any(not close(x, y, 1e-12, 1e-9) for x, y in zip(a["vals"], b["vals"])):
            diffs.append(f"{what}: value of {k} differs: {a['vals']} vs {b['vals']}")
        for f in ("from_dh", "to_dh", "fs_dh", "dist"):
            if f in a and not close(a.get(f, 0.0), b.get(f, 0.0), 1e-7, 1e-9):
                diffs.append(f"{what}: {f} of {k} differs: {a.get(f)} vs {b.get(f)}")
        if a.get("stdev") is not None and b.get("stdev") is not None and not a.get("has_cov") and not b.get("has_cov") \
                and not close(a["stdev"] / a.get("unit", 1.0), b["stdev"] / b.get("unit", 1.0), 1e-7, 0):
            diffs.append(f"{what}: stdev of {k} differs: {a['stdev']} vs {b['stdev']}")
        if a.get("extern", "") != b.get("extern", ""):
            diffs.append(f"{what}: extern of {k} differs: {a.get('extern')!r} vs {b.get('extern')!r}")
    # points and status
    pa, pb = ga["points"], gb["points"]
    for pid, a in pa.items():
        if pid not in pb:
            if any(pid in (r["key"][1], r["key"][2], r["key"][3]) for r in sa if r["key"][0] != "cov"):
                diffs.append(f"{what}: point {pid!r} missing")
            continue
        b = pb[pid]
        sta = (a.get("fix", ""), a.get("adj", ""))
        stb = (b.get("fix", ""), b.get("adj", ""))
        if norm_status(*sta) != norm_status(*stb):
            diffs.append(f"{what}: status of {pid!r} differs: {sta} vs {stb}")
    for k in ("sigma-apr", "conf-pr", "tol-abs"):
        if k in ga["params"] and k in gb["params"] and not close(float(ga["params"][k]), float(gb["params"][k]), 1e-7, 0):
            diffs.append(f"{what}: parameter {k} differs: {ga['params'][k]} vs {gb['params'][k]}")
    for k in ("sigma-act",):
        if ga["params"].get(k, "aposteriori") != gb["params"].get(k, "aposteriori"):
            diffs.append(f"{what}: parameter {k} differs")
    if ga["network"].get("axes-xy", "ne") != gb["network"].get("axes-xy", "ne") or \
            ga["network"].get("angles", "left-handed") != gb["network"].get("angles", "left-handed"):
        diffs.append(f"{what}: axes-xy/angles differ: {ga['network']} vs {gb['network']}")
    return diffs


def norm_status(fix, adj):
    """(xy status, z status) from fix= / adj= as GKFparser::process_point applies them (fix after adj)"""
    xy = z = "none"
    if adj:
        if adj in ("xy", "xyz", "xyZ"):
            xy = "free"
        if adj in ("XY", "XYZ", "XYz"):
            xy = "con"
        if adj in ("z", "xyz", "XYz"):
            z = "free"
        if adj in ("Z", "XYZ", "xyZ"):
            z = "con"
    if fix:
        f = fix.lower()
        if "xy" in f:
            xy = "fix"
        if "z" in f:
            z = "fix"
        if fix in ("XYz", "xyZ"):
            xy = z = "fix"
    return xy, z


# ---------------------------------------------------------------- results

def read_result(path):
    root = ET.parse(path).getroot()
    res = {"adj": {}, "apx": {}, "obs": [], "iters": 0}
    for e in root.iter():
        t = local(e.tag)
        if t == "approximate":
            for p in e:
                if local(p.tag) != "point":
                    continue
                pid = None
                for c in p:
                    lt = local(c.tag)
                    if lt == "id":
                        pid = N.pid_norm(c.text or "")
                    elif lt in "xyzXYZ":
                        res["apx"][(pid, lt.lower())] = float(c.text)
        elif t == "adjusted":
            for p in e:
                if local(p.tag) != "point":
                    continue
                pid = None
                for c in p:
                    lt = local(c.tag)
                    if lt == "id":
                        pid = N.pid_norm(c.text or "")
                    elif lt in "xyzXYZ":
                        res["adj"][(pid, lt.lower())] = float(c.text)
        elif t == "observations":
            for o in e:
                d = {local(c.tag): c.text for c in o}
                d["tag"] = local(o.tag)
                res["obs"].append(d)
        elif t in ("sum-of-squares", "degrees-of-freedom", "defect", "equations", "unknowns", "aposteriori"):
            res.setdefault(t, float(e.text))
        elif t == "linearization-iterations":
            res["iters"] = int(e.text)
    return res


def compare_results(r0, rk, what):
    diffs = []
    if set(r0["adj"]) != set(rk["adj"]):
        return [f"{what}: sets of adjusted coordinates differ: {sorted(set(r0['adj']) ^ set(rk['adj']))[:4]}"]
    for k in ("equations", "degrees-of-freedom", "defect", "unknowns"):
        if r0.get(k) != rk.get(k):
            diffs.append(f"{what}: {k} {r0.get(k)} vs {rk.get(k)}")
    for k, v in r0["adj"].items():
        if abs(v - rk["adj"][k]) > 2e-5:
            diffs.append(f"{what}: adjusted {k} {v} vs {rk['adj'][k]}")
    s0, sk = r0.get("sum-of-squares", 0.0), rk.get("sum-of-squares", 0.0)
    # absolute floor: consistent (noise-free) networks have a sum of squares that is pure rounding noise, and the
    # exported heights of instrument/target carry 8 significant digits
    if abs(s0 - sk) > 1e-3 * abs(s0) + 1e-5:
        diffs.append(f"{what}: sum of squares {s0} vs {sk}")
    if len(r0["obs"]) != len(rk["obs"]):
        diffs.append(f"{what}: number of adjusted observations {len(r0['obs'])} vs {len(rk['obs'])}")
    else:
        for a, b in zip(r0["obs"], rk["obs"]):
            if a["tag"] != b["tag"]:
                diffs.append(f"{what}: observation order/type differs {a['tag']} vs {b['tag']}")
                break
            ang = a["tag"] in ("direction", "angle", "zenith-angle", "azimuth")
            tol = 2e-5 if not ang else 2e-5
            for f in ("obs", "adj"):
                da = abs(float(a[f]) - float(b[f]))
                if ang:
                    da = min(da, abs(da - 400))
                if da > tol:
                    diffs.append(f"{what}: {a['tag']} {a.get('from')}->{a.get('to')} <{f}> {a[f]} vs {b[f]}")
            sa, sb_ = float(a["stdev"]), float(b["stdev"])
            if abs(sa - sb_) > 1e-3 * abs(sa) + 1e-3:
                diffs.append(f"{what}: {a['tag']} {a.get('from')}->{a.get('to')} stdev {sa} vs {sb_}")
    return diffs[:8]


# ---------------------------------------------------------------- generator

def gen_case(rng, k):
    kind = rng.choice(["2d", "2dang", "2dfree", "3d", "3dh", "lev", "levcov", "2dcov"])
    noise = rng.choice([0.0, 1.0, 1.0])
    if kind in ("lev", "levcov"):
        net = gen_net.levelling_network(rng, npts=rng.randint(3, 6), nfixed=1, extra=rng.randint(1, 3), noise=noise,
                                        free=rng.random() < 0.3)
    elif kind in ("3d", "3dh"):
        net = gen_net.make_network(rng, npts=rng.randint(4, 5), dim=3, nfixed=2,
                                   kinds=("direction", "s-distance", "z-angle", "dh") + (("vector",) if rng.random() < 0.4 else ()),
                                   noise=noise, heights=(kind == "3dh"))
    elif kind == "2dfree":
        net = gen_net.make_network(rng, npts=rng.randint(4, 6), nfixed=0, free=True, noise=noise)
    elif kind == "2dang":
        net = gen_net.make_network(rng, npts=rng.randint(4, 6), nfixed=2, kinds=("direction", "distance", "angle", "azimuth"),
                                   noise=noise)
    else:
        net = gen_net.make_network(rng, npts=rng.randint(3, 6), nfixed=2, noise=noise)
    # attributes that gama stores but (for these observation types) does not use in the equations
    for o in net["obs"]:
        if o["kind"] != "obs":
            continue
        for it in o["items"]:
            if it["t"] in ("direction", "distance", "azimuth") and rng.random() < 0.25:
                it["from_dh"], it["to_dh"] = round(rng.uniform(1.2, 1.8), 3), round(rng.choice([rng.uniform(1.0, 2.0), rng.uniform(-0.5, -0.05)]), 3)
            if it["t"] == "angle" and rng.random() < 0.6:
                it["from_dh"] = round(rng.uniform(1.2, 1.8), 3)
                it["bs_dh"] = round(rng.uniform(1.0, 2.0), 3)
                it["fs_dh"] = round(rng.uniform(1.0, 2.0), 3)
    N.decorate(rng, net, extern=rng.choice([0.0, 0.0, 0.4]), coords=(kind not in ("lev", "levcov") and rng.random() < 0.3),
               vectors=(kind in ("3d", "3dh") and rng.random() < 0.5), obscov=(0.7 if kind == "2dcov" else 0.0), hdcov=(1.0 if kind == "levcov" else 0.0),
               extern_pool=N.EXTERN_SAFE)
    gross = False
    # a gross error -> outlying absolute term -> observation removed (also inside correlated <obs> clusters: the
    # exported cluster must still carry all its observations with the full covariance matrix)
    if (rng.random() < 0.2 and kind in ("2d", "2dang")) or (kind == "2dcov" and rng.random() < 0.4):
        o = rng.choice([o for o in net["obs"] if o["kind"] == "obs"])
        it = rng.choice([i for i in o["items"] if i["t"] == "distance"] or o["items"])
        it["val"] += 50.0
        gross = True
    flav = rng.choice(["plain", "plain", "plain", "blank", "nonascii"])
    N.rename_ids(net, {pid: N.nasty_id(rng, i + 1, flav) for i, pid in enumerate(list(net["points"]))})
    axes = rng.choice([None, None, "ne", "en", "sw", "nw", "es", "wn", "se", "ws"])
    angles = rng.choice([None, None, "left-handed", "right-handed"])
    degrees = rng.random() < 0.25 and kind not in ("lev", "levcov")
    out360 = rng.random() < 0.25
    extra = {"cov-band": rng.choice([-1, 0, 2])}
    if out360:
        extra["angles"] = "360"
    if rng.random() < 0.3:
        extra["algorithm"] = rng.choice(["gso", "svd", "cholesky", "envelope"])
    epoch = rng.choice([None, None, 2021.5])
    gkf = N.to_gkf2(net, axes=axes, angles=angles, degrees=degrees, description=rng.choice(["plain net", "plain net", "R&D", "it's", "a < b"]),
                    extra_params=extra, epoch=epoch, obs_from_dh=False)
    # poor approximate coordinates of the adjusted points (decimetres to a metre off): the first linearisation is not
    # good enough, refine_adjustment iterates and the export carries coordinates refine_approx_coordinates has moved
    shifted = False
    if kind in ("2d", "2dang", "3d", "3dh") and not gross and rng.random() < POOR_APPROX_SHARE:
        def shift(m):
            t = m.group(0)
            if " adj=" not in t:
                return t
            return re.sub(r' (x|y)="(-?[0-9.]+)"', lambda q: f' {q.group(1)}="{float(q.group(2)) + rng.uniform(-1.0, 1.0):.4f}"', t)
        gkf2 = re.sub(r"<point [^>]*/>", shift, gkf)
        shifted = gkf2 != gkf
        gkf = gkf2
        # with the default tol-abs the observations whose absolute term is large only because of these coordinates would be
        # removed before the first adjustment and be back in the export (finding F29, corpus/C13/f29-*.gkf): keep them in
        # (half of the cases; the other half keeps the default and may run into F29)
        if rng.random() < 0.5:
            pass
        elif re.search(r'tol-abs="[^"]*"', gkf):
            gkf = re.sub(r'tol-abs="[^"]*"', 'tol-abs="100000"', gkf, count=1)
        else:
            gkf = gkf.replace("<parameters", '<parameters tol-abs="100000"', 1)
    return {"kind": kind, "gkf": gkf, "degrees": degrees, "out360": out360, "gross": gross, "axes": axes, "angles": angles,
            "flavour": flav, "noise": noise, "shifted": shifted}


ROUNDS = 3

# share of the generated 2D / 3D networks whose adjusted points get approximate coordinates up to a metre off, so that
# refine_adjustment iterates before the export.  OFF by default: on the current tree such runs expose two behaviours of the
# real code that are recorded as findings, not yet as known findings (report, round 3b): F29 (observations removed for a
# huge absolute term at the poor coordinates are back in the export) and F30 (the statistics of a run that iterated differ
# from those of the fresh adjustment of its own export: [pvv] 2e-3 relative).  `C13_POOR_APPROX=0.35 python3 tools/check.py C13`
# turns the generator on; the witnesses are corpus/C13/f29-*.gkf and f30-*.gkf (not run automatically).
POOR_APPROX_SHARE = float(os.environ.get("C13_POOR_APPROX", "0.35"))


def run_rounds(gdir, wd, idx, gkf_text):
    """in.gkf -> (e1, r0) -> (e2, r1) -> (e3, r2) -> r3 ; returns dict with texts/paths and the first error"""
    res = {"e": [gkf_text], "r": [], "err": None}
    cur = wd / f"c{idx}_e0.gkf"
    cur.write_text(gkf_text, encoding="utf-8")
    for k in range(ROUNDS + 1):
        ex = wd / f"c{idx}_e{k + 1}.gkf"
        rx = wd / f"c{idx}_r{k}.xml"
        cmd = [str(gdir / "gama-local"), str(cur), "--xml", str(rx)] + (["--export", str(ex)] if k < ROUNDS else [])
        try:
            rc, out, err = sh(cmd, timeout=120)
        except subprocess.TimeoutExpired:
            res["err"] = (k, -9, "timeout")
            return res
        if rc != 0 or not rx.exists():
            res["err"] = (k, rc, (err or out)[-800:])
            return res
        res["r"].append(str(rx))
        if k < ROUNDS:
            if not ex.exists():
                res["err"] = (k, rc, "no export written: " + (err or out)[-300:])
                return res
            res["e"].append(ex.read_text(encoding="utf-8", errors="replace"))
            cur = ex
    return res


def removed_for_abs_term(gdir, wd, idx, k):
    """the observations gama-local lists under 'Outlying absolute terms in project equations' (and removes) when it reads the
    input of round k: rows 'standpoint target kind'"""
    src = wd / f"c{idx}_e{k}.gkf"
    txt = wd / f"c{idx}_t{k}.txt"
    try:
        sh([str(gdir / "gama-local"), str(src), "--text", str(txt)], timeout=120)
        t = txt.read_text(encoding="utf-8", errors="replace")
    except Exception:
        return None
    m = re.search(r"Outlying absolute terms in project equations\n\*+\n(.*?)\n\s*\nObservations with outlying absolute terms removed", t, re.S)
    if not m:
        return []
    rows, cur = [], None
    for l in m.group(1).splitlines():          # an angle takes two lines: "i standpoint target" / "target2 angle value term"
        tk = l.split()
        if not tk or set(l.strip()) <= set("= valuetrmisandpobc"):
            continue
        if tk[0].isdigit() and not l.startswith(" " * 12):
            if cur:
                rows.append(" ".join(cur[:-2]))
            cur = tk[1:]
        elif cur is not None:
            cur += tk
    if cur:
        rows.append(" ".join(cur[:-2]))
    return rows


def diagnose(gdir, wd, idx, g, results, k):
    """facts about a pair (r0, rk) that does not agree, for the report and for the narrow signatures of F29 / F30"""
    out = []
    rem0, remk = removed_for_abs_term(gdir, wd, idx, 0), removed_for_abs_term(gdir, wd, idx, k)
    if rem0 is not None and remk is not None:
        back = [r for r in rem0 if r not in remk]
        out.append(f"r0 removed {len(rem0)} observation(s) for an outlying absolute term, r{k} removed {len(remk)}; "
                   f"removed in r0 and active in r{k}: {back[:3]}")
        # round 9 (Props/C13Removed.lean, `C13_export_forgets_removed` + `nActive`): the export gives every observation back, so
        # the equations of rk are those of r0 plus what r0's abs-term stage removed minus what rk's removes
        try:
            e0, ek = int(float(results[0].get("equations"))), int(float(results[k].get("equations")))
            pred = e0 + len(rem0) - len(remk)
            # (the revision that follows — single-direction rule, points left without observations — is monotone: an
            # observation that comes back can bring others with it, e.g. the second direction of a stand-point and its
            # orientation unknown; so rk may have MORE than the prediction, never fewer)
            out.append(f"abs-term accounting: equations r0 + removed r0 - removed r{k} = {pred}, r{k} has {ek}" +
                       ("" if pred <= ek else " [NOT explained by the abs-term stage]"))
        except (TypeError, ValueError):
            pass
    far = 0.0
    for (pid, c), v in results[0]["adj"].items():
        a = g[0]["points"].get(pid, {}).get(c)
        if a is not None:
            far = max(far, abs(abs(float(a)) - abs(v)))
    out.append(f"given approximate coordinates up to {far:.3f} m from the adjusted ones")
    same_pd = set(results[0]["apx"]) == set(results[k]["apx"]) and \
        all(abs(v - results[k]["apx"][key]) <= 2e-6 for key, v in results[0]["apx"].items())
    same_eq = all(results[0].get(x) == results[k].get(x) for x in ("equations", "unknowns", "degrees-of-freedom", "defect"))
    if results[0]["iters"]:
        out.append(f"r0 needed {results[0]['iters']} linearisation iterations")
    if same_pd and same_eq:
        out.append(f"approximate coordinates and equations of r0 and r{k} agree")
    return out


def check_case(ctx, gdir, wd, idx, c, corr):
    payload = {"stream": "net", "gkf": c["gkf"], "cmd": "gama-local e0.gkf --export e1.gkf --xml r0.xml; gama-local e1.gkf --export e2.gkf --xml r1.xml; ..."}
    rr = run_rounds(gdir, wd, idx, c["gkf"])
    if rr["err"]:
        k, rc, msg = rr["err"]
        if k == 0:
            corr.count("networks_not_adjusted")
            if rc in (86, 87, -6, -11, 134, 139):
                corr.fail("gama-local crashed on a generated network", payload, "gama-local", msg)
            return False
        # the generated input was adjusted and exported, but the export is refused / fails
        corr.fail(f"the exported file of round {k} is not an acceptable input", dict(payload, round=k, exported=rr["e"][k][:3000]),
                  "LocalNetwork::export_xml", msg)
        return True
    try:
        results = [read_result(p) for p in rr["r"]]
    except ET.ParseError as e:
        corr.count("result_xml_illformed")
        return False
    if not results[0]["adj"]:
        corr.count("networks_not_adjusted")
        return False
    corr.count("networks_adjusted")
    corr.count("kind_" + c["kind"])
    if c["degrees"]:
        corr.count("sexagesimal_inputs")
    if c["out360"]:
        corr.count("angles360")
    if c.get("shifted"):
        corr.count("networks_with_poor_approximate_coordinates")
    nobs_in = sum(len(cl["items"]) for cl in read_gkf(c["gkf"])["clusters"])
    # 1. exported files are valid XML and describe the same survey as the input
    try:
        g = [read_gkf(t) for t in rr["e"]]
    except ET.ParseError as e:
        corr.fail("the exported file is not well-formed XML", dict(payload, error=str(e)), "LocalNetwork::export_xml", str(e))
        return True
    d = same_survey(g[0], g[1], "input vs export 1")
    if d:
        corr.fail("the exported file does not describe the same survey as the input", dict(payload, diffs=d[:6]),
                  "LocalNetwork::export_xml / GKFparser", "; ".join(d[:6]))
    for k in range(1, ROUNDS):
        d = same_survey(g[k], g[k + 1], f"export {k} vs export {k + 1}")
        if d:
            corr.fail("exporting again does not yield an equivalent file", dict(payload, diffs=d[:6], round=k),
                      "LocalNetwork::export_xml / GKFparser", "; ".join(d[:6]))
            break
    # 2. same adjustment, no further iterations
    for k in range(1, ROUNDS + 1):
        d = compare_results(results[0], results[k], f"r0 vs r{k}")
        if d:
            corr.fail("adjusting the exported file does not reproduce the adjustment", dict(payload, diffs=d[:6], round=k),
                      "export_xml -> gama-local", "; ".join(d[:6] + diagnose(gdir, wd, idx, g, results, k)))
            break
        if results[k]["iters"] != 0:
            corr.fail("adjusting the exported file needs further linearisation iterations",
                      dict(payload, round=k, iterations=results[k]["iters"]), "LocalNetwork::refine_approx_coordinates",
                      f"round {k}: {results[k]['iters']} iterations")
            break
    if len(results[0]["obs"]) < nobs_in:
        corr.count("networks_with_removed_observations")
    # 3. what the exported coordinates are (C13_export_coordinates_are_adjusted_partial): export_xml writes PointData, the
    #    point of the last linearisation = <approximate> of the result (6 decimals there); they are the adjusted coordinates
    #    of the reported adjustment only up to its last correction x/1000, which is measured here, not required to vanish
    for k in range(0, ROUNDS):
        pts = g[k + 1]["points"]
        worst = None
        for (pid, c), v in results[k]["apx"].items():
            a = pts.get(pid, {}).get(c)
            if a is None:
                worst = (pid, c, "missing", v)
                break
            if abs(abs(float(a)) - abs(v)) > 2e-6:
                worst = (pid, c, float(a), v)
                break
        if worst:
            corr.fail("the exported coordinates are not the approximate coordinates of the exported adjustment (PointData after refine_approx_coordinates)",
                      dict(payload, round=k, diffs=[str(worst)]), "LocalNetwork::export_xml / refine_approx_coordinates",
                      f"round {k}: point {worst[0]} {worst[1]}: exported {worst[2]} vs approximate {worst[3]}")
            break
    dmax = 0.0
    for key, v in results[0]["adj"].items():
        a = g[1]["points"].get(key[0], {}).get(key[1])
        if a is not None:
            dmax = max(dmax, abs(abs(float(a)) - abs(v)))
    corr.maxstat("max_adjusted_minus_exported_m", dmax)
    corr.count("networks_exported_equals_adjusted_1e-6" if dmax <= 1e-6 else "networks_exported_differs_from_adjusted")
    if results[0]["iters"] > 0:
        corr.count("networks_with_linearisation_iterations")
    # how far from exact the printed precision leaves the re-adjustment (C13_readjustment_identical holds for the exact codec)
    corr.maxstat("max_readjusted_coordinate_shift_m", max([abs(v - results[1]["adj"].get(key, v)) for key, v in results[0]["adj"].items()] or [0.0]))
    s0, s1 = results[0].get("sum-of-squares", 0.0), results[1].get("sum-of-squares", 0.0)
    corr.maxstat("max_readjusted_pvv_shift_rel", abs(s0 - s1) / max(abs(s0), 1e-9) if abs(s0) > 1e-6 else 0.0)
    return True


# ---------------------------------------------------------------- record-level correspondence: model vs GKFparser+export_xml

KINDS = ["distance", "direction", "angle", "s-distance", "z-angle", "azimuth"]


def hexs(t):
    return t.encode("utf-8").hex() if t else "-"


def gen_record_case(rng):
    """one <obs> cluster with every observation kind and optional attribute zero / non-zero / absent, one
    <height-differences> cluster; all points fixed so that the document is complete without adjustment"""
    ids = ["S", "A", "B", "C c", "Dé"]
    station = rng.choice(ids[:2])
    els = []
    for _ in range(rng.randint(1, 7)):
        k = rng.choice(KINDS)
        a = []
        frm = station if (k == "direction" or rng.random() < 0.5) else rng.choice([i for i in ids if i != station])
        if k != "direction" and (frm != station or rng.random() < 0.3):
            a.append(("from", frm))
        others = [i for i in ids if i != frm]
        if k == "angle":
            bs, fs = rng.sample(others, 2)
            a += [("bs", bs), ("fs", fs)]
        else:
            a.append(("to", rng.choice(others)))
        a.append(("val", f"{rng.uniform(1, 390):.6f}"))
        a.append(("stdev", rng.choice(["10", "5", "2.5", "0.75"])))
        for nm in (("from_dh", "bs_dh", "fs_dh") if k == "angle" else ("from_dh", "to_dh")):
            r = rng.random()
            if r < 0.35:
                a.append((nm, rng.choice(["1.5", "1.625", "0.25", "2", "-0.125", "-1.5"])))   # heights may be negative
            elif r < 0.5:
                a.append((nm, rng.choice(["0", "0.0"])))
        if rng.random() < 0.3:
            a.append(("extern", rng.choice(["e1", "ext 2", "a&b", "x<y", "q\"t"])))
        if rng.random() < 0.5:
            rng.shuffle(a)
        els.append((k, a))
    dhs = []
    for _ in range(rng.randint(0, 3)):
        f, t = rng.sample(ids, 2)
        a = [("from", f), ("to", t), ("val", f"{rng.uniform(-5, 5):.5f}")]
        if rng.random() < 0.5:
            a.append(("dist", rng.choice(["0.5", "1.25", "2"])))
        else:
            a.append(("stdev", rng.choice(["1", "0.5", "2.5"])))
        if rng.random() < 0.3:
            a.append(("extern", "lev 1"))
        dhs.append(("dh", a))
    return station, els, dhs


def record_doc(station, els, dhs):
    esc = gen_net.xml_escape_attr
    ids = ["S", "A", "B", "C c", "Dé"]
    out = ['<?xml version="1.0" ?>', '<gama-local xmlns="http://www.gnu.org/software/gama/gama-local">', "<network>",
           '<parameters sigma-apr="10" conf-pr="0.95" tol-abs="1000" sigma-act="apriori" />', "<points-observations>"]
    for k, i in enumerate(ids):
        out.append(f'<point id="{esc(i)}" x="{100 + 37 * k}" y="{200 + 91 * k * k}" z="{10 + k}" fix="xyz" />')
    out.append(f'<obs from="{esc(station)}">')
    for k, a in els:
        out.append(f"<{k} " + " ".join(f'{n}="{esc(v)}"' for n, v in a) + " />")
    out.append("</obs>")
    if dhs:
        out.append("<height-differences>")
        for k, a in dhs:
            out.append(f"<{k} " + " ".join(f'{n}="{esc(v)}"' for n, v in a) + " />")
        out.append("</height-differences>")
    out += ["</points-observations>", "</network>", "</gama-local>", ""]
    return "\n".join(out)


NUMERIC = {"val", "stdev", "from_dh", "to_dh", "bs_dh", "fs_dh", "dist"}


def elems_of_export(text, cluster):
    g = read_gkf(text)
    cl = [c for c in g["clusters"] if c["kind"] == cluster]
    if not cl:
        return None, []
    return cl[0]["attrs"].get("from"), [(t, list(a.items())) for t, a in cl[0]["items"]]


def parse_model_lines(lines):
    station, els = None, []
    for l in lines:
        t = l.split()
        if t and t[0] == "station":
            station = bytes.fromhex(t[1]).decode("utf-8") if t[1] != "-" else ""
        elif t and t[0] == "el":
            els.append((t[1], [(kv.split("=")[0], (bytes.fromhex(kv.split("=")[1]).decode("utf-8") if kv.split("=")[1] != "-" else ""))
                               for kv in t[2:]]))
        elif t and t[0] == "throw":
            els.append(("throw", [(t[1], "")]))
    return station, els


def elems_equal(impl, model, dist_given=None):
    if len(impl) != len(model):
        return f"{len(impl)} vs {len(model)} elements"
    for (ta, aa), (tb, ab) in zip(impl, model):
        if ta != tb:
            return f"element {ta} vs {tb}"
        if [n for n, _ in aa] != [n for n, _ in ab]:
            return f"<{ta}> attributes {[n for n, _ in aa]} vs {[n for n, _ in ab]}"
        for (n, va), (_, vb) in zip(aa, ab):
            if n in NUMERIC:
                if vb.startswith("SD(") or vb == "IMPLICIT":
                    continue
                fa, fb = float(va), float(vb)
                if abs(fa - fb) > 1e-12 * max(abs(fa), abs(fb)) + 1e-300:
                    return f"<{ta}> {n} {va} vs {vb}"
            elif N.pid_norm(va) != N.pid_norm(vb):
                return f"<{ta}> {n} {va!r} vs {vb!r}"
    return None


def record_stream(ctx, corr, gdir):
    objs = sorted(_glob.glob(str(gdir / "CMakeFiles" / "libgama.dir" / "**" / "*.o"), recursive=True))
    if not objs:
        raise BuildError("libgama objects", f"no object files under {gdir}")
    exe = ctx.build_cpp("c13_export", [ctx.verif / "harness" / "c13_export.cpp"], libs=objs + ["-lexpat"])
    cases, meta = [], []
    for _ in range(ctx.size(300, 6000)):
        station, els, dhs = gen_record_case(ctx.rng)
        doc = record_doc(station, els, dhs)
        line = f"obs {hexs(doc)} {hexs(station)} " + " ; ".join(
            k + "".join(f" {n}={hexs(v)}" for n, v in a) for k, a in els)
        ops = [line]
        if dhs:
            ops.append(f"dh {hexs(doc)} " + " ; ".join(k + "".join(f" {n}={hexs(v)}" for n, v in a) for k, a in dhs))
        cases.append(ops)
        meta.append((station, els, dhs, doc))
    impl, crashes = run_cases(exe, cases)
    model, _ = run_cases(ctx.driver("drv_export"), cases)
    for i, (station, els, dhs, doc) in enumerate(meta):
        optional = sum(1 for _, a in els for n, v in a if n.endswith("_dh") or n == "extern")
        corr.case(key=("rec", cases[i][0][-200:]) if optional else None,
                  sample={"record_doc": doc[-600:]} if i < 1 else None)
        corr.count("record_cases")
        corr.count("record_elements", len(els) + len(dhs))
        payload = {"stream": "record", "gkf": doc}
        if i in crashes:
            corr.fail("GKFparser / export_xml crashed on a generated record document", payload, "LocalNetwork::export_xml", crashes[i][1])
            continue
        if not impl[i] or not impl[i][0].startswith("ok "):
            corr.fail("a generated record document is refused", dict(payload, out=impl[i][:1]), "GKFparser", " ".join(impl[i][:1])[:300])
            continue
        exported = bytes.fromhex(impl[i][0].split()[1]).decode("utf-8", "replace")
        try:
            ist, iels = elems_of_export(exported, "obs")
            _, idh = elems_of_export(exported, "height-differences")
        except ET.ParseError as e:
            corr.fail("the exported record document is not well-formed", dict(payload, exported=exported[:2000]), "LocalNetwork::export_xml", str(e))
            continue
        nmodel = len(els) + 1
        mst, mels = parse_model_lines(model[i][:nmodel])
        why = elems_equal(iels, mels)
        if why is None and N.pid_norm(ist or "") != N.pid_norm(mst or ""):
            why = f"cluster station {ist!r} vs {mst!r}"
        if why is None and dhs:
            _, mdh = parse_model_lines(model[i][nmodel:])
            why = elems_equal(idh, mdh)
        if why:
            corr.disagree("record", [doc[-1500:]], [str(iels)[:1200], str(idh)[:400]], model[i][:12], why)
        # oracle on the implementation alone: exported attributes, read as a survey, equal the input's
        d = same_survey(read_gkf(doc), read_gkf(exported), "record input vs export")
        if d:
            corr.fail("export_xml of a parsed document does not describe the same survey", dict(payload, diffs=d[:5]),
                      "LocalNetwork::export_xml / GKFparser", "; ".join(d[:5]))


# ---------------------------------------------------------------- whole documents: model (parseNet / exportNet) vs GKFparser + export_xml

AXES = ["ne", "sw", "es", "wn", "en", "nw", "se", "ws"]
ADJ = ["xy", "xyz", "z", "XY", "XYZ", "XYz", "xyZ", "Z"]


def dnum(rng, lo, hi, nd=4):
    return f"{rng.uniform(lo, hi):.{nd}f}"


SEXA = re.compile(r'val="\s*(\d+-\d\d-\d\d\.\d{4})"')
SEC60 = re.compile(r'-6\d\.\d{4}$')
# round 8: the elements of an exported <cov-mat> are printed by updated_xml_covmat with `scientific`, `precision(16)` (%.16e; the
# regenerated site `updated_xml_covmat` of Gen/GkfFmtSites.lean, `realCodec.fmtCov` = fmtSci 16; zero prints 0.0000000000000000e+00)
COVMAT = re.compile(r"<cov-mat\b[^>]*>(.*?)</cov-mat>", re.S)
COVNUM = re.compile(r"^-?\d\.\d{16}e[+-]\d{2,}$")


def cov_tokens(xml):
    return [t for body in COVMAT.findall(xml) for t in body.split()]


def gon2dms(g):
    """a sexagesimal string deg2gon accepts"""
    d = g * 0.9
    deg = int(d)
    m = int((d - deg) * 60)
    sec = ((d - deg) * 60 - m) * 60
    return f"{deg}-{m:02d}-{sec:07.4f}"


def band_cov(rng, sig, band):
    """packed upper band of D (I + 0.1 B) D : positive definite for band <= 3"""
    n = len(sig)
    out = []
    for i in range(n):
        for j in range(i, min(n, i + band + 1)):
            out.append(sig[i] * sig[j] * (1.0 if i == j else rng.choice([0.1, -0.1, 0.05])))
    return out


def gen_doc(rng):
    """a complete input document as (description for the statistics, XML text); nothing is adjusted: any mix the parser accepts"""
    esc = gen_net.xml_escape_attr
    ids = ["A", "B", "C7", "Dé", "E", "F 1"][:rng.randint(3, 6)]
    st = {"axes": rng.choice(AXES + [None]), "angles": rng.choice(["left-handed", "right-handed", None])}
    out = ['<?xml version="1.0" ?>', '<gama-local xmlns="http://www.gnu.org/software/gama/gama-local">']
    na = []
    if st["axes"]:
        na.append(f'axes-xy="{st["axes"]}"')
    if st["angles"]:
        na.append(f'angles="{st["angles"]}"')
    if rng.random() < 0.3:
        na.append(f'epoch="{rng.choice(["2021.5", "1999.25", "0"])}"')
    rng.shuffle(na)
    out.append("<network " + " ".join(na) + ">")
    if rng.random() < 0.5:
        out.append("<description>" + rng.choice(["plain", "R&amp;D", "a &lt; b"]) + "</description>")
    st["out360"] = False
    pa = []
    if rng.random() < 0.8:
        for nm, vals in (("sigma-apr", ["10", "1", "2.5", "7.123456789"]), ("conf-pr", ["0.95", "0.99", "0.5"]), ("tol-abs", ["1000", "500", "12.5"]),
                         ("sigma-act", ["apriori", "aposteriori"]), ("algorithm", ["gso", "svd", "cholesky", "envelope", "qr"]),
                         ("cov-band", ["-1", "0", "3", "-7"]), ("latitude", ["50", "48.5", "-33.25"]), ("ellipsoid", ["wgs84", "bessel", "grs80"]),
                         ("language", ["en"]), ("encoding", ["utf-8"])):
            if rng.random() < 0.45:
                pa.append(f'{nm}="{rng.choice(vals)}"')
        if rng.random() < 0.5:
            v = rng.choice(["400", "360", "360"])
            st["out360"] = v == "360"
            pa.append(f'{rng.choice(["angles", "angular"])}="{v}"')
        rng.shuffle(pa)
        out.append("<parameters " + " ".join(pa) + " />")
    st["params"] = len(pa)
    po = []
    if rng.random() < 0.3:
        po = [f'{nm}="{v}"' for nm, v in (("direction-stdev", "10"), ("angle-stdev", "12"), ("distance-stdev", "5 3 1"),
                                            ("zenith-angle-stdev", "9"), ("azimuth-stdev", "11")) if rng.random() < 0.6]
    out.append("<points-observations " + " ".join(po) + ">")
    pts = list(ids)
    rng.shuffle(pts)
    st["status"] = []
    for i in pts:
        a = [f'id="{esc(i)}"']
        dims = rng.choice(["xy", "xyz", "z", "xy", "xyz", "none"])
        if "xy" in dims:
            a += [f'x="{dnum(rng, -5000, 5000)}"', f'y="{dnum(rng, -5000, 5000)}"']
        if "z" in dims:
            a.append(f'z="{dnum(rng, 100, 900, 3)}"')
        r = rng.random()
        code = ""
        if r < 0.35:
            c = rng.choice(ADJ); a.append(f'fix="{c}"'); code = "fix:" + c
        elif r < 0.8:
            c = rng.choice(ADJ); a.append(f'adj="{c}"'); code = "adj:" + c
        elif r < 0.9:
            c, c2 = rng.choice(ADJ), rng.choice(ADJ); a += [f'adj="{c}"', f'fix="{c2}"']; code = f"adj:{c}+fix:{c2}"
        st["status"].append(code or "unused")
        rng.shuffle(a)
        out.append("<point " + " ".join(a) + " />")
    st["clusters"] = []
    st["deg_in"] = 0
    for _ in range(rng.randint(0, 4)):
        kind = rng.choice(["obs", "obs", "hd", "co", "ve"])
        if kind == "obs":
            station, els, _dhs = gen_record_case(rng)
            ca = []
            if rng.random() < 0.85:
                ca.append(f'from="{esc(station)}"')
            else:
                els = [(k, a if any(n == "from" for n, _ in a) else a + [("from", station)]) for k, a in els if k != "direction"]
                if not els:
                    continue
            if rng.random() < 0.2:
                ca.append(f'from_dh="{rng.choice(["1.5", "0", "1.25", "-0.5"])}"')
            if rng.random() < 0.15:
                ca.append('orientation="12.5"')
            sig = []
            lines = []
            for k, a in els:
                a = list(a)
                sd = float(dict(a)["stdev"])
                if k in ("direction", "angle", "z-angle", "azimuth") and rng.random() < 0.08:
                    # round 6: seconds in [59.99995, 60): a sexagesimal text with four decimals prints them as 60.0000 unless
                    # they are carried into the minutes (gon2deg.cpp; `toPrinted` carry) — the text must still be a fixed point
                    dd, mm = rng.randint(0, 359), rng.choice([0, 17, 58, 59, 59])
                    g60 = (dd + mm / 60.0 + rng.uniform(59.999951, 59.999999) / 3600.0) / 0.9
                    a = [(n, repr(g60) if n == "val" else v) for n, v in a]
                    st["sec60"] = st.get("sec60", 0) + 1
                elif k in ("direction", "angle", "z-angle", "azimuth") and rng.random() < 0.3:
                    a = [(n, gon2dms(float(v)) if n == "val" else v) for n, v in a]
                    st["deg_in"] += 1
                sig.append(sd)
                lines.append(f"<{k} " + " ".join(f'{n}="{esc(v)}"' for n, v in a) + " />")
            out.append("<obs " + " ".join(ca) + ">")
            out += lines
            band = None
            if rng.random() < 0.4:
                band = rng.randint(0, min(3, len(sig) - 1))
                out.append(f'<cov-mat dim="{len(sig)}" band="{band}">' + " ".join(repr(x) for x in band_cov(rng, sig, band)) + "</cov-mat>")
            out.append("</obs>")
            st["clusters"].append(("obs", band))
        elif kind == "hd":
            _s, _e, dhs = gen_record_case(rng)
            if not dhs:
                continue
            out.append("<height-differences>")
            sig = []
            for k, a in dhs:
                d = dict(a)
                sig.append(float(d["stdev"]) if "stdev" in d else 10.0 * float(d["dist"]) ** 0.5)
                out.append(f"<{k} " + " ".join(f'{n}="{esc(v)}"' for n, v in a) + " />")
            band = None
            if rng.random() < 0.3 and all("stdev" in dict(a) for _, a in dhs):
                band = rng.randint(0, min(2, len(sig) - 1))
                out.append(f'<cov-mat dim="{len(sig)}" band="{band}">' + " ".join(repr(x) for x in band_cov(rng, sig, band)) + "</cov-mat>")
            out.append("</height-differences>")
            st["clusters"].append(("hd", band))
        elif kind == "co":
            ca = f' extern="{rng.choice(["gps 1", "a&amp;b"])}"' if rng.random() < 0.3 else ""
            out.append(f"<coordinates{ca}>")
            sig = []
            for i in rng.sample(ids, rng.randint(1, min(3, len(ids)))):
                dims = rng.choice(["xy", "xyz", "z"])
                a = [f'id="{esc(i)}"']
                if "xy" in dims:
                    a += [f'x="{dnum(rng, -5000, 5000)}"', f'y="{dnum(rng, -5000, 5000)}"']
                    sig += [0.01, 0.02]
                if "z" in dims:
                    a.append(f'z="{dnum(rng, 100, 900, 3)}"')
                    sig.append(0.03)
                if rng.random() < 0.1:
                    a.append(f'adj="{rng.choice(ADJ)}"')
                out.append("<point " + " ".join(a) + " />")
            band = rng.randint(0, min(3, len(sig) - 1))
            out.append(f'<cov-mat dim="{len(sig)}" band="{band}">' + " ".join(repr(x) for x in band_cov(rng, sig, band)) + "</cov-mat>")
            out.append("</coordinates>")
            st["clusters"].append(("co", band))
        else:
            out.append("<vectors>")
            n = rng.randint(1, 3)
            for _ in range(n):
                f, t = rng.sample(ids, 2)
                a = [f'from="{esc(f)}"', f'to="{esc(t)}"', f'dx="{dnum(rng, -900, 900)}"', f'dy="{dnum(rng, -900, 900)}"', f'dz="{dnum(rng, -90, 90)}"']
                if rng.random() < 0.2:
                    a += ['from_dh="1.5"', 'to_dh="1.75"']
                if rng.random() < 0.3:
                    a.append('extern="v 1"')
                rng.shuffle(a)
                out.append("<vec " + " ".join(a) + " />")
            sig = [0.01, 0.02, 0.03] * n
            band = rng.randint(0, min(3, len(sig) - 1))
            out.append(f'<cov-mat dim="{len(sig)}" band="{band}">' + " ".join(repr(x) for x in band_cov(rng, sig, band)) + "</cov-mat>")
            out.append("</vectors>")
            st["clusters"].append(("ve", band))
    out += ["</points-observations>", "</network>", "</gama-local>", ""]
    return st, "\n".join(out)


NUM8 = {"sigma-apr", "conf-pr", "tol-abs", "from_dh", "to_dh", "bs_dh", "fs_dh"}
NUMS = NUM8 | {"epoch", "latitude", "cov-band", "x", "y", "z", "val", "stdev", "dist", "dx", "dy", "dz", "orientation"}


def hexfloat_tok(v):
    """numeric attribute text as the driver reads it: hex double, `D<hex double of gon>` for a sexagesimal string"""
    g = dms2gon(v)
    if g is not None:
        return "D" + float2hex(g)
    try:
        return float2hex(float(v))
    except ValueError:
        return v


def kv(a, numeric=NUMS):
    return " ".join(f"{n}={hexs(hexfloat_tok(v) if (n in numeric and n != 'cov-band') else v)}" for n, v in a)


def cov_tok(c):
    if c is None:
        return ""
    return " ; cov " + c.get("dim") + " " + c.get("band") + "".join(" " + hexs(float2hex(float(x))) for x in (c.text or "").split())


def doc_tokens(text):
    """operands of the driver's `net` line from the XML text (attribute order as written)"""
    root = ET.fromstring(text.encode("utf-8"))
    secs = []
    net = next(e for e in root.iter() if local(e.tag) == "network")
    secs.append("H " + kv(list(net.attrib.items())))
    for e in net:
        t = local(e.tag)
        if t == "description":
            secs.append("T " + hexs(e.text or ""))
        elif t == "parameters":
            secs.append("P " + kv(list(e.attrib.items())))
        elif t == "points-observations":
            secs.append("O " + kv(list(e.attrib.items()), numeric=set()))
            for c in e:
                ct = local(c.tag)
                cov = next((o for o in c if local(o.tag) == "cov-mat"), None)
                kids = [o for o in c if local(o.tag) != "cov-mat"]
                if ct == "point":
                    secs.append("pt " + kv(list(c.attrib.items())))
                elif ct == "obs":
                    secs.append("obs " + kv(list(c.attrib.items())) + "".join(" ; el " + local(o.tag) + " " + kv(list(o.attrib.items())) for o in kids) + cov_tok(cov))
                elif ct == "height-differences":
                    secs.append("hd" + "".join(" ; el " + local(o.tag) + " " + kv(list(o.attrib.items())) for o in kids) + cov_tok(cov))
                elif ct == "coordinates":
                    secs.append("co " + kv(list(c.attrib.items())) + "".join(" ; p " + kv(list(o.attrib.items())) for o in kids) + cov_tok(cov))
                elif ct == "vectors":
                    secs.append("ve" + "".join(" ; vec " + kv(list(o.attrib.items())) for o in kids) + cov_tok(cov))
    return " | ".join(secs)


def unhexs(h):
    return bytes.fromhex(h).decode("utf-8") if h != "-" else ""


def canon_real(text):
    """the exported XML as a list of records (tag, [(name, value)], elements, cov)"""
    root = ET.fromstring(text.encode("utf-8"))
    recs = []
    net = next(e for e in root.iter() if local(e.tag) == "network")
    recs.append(("H", list(net.attrib.items()), [], None))
    for e in net:
        t = local(e.tag)
        if t == "description":
            recs.append(("T", [("text", e.text or "")], [], None))
        elif t == "parameters":
            recs.append(("P", list(e.attrib.items()), [], None))
        elif t == "points-observations":
            for c in e:
                ct = local(c.tag)
                covx = next((o for o in c if local(o.tag) == "cov-mat"), None)
                cov = None if covx is None else (int(covx.get("dim")), int(covx.get("band")), [float(x) for x in (covx.text or "").split()])
                kids = [(local(o.tag), list(o.attrib.items())) for o in c if local(o.tag) != "cov-mat"]
                tag = {"point": "pt", "obs": "obs", "height-differences": "hd", "coordinates": "co", "vectors": "ve"}[ct]
                recs.append((tag, list(c.attrib.items()), kids, cov))
    return recs


def canon_model(lines):
    recs = []
    for l in lines:
        groups = [g.split() for g in l.split(" ; ")]
        head = groups[0]
        if not head:
            continue
        tag = head[0]
        if tag == "T":
            if len(head) > 1 and unhexs(head[1]):
                recs.append(("T", [("text", unhexs(head[1]))], [], None))
            continue
        attrs = [(t.split("=")[0], unhexs(t.split("=")[1])) for t in head[1:]]
        kids, cov = [], None
        for g in groups[1:]:
            if g[0] == "cov":
                cov = (int(g[1]), int(g[2]), [hex2float(unhexs(x)) for x in g[3:]])
            elif g[0] == "el":
                kids.append((g[1], [(t.split("=")[0], unhexs(t.split("=")[1])) for t in g[2:]]))
            else:
                kids.append(({"p": "point", "vec": "vec"}[g[0]], [(t.split("=")[0], unhexs(t.split("=")[1])) for t in g[1:]]))
        recs.append((tag, attrs, kids, cov))
    return recs


def num_of(v):
    """number behind a real (decimal / sexagesimal) or model (hex / D-hex) attribute text"""
    v = v.strip()
    if v.startswith("D0x"):
        return hex2float(v[1:]), True
    if v.startswith("0x"):
        return hex2float(v), False
    g = dms2gon(v)
    if g is not None:
        return g, True
    return float(v), False


def attrs_equal(aa, ab, where):
    if [n for n, _ in aa] != [n for n, _ in ab]:
        return f"{where}: attributes {[n for n, _ in aa]} vs {[n for n, _ in ab]}"
    for (n, va), (_, vb) in zip(aa, ab):
        if n in NUMS:
            try:
                (fa, da), (fb, db) = num_of(va), num_of(vb)
            except ValueError:
                return f"{where}: {n} {va!r} vs {vb!r}"
            if da != db:
                return f"{where}: {n} sexagesimal on one side only: {va!r} vs {vb!r}"
            tol = 5e-8 if da else (2e-8 * max(abs(fa), abs(fb)) if n in NUM8 else 1e-12 * max(abs(fa), abs(fb))) + 1e-300
            if abs(fa - fb) > tol:
                return f"{where}: {n} {va} vs {vb}"
        elif N.pid_norm(va) != N.pid_norm(vb):
            return f"{where}: {n} {va!r} vs {vb!r}"
    return None


def flat_coords(kids):
    out = []
    for _, a in kids:
        d = dict(a)
        for k in ("x", "y", "z"):
            if k in d:
                out.append((N.pid_norm(d.get("id", "")), k, d[k]))
    return out


def docs_equal(ra, rb):
    """records of the real export vs records of the model's export; points compared as a set (PointData is sorted, the model keeps
    insertion order), coordinates clusters by their observation lists (export_xml merges adjacent x y / z of one id)"""
    pa = sorted((r for r in ra if r[0] == "pt"), key=lambda r: N.pid_norm(dict(r[1]).get("id", "")))
    pb = sorted((r for r in rb if r[0] == "pt"), key=lambda r: N.pid_norm(dict(r[1]).get("id", "")))
    oa = [r for r in ra if r[0] != "pt"]
    ob = [r for r in rb if r[0] != "pt"]
    if len(pa) != len(pb):
        return f"{len(pa)} vs {len(pb)} points: {[dict(r[1]).get('id') for r in pa]} vs {[dict(r[1]).get('id') for r in pb]}"
    if [r[0] for r in oa] != [r[0] for r in ob]:
        return f"records {[r[0] for r in oa]} vs {[r[0] for r in ob]}"
    for x, y in zip(pa + oa, pb + ob):
        why = attrs_equal(x[1], y[1], x[0])
        if why:
            return why
        if x[0] == "co":
            fa, fb = flat_coords(x[2]), flat_coords(y[2])
            if [(i, k) for i, k, _ in fa] != [(i, k) for i, k, _ in fb]:
                return f"co: observations {[(i, k) for i, k, _ in fa]} vs {[(i, k) for i, k, _ in fb]}"
            for (i, k, va), (_, _, vb) in zip(fa, fb):
                if abs(num_of(va)[0] - num_of(vb)[0]) > 1e-12 * max(abs(num_of(va)[0]), 1e-300):
                    return f"co: {k} of {i} {va} vs {vb}"
        else:
            if len(x[2]) != len(y[2]):
                return f"{x[0]}: {len(x[2])} vs {len(y[2])} elements"
            for (ta, aa), (tb, ab) in zip(x[2], y[2]):
                if ta != tb:
                    return f"{x[0]}: element {ta} vs {tb}"
                why = attrs_equal(aa, ab, f"{x[0]}/{ta}")
                if why:
                    return why
        ca, cb = x[3], y[3]
        if (ca is None) != (cb is None):
            return f"{x[0]}: cov-mat present on one side only"
        if ca is not None:
            if ca[0] != cb[0] or ca[1] != cb[1] or len(ca[2]) != len(cb[2]):
                return f"{x[0]}: cov-mat dim/band/len {ca[0]}/{ca[1]}/{len(ca[2])} vs {cb[0]}/{cb[1]}/{len(cb[2])}"
            for k, (u, v) in enumerate(zip(ca[2], cb[2])):
                if abs(u - v) > 1e-12 * max(abs(u), abs(v)) + 1e-300:
                    return f"{x[0]}: cov-mat element {k}: {u} vs {v}"
    return None


def doc_same_as_input(doc, exported):
    """oracle on the implementation alone: the exported document names the same points with the same status and coordinates,
    the same parameters, and the same vectors / coordinates clusters (values and covariances) as the input it was read from"""
    gi, ge = canon_real(doc), canon_real(exported)
    # points: last definition wins; <coordinates> points go through process_point as well — but (6848bc2a) their values are
    # observations: they give a point only the coordinate groups it does not have yet (status attributes apply as always)
    pin = {}
    def upd(a, observed=False):
        d = dict(a)
        i = N.pid_norm(d.get("id", ""))
        p = pin.setdefault(i, {"xy": None, "z": None, "st": ("none", "none")})
        if "x" in d and not (observed and p["xy"] is not None):
            p["xy"] = (float(d["x"]), float(d["y"]))
        if "z" in d and not (observed and p["z"] is not None):
            p["z"] = float(d["z"])
        st = norm_status(d.get("fix", ""), d.get("adj", ""))
        p["st"] = (st[0] if st[0] != "none" else p["st"][0], st[1] if st[1] != "none" else p["st"][1])
    for tag, a, kids, cov in gi:
        if tag == "pt":
            upd(a)
        elif tag == "co":
            for _, ka in kids:
                upd(ka, observed=True)
    pex = {N.pid_norm(dict(a).get("id", "")): dict(a) for tag, a, _, _ in ge if tag == "pt"}
    for i, p in pin.items():
        if p["st"] == ("none", "none"):
            if i in pex:
                return f"point {i!r} without status is exported"
            continue
        if i not in pex:
            return f"point {i!r} missing in the export"
        e = pex[i]
        if norm_status(e.get("fix", ""), e.get("adj", "")) != p["st"]:
            return f"status of {i!r}: {p['st']} vs fix={e.get('fix')!r} adj={e.get('adj')!r}"
        if (p["xy"] is None) != ("x" not in e) or (p["z"] is None) != ("z" not in e):
            return f"coordinates of {i!r} defined on one side only"
        if p["xy"] and (not close(p["xy"][0], float(e["x"]), 1e-13, 0) or not close(p["xy"][1], float(e["y"]), 1e-13, 0)):
            return f"x y of {i!r}: {p['xy']} vs {e['x']} {e['y']}"
        if p["z"] is not None and not close(p["z"], float(e["z"]), 1e-13, 0):
            return f"z of {i!r}: {p['z']} vs {e['z']}"
    pi = next((dict(a) for t, a, _, _ in gi if t == "P"), {})
    pe = next((dict(a) for t, a, _, _ in ge if t == "P"), {})
    for k in ("sigma-apr", "conf-pr", "tol-abs", "latitude"):
        if k in pi and (k not in pe or not close(float(pi[k]), float(pe[k]), 2e-8, 0)):
            return f"parameter {k}: {pi[k]} vs {pe.get(k)}"
    if "sigma-act" in pi and pe.get("sigma-act") != pi["sigma-act"]:
        return f"parameter sigma-act: {pi['sigma-act']} vs {pe.get('sigma-act')}"
    hi = next((dict(a) for t, a, _, _ in gi if t == "H"), {})
    he = next((dict(a) for t, a, _, _ in ge if t == "H"), {})
    if hi.get("axes-xy", "ne") != he.get("axes-xy") or hi.get("angles", "left-handed") != he.get("angles"):
        return f"axes / angles: {hi} vs {he}"
    if "epoch" in hi and ("epoch" not in he or float(hi["epoch"]) != float(he["epoch"])):
        return f"epoch: {hi.get('epoch')} vs {he.get('epoch')}"
    for kind in ("ve", "co"):
        ci = [r for r in gi if r[0] == kind]
        ce = [r for r in ge if r[0] == kind]
        if len(ci) != len(ce):
            return f"{len(ci)} vs {len(ce)} <{kind}> clusters"
        for x, y in zip(ci, ce):
            if kind == "co":
                fa, fb = flat_coords(x[2]), flat_coords(y[2])
            else:
                fa = [(N.pid_norm(dict(a)["from"]) + ">" + N.pid_norm(dict(a)["to"]), k, dict(a)[k]) for _, a in x[2] for k in ("dx", "dy", "dz")]
                fb = [(N.pid_norm(dict(a)["from"]) + ">" + N.pid_norm(dict(a)["to"]), k, dict(a)[k]) for _, a in y[2] for k in ("dx", "dy", "dz")]
            if [(i, k) for i, k, _ in fa] != [(i, k) for i, k, _ in fb]:
                return f"{kind}: observation lists differ"
            for (i, k, va), (_, _, vb) in zip(fa, fb):
                if not close(float(va), float(vb), 1e-13, 0):
                    return f"{kind}: {k} of {i} {va} vs {vb}"
            if x[3][0] != y[3][0] or x[3][1] != y[3][1] or any(not close(u, v, 1e-12, 0) for u, v in zip(x[3][2], y[3][2])):
                return f"{kind}: cov-mat differs from the input's"
    return None


def split_model(lines):
    """(document lines, 'again …' line, 'wf …' line) of the driver's answer to a `net` operation"""
    body, again, wf = list(lines), "", ""
    while body and (body[-1].startswith("again") or body[-1].startswith("wf")):
        l = body.pop()
        if l.startswith("wf"):
            wf = l
        else:
            again = l
    return body, again, wf


def doc_stream(ctx, corr, exe):
    metas, cases = [], []
    for _ in range(ctx.size(400, 8000)):
        st, doc = gen_doc(ctx.rng)
        metas.append((st, doc))
        cases.append([f"net {hexs(doc)} {doc_tokens(doc)}"])
    impl, crashes = run_cases(exe, cases)
    model, _ = run_cases(ctx.driver("drv_export"), cases)
    second, sidx = [], []
    for i, (st, doc) in enumerate(metas):
        key = ("doc", st["axes"], st["angles"], tuple(st["clusters"]), tuple(st["status"]), st["out360"], st["params"])
        nontrivial = bool(st["clusters"]) or any(x != "unused" for x in st["status"])
        corr.case(key=(key + (i,)) if nontrivial else None, sample={"doc": doc[:900]} if i < 1 else None)
        corr.count("doc_cases")
        corr.count("doc_axes_" + str(st["axes"]))
        corr.count("doc_angles_" + str(st["angles"]))
        for k, b in st["clusters"]:
            corr.count("doc_cluster_" + k)
            if b:
                corr.count("doc_cluster_with_band")
        for x in st["status"]:
            corr.count("doc_status_" + ("constrained" if any(ch.isupper() for ch in x.split(":")[-1]) and x.startswith("adj") and "+" not in x
                                        else x.split(":")[0] if "+" not in x else "adj+fix"))
        if st["deg_in"]:
            corr.count("doc_sexagesimal_input")
        if st["out360"]:
            corr.count("doc_output_in_degrees")
        payload = {"stream": "doc", "gkf": doc}
        if i in crashes:
            corr.fail("GKFparser / export_xml crashed on a generated document", payload, "LocalNetwork::export_xml", crashes[i][1])
            continue
        if not impl[i] or not impl[i][0].startswith("ok "):
            why = unhexs(impl[i][0].split()[2]) if impl[i] and len(impl[i][0].split()) > 2 else str(impl[i][:1])
            if model[i] and model[i][0].startswith("throw"):
                corr.count("doc_refused_by_both")
            else:
                corr.disagree("doc", [doc[-1500:]], impl[i][:1] + [why[:200]], model[i][:6], "the parser refuses a document the model accepts")
            continue
        if not model[i] or model[i][0].startswith("throw") or model[i][0] == "bad-op":
            corr.disagree("doc", [doc[-1500:]], ["accepted"], model[i][:2], "the model refuses a document the parser accepts")
            continue
        exported = unhexs(impl[i][0].split()[1])
        # round 8 (C13_number_sites_formats / C13_cov_site_roundtrip): every element of an exported <cov-mat> has the text of %.16e
        ct = cov_tokens(exported)
        corr.count("doc_covmat_elements", len(ct))
        badc = [t for t in ct if not COVNUM.match(t)]
        if badc:
            corr.fail("an element of the exported <cov-mat> is not printed as %.16e (scientific, 16 decimals)",
                      dict(payload, exported=exported[:3000], texts=badc[:4]), "LocalNetwork::updated_xml_covmat", f"{badc[:4]}")
        try:
            ra = canon_real(exported)
        except ET.ParseError as e:
            corr.fail("the exported document is not well-formed", dict(payload, exported=exported[:2000]), "LocalNetwork::export_xml", str(e))
            continue
        mbody, magain, mwf = split_model(model[i])
        why = docs_equal(ra, canon_model(mbody))
        if why:
            corr.disagree("doc", [doc[-1800:]], [exported[-1500:]], model[i][:14], why)
        # the hypothesis Net.WF of C13_roundtrip_network / C13_fixed_point_network, decided by the driver for the network
        # the parser returns: when it holds the theorems predict the fixed point — for the model (else the Lean side is
        # inconsistent with its own theorem: broken) and, through the correspondence, for export_xml (second round below)
        wf_in = mwf.split()[1:2] == ["1"]
        corr.count("doc_input_wf" if wf_in else "doc_input_not_wf")
        for r in mwf.split()[2:]:
            corr.count("doc_input_not_wf_" + r)
        if wf_in and magain != "again same":
            corr.disagree("doc", [doc[-1800:]], ["Net.WF holds"], [magain, mwf], "Net.WF holds for the parsed document but the model's second export differs")
        why = doc_same_as_input(doc, exported)
        if why:
            corr.fail("the exported document does not describe the same survey as the input", dict(payload, diffs=[why]),
                      "LocalNetwork::export_xml / GKFparser", "doc: " + why)
        if magain != "again same":
            # the model regenerated from a tree whose writer and parser disagree (F26, F27) reproduces that; the failing input
            # comes from the implementation's own second round below
            corr.count("doc_model_export_not_a_fixed_point")
        corr.count("doc_compared")
        second.append([f"net {hexs(exported)} {doc_tokens(exported)}"])
        sidx.append((i, exported, ra, wf_in))
    # second round: the real export as input of both sides (the model's parse of the real export), and the
    # implementation's own fixed point: export(parse(e1)) describes the same document as e1
    impl2, crashes2 = run_cases(exe, second)
    model2, _ = run_cases(ctx.driver("drv_export"), second)
    for k, (i, exported, ra, wf_in) in enumerate(sidx):
        payload = {"stream": "doc", "gkf": metas[i][1], "exported": exported[:3000]}
        if k in crashes2 or not impl2[k] or not impl2[k][0].startswith("ok "):
            corr.fail("the exported document is not an acceptable input", payload, "LocalNetwork::export_xml / GKFparser",
                      crashes2[k][1] if k in crashes2 else (unhexs(impl2[k][0].split()[2]) if impl2[k] and len(impl2[k][0].split()) > 2 else ""))
            continue
        e2 = unhexs(impl2[k][0].split()[1])
        rb = canon_real(e2)
        why = docs_equal(ra, rb)
        if why:
            corr.fail("exporting the exported document does not yield an equivalent document", dict(payload, diffs=[why]),
                      "LocalNetwork::export_xml / GKFparser", ("[Net.WF held for the input] " if wf_in else "") + why)
        elif wf_in:
            corr.count("doc_wf_and_fixed_point")
        # round 6 (C13_fixed_point_network_real in degrees; Lemmas/ExportDegrees `gon2deg_degQ`): the sexagesimal TEXT of an
        # angular value is a fixed point — reading `gon2deg(g, 0, 4)` and printing the value read gives the same characters
        # (a value with four decimals of the second sits in the middle of its rounding interval: robust for doubles)
        t1, t2 = SEXA.findall(exported), SEXA.findall(e2)
        if t1:
            corr.count("doc_sexagesimal_texts", len(t1))
            corr.count("doc_sexagesimal_texts_carried", sum(1 for t in t1 if t.endswith("-00.0000")))
            bad60 = [t for t in t1 if SEC60.search(t)]
            if bad60:
                corr.fail("the exported sexagesimal text has seconds 60", dict(payload, texts=bad60[:4]), "gon2deg", f"{bad60[:4]}")
            elif not why and t1 != t2:
                d = [(a, b) for a, b in zip(t1, t2) if a != b][:4]
                corr.fail("the sexagesimal text of an exported angle is not a fixed point of export ∘ parse",
                          dict(payload, texts=d), "gon2deg / deg2gon", f"{d}")
        if not model2[k] or model2[k][0].startswith("throw") or model2[k][0] == "bad-op":
            corr.disagree("doc", [exported[-1500:]], ["accepted"], model2[k][:2], "the model refuses a document written by export_xml")
            continue
        m2body, m2again, m2wf = split_model(model2[k])
        why = docs_equal(rb, canon_model(m2body))
        if why:
            corr.disagree("doc", [exported[-1800:]], [e2[-1500:]], model2[k][:14], "second round: " + why)
        corr.count("doc_export_wf" if m2wf.split()[1:2] == ["1"] else "doc_export_not_wf")
        for r in m2wf.split()[2:]:
            corr.count("doc_export_not_wf_" + r)
        corr.count("doc_second_round_compared")


def build(ctx):
    return ctx.build_gama(sanitize=ctx.thorough)


def correspond(ctx, corr):
    gdir = build(ctx)
    wd = Path(tempfile.mkdtemp(prefix="c13-"))
    try:
        record_stream(ctx, corr, gdir)
        objs = sorted(_glob.glob(str(gdir / "CMakeFiles" / "libgama.dir" / "**" / "*.o"), recursive=True))
        doc_stream(ctx, corr, ctx.build_cpp("c13_export", [ctx.verif / "harness" / "c13_export.cpp"], libs=objs + ["-lexpat"]))
        cases = []
        corpus = ctx.verif / "corpus" / "C13"
        # net-*: regression inputs that must pass (net-dh-dist-stdev-F28: fixed by 9f04c51); f29-* / f30-*: witnesses of the
        # known findings F29 / F30, run on every check so that their KNOWN-FINDING lines are printed
        for f in sorted(corpus.glob("net-*.gkf")) + sorted(corpus.glob("f29-*.gkf")) + sorted(corpus.glob("f30-*.gkf")):
            cases.append({"kind": "corpus", "gkf": f.read_text(encoding="utf-8"), "degrees": False, "out360": False,
                          "gross": False, "flavour": "corpus"})
        for k in range(ctx.size(150, 2500)):
            cases.append(gen_case(random.Random(ctx.rng.getrandbits(64)), k))
        for idx, c in enumerate(cases):
            ok = check_case(ctx, gdir, wd, idx, c, corr)
            corr.case(key=("net", idx) if ok else None,
                      sample={"kind": c["kind"], "degrees": c["degrees"], "gkf_head": c["gkf"][:300]} if idx < 2 else None)
        n = corr.stats.get("networks_adjusted", 0)
        if n < len(cases) // 2:
            corr.inconclusive.append(f"only {n} of {len(cases)} generated networks were adjusted")
    finally:
        shutil.rmtree(wd, ignore_errors=True)


def search(ctx, broken, corr):
    big = Corr()
    ctx2 = Ctx(ID, ctx.tier, ctx.seed + 1000)
    ctx2.size = lambda q, t: q * 4
    try:
        correspond(ctx2, big)
    except BuildError:
        return []
    return big.failures


def classify(ctx, f):
    d = f.detail or ""
    if f.replay.get("stream") == "doc":
        if "P: latitude" in d or "parameter latitude" in d:
            return "F27"
        if re.search(r"obs: cov-mat element", d) and re.search(r'(angles|angular)="360"', str(f.replay.get("gkf", ""))):
            return "F26"
        return None
    if re.search(r"<dh [^>]*dist=[^>]*stdev=|<dh [^>]*stdev=[^>]*dist=", str(f.replay.get("gkf", ""))) and ("stdev of" in d or "does not reproduce" in f.what):
        return "F28"
    if "does not reproduce" in f.what:
        # F29: an observation listed as removed for its absolute term in r0 is active in rk (more equations there), and the
        # GIVEN approximate coordinates are far (> 5 cm) from the adjusted ones
        m = re.search(r"r0 vs r\d: equations ([0-9.]+) vs ([0-9.]+)", d)
        mr = re.search(r"removed in r0 and active in r\d: \[(.*?)\]", d)
        mf = re.search(r"given approximate coordinates up to ([0-9.]+) m", d)
        if m and float(m.group(2)) > float(m.group(1)) and mr and mr.group(1).strip() and mf and float(mf.group(1)) > 0.05 \
                and "[NOT explained by the abs-term stage]" not in d:
            return "F29"
        # F30: a run with >= 1 iteration whose [pvv] differs from the fresh adjustment of its own export while PointData and
        # the equations agree
        if re.search(r"r0 needed [1-9]\d* linearisation iterations", d) and \
                re.search(r"approximate coordinates and equations of r0 and r\d agree", d) and "sum of squares" in d:
            return "F30"
    if "fs_dh of" in d and " differs" in d:
        return "F8"
    if "not well-formed" in f.what or ("not an acceptable input" in f.what and
                                       re.search(r'(id|from|to|bs|fs)="[^"]*[<&"]|<description>[^\n]*<(?!/description>)', str(f.replay.get("exported", "")))):
        return "F11b"
    if "extern of" in d:
        return "F21"
    if re.search(r"cov-mat of <(coordinates|vectors)> differs", d) and \
            re.search(r'axes-xy="(en|nw|se|ws)"( angles="left|>| epoch)|axes-xy="(ne|sw|es|wn)" angles="right|<network angles="right',
                      str(f.replay.get("gkf", ""))):
        return "F25"
    if re.search(r"value of \('coord'", d) or ("does not reproduce" in f.what and "<coordinates" in str(f.replay.get("gkf", ""))
                                                and re.search(r'axes-xy="(en|nw|se|ws)" angles="left|axes-xy="(ne|sw|es|wn)" angles="right', str(f.replay.get("gkf", "")))):
        return "F22"
    return None


def replay(ctx, payload):
    f = payload.get("failure") or {}
    inp = f.get("input") or {}
    print(json.dumps({k: (v if k not in ("gkf", "exported") else v[:1200]) for k, v in inp.items()}, indent=1, ensure_ascii=False)[:4000])
    if inp.get("stream") == "doc":
        gdir = build(ctx)
        objs = sorted(_glob.glob(str(gdir / "CMakeFiles" / "libgama.dir" / "**" / "*.o"), recursive=True))
        exe = ctx.build_cpp("c13_export", [ctx.verif / "harness" / "c13_export.cpp"], libs=objs + ["-lexpat"])
        out1, cr1 = run_cases(exe, [[f"net {hexs(inp['gkf'])}"]])
        if 0 in cr1 or not out1[0] or not out1[0][0].startswith("ok "):
            print("FAIL: the document is refused / crashes:", out1[0][:1], cr1.get(0))
            return 1
        e1 = unhexs(out1[0][0].split()[1])
        out2, cr2 = run_cases(exe, [[f"net {hexs(e1)}"]])
        if 0 in cr2 or not out2[0] or not out2[0][0].startswith("ok "):
            print("FAIL: the exported document is refused:", out2[0][:1], cr2.get(0))
            return 1
        why = docs_equal(canon_real(e1), canon_real(unhexs(out2[0][0].split()[1])))
        print("export 1 vs export 2:", why or "equivalent")
        why2 = doc_same_as_input(inp["gkf"], e1)
        print("input vs export 1:", why2 or "same survey")
        return 1 if (why or why2) else 0
    if inp.get("stream") != "net":
        return 0
    gdir = build(ctx)
    wd = Path(tempfile.mkdtemp(prefix="c13r-"))
    c = Corr()
    check_case(ctx, gdir, wd, 0, {"kind": "replay", "gkf": inp["gkf"], "degrees": False, "out360": False, "gross": False}, c)
    for x in c.failures:
        print("FAIL:", x.what, "|", x.detail[:600])
    print("files in", wd)
    return 1 if c.failures else 0
