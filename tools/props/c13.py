"""C13 — exported input reproduces the adjustment and is a fixed point."""
import glob as _glob
import importlib.util
import shutil
import tempfile
import xml.etree.ElementTree as ET
from lib.core import *
from lib import gen_net

ID = "C13"
PROPS_FILES = ["Gama/Props/C13.lean"]
LEAN_TARGETS = ["Gama.Props.C13"]
DRIVERS = ["drv_export"]
RULE = ("net: generated 1D/2D/3D networks (every observation and cluster type, axes/angle conventions, sexagesimal input, "
        "gross errors that get observations removed) through 3 export/adjust rounds")
LEVEL_TEXT = ("Lean 4 theorems (all networks of the modelled record types) that GKFparser's attribute handling inverts "
              "LocalNetwork::export_xml and that exporting is a fixed point, with the parser's attribute tables regenerated "
              "from gkfparser.cpp on every run (a dropped or mis-routed assignment changes the Lean and breaks the "
              "proof); the export side is hand-modelled and tied only by the end-to-end oracle (input vs export attribute "
              "by attribute); adjustment-level claims (same adjusted coordinates, no further iterations, n = 1..3 rounds) explored "
              "end-to-end.")
LEVEL_NOTE = ("Numbers are abstract: the theorems assume rd (fmt x) = x for the printed attributes; whether 17/16/8 digits "
              "suffice is explored, not proved. Trusted: Lean kernel, Props/C13.lean, tools/gen/c13_attrs.py, harness, "
              "generators.")
TECHNIQUE = "Lean 4 proof (case analysis over record types, induction over lists) + translator for the attribute tables + correspondence + end-to-end oracle"
TRUSTED = ["tools/gen/c13_attrs.py (regex translator: attribute name -> local variable -> toDouble target -> setter/ctor argument "
           "for every GKFparser::process_*)"]
MODELLED = ["number formatting/parsing (to_xmlstr, setprecision, toDouble): hypothesis rd∘fmt = id; explored end-to-end",
            "Acord2 / linearisation / adjustment between parse and export (C06, C01): explored end-to-end only",
            "text layout of the exported file, expat"]
ASSUMPTIONS = ["rd (fmt x) = x for every number written by export_xml"]

_spec2 = importlib.util.spec_from_file_location("c13_nets", str(VERIF / "tools" / "gen" / "c13_nets.py"))
N = importlib.util.module_from_spec(_spec2)
_spec2.loader.exec_module(N)
_spec3 = importlib.util.spec_from_file_location("c13_attrs", str(VERIF / "tools" / "gen" / "c13_attrs.py"))
_tr = importlib.util.module_from_spec(_spec3)
_spec3.loader.exec_module(_tr)


def translate(ctx):
    try:
        txt = _tr.generate(ctx.repo)
    except _tr.AttrsError as e:
        raise TieBroken("c13_attrs", str(e))
    except OSError as e:
        raise TieBroken("c13_attrs", f"source not readable: {e}")
    out = LEAN / "Gama" / "Gen" / "GkfAttrs.lean"
    if not out.exists() or out.read_text() != txt:
        out.write_text(txt)


# ---------------------------------------------------------------- reading gkf files (independent reader)

def local(tag):
    return tag.split("}")[-1]


OBS_TAGS = {"direction", "distance", "angle", "s-distance", "z-angle", "azimuth", "dh", "vec"}


def read_gkf(text):
    """ElementTree view of a gama-local input: parameters, points, clusters with observations and cov-mat"""
    root = ET.fromstring(text.encode("utf-8"))
    res = {"params": {}, "network": {}, "points": {}, "clusters": [], "description": None}
    for e in root.iter():
        t = local(e.tag)
        if t == "network":
            res["network"] = dict(e.attrib)
        elif t == "parameters":
            res["params"] = dict(e.attrib)
        elif t == "description":
            res["description"] = e.text or ""
        elif t == "points-observations":
            res["po"] = dict(e.attrib)
            for c in e:
                ct = local(c.tag)
                if ct == "point":
                    res["points"][N.pid_norm(c.get("id"))] = dict(c.attrib)
                elif ct in ("obs", "height-differences", "vectors", "coordinates"):
                    cl = {"kind": ct, "attrs": dict(c.attrib), "items": [], "cov": None}
                    for o in c:
                        ot = local(o.tag)
                        if ot == "cov-mat":
                            cl["cov"] = (int(o.get("dim")), int(o.get("band")), [float(v) for v in (o.text or "").split()])
                        else:
                            cl["items"].append((ot, dict(o.attrib)))
                    res["clusters"].append(cl)
    return res


def dms2gon(s):
    """GNU_gama::deg2gon for 'd-m-s' strings; None if not sexagesimal"""
    m = re.fullmatch(r"\s*(-?)(\d+)-(\d+)-(\d+(?:\.\d*)?)\s*", s)
    if not m:
        return None
    v = (int(m.group(2)) + int(m.group(3)) / 60.0 + float(m.group(4)) / 3600.0) / 0.9
    return -v if m.group(1) else v


def num(s):
    g = dms2gon(s)
    return g if g is not None else float(s)


def obs_key(kind, cl_from, tag, a):
    frm = N.pid_norm(a.get("from", cl_from or ""))
    if tag == "angle":
        return (tag, frm, N.pid_norm(a.get("bs", a.get("to", ""))), N.pid_norm(a.get("fs", a.get("rs", ""))))
    return (tag, frm, N.pid_norm(a.get("to", "")), "")


def survey(g, y_sign=1.0):
    """canonical description of the survey in a gkf: list of observation records in document order"""
    recs = []
    for cl in g["clusters"]:
        cfrom = cl["attrs"].get("from")
        cdh = float(cl["attrs"].get("from_dh", 0) or 0)
        for tag, a in cl["items"]:
            if cl["kind"] == "coordinates":
                recs.append({"key": ("coord", N.pid_norm(a["id"]), "", ""), "vals": [float(a[k]) for k in ("x", "y", "z") if k in a],
                             "has": [k for k in ("x", "y", "z") if k in a], "extern": cl["attrs"].get("extern", "")})
                continue
            r = {"key": obs_key(cl["kind"], cfrom, tag, a), "extern": " ".join(a.get("extern", "").split())}
            if tag == "vec":
                r["vals"] = [float(a["dx"]), float(a["dy"]), float(a["dz"])]
            else:
                r["vals"] = [num(a["val"])]
                r["deg"] = dms2gon(a["val"]) is not None
            if tag == "dh":
                r["dist"] = float(a.get("dist", 0) or 0)
            r["stdev"] = float(a["stdev"]) if "stdev" in a else None
            r["from_dh"] = float(a.get("from_dh", cdh) or 0) if tag not in ("dh",) else 0.0
            r["to_dh"] = float(a.get("to_dh", a.get("bs_dh", 0)) or 0)
            r["fs_dh"] = float(a.get("fs_dh", 0) or 0)
            recs.append(r)
        unit = [(0.324 if (r.get("deg") and r["key"][0] in ("direction", "angle", "z-angle", "azimuth")) else 1.0)
                for r in recs[len(recs) - len(cl["items"]):]] if cl["kind"] == "obs" else None
        recs.append({"key": ("cov", cl["kind"], "", ""), "cov": cl["cov"], "unit": unit})
        for i, r in enumerate(recs[len(recs) - 1 - len(cl["items"]):-1]):
            r["unit"] = unit[i] if unit else 1.0
            r["has_cov"] = cl["cov"] is not None
    return recs


def close(a, b, rtol=1e-9, atol=1e-9):
    return abs(a - b) <= atol + rtol * max(abs(a), abs(b))


def same_survey(ga, gb, what, strict_stdev=True):
    """differences between two gkf documents as descriptions of the same survey"""
    diffs = []
    sa, sb = survey(ga), survey(gb)
    if [r["key"] for r in sa] != [r["key"] for r in sb]:
        ka, kb = [r["key"] for r in sa], [r["key"] for r in sb]
        return [f"{what}: observation lists differ: {len(ka)} vs {len(kb)}; first difference "
                f"{next(((x, y) for x, y in zip(ka, kb) if x != y), (None, None))}"]
    for a, b in zip(sa, sb):
        k = a["key"]
        if k[0] == "cov":
            ca, cb = a["cov"], b["cov"]
            if ca is None and cb is None:
                continue
            if ca is None or cb is None:
                # a diagonal cov-mat may be written out / replaced by stdev attributes
                c = ca or cb
                if c[1] != 0:
                    diffs.append(f"{what}: cov-mat of <{k[1]}> with band {c[1]} missing on one side")
                continue
            def cells(c, unit):
                d_, b_, v = c
                out, k = [], 0
                for i in range(d_):
                    for j in range(i, min(d_, i + b_ + 1)):
                        if k < len(v):
                            u = (unit[i] * unit[j]) if unit and len(unit) == d_ else 1.0
                            out.append(v[k] / u)
                        k += 1
                return out
            if ca[0] != cb[0] or ca[1] != cb[1] or len(ca[2]) != len(cb[2]) or \
                    any(not close(x, y, 1e-9, 0) for x, y in zip(cells(ca, a.get("unit")), cells(cb, b.get("unit")))):
                diffs.append(f"{what}: cov-mat of <{k[1]}> differs (dim/band {ca[0]}/{ca[1]} vs {cb[0]}/{cb[1]})")
            continue
        if len(a["vals"]) != len(b["vals"]) or any(not close(x, y, 1e-12, 1e-9) for x, y in zip(a["vals"], b["vals"])):
            diffs.append(f"{what}: value of {k} differs: {a['vals']} vs {b['vals']}")
        for f in ("from_dh", "to_dh", "fs_dh", "dist"):
            if f in a and not close(a.get(f, 0.0), b.get(f, 0.0), 1e-7, 1e-9):
                diffs.append(f"{what}: {f} of {k} differs: {a.get(f)} vs {b.get(f)}")
        if a.get("stdev") is not None and b.get("stdev") is not None and not a.get("has_cov") and not b.get("has_cov") \
                and not close(a["stdev"] / a.get("unit", 1.0), b["stdev"] / b.get("unit", 1.0), 1e-7, 0):
            diffs.append(f"{what}: stdev of {k} differs: {a['stdev']} vs {b['stdev']}")
        if a.get("extern", "") != b.get("extern", ""):
            diffs.append(f"{what}: extern of {k} differs: {a.get('extern')!r} vs {b.get('extern')!r}")
    # points and status
    pa, pb = ga["points"], gb["points"]
    for pid, a in pa.items():
        if pid not in pb:
            if any(pid in (r["key"][1], r["key"][2], r["key"][3]) for r in sa if r["key"][0] != "cov"):
                diffs.append(f"{what}: point {pid!r} missing")
            continue
        b = pb[pid]
        sta = (a.get("fix", ""), a.get("adj", ""))
        stb = (b.get("fix", ""), b.get("adj", ""))
        if norm_status(*sta) != norm_status(*stb):
            diffs.append(f"{what}: status of {pid!r} differs: {sta} vs {stb}")
    for k in ("sigma-apr", "conf-pr", "tol-abs"):
        if k in ga["params"] and k in gb["params"] and not close(float(ga["params"][k]), float(gb["params"][k]), 1e-7, 0):
            diffs.append(f"{what}: parameter {k} differs: {ga['params'][k]} vs {gb['params'][k]}")
    for k in ("sigma-act",):
        if ga["params"].get(k, "aposteriori") != gb["params"].get(k, "aposteriori"):
            diffs.append(f"{what}: parameter {k} differs")
    if ga["network"].get("axes-xy", "ne") != gb["network"].get("axes-xy", "ne") or \
            ga["network"].get("angles", "left-handed") != gb["network"].get("angles", "left-handed"):
        diffs.append(f"{what}: axes-xy/angles differ: {ga['network']} vs {gb['network']}")
    return diffs


def norm_status(fix, adj):
    """(xy status, z status) from fix= / adj= as GKFparser::process_point applies them (fix after adj)"""
    xy = z = "none"
    if adj:
        if adj in ("xy", "xyz", "xyZ"):
            xy = "free"
        if adj in ("XY", "XYZ", "XYz"):
            xy = "con"
        if adj in ("z", "xyz", "XYz"):
            z = "free"
        if adj in ("Z", "XYZ", "xyZ"):
            z = "con"
    if fix:
        f = fix.lower()
        if "xy" in f:
            xy = "fix"
        if "z" in f:
            z = "fix"
        if fix in ("XYz", "xyZ"):
            xy = z = "fix"
    return xy, z


# ---------------------------------------------------------------- results

def read_result(path):
    root = ET.parse(path).getroot()
    res = {"adj": {}, "obs": [], "iters": 0}
    for e in root.iter():
        t = local(e.tag)
        if t == "adjusted":
            for p in e:
                if local(p.tag) != "point":
                    continue
                pid = None
                for c in p:
                    lt = local(c.tag)
                    if lt == "id":
                        pid = N.pid_norm(c.text or "")
                    elif lt in "xyzXYZ":
                        res["adj"][(pid, lt.lower())] = float(c.text)
        elif t == "observations":
            for o in e:
                d = {local(c.tag): c.text for c in o}
                d["tag"] = local(o.tag)
                res["obs"].append(d)
        elif t in ("sum-of-squares", "degrees-of-freedom", "defect", "equations", "unknowns", "aposteriori"):
            res.setdefault(t, float(e.text))
        elif t == "linearization-iterations":
            res["iters"] = int(e.text)
    return res


def compare_results(r0, rk, what):
    diffs = []
    if set(r0["adj"]) != set(rk["adj"]):
        return [f"{what}: sets of adjusted coordinates differ: {sorted(set(r0['adj']) ^ set(rk['adj']))[:4]}"]
    for k, v in r0["adj"].items():
        if abs(v - rk["adj"][k]) > 2e-5:
            diffs.append(f"{what}: adjusted {k} {v} vs {rk['adj'][k]}")
    for k in ("degrees-of-freedom", "defect", "equations", "unknowns"):
        if r0.get(k) != rk.get(k):
            diffs.append(f"{what}: {k} {r0.get(k)} vs {rk.get(k)}")
    s0, sk = r0.get("sum-of-squares", 0.0), rk.get("sum-of-squares", 0.0)
    # absolute floor: consistent (noise-free) networks have a sum of squares that is pure rounding noise, and the
    # exported heights of instrument/target carry 8 significant digits
    if abs(s0 - sk) > 1e-3 * abs(s0) + 1e-5:
        diffs.append(f"{what}: sum of squares {s0} vs {sk}")
    if len(r0["obs"]) != len(rk["obs"]):
        diffs.append(f"{what}: number of adjusted observations {len(r0['obs'])} vs {len(rk['obs'])}")
    else:
        for a, b in zip(r0["obs"], rk["obs"]):
            if a["tag"] != b["tag"]:
                diffs.append(f"{what}: observation order/type differs {a['tag']} vs {b['tag']}")
                break
            ang = a["tag"] in ("direction", "angle", "zenith-angle", "azimuth")
            tol = 2e-5 if not ang else 2e-5
            for f in ("obs", "adj"):
                da = abs(float(a[f]) - float(b[f]))
                if ang:
                    da = min(da, abs(da - 400))
                if da > tol:
                    diffs.append(f"{what}: {a['tag']} {a.get('from')}->{a.get('to')} <{f}> {a[f]} vs {b[f]}")
            sa, sb_ = float(a["stdev"]), float(b["stdev"])
            if abs(sa - sb_) > 1e-3 * abs(sa) + 1e-3:
                diffs.append(f"{what}: {a['tag']} {a.get('from')}->{a.get('to')} stdev {sa} vs {sb_}")
    return diffs[:8]


# ---------------------------------------------------------------- generator

def gen_case(rng, k):
    kind = rng.choice(["2d", "2dang", "2dfree", "3d", "3dh", "lev", "levcov", "2dcov"])
    noise = rng.choice([0.0, 1.0, 1.0])
    if kind in ("lev", "levcov"):
        net = gen_net.levelling_network(rng, npts=rng.randint(3, 6), nfixed=1, extra=rng.randint(1, 3), noise=noise,
                                        free=rng.random() < 0.3)
    elif kind in ("3d", "3dh"):
        net = gen_net.make_network(rng, npts=rng.randint(4, 5), dim=3, nfixed=2,
                                   kinds=("direction", "s-distance", "z-angle", "dh") + (("vector",) if rng.random() < 0.4 else ()),
                                   noise=noise, heights=(kind == "3dh"))
    elif kind == "2dfree":
        net = gen_net.make_network(rng, npts=rng.randint(4, 6), nfixed=0, free=True, noise=noise)
    elif kind == "2dang":
        net = gen_net.make_network(rng, npts=rng.randint(4, 6), nfixed=2, kinds=("direction", "distance", "angle", "azimuth"),
                                   noise=noise)
    else:
        net = gen_net.make_network(rng, npts=rng.randint(3, 6), nfixed=2, noise=noise)
    # attributes that gama stores but (for these observation types) does not use in the equations
    for o in net["obs"]:
        if o["kind"] != "obs":
            continue
        for it in o["items"]:
            if it["t"] in ("direction", "distance", "azimuth") and rng.random() < 0.25:
                it["from_dh"], it["to_dh"] = round(rng.uniform(1.2, 1.8), 3), round(rng.uniform(1.0, 2.0), 3)
            if it["t"] == "angle" and rng.random() < 0.6:
                it["from_dh"] = round(rng.uniform(1.2, 1.8), 3)
                it["bs_dh"] = round(rng.uniform(1.0, 2.0), 3)
                it["fs_dh"] = round(rng.uniform(1.0, 2.0), 3)
    N.decorate(rng, net, extern=rng.choice([0.0, 0.0, 0.4]), coords=(kind not in ("lev", "levcov") and rng.random() < 0.3),
               vectors=(kind in ("3d", "3dh") and rng.random() < 0.5), obscov=(0.7 if kind == "2dcov" else 0.0), hdcov=(1.0 if kind == "levcov" else 0.0),
               extern_pool=N.EXTERN_SAFE)
    gross = False
    if rng.random() < 0.2 and kind in ("2d", "2dang"):       # a gross error -> outlying absolute term -> observation removed
        o = rng.choice([o for o in net["obs"] if o["kind"] == "obs"])
        it = rng.choice([i for i in o["items"] if i["t"] == "distance"] or o["items"])
        it["val"] += 50.0
        gross = True
    flav = rng.choice(["plain", "plain", "plain", "blank", "nonascii"])
    N.rename_ids(net, {pid: N.nasty_id(rng, i + 1, flav) for i, pid in enumerate(list(net["points"]))})
    axes = rng.choice([None, None, "ne", "en", "sw", "nw", "es", "wn", "se", "ws"])
    angles = rng.choice([None, None, "left-handed", "right-handed"])
    degrees = rng.random() < 0.25 and kind not in ("lev", "levcov")
    out360 = rng.random() < 0.25
    extra = {"cov-band": rng.choice([-1, 0, 2])}
    if out360:
        extra["angles"] = "360"
    if rng.random() < 0.3:
        extra["algorithm"] = rng.choice(["gso", "svd", "cholesky", "envelope"])
    epoch = rng.choice([None, None, 2021.5])
    gkf = N.to_gkf2(net, axes=axes, angles=angles, degrees=degrees, description=rng.choice(["plain net", "plain net", "R&D", "it's", "a < b"]),
                    extra_params=extra, epoch=epoch, obs_from_dh=False)
    return {"kind": kind, "gkf": gkf, "degrees": degrees, "out360": out360, "gross": gross, "axes": axes, "angles": angles,
            "flavour": flav, "noise": noise}


ROUNDS = 3


def run_rounds(gdir, wd, idx, gkf_text):
    """in.gkf -> (e1, r0) -> (e2, r1) -> (e3, r2) -> r3 ; returns dict with texts/paths and the first error"""
    res = {"e": [gkf_text], "r": [], "err": None}
    cur = wd / f"c{idx}_e0.gkf"
    cur.write_text(gkf_text, encoding="utf-8")
    for k in range(ROUNDS + 1):
        ex = wd / f"c{idx}_e{k + 1}.gkf"
        rx = wd / f"c{idx}_r{k}.xml"
        cmd = [str(gdir / "gama-local"), str(cur), "--xml", str(rx)] + (["--export", str(ex)] if k < ROUNDS else [])
        try:
            rc, out, err = sh(cmd, timeout=120)
        except subprocess.TimeoutExpired:
            res["err"] = (k, -9, "timeout")
            return res
        if rc != 0 or not rx.exists():
            res["err"] = (k, rc, (err or out)[-800:])
            return res
        res["r"].append(str(rx))
        if k < ROUNDS:
            if not ex.exists():
                res["err"] = (k, rc, "no export written: " + (err or out)[-300:])
                return res
            res["e"].append(ex.read_text(encoding="utf-8", errors="replace"))
            cur = ex
    return res


def check_case(ctx, gdir, wd, idx, c, corr):
    payload = {"stream": "net", "gkf": c["gkf"], "cmd": "gama-local e0.gkf --export e1.gkf --xml r0.xml; gama-local e1.gkf --export e2.gkf --xml r1.xml; ..."}
    rr = run_rounds(gdir, wd, idx, c["gkf"])
    if rr["err"]:
        k, rc, msg = rr["err"]
        if k == 0:
            corr.count("networks_not_adjusted")
            if rc in (86, 87, -6, -11, 134, 139):
                corr.fail("gama-local crashed on a generated network", payload, "gama-local", msg)
            return False
        # the generated input was adjusted and exported, but the export is refused / fails
        corr.fail(f"the exported file of round {k} is not an acceptable input", dict(payload, round=k, exported=rr["e"][k][:3000]),
                  "LocalNetwork::export_xml", msg)
        return True
    try:
        results = [read_result(p) for p in rr["r"]]
    except ET.ParseError as e:
        corr.count("result_xml_illformed")
        return False
    if not results[0]["adj"]:
        corr.count("networks_not_adjusted")
        return False
    corr.count("networks_adjusted")
    corr.count("kind_" + c["kind"])
    if c["degrees"]:
        corr.count("sexagesimal_inputs")
    if c["out360"]:
        corr.count("angles360")
    nobs_in = sum(len(cl["items"]) for cl in read_gkf(c["gkf"])["clusters"])
    # 1. exported files are valid XML and describe the same survey as the input
    try:
        g = [read_gkf(t) for t in rr["e"]]
    except ET.ParseError as e:
        corr.fail("the exported file is not well-formed XML", dict(payload, error=str(e)), "LocalNetwork::export_xml", str(e))
        return True
    d = same_survey(g[0], g[1], "input vs export 1")
    if d:
        corr.fail("the exported file does not describe the same survey as the input", dict(payload, diffs=d[:6]),
                  "LocalNetwork::export_xml / GKFparser", "; ".join(d[:6]))
    for k in range(1, ROUNDS):
        d = same_survey(g[k], g[k + 1], f"export {k} vs export {k + 1}")
        if d:
            corr.fail("exporting again does not yield an equivalent file", dict(payload, diffs=d[:6], round=k),
                      "LocalNetwork::export_xml / GKFparser", "; ".join(d[:6]))
            break
    # 2. same adjustment, no further iterations
    for k in range(1, ROUNDS + 1):
        d = compare_results(results[0], results[k], f"r0 vs r{k}")
        if d:
            corr.fail("adjusting the exported file does not reproduce the adjustment", dict(payload, diffs=d[:6], round=k),
                      "export_xml -> gama-local", "; ".join(d[:6]))
            break
        if results[k]["iters"] != 0:
            corr.fail("adjusting the exported file needs further linearisation iterations",
                      dict(payload, round=k, iterations=results[k]["iters"]), "LocalNetwork::refine_approx_coordinates",
                      f"round {k}: {results[k]['iters']} iterations")
            break
    if len(results[0]["obs"]) < nobs_in:
        corr.count("networks_with_removed_observations")
    return True


# ---------------------------------------------------------------- record-level correspondence: model vs GKFparser+export_xml

KINDS = ["distance", "direction", "angle", "s-distance", "z-angle", "azimuth"]


def hexs(t):
    return t.encode("utf-8").hex() if t else "-"


def gen_record_case(rng):
    """one <obs> cluster with every observation kind and optional attribute zero / non-zero / absent, one
    <height-differences> cluster; all points fixed so that the document is complete without adjustment"""
    ids = ["S", "A", "B", "C c", "Dé"]
    station = rng.choice(ids[:2])
    els = []
    for _ in range(rng.randint(1, 7)):
        k = rng.choice(KINDS)
        a = []
        frm = station if (k == "direction" or rng.random() < 0.5) else rng.choice([i for i in ids if i != station])
        if k != "direction" and (frm != station or rng.random() < 0.3):
            a.append(("from", frm))
        others = [i for i in ids if i != frm]
        if k == "angle":
            bs, fs = rng.sample(others, 2)
            a += [("bs", bs), ("fs", fs)]
        else:
            a.append(("to", rng.choice(others)))
        a.append(("val", f"{rng.uniform(1, 390):.6f}"))
        a.append(("stdev", rng.choice(["10", "5", "2.5", "0.75"])))
        for nm in (("from_dh", "bs_dh", "fs_dh") if k == "angle" else ("from_dh", "to_dh")):
            r = rng.random()
            if r < 0.35:
                a.append((nm, rng.choice(["1.5", "1.625", "0.25", "2"])))
            elif r < 0.5:
                a.append((nm, rng.choice(["0", "0.0"])))
        if rng.random() < 0.3:
            a.append(("extern", rng.choice(["e1", "ext 2", "a&b", "x<y", "q\"t"])))
        if rng.random() < 0.5:
            rng.shuffle(a)
        els.append((k, a))
    dhs = []
    for _ in range(rng.randint(0, 3)):
        f, t = rng.sample(ids, 2)
        a = [("from", f), ("to", t), ("val", f"{rng.uniform(-5, 5):.5f}")]
        if rng.random() < 0.5:
            a.append(("dist", rng.choice(["0.5", "1.25", "2"])))
        else:
            a.append(("stdev", rng.choice(["1", "0.5", "2.5"])))
        if rng.random() < 0.3:
            a.append(("extern", "lev 1"))
        dhs.append(("dh", a))
    return station, els, dhs


def record_doc(station, els, dhs):
    esc = gen_net.xml_escape_attr
    ids = ["S", "A", "B", "C c", "Dé"]
    out = ['<?xml version="1.0" ?>', '<gama-local xmlns="http://www.gnu.org/software/gama/gama-local">', "<network>",
           '<parameters sigma-apr="10" conf-pr="0.95" tol-abs="1000" sigma-act="apriori" />', "<points-observations>"]
    for k, i in enumerate(ids):
        out.append(f'<point id="{esc(i)}" x="{100 + 37 * k}" y="{200 + 91 * k * k}" z="{10 + k}" fix="xyz" />')
    out.append(f'<obs from="{esc(station)}">')
    for k, a in els:
        out.append(f"<{k} " + " ".join(f'{n}="{esc(v)}"' for n, v in a) + " />")
    out.append("</obs>")
    if dhs:
        out.append("<height-differences>")
        for k, a in dhs:
            out.append(f"<{k} " + " ".join(f'{n}="{esc(v)}"' for n, v in a) + " />")
        out.append("</height-differences>")
    out += ["</points-observations>", "</network>", "</gama-local>", ""]
    return "\n".join(out)


NUMERIC = {"val", "stdev", "from_dh", "to_dh", "bs_dh", "fs_dh", "dist"}


def elems_of_export(text, cluster):
    g = read_gkf(text)
    cl = [c for c in g["clusters"] if c["kind"] == cluster]
    if not cl:
        return None, []
    return cl[0]["attrs"].get("from"), [(t, list(a.items())) for t, a in cl[0]["items"]]


def parse_model_lines(lines):
    station, els = None, []
    for l in lines:
        t = l.split()
        if t and t[0] == "station":
            station = bytes.fromhex(t[1]).decode("utf-8") if t[1] != "-" else ""
        elif t and t[0] == "el":
            els.append((t[1], [(kv.split("=")[0], (bytes.fromhex(kv.split("=")[1]).decode("utf-8") if kv.split("=")[1] != "-" else ""))
                               for kv in t[2:]]))
        elif t and t[0] == "throw":
            els.append(("throw", [(t[1], "")]))
    return station, els


def elems_equal(impl, model, dist_given=None):
    if len(impl) != len(model):
        return f"{len(impl)} vs {len(model)} elements"
    for (ta, aa), (tb, ab) in zip(impl, model):
        if ta != tb:
            return f"element {ta} vs {tb}"
        if [n for n, _ in aa] != [n for n, _ in ab]:
            return f"<{ta}> attributes {[n for n, _ in aa]} vs {[n for n, _ in ab]}"
        for (n, va), (_, vb) in zip(aa, ab):
            if n in NUMERIC:
                if vb.startswith("SD(") or vb == "IMPLICIT":
                    continue
                fa, fb = float(va), float(vb)
                if abs(fa - fb) > 1e-12 * max(abs(fa), abs(fb)) + 1e-300:
                    return f"<{ta}> {n} {va} vs {vb}"
            elif N.pid_norm(va) != N.pid_norm(vb):
                return f"<{ta}> {n} {va!r} vs {vb!r}"
    return None


def record_stream(ctx, corr, gdir):
    objs = sorted(_glob.glob(str(gdir / "CMakeFiles" / "libgama.dir" / "**" / "*.o"), recursive=True))
    if not objs:
        raise BuildError("libgama objects", f"no object files under {gdir}")
    exe = ctx.build_cpp("c13_export", [ctx.verif / "harness" / "c13_export.cpp"], libs=objs + ["-lexpat"])
    cases, meta = [], []
    for _ in range(ctx.size(300, 6000)):
        station, els, dhs = gen_record_case(ctx.rng)
        doc = record_doc(station, els, dhs)
        line = f"obs {hexs(doc)} {hexs(station)} " + " ; ".join(
            k + "".join(f" {n}={hexs(v)}" for n, v in a) for k, a in els)
        ops = [line]
        if dhs:
            ops.append(f"dh {hexs(doc)} " + " ; ".join(k + "".join(f" {n}={hexs(v)}" for n, v in a) for k, a in dhs))
        cases.append(ops)
        meta.append((station, els, dhs, doc))
    impl, crashes = run_cases(exe, cases)
    model, _ = run_cases(ctx.driver("drv_export"), cases)
    for i, (station, els, dhs, doc) in enumerate(meta):
        optional = sum(1 for _, a in els for n, v in a if n.endswith("_dh") or n == "extern")
        corr.case(key=("rec", cases[i][0][-200:]) if optional else None,
                  sample={"record_doc": doc[-600:]} if i < 1 else None)
        corr.count("record_cases")
        corr.count("record_elements", len(els) + len(dhs))
        payload = {"stream": "record", "gkf": doc}
        if i in crashes:
            corr.fail("GKFparser / export_xml crashed on a generated record document", payload, "LocalNetwork::export_xml", crashes[i][1])
            continue
        if not impl[i] or not impl[i][0].startswith("ok "):
            corr.fail("a generated record document is refused", dict(payload, out=impl[i][:1]), "GKFparser", " ".join(impl[i][:1])[:300])
            continue
        exported = bytes.fromhex(impl[i][0].split()[1]).decode("utf-8", "replace")
        try:
            ist, iels = elems_of_export(exported, "obs")
            _, idh = elems_of_export(exported, "height-differences")
        except ET.ParseError as e:
            corr.fail("the exported record document is not well-formed", dict(payload, exported=exported[:2000]), "LocalNetwork::export_xml", str(e))
            continue
        nmodel = len(els) + 1
        mst, mels = parse_model_lines(model[i][:nmodel])
        why = elems_equal(iels, mels)
        if why is None and N.pid_norm(ist or "") != N.pid_norm(mst or ""):
            why = f"cluster station {ist!r} vs {mst!r}"
        if why is None and dhs:
            _, mdh = parse_model_lines(model[i][nmodel:])
            why = elems_equal(idh, mdh)
        if why:
            corr.disagree("record", [doc[-1500:]], [str(iels)[:1200], str(idh)[:400]], model[i][:12], why)
        # oracle on the implementation alone: exported attributes, read as a survey, equal the input's
        d = same_survey(read_gkf(doc), read_gkf(exported), "record input vs export")
        if d:
            corr.fail("export_xml of a parsed document does not describe the same survey", dict(payload, diffs=d[:5]),
                      "LocalNetwork::export_xml / GKFparser", "; ".join(d[:5]))


def build(ctx):
    return ctx.build_gama(sanitize=ctx.thorough)


def correspond(ctx, corr):
    gdir = build(ctx)
    wd = Path(tempfile.mkdtemp(prefix="c13-"))
    try:
        record_stream(ctx, corr, gdir)
        cases = []
        corpus = ctx.verif / "corpus" / "C13"
        for f in sorted(corpus.glob("net-*.gkf")):
            cases.append({"kind": "corpus", "gkf": f.read_text(encoding="utf-8"), "degrees": False, "out360": False,
                          "gross": False, "flavour": "corpus"})
        for k in range(ctx.size(150, 2500)):
            cases.append(gen_case(random.Random(ctx.rng.getrandbits(64)), k))
        for idx, c in enumerate(cases):
            ok = check_case(ctx, gdir, wd, idx, c, corr)
            corr.case(key=("net", idx) if ok else None,
                      sample={"kind": c["kind"], "degrees": c["degrees"], "gkf_head": c["gkf"][:300]} if idx < 2 else None)
        n = corr.stats.get("networks_adjusted", 0)
        if n < len(cases) // 2:
            corr.inconclusive.append(f"only {n} of {len(cases)} generated networks were adjusted")
    finally:
        shutil.rmtree(wd, ignore_errors=True)


def search(ctx, broken, corr):
    big = Corr()
    ctx2 = Ctx(ID, ctx.tier, ctx.seed + 1000)
    ctx2.size = lambda q, t: q * 4
    try:
        correspond(ctx2, big)
    except BuildError:
        return []
    return big.failures


def classify(ctx, f):
    d = f.detail or ""
    if "fs_dh of" in d and " differs" in d:
        return "F8"
    if "not well-formed" in f.what or ("not an acceptable input" in f.what and
                                       re.search(r'(id|from|to|bs|fs)="[^"]*[<&"]|<description>[^\n]*<(?!/description>)', str(f.replay.get("exported", "")))):
        return "F11b"
    if "extern of" in d:
        return "F21"
    if re.search(r"cov-mat of <(coordinates|vectors)> differs", d) and \
            re.search(r'axes-xy="(en|nw|se|ws)"( angles="left|>| epoch)|axes-xy="(ne|sw|es|wn)" angles="right|<network angles="right',
                      str(f.replay.get("gkf", ""))):
        return "F25"
    if re.search(r"value of \('coord'", d) or ("does not reproduce" in f.what and "<coordinates" in str(f.replay.get("gkf", ""))
                                                and re.search(r'axes-xy="(en|nw|se|ws)" angles="left|axes-xy="(ne|sw|es|wn)" angles="right', str(f.replay.get("gkf", "")))):
        return "F22"
    return None


def replay(ctx, payload):
    f = payload.get("failure") or {}
    inp = f.get("input") or {}
    print(json.dumps({k: (v if k not in ("gkf", "exported") else v[:1200]) for k, v in inp.items()}, indent=1, ensure_ascii=False)[:4000])
    if inp.get("stream") != "net":
        return 0
    gdir = build(ctx)
    wd = Path(tempfile.mkdtemp(prefix="c13r-"))
    c = Corr()
    check_case(ctx, gdir, wd, 0, {"kind": "replay", "gkf": inp["gkf"], "degrees": False, "out360": False, "gross": False}, c)
    for x in c.failures:
        print("FAIL:", x.what, "|", x.detail[:600])
    print("files in", wd)
    return 1 if c.failures else 0
