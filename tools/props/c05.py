"""C05 — linearised observation equations equal the true Jacobian and misclosure."""
import math
import re
import shutil
import tempfile
import time
from lib.core import *
from gen import c05_linearization as tr
from gen import c05_xnorth as trx
from gen import c05_assemble as tra

ID = "C05"
PROPS_FILES = ["Gama/Props/C05.lean", "Gama/Props/C05Consistency.lean", "Gama/Props/C05Cut.lean", "Gama/Props/C05Total.lean", "Gama/Props/C05Input.lean"]
LEAN_TARGETS = ["Gama.Props.C05", "Gama.Props.C05Consistency", "Gama.Props.C05Cut", "Gama.Props.C05Total", "Gama.Props.C05Input"]
DRIVERS = ["drv_lin"]
RULE = ("small in-memory networks (2-5 points, 1-2 stand-points, 3-9 observations) over all 13 observation classes x "
        "8 axes codes x 2 angle senses x bearing quadrants/near-axis bearings x free/fixed/constrained/unused mixes x "
        "2D/3D x national-grid magnitudes x short sights around the 1e-6 cut-off; an observation is non-trivial when "
        "it produced at least one coefficient for a free coordinate; distinct by (class, status mix, quadrant, family)")
LEVEL_TEXT = ("Lean 4 theorems over R (Mathlib HasDerivAt / Real.sqrt / Complex.arg / Real.arccos) about Lean "
              "definitions REGENERATED on every run from local_linearization.cpp, bearing.cpp, gamadata.cpp (xNorthAngle) "
              "and network.cpp (index reset, assembly of the sparse and the dense design matrix) by translators, up to the "
              "assembled design matrix of a whole pass (every entry = derivative wrt the unknown of its column, all role "
              "coincidences) and the azimuth right-hand side in geographic terms; consistency theorems relate the "
              "duplicated models of bearing_distance and of the numbering of unknowns (C06, C08, C18); "
              "the same generated definitions are executed at Float next to the real LocalLinearization visitor "
              "(correspondence) and the implementation's coefficients are compared with finite differences of its "
              "own right-hand side (oracle). Rounds 4-9: the headline holds for what project_equations() ITSELF hands to the "
              "solvers (C05_pe_design_matrix_is_jacobian, Props/C05ProjectEquations.lean via extra.py: projectEquations net = "
              ".ok (np,u) and a row outside the cut => sparse row summed in the column index_*() of an adjusted unknown = the "
              "partial derivative, 0 elsewhere, np.rhs = misclosure; dense form C01_pe_matrix_is_jacobian, no NoAlias since round 12: repeated columns add up); "
              "whole-pass totality as an iff (C05_pass_total_iff: a pass returns for some fuel iff no S_Distance / Z_Angle "
              "throws, every start state; C05_design_matrix_exists_and_is_jacobian); clause 6 exact: excluded set = "
              "d < 1e-6, singular set = d = 0, and NEGATIVE theorems C05_cut_excludes_nonsingular(_direction/_azimuth/_angle) "
              "- inside the cut the pushed coefficients are not the derivatives (one witness per type); hx/hy of the "
              "geographic azimuth theorem derived from the input-stage model (C05_azimuth_rhs_geographic_from_input; "
              "FileCoords = definition of the file format and ReadsInternal = hand-over Input.Net -> Lin.Net stay hypotheses).")
LEVEL_NOTE = ("Theorems are about real arithmetic and the real functions sin/cos/atan2/acos/sqrt, M_PI is read as pi; "
              "IEEE rounding and libm are not modelled (observed by the Float correspondence, tolerance 1e-12 rel.). "
              "The C++ while-loops are modelled with fuel (non-termination = error value); termination is proved over R only "
              "(also inside the cut: C05_wrap_classes_total; LinErr.fuel is an artefact of the model). Finding "
              "C05-cut-wider-than-singular is KNOWN (not fixed): for 0 < d < 1e-6 m bearing_distance zeroes bearing and distance, "
              "Distance pushes the row of bearing 0, the angular types +-inf/NaN at double (corpus/C05/lin-r4-cut-witness.txt); the "
              "Float behaviour (KF 0) is observed by the correspondence, not proved. The network-level theorem is R-only: no closed "
              "PE.Net R instance (non-vacuity in two halves: Q evaluation of projectEquations, a regular pass over R).")
TECHNIQUE = "Lean 4 proof against a translator-generated model + model/implementation correspondence + finite-difference oracle"
TRUSTED = ["tools/gen/c05_linearization.py (C++ mini front end: tokenizer, macro expansion, expression/statement parser)",
           "tools/gen/c05_xnorth.py (PointData::xNorthAngle, handedness predicates, consistent()), "
           "tools/gen/c05_assemble.py (shape of the assembly loops of project_equations, operator of the dense copy)",
           "harness/c05_lin.cpp, harness/c05_net.cpp, lean/Driver/Lin.lean, generators and tolerances in tools/props/c05.py",
           "hand-written Lean models of lpoint.h status bits, Observation constructors (norm_rad_val, d<=0), "
           "index-on-first-use (Gama/Model/LinTypes.lean), the pass over the observation list and the assembled "
           "matrix (Gama/Model/LinPass.lean: passFrom, rowSum, denseRow), tied by correspondence",
           "the geographic reading of the axes codes (CS.xDir / CS.yDir / Dir.az in Gama/Lemmas/LinXNorth.lean) is a "
           "specification, checked end to end by azimuths generated from geographic azimuths",
           "Gama/Model/Input.lean (C07's hand model of axes-xy / angles, consistent, y_sign, remove_inconsistency: used by "
           "Props/C05Input.lean; its consistent / y_sign are proved equal to the regenerated Gen/XNorth ones) and "
           "Gama/Model/ProjectEquations.lean (hand composition of the regenerated pass, numbering, min_x_, cluster walk; "
           "stream pe, tools/gen/pe_stream.py, registered in tools/props/extra.py)"]
MODELLED = ["IEEE-754 rounding (proofs over R)", "libm sin/cos/atan2/acos/sqrt (real functions in the theorems)",
            "M_PI read as the real number pi", "termination of the wrap loops at double (fuel in the model)",
            "StandPoint::orientation() throwing when no orientation is set (precondition: set)",
            "Observation::value() = value_ + reduction(): the reduction is an input"]
ASSUMPTIONS = ["obs->from()/to()/fs() resolve to points of PointData (operator[] default-constructs otherwise)"]

CLASSES = ["Direction", "Distance", "Angle", "Azimuth", "S_Distance", "Z_Angle", "H_Diff", "X", "Y", "Z",
           "Xdiff", "Ydiff", "Zdiff"]
ANGULAR = {"Direction", "Angle", "Azimuth"}
R2CC = 200e4 / math.pi
FULL = 400e4


def hx(x):
    return float2hex(x)


def translate(ctx):
    # every translator runs even if an earlier one gives up, so that no generated file is left over
    # from another tree
    first = None
    for t in (tr,        # Gen/Linearization.lean: the 13 member functions, bearing_distance, reset guard
              trx,       # Gen/XNorth.lean: PointData::xNorthAngle, handedness predicates, consistent()
              tra):      # Gen/LinAssembly.lean: shape of the assembly loops, `=` / `+=` of the dense copy
        try:
            t.translate(ctx.repo, ctx.lean)
        except TieBroken as e:
            first = first or e
    if first:
        raise first


# ----------------------------------------------------------------------------- geometry helpers

def bearing(a, b):
    dx, dy = b[0] - a[0], b[1] - a[1]
    s = math.atan2(dy, dx)
    return s if s >= 0 else s + 2 * math.pi


def xnorth(cs, rh):
    """SPECIFICATION (not the code's table): north seen from the +x axis in the angle sense in force =
    minus the bearing of the +x axis from north; axes code = compass directions of +x, +y"""
    name = ["en", "nw", "se", "ws", "ne", "sw", "es", "wn"][cs]
    az = {"n": 0, "e": 100, "s": 200, "w": 300}[name[0]]        # clockwise azimuth of the +x axis
    sense = (400 - az) % 400 if rh else az                       # ... counter-clockwise for right-handed angles
    return ((400 - sense) % 400) * math.pi / 200.0


def true_value(cls, P, frm, to, fs, ori, xn):
    """the observation function of class cls at geometry P (radians / metres), None if singular"""
    a, b = P[frm], P[to]
    dx, dy, dz = b[0] - a[0], b[1] - a[1], b[2] - a[2]
    d = math.hypot(dx, dy)
    sd = math.sqrt(dx * dx + dy * dy + dz * dz)
    if cls == "Direction":
        return (bearing(a, b) - ori) % (2 * math.pi)
    if cls == "Azimuth":
        return (bearing(a, b) - xn) % (2 * math.pi)
    if cls == "Angle":
        return (bearing(a, P[fs]) - bearing(a, b)) % (2 * math.pi)
    if cls == "Distance":
        return d
    if cls == "S_Distance":
        return sd
    if cls == "Z_Angle":
        return math.acos(dz / sd) if sd > 0 else None
    if cls in ("H_Diff", "Zdiff"):
        return dz
    if cls == "Xdiff":
        return dx
    if cls == "Ydiff":
        return dy
    return {"X": a[0], "Y": a[1], "Z": a[2]}[cls]


# ----------------------------------------------------------------------------- generator

FAMILIES = ["generic", "grid", "short", "cutoff", "axis", "coincident", "vertical", "steep"]


def gen_points(rng, n, fam):
    base = [0.0, 0.0, 0.0]
    if fam == "grid" or rng.random() < 0.15:
        base = [rng.choice([1, -1]) * rng.uniform(4e5, 1.3e6), rng.choice([1, -1]) * rng.uniform(4e5, 6e6), rng.uniform(0, 3000)]
    p0 = [base[0] + rng.uniform(-500, 500), base[1] + rng.uniform(-500, 500), base[2] + rng.uniform(-50, 50)]
    pts = [p0]
    for i in range(1, n):
        f = fam if i == 1 or rng.random() < 0.5 else "generic"
        q = pts[rng.randrange(len(pts))] if f != "generic" else p0
        if f in ("generic", "grid"):
            r = 10 ** rng.uniform(0, 3.5)
            t = rng.uniform(0, 2 * math.pi)
            p = [q[0] + r * math.cos(t), q[1] + r * math.sin(t), q[2] + rng.uniform(-0.3, 0.3) * r]
        elif f == "short":
            r = 10 ** rng.uniform(-5.5, -1)
            t = rng.uniform(0, 2 * math.pi)
            p = [q[0] + r * math.cos(t), q[1] + r * math.sin(t), q[2] + rng.uniform(-1, 1) * r]
        elif f == "cutoff":      # around `d < 1e-6`
            r = 1e-6 * rng.choice([0.5, 0.999, 1.0, 1.001, 2.0])
            t = rng.choice([0, 0.5, 1, 1.5]) * math.pi + rng.choice([0, 0.3])
            p = [q[0] + r * math.cos(t), q[1] + r * math.sin(t), q[2] + rng.choice([0, 1e-6, 0.5])]
        elif f == "axis":        # bearings k*pi/2 +- tiny
            r = 10 ** rng.uniform(0, 3)
            k = rng.randrange(4)
            e = rng.choice([0.0, 1e-9, -1e-9, 1e-13, -1e-13])
            t = k * math.pi / 2 + e
            c, s = [(1, 0), (0, 1), (-1, 0), (0, -1)][k]
            if e == 0.0:
                p = [q[0] + r * c, q[1] + r * s, q[2] + rng.uniform(-0.2, 0.2) * r]
            else:
                p = [q[0] + r * math.cos(t), q[1] + r * math.sin(t), q[2] + rng.uniform(-0.2, 0.2) * r]
        elif f == "coincident":
            p = [q[0], q[1], q[2] + rng.choice([0.0, 0.0, 1.5])]
        elif f == "vertical":
            p = [q[0], q[1], q[2] + rng.choice([-1, 1]) * 10 ** rng.uniform(-1, 2)]
        else:                    # steep
            r = 10 ** rng.uniform(-3, 0)
            t = rng.uniform(0, 2 * math.pi)
            p = [q[0] + r * math.cos(t), q[1] + r * math.sin(t), q[2] + rng.choice([-1, 1]) * 10 ** rng.uniform(0, 2)]
        pts.append(p)
    return pts


def gen_case(rng, fam=None):
    """returns (lines, meta); meta = dict(cs, rh, pts{name:(x,y,z,sxy,sz)}, sps{k:(station,ori)}, obs[...])"""
    fam = fam or rng.choice(FAMILIES)
    n = rng.randint(2, 5)
    names = [f"P{i}" for i in range(n)]
    co = gen_points(rng, n, fam)
    dim3 = rng.random() < 0.6
    mix = rng.choice(["allfree", "mixed", "mixed", "mixed", "fixed"])
    pts = {}
    for nm, c in zip(names, co):
        if mix == "allfree":
            sxy, sz = "a", "a"
        elif mix == "fixed":
            sxy, sz = rng.choice("fa"), rng.choice("fa")
        else:
            sxy, sz = rng.choice("ufacaac"), rng.choice("ufacaac")
        if not dim3 and rng.random() < 0.7:
            sz = rng.choice("uf")
        pts[nm] = (c[0], c[1], c[2], sxy, sz)
    cs, rh = rng.randrange(8), rng.randrange(2)
    xn = xnorth(cs, rh)
    sps = {}
    for k in range(1, rng.randint(1, 2) + 1):
        ori = rng.choice([rng.uniform(0, 2 * math.pi), 0.0, rng.uniform(-7, 14), 2 * math.pi, 1e-17])
        sps[k] = (rng.choice(names), ori)
    lines = [f"cs {cs} {rh}", "xnorth"]
    for nm, p in pts.items():
        lines.append(f"pt {nm} {hx(p[0])} {hx(p[1])} {hx(p[2])} {p[3]} {p[4]}")
    for k, (st, ori) in sps.items():
        lines.append(f"sp {k} {st} {hx(ori)}")
    obs = []
    P = {nm: p[:3] for nm, p in pts.items()}
    for _ in range(rng.randint(3, 9)):
        cls = rng.choice(CLASSES)
        k = "-"
        if cls == "Direction":
            k = rng.choice(list(sps))
            frm = sps[k][0] if rng.random() < 0.9 else rng.choice(names)
        else:
            frm = rng.choice(names)
        others = [x for x in names if x != frm]
        to = rng.choice(others) if rng.random() < 0.97 else frm
        fs = "-"
        if cls == "Angle":
            fs = rng.choice(others) if rng.random() < 0.97 else frm
        ori = sps[k][1] if k != "-" else 0.0
        tv = true_value(cls, P, frm, to, fs if fs != "-" else to, ori, xn)
        r = rng.random()
        if tv is None or r < 0.08:
            val = rng.uniform(-1, 8) if cls in ANGULAR or cls == "Z_Angle" else rng.uniform(-5, 500)
        elif cls in ANGULAR:
            if r < 0.30:       # misclosure next to +-200 gon
                val = tv + rng.choice([-1, 1]) * math.pi + rng.choice([0, 0, 1e-15, -1e-15, 1e-9, -1e-9, 1e-4, -1e-4])
            elif r < 0.36:
                val = tv + rng.choice([-2, 2, 4]) * math.pi + rng.uniform(-1e-5, 1e-5)
            else:
                val = tv + rng.gauss(0, 1e-5)
        elif cls == "Z_Angle":
            val = tv + rng.gauss(0, 1e-5)
            if r < 0.2:
                val = 2 * math.pi - tv + rng.gauss(0, 1e-5)    # second-face reading (> pi)
            elif r < 0.25:
                val = math.pi + rng.choice([0, 1e-16, -1e-16])
        else:
            val = tv + rng.gauss(0, 1e-3)
            if r < 0.12:
                val = rng.choice([0.0, -1.0, tv])
        lines.append(f"obs {cls} {k} {frm} {to} {fs} {hx(val)}")
        obs.append({"cls": cls, "k": k, "frm": frm, "to": to, "fs": fs, "val": val, "line": len(lines) - 1})
    for nm in names:
        lines.append(f"idx {nm}")
    for k in sps:
        lines.append(f"idxo {k}")
    return lines, {"fam": fam, "cs": cs, "rh": rh, "pts": pts, "sps": sps, "obs": obs, "names": names, "mix": mix}


def corner_cases():
    """deterministic cases always run first (former F12 boundary inputs, aliased points)"""
    z = hx(0.0)
    cases = []
    # F12: misclosure exactly -200 gon / +200 gon at double
    cases.append(["cs 4 0", f"pt A {z} {z} {z} a a", f"pt B {hx(-100.0)} {z} {z} a a", f"sp 1 A {z}",
                  f"obs Direction 1 A B - {z}", f"obs Azimuth - A B - {z}", "idx A", "idx B", "idxo 1"])
    cases.append(["cs 4 0", f"pt A {z} {z} {z} a a", f"pt B {hx(100.0)} {z} {z} a a", f"sp 1 A {z}",
                  f"obs Direction 1 A B - {hx(math.pi)}", f"obs Azimuth - A B - {hx(math.pi)}", "idx A", "idx B"])
    # bs == fs, from == to
    cases.append(["cs 0 1", f"pt A {z} {z} {z} a a", f"pt B {hx(3.0)} {hx(4.0)} {hx(1.0)} a a", f"pt C {hx(-3.0)} {hx(4.0)} {hx(2.0)} c f",
                  f"obs Angle - A B B {hx(0.5)}", f"obs Angle - A B A {hx(0.5)}", f"obs Distance - A A - {hx(1.0)}",
                  f"obs S_Distance - A A - {hx(1.0)}", f"obs Z_Angle - A A - {hx(1.0)}", f"obs Angle - A B C {hx(6.0)}",
                  "idx A", "idx B", "idx C"])
    return cases


# ----------------------------------------------------------------------------- oracle (implementation only)

def parse_lin(line):
    t = line.split()
    if not t or t[0] != "lin":
        return None
    n = int(t[3])
    rows = [(int(t[4 + 2 * i]), hex2float(t[5 + 2 * i])) for i in range(n)]
    return {"value": hex2float(t[1]), "rhs": hex2float(t[2]), "rows": rows, "maxn": int(t[4 + 2 * n])}


def single_obs_lines(meta, ob, pts=None, ori_shift=0.0):
    """a fresh mini network holding exactly one observation"""
    pts = pts or meta["pts"]
    lines = [f"cs {meta['cs']} {meta['rh']}"]
    for nm in meta["names"]:
        p = pts[nm]
        lines.append(f"pt {nm} {hx(p[0])} {hx(p[1])} {hx(p[2])} {p[3]} {p[4]}")
    if ob["k"] != "-":
        st, ori = meta["sps"][ob["k"]]
        lines.append(f"sp {ob['k']} {st} {hx(ori + ori_shift)}")
    lines.append(f"obs {ob['cls']} {ob['k']} {ob['frm']} {ob['to']} {ob['fs']} {hx(ob['val'])}")
    for nm in meta["names"]:
        lines.append(f"idx {nm}")
    if ob["k"] != "-":
        lines.append(f"idxo {ob['k']}")
    return lines


def fd_plan(meta, ob):
    """cases for central differences of the implementation's own rhs; returns (cases, descr) or None"""
    P = meta["pts"]
    a, b = P[ob["frm"]], P[ob["to"]]
    c = P[ob["fs"]] if ob["fs"] != "-" else None
    roles = [ob["frm"], ob["to"]] + ([ob["fs"]] if c else [])
    if len(set(roles)) != len(roles):
        return None                                     # aliased points: see report (bs == fs)
    dh = math.hypot(b[0] - a[0], b[1] - a[1])
    sd = math.sqrt(dh * dh + (b[2] - a[2]) ** 2)
    cls = ob["cls"]
    scale = None
    if cls in ("Direction", "Azimuth", "Distance"):
        scale = dh
    elif cls == "Angle":
        scale = min(dh, math.hypot(c[0] - a[0], c[1] - a[1]))
    elif cls == "S_Distance":
        scale = sd
    elif cls == "Z_Angle":
        scale = min(dh, sd)
    else:
        scale = 1.0
    mag = max(abs(v) for nm in roles for v in P[nm][:3])
    if scale < 1e-2 or mag > 1e7:
        return None
    h = 1e-4 * min(scale, 100.0)
    cases, descr = [single_obs_lines(meta, ob)], []
    for nm in roles:
        for ci, cn in enumerate("xyz"):
            got = []
            for sgn in (+1, -1):
                q = dict(P)
                v = list(P[nm])
                v[ci] += sgn * h
                got.append(v[ci])
                q[nm] = tuple(v)
                cases.append(single_obs_lines(meta, ob, q))
            # the step actually taken (coordinates of national-grid size quantise a 1e-6 m bump)
            descr.append((nm, cn, (got[0] - got[1]) / 2 * 1000.0))            # step in mm
    if ob["k"] != "-":
        ho = 1e-6
        for sgn in (+1, -1):
            cases.append(single_obs_lines(meta, ob, None, sgn * ho))
        descr.append((("sp", ob["k"]), "ori", ho * R2CC))  # step in cc
    return cases, descr, h


def fd_check(meta, ob, outs, descr):
    """outs: harness outputs of the cases of fd_plan.  returns None or a failure description"""
    base = outs[0]
    li = [parse_lin(l) for l in base if l.startswith("lin")]
    if not li:
        return None            # constructor/linearisation threw: nothing to differentiate
    L = li[0]
    if not all(math.isfinite(c) for _, c in L["rows"]) or not math.isfinite(L["rhs"]):
        return None
    names = meta["names"]
    idxlines = [l for l in base if l.startswith("int")]
    unk = {}
    for nm, l in zip(names, idxlines):
        ix, iy, iz = map(int, l.split()[1:4])
        unk[(nm, "x")], unk[(nm, "y")], unk[(nm, "z")] = ix, iy, iz
    if ob["k"] != "-":
        unk[(("sp", ob["k"]), "ori")] = int(idxlines[len(names)].split()[1])
    coeff = {}
    for i, c in L["rows"]:
        coeff[i] = coeff.get(i, 0.0) + c
    cmax = max([abs(c) for c in coeff.values()] + [1e-300])
    angular = ob["cls"] in ANGULAR or ob["cls"] == "Z_Angle"
    # rounding noise of the implementation's rhs (not a property of the coefficients): eps * |rhs|, plus for
    # zenith angles the conditioning of acos(dz/sd) near the vertical, eps * sd/d radians
    P = meta["pts"]
    pa, pb = P[ob["frm"]], P[ob["to"]]
    dh = math.hypot(pb[0] - pa[0], pb[1] - pa[1])
    sd = math.sqrt(dh * dh + (pb[2] - pa[2]) ** 2)
    rnoise = 4.5e-16 * (abs(L["rhs"]) + (R2CC * (1 + sd / dh) if ob["cls"] == "Z_Angle" and dh > 0 else 0.0))
    for j, (who, cn, step) in enumerate(descr):
        lp = [parse_lin(l) for l in outs[1 + 2 * j] if l.startswith("lin")]
        lm = [parse_lin(l) for l in outs[2 + 2 * j] if l.startswith("lin")]
        if not lp or not lm:
            return None
        dr = lp[0]["rhs"] - lm[0]["rhs"]
        if angular:
            dr = dr - FULL * round(dr / FULL)
        fd = -dr / (2 * step)            # d(computed)/d(unknown) in (mm|cc)/(mm|cc)
        i = unk.get((who, cn), 0)
        status = meta["pts"][who][3 if cn in "xy" else 4] if isinstance(who, str) else "a"
        free = status in "ac"
        have = coeff.get(i, None) if i else None
        if have is None:
            # no coefficient: the unknown must be not free, or the function must not depend on it
            if free and abs(fd) > 1e-4 * cmax + 1e-7 + 8 * rnoise / step:
                return {"what": "missing coefficient", "unknown": [str(who), cn], "finite_difference": fd, "coeffs": L["rows"]}
            continue
        if not free:
            return {"what": "coefficient for a non-free coordinate", "unknown": [str(who), cn], "coeff": have}
        if abs(fd - have) > 2e-4 * cmax + 1e-7 + 8 * rnoise / step:
            return {"what": "coefficient differs from the finite difference of the implementation's own rhs",
                    "unknown": [str(who), cn], "coeff": have, "finite_difference": fd, "step": step}
    return None


def rhs_check(meta, ob, L, xn):
    """rhs = unit * (observed - computed), angular ones reduced into (-200e4, 200e4] (what the loops give)"""
    P = {nm: p[:3] for nm, p in meta["pts"].items()}
    cls = ob["cls"]
    ori = meta["sps"][ob["k"]][1] if ob["k"] != "-" else 0.0
    tv = true_value(cls, P, ob["frm"], ob["to"], ob["fs"] if ob["fs"] != "-" else ob["to"], ori, xn)
    if tv is None or not math.isfinite(L["rhs"]):
        return None
    a, b = P[ob["frm"]], P[ob["to"]]
    if cls in ANGULAR or cls in ("Distance",):
        if math.hypot(b[0] - a[0], b[1] - a[1]) < 1e-6:
            return None          # the cut-off zeroes bearing and distance (excluded in the theorems too)
        if cls == "Angle":
            c = P[ob["fs"]]
            if math.hypot(c[0] - a[0], c[1] - a[1]) < 1e-6:
                return None
    val = L["value"]
    mag = max(abs(v) for nm in (ob["frm"], ob["to"]) for v in P[nm])
    if cls in ANGULAR:
        if not (-200e4 < L["rhs"] <= 200e4):
            return {"what": "angular rhs outside the half-open range (-200e4, 200e4]", "rhs": L["rhs"]}
        want = (val - tv) * R2CC
        diff = L["rhs"] - want
        diff -= FULL * round(diff / FULL)
        dmin = math.hypot(b[0] - a[0], b[1] - a[1])
        if cls == "Angle":
            c = P[ob["fs"]]
            dmin = min(dmin, math.hypot(c[0] - a[0], c[1] - a[1]))
        tol = 1e-6 + 1e-9 * R2CC * (1 + mag * 1e-7 / max(dmin, 1e-6))
        if abs(diff) > tol:
            return {"what": "angular rhs is not (observed - computed) mod 400e4 cc", "rhs": L["rhs"], "expected_mod": want}
        return None
    if cls == "Z_Angle":
        comp = 2 * math.pi - tv if val > math.pi else tv
        want = (val - comp) * R2CC
        sd = math.sqrt(sum((b[i] - a[i]) ** 2 for i in range(3)))
        dh = math.hypot(b[0] - a[0], b[1] - a[1])
        if dh == 0 or sd == 0:
            return None
        tol = 1e-6 + 1e-9 * R2CC * (1 + mag * 1e-7 / dh) + abs(want) * 1e-9
    else:
        want = (val - tv) * 1e3
        tol = 1e-9 * (1 + abs(want)) + 1e-6 * mag * 1e-3
    if abs(L["rhs"] - want) > tol:
        return {"what": "rhs is not unit*(observed - computed)", "rhs": L["rhs"], "expected": want}
    return None


def throw_check(meta, ob, line):
    """round 9, C05_member_total_iff / C05_pass_total_iff: LocalLinearization throws EXACTLY on the singular inputs
    (S_Distance: slope distance 0 -> zeroSlopeDistance; Z_Angle: horizontal or slope distance 0 -> zeroZenithAngle),
    and nowhere else.  `line` is the implementation's answer (`lin ...` or `throw <kind>`); constructor rejections
    (`throw ctor*`, value <= 0) are C11's and are skipped.  The distances are formed in the order of the C++."""
    if not line.startswith(("lin", "throw")) or line.startswith("throw ctor"):
        return None
    P = meta["pts"]
    a, b = P[ob["frm"]][:3], P[ob["to"]][:3]
    dx, dy, dz = b[0] - a[0], b[1] - a[1], b[2] - a[2]
    cls = ob["cls"]
    want = None
    if cls == "S_Distance":
        if math.sqrt(dx * dx + dy * dy + dz * dz) == 0:
            want = "throw zeroSlopeDistance"
    elif cls == "Z_Angle":
        d2 = dx * dx + dy * dy
        if math.sqrt(d2) == 0 or math.sqrt(d2 + dz * dz) == 0:
            want = "throw zeroZenithAngle"
    got = line.strip() if line.startswith("throw") else None
    if want != got:
        return {"what": "LocalLinearization throws on a non-singular input or accepts a singular one",
                "class": cls, "expected": want or "a row (no exception)", "got": got or "a row (no exception)",
                "d": math.hypot(dx, dy), "sd": math.sqrt(dx * dx + dy * dy + dz * dz)}
    return None


# ----------------------------------------------------------------------------- correspondence

def harness(ctx):
    loc = ctx.repo / "lib" / "gnu_gama" / "local"
    srcs = [ctx.verif / "harness" / "c05_lin.cpp"] + [loc / f for f in
            ("local_linearization.cpp", "bearing.cpp", "gamadata.cpp", "observation.cpp", "pointid.cpp", "language.cpp")] + \
           [ctx.repo / "lib" / "gnu_gama" / f for f in ("utf8.cpp", "gon2deg.cpp")]
    return ctx.build_cpp("c05_lin", srcs, flags=["-fno-sanitize=vptr", "-ffunction-sections", "-fdata-sections"],
                         libs=["-Wl,--gc-sections"])


def key_of(meta, ob, L):
    P = meta["pts"]
    a, b = P[ob["frm"]], P[ob["to"]]
    quad = int(bearing(a, b) // (math.pi / 2)) if (a[0], a[1]) != (b[0], b[1]) else -1
    st = "".join(P[n][3] + P[n][4] for n in (ob["frm"], ob["to"]) + ((ob["fs"],) if ob["fs"] != "-" else ()))
    return (ob["cls"], st, quad, meta["fam"], meta["cs"] if ob["cls"] == "Azimuth" else -1, len(L["rows"]))


def run_oracle(ctx, exe, metas, corr, per_case=2, stop_first=False):
    """finite-difference oracle on the implementation; metas = [(case lines, meta)]"""
    plans, cases = [], []
    for ci, (c, meta) in enumerate(metas):
        obs = list(meta["obs"])
        ctx.rng.shuffle(obs)
        k = 0
        for ob in obs:
            if k >= per_case:
                break
            if ob["cls"] == "Z_Angle" and ob["val"] > math.pi:
                corr.count("oracle_fd_zenith_second_face")
            pl = fd_plan(meta, ob)
            if not pl:
                continue
            k += 1
            plans.append((meta, ob, len(cases), len(pl[0]), pl[1]))
            cases += pl[0]
    outs, crashes = run_cases(exe, cases)
    nfd = 0
    fails = []
    for meta, ob, start, n, descr in plans:
        if any(start <= i < start + n for i in crashes):
            continue
        bad = fd_check(meta, ob, outs[start:start + n], descr)
        nfd += len(descr)
        if bad:
            fails.append((meta, ob, bad, cases[start]))
            if stop_first:
                break
    corr.count("oracle_fd_observations", len(plans))
    corr.count("oracle_fd_derivatives", nfd)
    return fails




def correspond(ctx, corr):
    exe = harness(ctx)
    drv = ctx.driver("drv_lin")
    metas = []
    cases = []
    corpus = ctx.verif / "corpus" / "C05"
    ncorpus = 0
    corpus_names = []
    if corpus.exists():
        for f in sorted(corpus.glob("lin-*.txt")):
            cases.append([l for l in f.read_text().split("\n") if l and not l.startswith("#")])
            metas.append(None)
            corpus_names.append(f.name)
            ncorpus += 1
    for c in corner_cases():
        cases.append(c)
        metas.append(None)
    ngen = ctx.size(700, 40000)
    for i in range(ngen):
        fam = FAMILIES[i % len(FAMILIES)] if i < 4 * len(FAMILIES) else None
        c, meta = gen_case(ctx.rng, fam)
        cases.append(c)
        metas.append(meta)
    impl, crashes = run_cases(exe, cases)
    model, mcr = run_cases(drv, cases)
    maxdev = 0.0
    nobs = 0
    f12 = 0
    for i, c in enumerate(cases):
        meta = metas[i]
        if i in crashes:
            corr.case()
            corr.fail("LocalLinearization harness crashed (sanitizer)", {"stream": "lin", "ops": c},
                      "LocalLinearization", crashes[i][1])
            continue
        same = len(impl[i]) == len(model[i]) and all(lines_equal(a, b, rtol=1e-12, atol=1e-300) for a, b in zip(impl[i], model[i]))
        if not same:
            # tolerate cancellation noise on rhs only: |rhs dev| small relative to the full circle / magnitude of inputs
            same = len(impl[i]) == len(model[i]) and all(
                lines_equal(a, b, rtol=1e-9, atol=1e-6) for a, b in zip(impl[i], model[i]))
            if same:
                corr.count("cases_needing_loose_tolerance")
        if not same:
            corr.disagree("lin", c, impl[i], model[i])
        for a, b in zip(impl[i], model[i]):
            for x, y in zip(a.split(), b.split()):
                if is_hex(x) and is_hex(y):
                    u, v = hex2float(x), hex2float(y)
                    if math.isfinite(u) and math.isfinite(v) and u != v:
                        maxdev = max(maxdev, abs(u - v) / max(abs(u), abs(v)))
        # statistics + rhs oracle
        lins = [l for l in impl[i] if l.startswith(("lin", "throw"))]
        for l in impl[i]:
            if l.startswith("throw"):
                corr.count("throw_" + l.split()[1])
        if meta is None:
            corr.case(key=("corner", i), sample={"ops": c[:8], "impl": impl[i][:8]} if i == ncorpus else None)
            if i < ncorpus and corpus_names[i] == "lin-r4-cut-witness.txt":
                # clause 6 ("excluded only where the function is singular"): the witness of C05_cut_excludes_nonsingular,
                # a 0.5 um sight along y (0 < d < 1e-6): the Distance row must be the derivative (y_to: +1, x_to: 0, rhs 0)
                L = next((parse_lin(l) for l in impl[i] if parse_lin(l)), None)
                want = {1: 0.0, 2: -1.0, 3: 0.0, 4: 1.0}
                if L is None or abs(L["rhs"]) > 1e-9 or any(abs(v - want.get(k, 0.0)) > 1e-9 for k, v in L["rows"]):
                    corr.fail("inside the cut d < 1e-6 m (not singular: d = 5e-7) the Distance row is not the partial derivatives",
                              {"stream": "lin", "ops": c, "detail": {"row": None if L is None else L["rows"], "rhs": None if L is None else L["rhs"],
                                                                    "expected_row": sorted(want.items()), "expected_rhs": 0.0}},
                              "bearing_distance (cut 1e-6)", "corpus/C05/lin-r4-cut-witness.txt")
            for l in impl[i]:
                L = parse_lin(l)
                if L and abs(L["rhs"]) == 200e4:
                    f12 += 1
            continue
        xn = xnorth(meta["cs"], meta["rh"])
        obs_out = [l for l in impl[i] if l.startswith(("lin", "throw", "bad-op"))]
        for ob, l in zip(meta["obs"], obs_out):
            nobs += 1
            L = parse_lin(l)
            corr.count("obs_" + ob["cls"])
            tbad = throw_check(meta, ob, l)
            if tbad:
                corr.fail(tbad["what"], {"stream": "lin", "ops": single_obs_lines(meta, ob), "detail": tbad, "meta": meta, "ob": ob},
                          "LocalLinearization::" + ob["cls"].lower(), json.dumps(tbad))
            if L is None:
                corr.case()
                continue
            nonfinite = not all(math.isfinite(x) for _, x in L["rows"])
            if nonfinite:
                corr.count("nonfinite_coefficients(d<1e-6 cut-off)")
            corr.case(key=key_of(meta, ob, L) if L["rows"] and not nonfinite else None,
                      sample={"obs": c[ob["line"]], "impl": l} if nobs <= 3 else None)
            if abs(L["rhs"]) == 200e4:
                f12 += 1
            bad = rhs_check(meta, ob, L, xn)
            if bad:
                corr.fail(bad["what"], {"stream": "lin", "ops": single_obs_lines(meta, ob), "detail": bad, "meta": meta, "ob": ob},
                          "LocalLinearization::" + ob["cls"].lower(), json.dumps(bad))
    corr.maxstat("max_rel_dev_model_vs_impl", maxdev)
    corr.count("observations", nobs)
    corr.count("rhs_exactly_+200e4(closed end of the range)", f12)
    # finite-difference oracle on the implementation
    fails = run_oracle(ctx, exe, [(c, m) for c, m in zip(cases, metas) if m is not None], corr,
                       per_case=ctx.size(2, 3))
    for meta, ob, bad, lines in fails[:20]:
        corr.fail(bad["what"], {"stream": "lin-fd", "ops": lines, "detail": bad, "meta": meta, "ob": ob},
                  "LocalLinearization::" + ob["cls"].lower(), json.dumps(bad))
    # hypothesis h0 of C05_bearing_distance_models_agree at Float (`Scalar.ofNat 0` is the double +0.0)
    z, _ = run_cases(drv, [["zero"]])
    if [l for l in z[0] if not l.startswith("case")] != ["flag 1"]:
        corr.disagree("lin", ["zero"], ["flag 1"], z[0], "Scalar.ofNat 0 and 0 differ at Float")
    # network level: project_equations run repeatedly on one LocalNetwork
    for f in net_stream(ctx, corr, ctx.size(40, 1500))[:20]:
        corr.failures.append(f)
    if corr.stats.get("net_height_only_points", 0) < 10:
        corr.inconclusive.append("network stream: fewer than 10 free height-only points")
    if nobs and len(corr.nontrivial) < 200:
        corr.inconclusive.append(f"only {len(corr.nontrivial)} distinct non-trivial observations")
    for cls in CLASSES:
        if corr.stats.get("obs_" + cls, 0) < 20:
            corr.inconclusive.append(f"class {cls} generated fewer than 20 times")



# ----------------------------------------------------------------------------- network-level stream

AXES = ["ne", "sw", "es", "wn", "en", "nw", "se", "ws"]


def _frame(axes, angles):
    comp = {"n": (0.0, 1.0), "s": (0.0, -1.0), "e": (1.0, 0.0), "w": (-1.0, 0.0)}
    (xE, xN), (yE, yN) = comp[axes[0]], comp[axes[1]]
    return xE, xN, yE, yN, angles == "left-handed"


def _north_angle(F, dx, dy):
    xE, xN, yE, yN, cw = F
    a = math.atan2(dx * xE + dy * yE, dx * xN + dy * yN)
    if not cw:
        a = -a
    return a % (2 * math.pi)


def gen_network(rng):
    """a mixed network as .gkf text: fixed and free 2D points, 3D points, height-only benchmarks,
    direction sets (orientations), distances, angles (sometimes bs = fs), azimuths, slope
    distances, zenith angles, height differences.  Returns (text, meta)."""
    axes, angles = rng.choice(AXES), rng.choice(["left-handed", "right-handed"])
    F = _frame(axes, angles)
    pts = {}           # id -> dict(x,y,z, kind, attr)
    used = []

    def place():
        for _ in range(200):
            x, y = rng.uniform(1000, 2000), rng.uniform(5000, 6000)
            if all(math.hypot(x - u[0], y - u[1]) > 60 for u in used):
                used.append((x, y))
                return x, y
        used.append((x, y))
        return x, y

    def pid(prefix):
        return prefix + str(len(pts) + 1) if rng.random() < 0.6 else str(100 * rng.randint(1, 9) + len(pts) + 1)

    n3 = rng.choice([0, 0, 1, 2])
    nfix = rng.choice([2, 2, 3])
    for i in range(nfix):
        x, y = place()
        z = rng.uniform(200, 300)
        with3 = n3 > 0 and i == 0
        pts[pid("F")] = dict(x=x, y=y, z=z, kind="fix3" if with3 else "fix2")
    for i in range(rng.randint(1, 3)):
        x, y = place()
        pts[pid("P")] = dict(x=x, y=y, z=None, kind="free2", con=rng.random() < 0.25)
    for i in range(n3):
        x, y = place()
        pts[pid("T")] = dict(x=x, y=y, z=rng.uniform(200, 300), kind="free3", con=rng.random() < 0.2)
    nh = rng.choice([1, 2, 2, 3])
    hid = []
    h0 = pid("H")
    pts[h0] = dict(x=None, y=None, z=rng.uniform(200, 300), kind="hfix")
    hid.append(h0)
    for i in range(nh):
        k = pid("H")
        pts[k] = dict(x=None, y=None, z=rng.uniform(200, 300), kind="hfree", con=rng.random() < 0.2)
        hid.append(k)
    xy = [k for k, p in pts.items() if p["x"] is not None]
    p3 = [k for k, p in pts.items() if p["kind"] in ("fix3", "free3")]
    L = ['<?xml version="1.0" ?>', '<gama-local xmlns="http://www.gnu.org/software/gama/gama-local">',
         f'<network axes-xy="{axes}" angles="{angles}">', '<parameters sigma-act="apriori" />',
         '<points-observations direction-stdev="10" angle-stdev="10" distance-stdev="5" zenith-angle-stdev="10" azimuth-stdev="10">']
    for k, p in pts.items():
        noise = (lambda: rng.uniform(-0.3, 0.3)) if p["kind"] in ("free2", "free3", "hfree") else (lambda: 0.0)
        a = f'<point id="{k}"'
        if p["x"] is not None:
            a += f' x="{p["x"] + noise():.4f}" y="{p["y"] + noise():.4f}"'
        if p["kind"] in ("fix3", "free3", "hfix", "hfree"):
            a += f' z="{p["z"] + noise():.4f}"'
        a += {"fix2": ' fix="xy"', "fix3": ' fix="xyz"', "hfix": ' fix="z"',
              "free2": ' adj="XY"' if p.get("con") else ' adj="xy"',
              "free3": ' adj="XYZ"' if p.get("con") else ' adj="xyz"',
              "hfree": ' adj="Z"' if p.get("con") else ' adj="z"'}[p["kind"]]
        L.append(a + " />")

    def az(a, b):
        return _north_angle(F, pts[b]["x"] - pts[a]["x"], pts[b]["y"] - pts[a]["y"])

    def gon(r):
        return (r % (2 * math.pi)) * 200 / math.pi

    def hd(a, b):
        return math.hypot(pts[b]["x"] - pts[a]["x"], pts[b]["y"] - pts[a]["y"])

    nobs = 0
    stations = rng.sample(xy, min(len(xy), rng.randint(2, 4)))
    for st in stations:
        others = [k for k in xy if k != st]
        L.append(f'<obs from="{st}">')
        ori = rng.uniform(0, 2 * math.pi)
        for t in rng.sample(others, min(len(others), rng.randint(2, 4))):
            L.append(f'<direction to="{t}" val="{gon(az(st, t) - ori + rng.gauss(0, 2e-5)):.6f}" />')
            nobs += 1
        for t in others:
            if rng.random() < 0.7:
                L.append(f'<distance to="{t}" val="{hd(st, t) + rng.gauss(0, 0.003):.4f}" />')
                nobs += 1
        if len(others) >= 2 and rng.random() < 0.6:
            b, f = rng.sample(others, 2)
            if rng.random() < 0.15:
                f = b                                   # angle with identical targets
            L.append(f'<angle bs="{b}" fs="{f}" val="{gon(az(st, f) - az(st, b) + rng.gauss(0, 2e-5)):.6f}" />')
            nobs += 1
        if rng.random() < 0.3:
            t = rng.choice(others)
            L.append(f'<azimuth to="{t}" val="{gon(az(st, t) + rng.gauss(0, 2e-5)):.6f}" />')
            nobs += 1
        if st in p3:
            for t in p3:
                if t != st:
                    dz = pts[t]["z"] - pts[st]["z"]
                    sd = math.sqrt(hd(st, t) ** 2 + dz * dz)
                    za = math.acos(dz / sd)
                    if rng.random() < 0.3:
                        za = 2 * math.pi - za              # second face
                    L.append(f'<s-distance to="{t}" val="{sd + rng.gauss(0, 0.003):.4f}" />')
                    L.append(f'<z-angle to="{t}" val="{gon(za + rng.gauss(0, 2e-5)):.6f}" />')
                    nobs += 2
        L.append("</obs>")
    # every free xy point must be tied by distances from two other points
    for k, p in pts.items():
        if p["kind"] in ("free2", "free3"):
            L.append(f'<obs from="{k}">')
            for t in rng.sample([q for q in xy if q != k], 2):
                L.append(f'<distance to="{t}" val="{hd(k, t) + rng.gauss(0, 0.003):.4f}" />')
                nobs += 1
            L.append("</obs>")
    L.append("<height-differences>")
    zs = hid + p3
    ring = hid + [hid[0]]
    for a, b in zip(ring, ring[1:]):
        L.append(f'<dh from="{a}" to="{b}" val="{pts[b]["z"] - pts[a]["z"] + rng.gauss(0, 0.001):.4f}" stdev="1.0" />')
        nobs += 1
    for t in p3:
        a = rng.choice(hid)
        L.append(f'<dh from="{a}" to="{t}" val="{pts[t]["z"] - pts[a]["z"] + rng.gauss(0, 0.001):.4f}" stdev="1.0" />')
        nobs += 1
    if rng.random() < 0.15:
        a = rng.choice(zs)
        L.append(f'<dh from="{a}" to="{a}" val="0.0003" stdev="1.0" />')      # a point levelled to itself
    L.append("</height-differences>")
    L += ["</points-observations>", "</network>", "</gama-local>"]
    free = [k for k, p in pts.items() if p["kind"] in ("free2", "free3", "hfree")]
    victim = rng.choice(free)
    what = {"free2": "xy", "hfree": "z", "free3": rng.choice(["xy", "z", "xyz"])}[pts[victim]["kind"]]
    meta = {"axes": axes, "angles": angles, "kinds": {k: p["kind"] for k, p in pts.items()},
            "drop": [victim, what], "height_only": sum(1 for p in pts.values() if p["kind"] == "hfree")}
    return "\n".join(L) + "\n", meta


def net_harness(ctx):
    for attempt in range(3):
        try:
            d = ctx.build_gama(sanitize=True, targets=("gama-local",))
            break
        except BuildError as e:
            if attempt == 2 or "No such file or directory" not in e.log:
                raise
            time.sleep(3 + 5 * attempt)
    objs = sorted(str(p) for p in (d / "CMakeFiles" / "libgama.dir").rglob("*.o"))
    if not objs:
        raise BuildError("c05_net", "no libgama objects under " + str(d))
    return ctx.build_cpp("c05_net", [ctx.verif / "harness" / "c05_net.cpp"], libs=objs + ["-lexpat"])


def crash_head(exe, ops):
    """first lines of the sanitizer report for one crashing case"""
    try:
        rc, out, err = run_proc(exe, "case 0\n" + "".join(o + "\n" for o in ops), timeout=120)
    except Exception as e:                      # noqa: BLE001
        return f"crash (re-run failed: {e})"
    keep = [l.strip() for l in err.splitlines() if "ERROR:" in l or "runtime error" in l or re.match(r"\s*#\d+ ", l)]
    return "\n".join(keep[:9]) or err[:800]


def split_passes(out):
    """harness output of one case -> list of passes {P: [...], rows: [...], unk: {col: label}, n: (cols, rows)}"""
    passes, cur = [], None
    for l in out:
        if l.startswith("P cs"):
            cur = {"P": [], "rows": [], "dense": [], "unk": {}, "n": None}
            passes.append(cur)
        if cur is None:
            continue
        if l.startswith("P "):
            cur["P"].append(l[2:])
        elif l.startswith("R row"):
            t = l.split()
            n = int(t[3])
            cur["rows"].append((hex2float(t[2]), [(int(t[4 + 2 * i]), hex2float(t[5 + 2 * i])) for i in range(n)]))
        elif l.startswith("R dense"):
            t = l.split()
            n = int(t[3])
            cur["dense"].append((hex2float(t[2]), [(int(t[4 + 2 * i]), None if t[5 + 2 * i] == "out-of-range" else hex2float(t[5 + 2 * i]))
                                                     for i in range(n)]))
        elif l.startswith("R unk"):
            t = l.split()
            cur["unk"][int(t[2])] = tuple(t[3:])
        elif l.startswith("R n"):
            cur["n"] = tuple(map(int, l.split()[2:4]))
            cur = None
    return passes


def model_lines(passes):
    """the same passes as a script for drv_lin: state lines, `reset`, the observations in row order"""
    lines, marks = [], []
    for ps in passes:
        head = [l for l in ps["P"] if not l.startswith("obs")]
        obs = [l for l in ps["P"] if l.startswith("obs")]
        lines += head + ["reset"]
        for o in obs:
            lines += [o, "asm"]          # `asm`: the row as assembled (sum per column, dense entry per column)
        ids = [l.split()[1] for l in head if l.startswith("pt ")]
        sps = [l.split()[1] for l in head if l.startswith("sp ")]
        lines += [f"idx {i}" for i in ids] + [f"idxo {k}" for k in sps] + ["maxn"]
        marks.append((len(head) + 1, 2 * len(obs), ids, sps))
    return lines, marks


def compare_pass(ps, mout, mark):
    """implementation pass vs model output segment; returns None or a description"""
    nhead, nobs, ids, sps = mark
    seg = mout[nhead:]
    rows = seg[:nobs:2]
    asms = seg[1:nobs:2]
    if len(rows) != len(ps["rows"]) or len(asms) != len(ps["dense"]):
        return "row count"
    for r, ((w, dent), al) in enumerate(zip(ps["dense"], asms)):
        # the assembled row: model (`rowSum`, `denseRow` with the operator read from network.cpp) vs the dense
        # matrix A of the implementation (whitened: times w = m0/stdev for an uncorrelated cluster)
        t = al.split()
        if not t or t[0] != "asm":
            return "model: " + al
        k = int(t[1])
        mod = [(int(t[2 + 3 * i]), hex2float(t[3 + 3 * i]), hex2float(t[4 + 3 * i])) for i in range(k)]
        if [c for c, _, _ in mod] != [c for c, _ in dent]:
            return f"assembled columns differ in row {r + 1}: impl {[c for c, _ in dent]} model {[c for c, _, _ in mod]}"
        if math.isfinite(w):
            scale = max([abs(d) for _, _, d in mod] + [abs(x) for _, x, _ in mod] + [1e-300]) * abs(w)
            for (c, v), (_, sm, dn) in zip(dent, mod):
                if v is None:
                    return f"dense entry outside the matrix: row {r + 1} column {c}"
                if math.isfinite(dn) and math.isfinite(v) and abs(v - dn * w) > 1e-11 * scale:
                    return f"dense entry differs in row {r + 1} column {c}: impl {v!r} model {dn * w!r} (= {dn!r} * w)"
    for (rhs, ent), ml in zip(ps["rows"], rows):
        L = parse_lin(ml)
        if L is None:
            return "model: " + ml
        if len(L["rows"]) != len(ent) or [c for c, _ in L["rows"]] != [c for c, _ in ent]:
            return f"columns differ: impl {[c for c, _ in ent]} model {[c for c, _ in L['rows']]}"
        for (c, v), (_, w) in zip(ent, L["rows"]):
            if not (v == w or abs(v - w) <= 1e-12 * max(abs(v), abs(w))):
                return f"coefficient differs in column {c}: impl {v!r} model {w!r}"
        if not (rhs == L["rhs"] or abs(rhs - L["rhs"]) <= 1e-9 * max(1.0, abs(rhs))):
            return f"rhs differs: impl {rhs!r} model {L['rhs']!r}"
    tail = seg[nobs:]
    stat = {l.split()[1]: (l.split()[5], l.split()[6]) for l in ps["P"] if l.startswith("pt ")}
    station = {l.split()[1]: l.split()[2] for l in ps["P"] if l.startswith("sp ")}
    want = {}
    for i, l in zip(ids, tail[:len(ids)]):
        ix, iy, iz = map(int, l.split()[1:4])
        if stat[i][0] != "u" and iy:
            want[ix], want[iy] = ("X", i), ("Y", i)
        if stat[i][1] != "u" and iz:
            want[iz] = ("Z", i)
    for k, l in zip(sps, tail[len(ids):len(ids) + len(sps)]):
        io = int(l.split()[1])
        if io and stat.get(station[k], ("u", "u"))[0] != "u":
            want[io] = ("R", station[k], k)
    maxn = int(tail[len(ids) + len(sps)].split()[1])
    if maxn != ps["n"][0]:
        return f"number of unknowns: impl {ps['n'][0]} model {maxn}"
    if want != ps["unk"]:
        return f"unknown table differs: impl {ps['unk']} model {want}"
    return None


def label_check(ps):
    """oracle (implementation only): every column carries a distinct label naming an adjusted
    coordinate / an orientation, and every row entry points at a labelled column"""
    cols = ps["n"][0]
    stat = {l.split()[1]: (l.split()[5], l.split()[6]) for l in ps["P"] if l.startswith("pt ")}
    seen = {}
    for j in range(1, cols + 1):
        lab = ps["unk"].get(j)
        if not lab or lab[0] == "?":
            return {"what": "design-matrix column without an unknown", "column": j, "table": {str(k): v for k, v in ps["unk"].items()}}
        if lab in seen:
            return {"what": "two columns carry the same unknown", "columns": [seen[lab], j], "label": lab}
        seen[lab] = j
        if lab[0] in "XY" and stat.get(lab[1], ("u", "u"))[0] not in "ac":
            return {"what": "column labelled with a coordinate that is not adjusted", "column": j, "label": lab}
        if lab[0] == "Z" and stat.get(lab[1], ("u", "u"))[1] not in "ac":
            return {"what": "column labelled with a coordinate that is not adjusted", "column": j, "label": lab}
    for r, (rhs, ent) in enumerate(ps["rows"]):
        for c, v in ent:
            if not 1 <= c <= cols:
                return {"what": "row entry outside the design matrix", "row": r + 1, "column": c, "columns": cols}
    return None


def dense_check(ps):
    """oracle (implementation only): the dense design matrix A (what gso, svd, cholesky solve with)
    holds, in every column a row refers to, the SUM of the coefficients the linearisation pushed for
    that column (times the whitening factor of the row) — i.e. what the consumers of the sparse matrix
    (envelope) see.  A row names an unknown twice when two roles coincide (dh from a point to itself,
    angle with identical targets)."""
    obs = [l for l in ps["P"] if l.startswith("obs")]
    for r, ((rhs, ent), (w, dent)) in enumerate(zip(ps["rows"], ps["dense"])):
        if not math.isfinite(w):
            continue
        sums = {}
        for c, v in ent:
            sums[c] = sums.get(c, 0.0) + v
        scale = max([abs(v) for _, v in ent] + [1e-300]) * abs(w)
        for c, v in dent:
            if v is None or not math.isfinite(v) or not math.isfinite(sums[c]):
                continue
            if abs(v - sums[c] * w) > 1e-11 * scale:
                return {"what": "dense design matrix entry is not the sum of the coefficients pushed for that unknown",
                        "row": r + 1, "observation": obs[r] if r < len(obs) else "?", "column": c,
                        "label": list(ps["unk"].get(c, ("?",))), "dense_entry": v, "sum_of_pushes_times_weight": sums[c] * w,
                        "pushes": [[cc, vv] for cc, vv in ent], "weight": w}
    return None


def geo_azimuth_check(ps, meta):
    """oracle (implementation only, generated networks): azimuths were generated as the GEOGRAPHIC azimuth of
    the line (clockwise from north for left-handed angles, counter-clockwise otherwise; `_north_angle`, which
    knows nothing of gama's internal frame) + 13 cc noise, approximate coordinates are within 0.3 m over sights
    > 60 m; so the right-hand side of an azimuth row must be far below 10 gon.  A wrong entry of the
    xNorthAngle table is off by a multiple of 100 gon."""
    if meta.get("corpus"):
        return None
    obs = [l for l in ps["P"] if l.startswith("obs")]
    for r, ((rhs, ent), o) in enumerate(zip(ps["rows"], obs)):
        if o.split()[1] == "Azimuth" and math.isfinite(rhs) and abs(rhs) > 10e4:
            return {"what": "azimuth right-hand side is not observed - geographic azimuth of the line",
                    "row": r + 1, "observation": o, "rhs_cc": rhs, "axes": meta.get("axes"), "angles": meta.get("angles")}
    return None


NET_PREFIX = ["pass", "touch", "pass"]       # the pass under the finite-difference test is the SECOND one


def fd_ops(ps):
    """bump every unknown of the pass up and down and read the right-hand sides"""
    ops, plan = [], []
    hc, ho = 1e-4, 1e-6
    for j in sorted(ps["unk"]):
        lab = ps["unk"][j]
        if lab[0] in "XYZ":
            c = lab[0].lower()
            ops += [f"bump {lab[1]} {c} {hx(hc)}", "rhs", f"bump {lab[1]} {c} {hx(-2 * hc)}", "rhs", f"bump {lab[1]} {c} {hx(hc)}"]
            plan.append((j, lab, 1000.0))
        elif lab[0] == "R":
            ops += [f"bumpo {lab[2]} {hx(ho)}", "rhs", f"bumpo {lab[2]} {hx(-2 * ho)}", "rhs", f"bumpo {lab[2]} {hx(ho)}"]
            plan.append((j, lab, R2CC))
    return ops, plan


def fd_net_check(ps, out_after, plan):
    """columns of the design matrix of pass `ps` against central differences of the implementation's
    own right-hand side wrt the unknown the column is labelled with"""
    ev = [l for l in out_after if l.startswith(("E ok", "R rhs", "E throw", "E bad"))]
    cls = [l.split()[1] for l in ps["P"] if l.startswith("obs")]
    m = len(ps["rows"])
    dense = [dict() for _ in range(m)]
    for r, (rhs, ent) in enumerate(ps["rows"]):
        for c, v in ent:
            dense[r][c] = dense[r].get(c, 0.0) + v
    rowmax = [max([abs(v) for v in d.values()] + [1e-300]) for d in dense]
    k = 0
    for j, lab, unit in plan:
        seg = ev[k:k + 5]
        k += 5
        if len(seg) < 5 or not (seg[0].startswith("E ok") and seg[1].startswith("R rhs") and seg[2].startswith("E ok")
                                and seg[3].startswith("R rhs")):
            return None            # a bump made the network unusable: no statement
        vp, vm = hex2float(seg[0].split()[2]), hex2float(seg[2].split()[2])
        step = (vp - vm) / 2 * unit
        rp = [hex2float(t) for t in seg[1].split()[2:]]
        rm = [hex2float(t) for t in seg[3].split()[2:]]
        if len(rp) != m or len(rm) != m or step == 0:
            return None
        for r in range(m):
            if not all(map(math.isfinite, (rp[r], rm[r], ps["rows"][r][0]))):
                continue
            dr = rp[r] - rm[r]
            if cls[r] in ANGULAR or cls[r] == "Z_Angle":
                dr -= FULL * round(dr / FULL)
            fd = -dr / (2 * step)
            have = dense[r].get(j, 0.0)
            tol = 5e-4 * rowmax[r] + 1e-6 + 8 * 4.5e-16 * (abs(ps["rows"][r][0]) + 4e6) / abs(step)
            if abs(fd - have) > tol:
                return {"what": "design-matrix column does not hold the derivative wrt the unknown it is labelled with",
                        "row": r + 1, "observation": [l for l in ps["P"] if l.startswith("obs")][r],
                        "column": j, "label": list(lab), "coefficient": have, "finite_difference": fd}
    return None


def net_stream(ctx, corr, count, stop_first=False):
    """LocalNetwork::project_equations run several times on one object, against the model
    (generated rows + index-on-first-use with the reset rule as coded) and the labelling oracle"""
    exe = net_harness(ctx)
    drv = ctx.driver("drv_lin")
    tmp = Path(tempfile.mkdtemp(prefix="c05net-", dir=str(ctx.build)))
    fails = []
    try:
        nets = []
        corpus = ctx.verif / "corpus" / "C05"
        for f in sorted(corpus.glob("net-*.gkf")) if corpus.exists() else []:
            nets.append((f.read_text(), {"drop": None, "height_only": 1, "corpus": f.name}))
        for i in range(count):
            nets.append(gen_network(ctx.rng))
        cases = []
        for i, (text, meta) in enumerate(nets):
            p = tmp / f"n{i}.gkf"
            p.write_text(text)
            ops = [f"load {p}", "pass", "touch", "pass", "refine", "pass"]
            if meta.get("drop"):
                ops += [f"drop {meta['drop'][0]} {meta['drop'][1]}", "pass"]
            cases.append(ops)
        impl, crashes = run_cases(exe, cases)
        allp = [split_passes(o) for o in impl]
        mcases, marks = [], []
        for ps in allp:
            ml, mk = model_lines(ps)
            mcases.append(ml)
            marks.append(mk)
        model, mcr = run_cases(drv, mcases)
        fdcases, fdplans = [], []
        for i, (text, meta) in enumerate(nets):
            corr.count("net_networks")
            payload = {"stream": "net", "gkf": text, "ops": [o if not o.startswith("load") else "load <gkf>" for o in cases[i]]}
            if i in crashes:
                corr.case()
                head = crash_head(exe, cases[i])
                f = Failure("LocalNetwork::project_equations run again on the same network: " + (head.splitlines() or ["crash"])[0][:160],
                            dict(payload, detail={"what": "sanitizer report", "report": head}),
                            "LocalNetwork::project_equations", head)
                fails.append(f)
                continue
            passes = allp[i]
            if len(passes) < 2:
                corr.case()
                corr.count("net_unusable")
                continue
            corr.count("net_passes", len(passes))
            corr.count("net_height_only_points", meta.get("height_only", 0))
            off = 0
            for k, ps in enumerate(passes):
                mk = marks[i][k]
                seglen = mk[0] + mk[1] + len(mk[2]) + len(mk[3]) + 1
                seg = model[i][off:off + seglen]
                off += seglen
                why = compare_pass(ps, seg, mk) if len(seg) == seglen else "model output truncated"
                nontriv = ps["n"][0] >= 3 and len({lab[0] for lab in ps["unk"].values()}) >= 2
                corr.case(key=("net", ps["n"], tuple(sorted(lab[0] for lab in ps["unk"].values())), k) if nontriv else None,
                          sample={"net_pass": k + 1, "unknowns": [" ".join(v) for _, v in sorted(ps["unk"].items())][:12]}
                          if i == 0 and k == 1 else None)
                if why:
                    corr.disagree("net", payload["ops"] + [f"pass {k + 1}"], [why], ["(see replay: gkf)"], why)
                bad = label_check(ps) or dense_check(ps) or (geo_azimuth_check(ps, meta) if k == 0 else None)
                corr.count("net_azimuth_rows", sum(1 for l in ps["P"] if l.startswith("obs Azimuth")))
                if bad:
                    fails.append(Failure(bad["what"] + f" (project_equations pass {k + 1})", dict(payload, detail=bad, pass_no=k + 1),
                                         "LocalNetwork::project_equations", json.dumps(bad)))
                corr.count("net_rows_with_repeated_column", sum(1 for _, ent in ps["rows"] if len({c for c, _ in ent}) < len(ent)))
            # finite differences on the second pass
            ops2, plan = fd_ops(passes[1])
            fdcases.append([cases[i][0]] + NET_PREFIX + ops2)
            fdplans.append((i, plan))
            if stop_first and fails:
                break
        if not (stop_first and fails):
            fdout, fdcr = run_cases(exe, fdcases)
            nfd = 0
            for (i, plan), out in zip(fdplans, fdout):
                ps = split_passes(out)
                if len(ps) < 2:
                    continue
                after = out[max(j for j, l in enumerate(out) if l.startswith("R n")) + 1:]
                bad = fd_net_check(ps[1], after, plan)
                nfd += len(plan)
                if bad:
                    fails.append(Failure(bad["what"] + " (project_equations pass 2)",
                                         {"stream": "net", "gkf": nets[i][0], "ops": ["load <gkf>"] + NET_PREFIX, "detail": bad, "pass_no": 2},
                                         "LocalNetwork::project_equations", json.dumps(bad)))
                    if stop_first:
                        break
            corr.count("net_fd_columns", nfd)
    finally:
        shutil.rmtree(tmp, ignore_errors=True)
    return fails

# ----------------------------------------------------------------------------- search

def search(ctx, broken, corr):
    """A proof / translator / correspondence broke: look for a concrete observation on which the
    implementation's coefficients or rhs differ from finite differences / observed - computed."""
    exe = harness(ctx)
    out = []
    nf = net_stream(ctx, Corr(), ctx.size(150, 1500), stop_first=True)
    if nf:
        return nf[:1]
    try:
        for rnd in range(ctx.size(6, 40)):
            metas = []
            for i in range(400):
                c, meta = gen_case(ctx.rng, rng_family(ctx, i))
                metas.append((c, meta))
            # rhs / wrap oracle
            impl, crashes = run_cases(exe, [c for c, _ in metas])
            for (c, meta), o in zip(metas, impl):
                xn = xnorth(meta["cs"], meta["rh"])
                obs_out = [l for l in o if l.startswith(("lin", "throw", "bad-op"))]
                for ob, l in zip(meta["obs"], obs_out):
                    L = parse_lin(l)
                    if L:
                        bad = rhs_check(meta, ob, L, xn)
                        if bad:
                            out.append(Failure(bad["what"], {"stream": "lin", "ops": single_obs_lines(meta, ob), "detail": bad, "meta": meta, "ob": ob},
                                               "LocalLinearization::" + ob["cls"].lower(), json.dumps(bad)))
                            return out
            fails = run_oracle(ctx, exe, metas, Corr(), per_case=9, stop_first=True)
            if fails:
                meta, ob, bad, lines = fails[0]
                out.append(Failure(bad["what"], {"stream": "lin-fd", "ops": lines, "detail": bad, "meta": meta, "ob": ob},
                                   "LocalLinearization::" + ob["cls"].lower(), json.dumps(bad)))
                return out
    finally:
        pass
    return out


def rng_family(ctx, i):
    return ["generic", "grid", "axis", "steep", "generic", "short"][i % 6]


def classify(ctx, failure):
    d = (failure.replay or {}).get("detail") or {}
    ops = " ".join((failure.replay or {}).get("ops") or [])
    if failure.site == "bearing_distance (cut 1e-6)" and failure.what.startswith("inside the cut d < 1e-6 m"):
        return "C05-cut-wider-than-singular"
    return None


def _meta_from_json(m):
    m = dict(m)
    m["sps"] = {int(k): tuple(v) for k, v in m["sps"].items()}
    m["pts"] = {k: tuple(v) for k, v in m["pts"].items()}
    return m


def replay_net(ctx, inp):
    """re-run project_equations on the recorded network and re-evaluate the labelling oracle and the
    finite differences of the second pass"""
    exe = net_harness(ctx)
    tmp = Path(tempfile.mkdtemp(prefix="c05net-", dir=str(ctx.build)))
    try:
        p = tmp / "replay.gkf"
        p.write_text(inp["gkf"])
        print(inp["gkf"])
        ops = [o.replace("<gkf>", str(p)) for o in inp["ops"] if o.split()[0] != "pass" or True]
        ops = [o for o in ops if not o.startswith("pass ")]
        out, cr = run_cases(exe, [ops])
        passes = split_passes(out[0])
        still = None
        if cr:
            print("harness crashed:")
            print(crash_head(exe, ops))
        for k, ps in enumerate(passes):
            print(f"pass {k + 1}: {ps['n']} unknowns:", " | ".join(f"{j}:{' '.join(v)}" for j, v in sorted(ps["unk"].items())))
            still = still or label_check(ps) or dense_check(ps)
        if not still and len(passes) >= 2:
            ops2, plan = fd_ops(passes[1])
            out2, cr2 = run_cases(exe, [[f"load {p}"] + NET_PREFIX + ops2])
            ps2 = split_passes(out2[0])
            if len(ps2) >= 2:
                after = out2[0][max(j for j, l in enumerate(out2[0]) if l.startswith("R n")) + 1:]
                still = fd_net_check(ps2[1], after, plan)
        print("recorded:", json.dumps(inp.get("detail")))
        print("oracle now:", json.dumps(still) if still else "passes")
        return 1 if (still or cr) else 0
    finally:
        shutil.rmtree(tmp, ignore_errors=True)


def replay(ctx, payload):
    """re-run the recorded failing observation on the current tree: prints the implementation's
    answer and re-evaluates the oracle (rhs = observed - computed; coefficients vs central
    differences of the implementation's own rhs).  rc 1 = still failing."""
    f = payload.get("failure")
    if not f:
        print(json.dumps(payload.get("no_longer_checks"), indent=1)[:4000])
        return 0
    inp = f["input"]
    ops = inp.get("ops")
    if inp.get("stream") == "net":
        return replay_net(ctx, inp)
    exe = harness(ctx)
    impl, crashes = run_cases(exe, [ops])
    print("input:")
    for l in ops:
        print("  ", l)
    print("implementation now:")
    for l in impl[0]:
        L = parse_lin(l)
        if L:
            print("   lin value=%r rhs=%r rows=%r" % (L["value"], L["rhs"], L["rows"]))
        else:
            print("  ", l)
    print("recorded:", json.dumps(inp.get("detail")))
    if crashes:
        print("harness crashed:", crashes[0][1][-1500:])
        return 1
    if not inp.get("meta"):
        return 0
    meta, ob = _meta_from_json(inp["meta"]), inp["ob"]
    still = None
    for l in impl[0]:
        if l.startswith(("lin", "throw")):
            still = throw_check(meta, ob, l)
            if still:
                break
        L = parse_lin(l)
        if L:
            still = rhs_check(meta, ob, L, xnorth(meta["cs"], meta["rh"]))
            break
    if not still:
        pl = fd_plan(meta, ob)
        if pl:
            outs, cr = run_cases(exe, pl[0])
            if not cr:
                still = fd_check(meta, ob, outs, pl[1])
    print("oracle now:", json.dumps(still) if still else "passes")
    return 1 if still else 0
